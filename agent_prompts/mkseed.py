#!/usr/bin/env python3
"""prints the prompt for a seeding sub-agent: only the property text and a scratch worktree."""
import json, sys
props = {json.loads(l)['id']: json.loads(l) for l in open('/verif/properties.jsonl')}
pid, n = sys.argv[1], sys.argv[2]
p = props[pid]
wt = "/tmp/seed-%s-%s" % (pid.lower(), n)
print(f"""You are testing a verification effort from the outside. You work ONLY inside your own scratch git worktree of the C++ library symengine at {wt}/repo (create it with: mkdir -p {wt} && git -C /repo worktree add --detach {wt}/repo HEAD). Do NOT read, list or use anything under /verif, and do not modify /repo itself.

Property that the library is supposed to satisfy:
  Title: {p['title']}
  Statement: {p['statement']}
  Quantifier: {p['quantifier']['text']}
  Relevant code: {', '.join(p['anchors']['files'])}

Your job: produce ONE realistic change to the library's source (in your worktree) that BREAKS this property while (a) the library still compiles and (b) the library's own test suite still passes. The change should look like something a developer could plausibly commit (a clean-up, an optimisation, a refactoring slip, an off-by-one), NOT an obvious sabotage, and it should need something specific to manifest — an unusual input, a multi-step sequence of operations, a boundary value, or two cooperating sites that each look fine alone — rather than failing on ordinary use at once. Variant number {n}: pick a mechanism/function different from the most obvious one if you can (other agents are producing other variants).

Steps:
1. Read the relevant code in your worktree, choose the change, apply it.
2. Build and run the test suite in your worktree (the machine is heavily loaded, be patient, always use timeouts): `cmake -G Ninja -S {wt}/repo -B {wt}/build -DCMAKE_BUILD_TYPE=Release -DCMAKE_CXX_FLAGS_RELEASE="-O1 -DNDEBUG" -DBUILD_BENCHMARKS=no -DBUILD_TESTS=yes > /dev/null && timeout 7000 nice ninja -C {wt}/build -j6 > {wt}/ninja.log 2>&1; timeout 3000 ctest --test-dir {wt}/build -j6 --timeout 900 | tail -5`. All 59 test executables must pass. If one fails, choose a different change.
3. Write a small demonstration program {wt}/demo.cpp (C++11, links {wt}/build/symengine/libsymengine.a -lgmp, include dirs {wt}/repo and {wt}/build) that exits 0 when the property holds on its input and non-zero (printing what went wrong) when it is violated. Show that it FAILS with your change and PASSES on the unchanged library (for the unchanged run, stash your change or use the already built library /repo/_build/symengine/libsymengine.a with include dirs /repo and /repo/_build).
4. Save the change as {wt}/patch.diff (`git -C {wt}/repo diff > {wt}/patch.diff`) — it must apply to /repo HEAD with `git apply`.
5. Final report: the patch (inline), what it needs in order to manifest, the demo's output with and without the change, the ctest summary line. Leave {wt}/patch.diff and {wt}/demo.cpp in place; delete {wt}/build when you are done (`rm -rf {wt}/build`) and remove the worktree registration with `git -C /repo worktree remove --force {wt}/repo` AFTER copying nothing else is needed (patch.diff and demo.cpp live outside the worktree directory).""")
