import json,sys
props={json.loads(l)['id']:json.loads(l) for l in open('/verif/properties.jsonl')}
def prompt(pid, extra):
    p=props[pid]
    return f"""You are building the verification slice for property {pid} of symengine. FIRST read /verif/AGENT_GUIDE.md completely and study the C33 template files it names; follow its rules exactly (work only in your own files, never modify /repo, no git in /verif).

Property {pid}: {p['title']}
Statement: {p['statement']}
Quantifier: {p['quantifier']['text']}
Anchored code: {', '.join(p['anchors']['files'])} (under /repo/symengine/..., paths relative to /repo)
Mechanisms: {json.dumps(p['anchors'].get('mechanism'))}

Design notes written earlier for this property: read the section "### {pid} —" in /verif/DESIGN.md (section 7), the rows for {pid} in section 11 (observations/probes: several genuine defects were already seen — your model must transcribe the code that exists, prove `_refuted` witnesses + guarded theorems for them, and report them to me), the candidate breaking change for {pid} in section 13, and appendix B for modelling conventions.

{extra}

Deliver the complete slice (model, spec, proofs, P_*.v obligations incl. P_nonvacuous.v, Extract.v, ocaml main, C++ driver with oracle, checks/{pid}.py with quick/thorough tiers and replay), make `cd /verif && tools/check {pid} --tier quick` exit 0 on the unchanged tree (KNOWN-FINDING lines allowed only for defects reproduced on the real library and listed by key in /verif/known_findings.txt), run the mutation tests described in the guide, clean up scratch files/worktrees, and give the final report described in the guide. Depth matters more than breadth of API surface: real unbounded theorems about a faithful model, a tight correspondence tie, and mutation-detection power. Budget your effort: get the pipeline (model+driver+check) working end-to-end first, then the main theorems, then widen."""
if __name__=='__main__':
    print(prompt(sys.argv[1], sys.argv[2] if len(sys.argv)>2 else ''))
