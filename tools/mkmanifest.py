#!/usr/bin/env python3
"""Regenerates MANIFEST.json from the table below (single source of truth for what is claimed)."""
import json
import os

ROOT = os.path.dirname(os.path.dirname(os.path.abspath(__file__)))

CLAIMED = {
    # id: (technique, level text, level note, design section)
    "C33": (
        "Rocq proof over an executable state-machine model of Sieve (32-bit arithmetic, observable out-of-range accesses) + correspondence of histories against the rebuilt library",
        "Unbounded theorems (every history, every limit < 2^31, every sieve size 1..2^15 KB): no array access leaves its array, every loop terminates, generate_primes returns exactly the primes up to the limit in increasing order, iterators return the prime sequence without gaps or repeats. The model is tied to the code by running generated histories on the extracted model and on the library rebuilt from /repo and comparing every output.",
        "Trusted: Coq kernel; extraction (ExtrOcamlBasic); the hand transcription of prime_sieve.cpp into coq/C33/SieveModel.v, validated on every run by correspondence only (differential testing, not proof); floor(sqrt(double)) modelled as N.sqrt; valarray slice semantics; unbounded iterators (limit 0) are outside the theorems (Bertrand's postulate only proved below 2^31).",
        "7 (C33)"),
}

NOT_YET = "model and theorems not built yet in the time used so far (see DESIGN.md section 10 build order); not claimed"

ALL = ["C%02d" % i for i in range(1, 47)]


def main():
    checks = []
    for pid in ALL:
        if pid not in CLAIMED:
            continue
        tech, text, note, ref = CLAIMED[pid]
        checks.append({
            "property_id": pid,
            "quick_cmd": "tools/check %s --tier quick" % pid,
            "thorough_cmd": "tools/check %s --tier thorough" % pid,
            "evidence_file": "/verif/evidence/%s.json" % pid,
            "replay_cmd_template": "tools/check %s --replay {path}" % pid,
            "engine": "rocq-model-correspondence",
            "level_claimed": {"category": "proof", "text": text, "design_ref": "DESIGN.md section " + ref},
            "level_note": note,
            "technique": tech,
        })
    na_reasons = json.load(open(os.path.join(ROOT, "tools", "not_applicable.json")))
    na = []
    for pid in ALL:
        if pid in CLAIMED:
            continue
        na.append({"property_id": pid, "reason": na_reasons.get(pid, NOT_YET)})
    hooks = json.load(open(os.path.join(ROOT, "tools", "hooks.json")))
    man = {
        "version": 1,
        "setup_cmd": "tools/setup.sh",
        "hooks": hooks,
        "engines": [{
            "name": "rocq-model-correspondence",
            "path": "tools/check",
            "serves_properties": [c["property_id"] for c in checks],
            "kind_free_text": "Coq 8.16.1 theorems about hand-written executable Gallina models (coq/), tied to /repo on every run by translators (Gen/*.v regenerated from source) and by correspondence runs of the extracted OCaml model against C++ drivers linked with the library rebuilt from /repo's working tree",
        }],
        "checks": checks,
        "notes": "See DESIGN.md. Every check: rebuilds the library from /repo's working tree (hooks on), compiles its proof obligations (coq/Cxx/P_*.v), runs model/implementation correspondence and the property oracle, writes evidence/<id>.json. known_findings.txt lists recorded and fixed defects.",
        "not_applicable": na,
    }
    with open(os.path.join(ROOT, "MANIFEST.json"), "w") as f:
        json.dump(man, f, indent=1)
        f.write("\n")


if __name__ == "__main__":
    main()
