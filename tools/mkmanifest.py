#!/usr/bin/env python3
"""Regenerates MANIFEST.json from the table below (single source of truth for what is claimed)."""
import json
import os

ROOT = os.path.dirname(os.path.dirname(os.path.abspath(__file__)))

CLAIMED = {
    # id: (technique, level text, level note, design section)
    "C01": (
        "Rocq proof over an exact executable model of every class's __hash__/__eq__ (64-bit wrap-around arithmetic, type codes regenerated from type_codes.inc) + bit-exact correspondence of hash values and eq matrices against the rebuilt library",
        "Unbounded theorems over the modelled expression kinds (numbers of every kind, symbols, dummies, constants, sums, products, powers, one-/two-/multi-argument functions, function symbols, relationals, booleans, sets, Piecewise, Derivative, Subs, Interval): eq implies equal hash for all well-formed trees of any size; the hash of a sum is independent of dictionary iteration order; eq is an equivalence; inserting into a hash-keyed container never creates two eq keys; type-code table sanity. The model reproduces the library's 64-bit hashes exactly on every explored expression; the property itself (eq => same hash) is also checked directly on all ordered pairs of generated pools built along different construction paths.",
        "Trusted: Coq kernel; extraction; hand transcription of the __hash__/__eq__ methods validated by exact correspondence (testing); unordered_map::find modelled as same-hash-and-eq; pointer-identity shortcut of eq() outside the model; kinds outside the model (polynomials, series, matrices, ImageSet/ConditionSet) are skipped; NaN doubles excluded by the well-formedness guard.",
        "7 (C01)"),
    "C02": (
        "Rocq proof over an exact executable model of compare/__cmp__/RCPBasicKeyLess and the ordered containers + correspondence of __cmp__ matrices against the rebuilt library",
        "Unbounded theorems: __cmp__ returns only -1/0/1 for all trees; on well-formed trees it is 0 exactly when eq, antisymmetric and transitive; RCPBasicKeyLess is a strict weak order whose incomparability is eq; an ordered container filled by successive insertion is independent of insertion order. Tied by comparing the full __cmp__ and eq matrices of generated pools (model vs library) and by checking range, cmp=0<=>eq, antisymmetry on all pairs and transitivity on all triples of the library's own results.",
        "Trusted: as C01. Known finding (listed): NaN doubles compare as greater in both directions (excluded from the theorems by the well-formedness guard, with a refutation theorem).",
        "7 (C02)"),
    "C03": (
        "Rocq proof over an executable transcription of add/mul/pow/div/neg (add.cpp, mul.cpp, pow.cpp, rational.cpp; one fuelled function for the mutual recursion; dictionaries looked up as the containers do) and a deep `canonical` predicate transcribing the classes' is_canonical + exact correspondence of every API call + the extracted canonical predicate run on every implementation result",
        "Unbounded theorems: add on the exact fragment (exact numbers, symbols, constants, opaque function atoms, sums) and mul/pow(Integer exponent)/div/neg on the power-product fragment (integer or rational powers of atoms, products) are total and return canonical, well-formed results that are again legal operands; lifted to every program of such calls (guards checked dynamically); results do not depend on fuel. Function constructors, rational powers of numbers and inexact numbers are covered by correspondence and by the structural validator only. Refutation witnesses document the non-canonical results that remain (known findings).",
        "Trusted: Coq kernel; extraction; hand transcription validated by exact correspondence of result trees and hashes; Reals axioms enter through Flocq in the number model; known findings (listed): 2*0**x, pow(0, I), complex-coefficient Mul key, sign(1+2I), ...",
        "7 (C03)"),
    "C04": (
        "Rocq proof (same arithmetic model) of commutativity/associativity/permutation invariance + exhaustive permutation-and-bracketing enumeration on the library",
        "Unbounded theorems: add is commutative and associative, the n-ary add is invariant under permutation and equals the nested binary add (lists of any length); mul is commutative and associative on the sorted power-product fragment. Outside that fragment (rational powers of numbers, products or powers as bases) associativity of mul is refuted by witnesses (known-finding classes). The check builds all permutations x all bracketings + the n-ary call of generated multisets on the library and compares results by eq and by dump.",
        "Trusted: as C03; known findings (listed): eight non-uniqueness classes of mul/add grouping (sqrt(2)*sqrt(2)*2**x, nested Add key, product/complex/nested-power bases, perfect-power bases).",
        "7 (C04)"),
    "C05": (
        "Rocq proof over an executable model of the Number double dispatch (Integer/Rational/Complex arithmetic, pow_number, pow_negint, powrat, canonicalisation) + exact correspondence of results against the rebuilt library",
        "Unbounded theorems in Q(i): add, sub, mul, div and integer powers (either sign) of integers, rationals and Gaussian rationals of any size return exactly the mathematical result; results are normalised (lowest terms, positive denominator, Integer when the denominator is 1, real when the imaginary part is 0); x/0 = zoo and 0/0 = nan at every entry point; the square-and-multiply loop equals iterated multiplication. Tied by comparing canonical result dumps on palette pairs, boundary exponents and random multi-limb values; oracles in the driver recompute the Q(i) value with raw GMP.",
        "Trusted: Coq kernel; extraction; GMP's arithmetic as external; hand transcription validated by correspondence; theorems list the four Reals axioms only because the shared model file contains Flocq float branches; known finding (listed): Rational / Complex at the Number level throws NotImplementedError (pinned by the repository's own test).",
        "7 (C05)"),
    "C06": (
        "Rocq proof over the complete 7x7 kind-pair dispatch table with unbounded values (doubles via Flocq binary64 on bit patterns) + exhaustive palette correspondence",
        "Theorems for every ordered pair of number kinds and all values (every double bit pattern): a+b = b+a and a*b = b*a through Number methods, NaN absorbs every operation, the infinity rules (oo + -oo, 0*oo, sign rule, oo/oo), float-never-exact (guarded, with the refuted class RealDouble * Integer 0), Basic-level mul commutativity, Basic-level add commutativity guarded (refuted: zero shortcut with a float operand). Tied exhaustively over all ordered pairs of a 43-value palette x {add, sub, mul, div, pow} through Number methods and Basic add/mul.",
        "Trusted: Coq kernel; Flocq's binary64 as the meaning of IEEE arithmetic (Reals axioms reported); std::pow / libgcc complex division not modelled (skipped in correspondence, oracles still run); known findings listed by key.",
        "7 (C06)"),
    "C07": (
        "Rocq proof (same arithmetic model) of value preservation in Q(i) under every valuation + independent exact/numeric evaluator as oracle",
        "Unbounded theorems: add, mul, neg, pow with an Integer exponent and div preserve the value in Q(i) under every valuation of symbols and constants (definedness guards for zero denominators); expressions the library considers eq have equal values. Radical extraction (rpowrat), nested-power folding with non-integer exponents and complex principal-branch semantics are NOT proved: an independent evaluator (exact in Q(i), otherwise cmath away from cuts) compares recipe and result at real and Gaussian-rational points (testing, labelled).",
        "Trusted: as C03.",
        "7 (C07)"),
    "C08": (
        "Rocq proof over the reals (Rtrigo/Coquelicot) about an executable model of the trigonometric argument-reduction logic (get_pi_shift, trig_simplify, handle_minus, table indexing) with tables REGENERATED from functions.cpp/constants.cpp, plus axiom-free theorems for the exact-number rules + exact correspondence",
        "Unbounded theorems: for every rational multiple of pi (any shift size) and all six trigonometric constructors, the rewritten result has the value of the function at the argument (table exit = f(k*pi/12), otherwise sign*(f or cofunction)(reduced argument)), recursing through trig_simplify at any depth; the 24 sin_table entries and the 14 inverse_tct entries are correct, 8 of 12 inverse_cst entries are correct (2 refuted = known findings); floor/ceiling/truncate/sign/abs on rationals and Q(i), max/min folding, kronecker_delta/levi_civita, gamma at integers and half-integers, primepi below 2^32. All other special-value rules (zeta, polygamma, beta, erf, lambertw, hyperbolics) and complex points are covered by a numeric oracle only (testing, labelled).",
        "Trusted: Coq kernel; Reals axioms for the trigonometric theorems; the table translator; extraction; known findings (listed): inverse_cst C4/C5 entries (pinned by the repository's tests), acot range convention, atan2 of symbolic arguments, floor of exact Complex, polygamma at non-positive non-integers.",
        "7 (C08)"),
    "C09": (
        "Rocq proof over an executable transcription of ExpandVisitor (incl. multinomial_coefficients_mpz with its unsigned loop variables) written against the arithmetic model of C03/C07 + bit-exact correspondence of result trees and hashes",
        "Theorems: under the computed boolean guard (sums, products of every mul_expand_two shape and squares with exact coefficients over symbols, constants, function atoms and positive integer exponents; any depth; deep and shallow) expand is total, returns a well-formed tree and preserves the value in Q(i) under every valuation; equal expansions imply equal values; fuel monotonicity for all inputs; the multinomial coefficient table equals n!/prod k_i! for 2<=m<=6, n<=8 (complete kernel sweep - partial, the general loop invariant is not proved); idempotence refuted for negative powers of sums (known finding). Powers n>=3 of sums, negative powers, expand_complete and the converse of expand_decides are covered by correspondence, by the extracted `expanded` predicate run on every result, and by exact evaluation at rational points only.",
        "Trusted: as C03; known finding (listed): expand not idempotent when a negative power of a sum is kept unexpanded.",
        "7 (C09)"),
    "C10": (
        "Rocq proof (Coquelicot is_derive) over a rule table REGENERATED from derivative.cpp on every run (translators/tr_diffrules.py) and a model of DiffVisitor that returns construction terms + correspondence: the driver evaluates the model's term with the library's own constructors and compares with diff(e, x)",
        "Theorems: each of the 25 generated one-argument rules is the derivative of its real function on the stated domain; diff_sound: for every tree of the real fragment (rationals, pi, E, symbols, Add, Mul, Pow with any exponent, the 25 classes, atan2) and every point where it is defined, the value is differentiable in x and the returned term denotes the derivative; diff is exactly 0 when x does not occur; cached = uncached (guard: eq sub-trees identical); the xi dummy of the chain rule is fresh; shape of the chain rule for undefined functions; diff_upoly on integer/rational polynomials. Complex points, erf/gamma/zeta/polygamma/lambertw/beta rules and Derivative/Subs semantics: translator tie + numeric oracle (dual numbers over Q, central differences) only.",
        "Trusted: Coq kernel; the translator and fingerprints of hand-transcribed bodies; Reals axioms + classic (Coquelicot); known findings (listed): ACosh rule branch (fix needs a test edit), derivatives of singular constants, Subs recursion after a nan derivative.",
        "7 (C10)"),
    "C11": (
        "Rocq proof over an executable transcription of XReplaceVisitor / SubsVisitor / MSubsVisitor / SSubsVisitor (the `visited` cache as explicit state) against the arithmetic model + bit-exact correspondence with cache on and off",
        "Theorems: under the computed guard, simultaneous substitution (expression-valued replacements allowed) is total, well-formed and value-preserving in Q(i): denote rho (subs e sd) = denote (rho after sd) e; cached and uncached runs agree (values and exceptions) for every visitor kind under `keys_consistent` (proof by parametricity in the threaded state + memoisation invariant); msubs = ssubs = xreplace, subs = xreplace unless the map is a single Pow key. Refuted (known findings): substituting an absent symbol or the identity map can change an un-flattened nested Add key. Function/relational/boolean constructors with changed arguments are outside the model (skipped, counted).",
        "Trusted: as C03; known findings (listed): absent-symbol and identity substitution change a nested Add key.",
        "7 (C11)"),
    "C12": (
        "Rocq proof over rule tables REGENERATED from eval_double.cpp on every run (translators/tr_evalrules.py): per-class formulas over abstract libm symbols, interpreted over the reals (Coquelicot/Rtrigo) + bit-exact correspondence of eval_double / single dispatch / lambda against a Flocq binary64 model",
        "Theorems: for 35 node classes the formula that the visitor evaluator AND the single-dispatch table compute, interpreted with ideal real functions, is the mathematical function of the class (inverse functions by principal range + inverted function; E**x = exp x); the single-dispatch table equals the visitor table on its 44 classes (computed) and the two evaluators return the same result on every tree over those classes in any float algebra (axiom-free). What the theorems do not reach: the rounding error of libm and of the composition - covered by a long-double reference oracle with conditioning estimate (testing, labelled).",
        "Trusted: Coq kernel; the translator (a changed formula changes the generated table and breaks the corresponding obligation); Reals axioms (reported); Flocq binary64; glibc libm supplied to the extracted model through OCaml's Stdlib (tgamma/lgamma not evaluated by the model).",
        "7 (C12)"),
    "C13": (
        "Rocq proof over the regenerated lambda rule table and an init/call state-machine model of LambdaDoubleVisitor (CSE wiring as explicit state) + bit-exact correspondence of histories on one visitor object",
        "Theorems (arbitrary float algebra, axiom-free unless stated): the closures the lambda visitor builds compute the class's mathematical function (Reals) and agree with the eval_double rules; after a successful init, call returns exactly what direct evaluation computes at the inputs; CSE on/off give equal results given a faithful cse(); re-initialising from ANY state (any history incl. failed inits) behaves like a fresh object. Tied by running histories of 1-4 inits (CSE on/off, failing inits, symbols named like CSE replacements) and calls on the library and the model, bit-exact incl. exception/crash outcomes.",
        "Trusted: as C12; cse() faithfulness is C37's matter (explicit hypothesis); Add/Mul dictionary fold vs get_args fold not proved equal.",
        "7 (C13)"),
    "C15": (
        "Rocq proof over an executable model of the C89/C99 code printers as trees of C expressions (parentheses as nodes, function-name table REGENERATED from codegen.cpp) and a reference reader of C expression syntax + byte-exact correspondence of the emitted text + gcc oracle",
        "Theorems: printing a well-parenthesised C tree and re-reading it with C's precedence/associativity returns the same tree (all trees); the printer's output for every expression satisfying the boolean guard `cguard` reads back as the intended operator tree (refuted outside the guard: Contains operand = known finding); no division is carried out in integer arithmetic under `nguard` (refuted: 3/Piecewise of integers = known finding); the C tree printed for a guarded Add / Mul evaluates to the sum / product in any field (partial: not assembled into one whole-tree value theorem). What the C compiler and libm do is outside any theorem: gcc compiles the emitted double and float texts of every explored expression and the values at sample points are compared with eval_double / the lambda visitor (testing, labelled).",
        "Trusted: Coq kernel; translator for the name table; extraction; gcc 12 for the oracle; known findings (listed): int division with all-integer Piecewise, lost grouping for UnevaluatedExpr / reciprocal trig functions / Contains, non-finite literals.",
        "7 (C15)"),
    "C16": (
        "Rocq proof over an executable model of StrPrinter (term order PrinterBasicCmp, precedence, parenthesisation, numerator/denominator split; flags REGENERATED from strprinter.cpp) and the reference parser of C17 + byte-exact correspondence of str(e) and of parse(str(e))",
        "Theorems: every permutation of a sum's dictionary prints the same string (for all well-formed sums, using the C02 order theorems) - dictionary order does not leak into the output; parse_ref(print e) gives back e's syntax on the fragment Symbol / non-negative Integer / Pow (partial: Add, Mul, functions, relationals by correspondence only); refutation: 0.0 and -0.0 are eq but print differently (known finding). Tied by comparing the model's string byte for byte with str(e) (incl. %.15g doubles) and the model's parse of it with parse(str(e)); oracle eq(parse(str(e)), e) on the library.",
        "Trusted: Coq kernel; translator for names_/precedence flags; extraction; known findings (listed): signed zero, non-finite doubles print as inf.0, f() does not parse, symbols named like constants.",
        "7 (C16)"),
    "C17": (
        "Rocq proof over a precedence-climbing reference parser driven by a precedence table REGENERATED from parser.yy (%left/%right lines), token classes from tokenizer.re, name tables and strtol base from parser.cpp + correspondence of parse(s) on strings rendered from random syntax trees",
        "Unbounded theorems (all token lists): the reference parser is sound, complete and unambiguous w.r.t. the stratified conventional grammar (left-associative + - * /, right-associative ** binding tighter than unary minus on its left, implicit multiplication, calls); maximal munch; the generated precedence table equals the conventional one (breaks when a %left/%right line changes); decimal digit strings denote their base-10 value whatever the leading zeros; other literals are floats; lexer facts. The bison LALR automaton and re2c DFA (generated C++) are tied by correspondence only: the library's parse(s) must equal the expression built from the reference tree.",
        "Trusted: Coq kernel; translator; extraction; strtod for float values in the driver.",
        "7 (C17)"),
    "C18": (
        "Rocq proof of totality and statelessness of the reference lexer/parser/Parser-object state machine on arbitrary byte lists + history correspondence (reused vs fresh parser) with crash/hang observation in forked children",
        "Unbounded theorems for EVERY byte list and every history: lexer and parser terminate within fuel length+1; a parser object reused for any sequence of inputs (incl. failed parses, modelling the stale `res` field) returns what a fresh parser returns; nothing after the first NUL byte influences the result. Memory safety of the generated C++ is outside the theorem: observed per input (grammar-mutated strings, raw bytes, deep nesting) in forked children; parse_sbml has the oracle only.",
        "Trusted: as C17; known finding (listed): parse(\"1/acoth(0.0)\") aborts inside a function constructor.",
        "7 (C18)"),
    "C19": (
        "Rocq proof over an executable model of the cereal portable-binary codec of serialize-cereal.h (encoder and decoder on labelled DAGs, id table, both byte orders, DenseMatrix) + byte-exact cross round trips against the rebuilt library",
        "Unbounded theorems: for every labelled DAG of serialisable nodes (any sharing, either byte order) decode(encode w) returns the same expression and the same labelling (shared subexpressions restored), per-node payload round trips (decimal integer strings, canonical rationals, double bit patterns, containers in container order), DenseMatrix round trip. Tied every run by decode_model(dumps_impl(e)) = loads_impl, loads_impl(encode_model(e)) = decode_model, and encode_model(decode_model(B)) = B byte for byte on library streams.",
        "Trusted: Coq kernel; extraction; hand transcription of the save/load overloads validated by byte-exact correspondence (testing); classes outside the model (ImageSet, ConditionSet, polynomials, Tuple) by library oracle only; known finding (listed): URatPoly dumps but does not load.",
        "7 (C19)"),
    "C20": (
        "Rocq proof of totality/typing of the modelled decoder on arbitrary byte lists + correspondence on field-aware mutations of valid dumps + staged crash oracle on the library",
        "Unbounded theorems for EVERY byte list: the decoder returns an expression or an error (never out of fuel with fuel = length+1, never reads out of range), every decoded node consumes input, more fuel never changes a result, and every decoded tree is well-typed (Boolean arguments where Booleans are required, Sets where sets are required, Numbers at interval ends, no empty And/Or/Xor/Union/Piecewise/Max/Min); full canonical form of decoded trees is refuted by witnesses that the library loads without failing later operations. Memory safety of the C++ itself is outside the theorem: the library side is exercised on mutated streams in forked children with staged str/hash/compare/eval after loads.",
        "Trusted: as C19; ALLOC_LIMIT guard assumes the driver's address-space limit; known findings (listed): stack overflow on extremely deep nesting.",
        "7 (C20)"),
    "C21": (
        "Rocq proof over an executable model of ODictWrapper / UIntDict (Kronecker substitution with its bit budget, eval_bit, signed-digit decoding) / URatDict / divides_upoly / eval / diff + exact correspondence of coefficient maps",
        "Unbounded theorems against schoolbook arithmetic on coefficient lists over Z and Q: add, sub, neg, generic dictionary product, Kronecker product UIntDict::mul = schoolbook product for ALL integer polynomials (only the unsigned-int limits deg a + deg b < 2^32 and bit budget < 2^32 as hypotheses; fuel sufficiency and zero-polynomial cases included), pow incl. exponent 0, divides, eval, diff, degree/coefficient queries. Tied by comparing coefficient maps exactly on generated polynomials straddling the Kronecker threshold; from_basic/as_symbolic round trip by correspondence and oracle.",
        "Trusted: Coq kernel; extraction; GMP as external; hand transcription validated by correspondence; known finding (listed): exponent addition wraps modulo 2^32.",
        "7 (C21)"),
    "C22": (
        "Rocq proof over an executable model of msymenginepoly (UDictWrapper arithmetic, reconcile/translate over arbitrary generator sets, pow, eval, from_dict, __eq__, bit-exact __hash__) + exact correspondence of monomial dictionaries",
        "Unbounded theorems for ALL pairs of generator sets (equal, overlapping, disjoint, empty) and all coefficients: reconcile returns the sorted union with correct index translators; translate preserves value; add, sub, neg are schoolbook; mul and pow (every exponent incl. 0, termination) are the schoolbook product/power with exponents modulo 2^32 as coded, and the mathematical ones under the no-wrap guard; eval is a ring homomorphism; __eq__ is an equivalence characterised exactly, and eq implies equal hash; from_dict normalises. Tied by exact comparison of sorted dictionaries on generated polynomials and by an independent reference in the driver.",
        "Trusted: Coq kernel; extraction; hand transcription validated by correspondence; MExprPoly and as_symbolic/from_basic by driver oracle only; known finding (listed): exponents wrap modulo 2^32.",
        "7 (C22)"),
    "C23": (
        "Rocq proof over an executable model of GaloisFieldDict (all operations incl. the division loops with checked indices, gcd, pow_mod, compose_mod, square-free and factorisation routines with explicit random streams) + exact correspondence of coefficient vectors",
        "Unbounded theorems for every prime p and all polynomials: constructors, +, -, *, negate, shifts, pow, pow_mod, monic, diff, eval, compose_mod are canonical and equal mod p to schoolbook arithmetic; division with remainder (f = q g + r, deg r < deg g, uniqueness, no out-of-range access, zero divisor throws); gcd terminates and is the monic greatest common divisor; lcm partial. Factorisation/square-free results are covered by exact correspondence (mirrored random streams) and by driver oracles (product, monic, brute-force/Rabin irreducibility) only, not by theorems.",
        "Trusted: Coq kernel; extraction; hand transcription validated by correspondence; known finding (listed): modulus >= 2^64 truncated in the Frobenius code.",
        "7 (C23)"),
    "C24": (
        "Rocq proof over an executable model of ~55 routines of dense_matrix.cpp (row-major vector with checked access, entries Fin Q | zoo | nan) incl. a self-contained determinant theory + exact entrywise correspondence + independent GMP oracle",
        "Unbounded theorems (all sizes): entrywise specs of add, mul, transpose, submatrix, row/column operations, joins, deletes; substitution solvers; pivoted Gauss-Jordan is total, row-equivalent and in reduced row echelon form for any rank (rref unique); fraction-free variants; pivoted LU (L U = P A or rank-deficiency exception), pivoted solves and inverses (correct or exception, never out of bounds); det_bareis equals the cofactor determinant for every order; char_poly/Berkowitz for orders up to 4/5; unpivoted LU/LDL/fraction-free routines under the boolean guard 'no zero pivot met' with refutation witnesses. Tied by comparing every entry of model and library results on matrices up to 5x5 (6x6 thorough) of every case-split class; oracle multiplies back / compares with a reference elimination in GMP over Q(i).",
        "Trusted: Coq kernel; extraction; hand transcription validated by correspondence; QR and Gaussian-rational entries are oracle-only; known findings (listed, 12 keys): unpivoted routines return zoo/nan on non-singular inputs with a vanishing leading minor.",
        "7 (C24)"),
    "C25": (
        "Rocq proof over an executable model of CSRMatrix (p/j/x arrays with 32-bit indices and checked access: get, set, from_coo, sort/sum-duplicates, binop, transpose, conjugate, scale, diagonal, jacobian, matmat pass 1+2, is_canonical) + exact correspondence of the three arrays after every command",
        "Unbounded theorems for any element type with a zero test (rows*cols < 2^31): get returns the dense entry; set keeps canonical format and performs exactly the dense update; after EVERY history of in-range set/get operations every step succeeds and equals the dense mirror; from_coo sums duplicates and is canonical; binop (add, sub, elementwise product), transpose, conjugate, scale rows/columns, diagonal, jacobian, matrix product (canonical result equal to the dense product) agree with dense semantics; is_canonical decides canonical format exactly. Tied by comparing p_, j_, x_ exactly after every command of generated programs (exhaustive small universes included) and by an independent dense mirror in the driver.",
        "Trusted: Coq kernel; extraction; hand transcription validated by exact correspondence; the NotImplementedError methods and the csr-to-csr eq path are covered by correspondence only.",
        "7 (C25)"),
    "C26": (
        "Rocq proof over an executable model of matrices/*.cpp (matrix_add, matrix_mul, hadamard_product, transpose, conjugate, trace, size, the predicate visitors; Gaussian-rational entries, integer or symbolic dimensions, MatrixSymbol leaves) with a dense denotation + exact correspondence + independent dense oracle",
        "Unbounded theorems (any sizes, nesting, environments): matrix_add, hadamard_product, transpose, conjugate denote the dense operation; matrix_mul under the zero-factor guard; size and trace are sound; is_real/is_square unconditionally and is_diagonal/is_symmetric/is_lower/is_upper/is_toeplitz on well-formed expressions never contradict the dense value; DomainErrors are never spurious; well-formedness is preserved by every API call; no out-of-range access in predicates and unary operations.",
        "Trusted: Coq kernel; extraction; hand transcription validated by correspondence; known findings (listed): zero factor with unknown outer size, non-canonical folded results.",
        "7 (C26)"),
    "C27": (
        "Rocq proof over an executable model of sets.cpp / set_funcs.cpp on intervals, finite sets, the number sets, unions, intersections and complements (containers ordered by the modelled RCPBasicKeyLess; one fuelled function for the mutual recursion; results carry defect flags) + tree-for-tree correspondence",
        "Unbounded theorems (any nesting) with membership semantics over germ points (every real, distinguishing Reals from Rationals): set_union, set_intersection, set_complement (member and free functions, helper) have pointwise membership semantics; contains agrees with membership; closure/interior/boundary and sup/inf partial (not for Union/Intersection/Complement operands; unboundedness of infinite sup/inf not proved). Theorems apply when the model raised no defect flag; flagged classes have refutation witnesses and known-finding keys. Tied by comparing result trees exactly on complete small universes and random trees, a spec oracle at all germ points on both results, and the library's own contains on endpoints/midpoints/neighbours.",
        "Trusted: Coq kernel; extraction; hand transcription validated by correspondence; known findings (listed): unbounded recursion for some absorbed operands (SIGSEGV), boundary of a union with adjacent members.",
        "7 (C27)"),
    "C28": (
        "Rocq proof over an executable model of logic.cpp (and_or, logical_not/xor/nand/nor/xnor, piecewise, contains, relational constructors, subs on boolean trees; std::set order = modelled RCPBasicKeyLess) + exact correspondence of result trees",
        "Unbounded theorems: for every formula of the fragment (relationals over symbols and exact rationals, membership in intervals/finite sets, closed under Not/And/Or/Xor), every argument list (hence every iteration order) and every assignment of rationals to the symbols, logical_and/or/nand/nor/xor/xnor/not, piecewise construction, Contains simplification and substitution preserve the truth value. Tied by reproducing the library's result tree exactly (container order included) on generated formulas; a truth-table oracle complete up to order type runs on the library's own results.",
        "Trusted: Coq kernel; extraction; hand transcription validated by exact correspondence (testing); fragment excludes doubles/infinities in order comparisons and other set classes (model returns 'outside fragment', cases skipped); termination of and_or (fuel) is not proved, soundness holds for every fuel.",
        "7 (C28)"),
    "C39": (
        "Rocq proof over an executable model of FreeSymbolsVisitor / HasSymbolVisitor / AtomsVisitor / function_symbols / CoeffVisitor on the shared expression AST + exact correspondence of every query answer",
        "Unbounded theorems: free_symbols is exactly the set of symbols occurring outside Subs binders (memo set included; equals the property's notion on trees without ImageSet/ConditionSet, with refutation witnesses for those), traversals terminate, has_symbol is characterised by reachability through get_args and agrees with free_symbols on Subs-free trees, atoms/function_symbols are sound and complete up to the library's equality, coeff on univariate integer polynomials is the dictionary coefficient and reconstructs the polynomial (partial: multivariate/symbolic coefficients by correspondence only). Tied by identical answers of model and library on generated expressions (incl. Subs, ImageSet, ConditionSet, Piecewise, sets, dummies) and independent oracles in the driver.",
        "Trusted: Coq kernel; extraction; hand transcription validated by correspondence; the three coeff theorems inherit the Reals axioms through the number-tower model (Flocq); known findings (listed): bound symbols of ImageSet/ConditionSet reported free, has_symbol true for Subs-bound variables.",
        "7 (C39)"),
    "C42": (
        "Rocq proof over a table REGENERATED from cwrapper.cpp on every run (translators/tr_cwrapper.py: protection kind, guards, forwarded callee and argument order per extern \"C\" function) and a state-machine model of the C handles/containers + lock-step correspondence of C API call sequences with a C++-API mirror",
        "Theorems: a function wrapped in CWRAPPER_BEGIN/END never lets an exception out, for any table, core behaviour and call sequence; on the current table every function is protected or in an explicit justified list (decided by computation), with a refutation for lambda_real_double_visitor_init; each forwarder returns the C++ API value of the expected callee on the expected argument order or an error code with the state untouched (153 functions); vector/set/map container laws; state invariant after any history; Expression operators agree with core calls. Matrix/MPFR/LLVM/cse/solve wrappers are covered by the static table theorems only.",
        "Trusted: Coq kernel (vm_compute on the generated table); the translator (a changed body changes the table/fingerprint and breaks an obligation); extraction; known findings (listed): setbasic_get out of range, exceptions escaping lambda_real_double_visitor_init and basic_set_is_*subset/superset.",
        "7 (C42)"),
    "C14": (
        "Rocq proof over a rule table REGENERATED from llvm_double.cpp on every run (translators/tr_llvmrules.py) and an SSA compilation model (flatten, symbolic CSE, emission order) + correspondence of init/call histories on one LLVMDoubleVisitor at opt levels 0-3, CSE on/off, against the extracted model and against LambdaRealDoubleVisitor",
        "Unbounded theorems: compile_sound (for every float algebra, running the emitted SSA program on an input vector gives the value of the output trees; each CSE replacement is computed once and shared), flatten_correct (emission-order invariant), every one of the 60 accepted classes compiles to the same rule as the interpreter tables (agree_eval, accepts), the five Pow cases with their operand order are the real power, init is stateless and CSE symbols take precedence (obligations over regenerated flags). Partial: LLVM's optimiser, instruction selection, JIT and object-file round trip are outside any theorem - results are compared bit for bit (<= 16 ulp allowed for LLVM's constant folding of powi/libm calls at opt levels 1-3); the Float and LongDouble visitors are exercised, not judged.",
        "Trusted: Coq kernel; standard-library real-number axioms (classic, functional extensionality, the two ClassicalDedekindReals axioms) for llvm_pow_ideal only; the translator; extraction; LLVM 14 itself.",
        "7 (C14)"),
    "C45": (
        "Rocq proof over rule/arith tables REGENERATED from eval_mpfr.cpp and real_mpfr.cpp on every run (translators/tr_mpfrrules.py) and a Flocq model of MPFR round-to-nearest at any precision (FLX format) + digit-for-digit correspondence of eval_mpfr/evalf runs at precisions 1-1000 bits and of Number arithmetic with one RealMPFR operand on the WITH_MPFR build",
        "MPFR half only (libmpc headers are absent in this image: eval_mpc/ComplexMPC are not built, not modelled, not tested). Unbounded theorems: every specified class of the generated eval_mpfr table is its mathematical function over the reals (37 classes, Pow, constants, Add/Mul/Max/Min folds); class by class it is the same rule as the double evaluator (46 classes); the model's rounding is Flocq's round radix2 (FLX_exp p) ZnearestE; for the 22 arithmetic overloads listed the result precision is the maximum of the operand precisions and the value is the exact result rounded once; 7 overloads round twice and reverse division by an exact number is refuted with a concrete witness (known finding). Partial: the accuracy of MPFR's transcendental functions is taken from MPFR (the driver evaluates candidates with MPFR; formula selection and operand order are compared digit for digit); the accuracy oracle (2p+64-bit reference with a conditioning estimate) is testing.",
        "Trusted: Coq kernel; standard-library real-number axioms via Flocq/Reals; the translator; extraction; MPFR itself (correct rounding of each call); known findings (listed): reverse division and powers that round an exact operand first.",
        "7 (C45)"),
    "C40": (
        "Rocq proof over an executable heap state-machine model of the intrusive reference-counting protocol (symengine_rcp.h: make_rcp, copy/move/assign/reset/destructor, rcp_from_this, Add::from_dict dictionary stealing) + lock-step correspondence of generated handle programs against the library with the live-object counter hook, plus sanitizer replay (testing, labelled)",
        "Unbounded theorems for every handle program from any set of library constants: no step reads or writes the counter of a freed object or decrements a zero counter (rcp_no_uaf), every counter equals the number of handles to the object (wf), an object is alive iff reachable from a handle (live_iff_reachable), after dropping all handles exactly the pre-existing constants remain (rcp_no_leak, baseline), held expressions are immutable, stealing a Mul's dictionary at use_count()==1 is unobservable (steal_safe) and threshold 2 is refuted; a cycle leaks (why acyclicity is needed). Tied after EVERY step: live-object count (hook H2), every use_count() and slot contents equal the model's prediction. Memory safety of whole API workloads (out-of-bounds, uninitialised reads) is outside the model: it is tested under ASan/UBSan/LSan, labelled testing.",
        "Trusted: Coq kernel; extraction; the hook (symengine/basic.h, guarded by SYMENGINE_VERIF); hand transcription of symengine_rcp.h validated by correspondence; sanitizer runs are tests, not proofs.",
        "7 (C40)"),
    "C41": (
        "Rocq proof over an interleaving small-step model of the two lazily written shared fields (std::atomic hash_ cache, std::atomic refcount_) for any number of threads and any schedule + correspondence of threaded workloads on the WITH_SYMENGINE_THREAD_SAFE build (sequential-equivalence and model-predicted counters), ThreadSanitizer as labelled testing",
        "Unbounded theorems (any thread count, any schedule of atomic steps): every hash() returns __hash__() and the cache ends 0 or __hash__() (hash_cache_linearizable); no step touches the object after deletion, the counter equals the number of handles held, exactly one deletion after the last drop (refcount_safe); the non-atomic counter and a torn hash store are refuted by concrete schedules. Partial: the model covers the two fields the library writes after construction; data-race freedom of everything else rests on immutability (C40 held_immutable) and is tested with ThreadSanitizer, not proved; the C++ memory model is abstracted to sequentially consistent atomic steps.",
        "Trusted: Coq kernel; extraction; hand transcription of basic.h/symengine_rcp.h atomics validated by threaded correspondence; sequential consistency of the std::atomic operations used (default memory order).",
        "7 (C41)"),
    "C43": (
        "Rocq proof over an executable model of every function the Boost.Multiprecision backend re-implements (mp_boost.cpp, BOOSTMP section of mp_class.h) against the GMP-documented meaning + three-way correspondence: same driver on the GMP build, on the Boost build and on the extracted model",
        "Unbounded theorems for all integers: fdiv/cdiv/tdiv quotient-remainder laws, divisibility, scan1, gcdext Bezout + GMP's normalisation (uniqueness), invert, powm (incl. negative exponent), root/rootrem/sqrt/sqrtrem/perfect_square, fib/fib2/lucnum/lucnum2, fac, bin, probab_prime (spec-relative), Jacobi/Kronecker total and equal to the definition relative to the reciprocity spec (definition checked on a small universe by kernel computation); nextprime total by Bertrand (partial: bounded proof), perfect_power partial. Tie: every case line runs on both builds and the model; GMP != Boost is a violation, model != Boost breaks the tie.",
        "Trusted: Coq kernel (vm_compute for finite sweeps); extraction; hand transcription of mp_boost.cpp validated by correspondence; GMP itself is the reference (its documented behaviour is the spec); known findings listed in known_findings.txt.",
        "7 (C43)"),
    "C44": (
        "Rocq proof over executable models of the MathML, LaTeX, Unicode (StringBox), Julia and SBML printers as token/line structures on the shared expression AST + byte-exact correspondence of all five printer outputs + well-formedness oracles on the library's own output",
        "Unbounded theorems: MathML output is one well-formed XML element (nested tags, valid names, escaped character data) for every modelled tree; LaTeX brace groups and \\left/\\right pairs nest with valid delimiters under the guard (names without \\ { }, no FiniteSet - refuted witness = known finding -, numeric interval ends); every StringBox operation and every history of operations preserves rectangularity; Unicode boxes are rectangular for ASCII names (non-ASCII refuted = known finding); all five printers are total on supported trees and the classes outside throw by design; coverage of all 122 type codes. The SBML round trip is checked dynamically on every expression of the fragment (needs the canonicalising constructors), not proved.",
        "Trusted: Coq kernel; extraction; hand transcription validated by byte-exact correspondence; name tables compared with the sources on every run; known findings (listed): latex FiniteSet delimiter (pinned by the repository's test), Unicode width of non-ASCII names.",
        "7 (C44)"),
    "C46": (
        "Rocq proof over an executable model of homogeneous_lde (Contejean-Devie: stack, Frozen matrix with checked indices, order/is_minimum) + correspondence of returned bases in order + proved-correct brute-force enumerator as oracle",
        "Unbounded theorems for every integer matrix: every run that ends returns exactly the minimal non-zero non-negative solutions of A x = 0, each once (soundness, antichain, completeness by the Contejean-Devie argument), never indexes outside its arrays (stack-depth bound proved as an invariant), and more fuel does not change the result. Termination is proved only on complete small universes (kernel sweep), so the theorems are conditional on the run ending. Tied by comparing the returned basis (in order) between model and library and by an independent brute-force Hilbert-basis oracle in the driver.",
        "Trusted: Coq kernel (vm_compute for the finite termination sweeps); extraction; hand transcription validated by correspondence; termination for all matrices not proved; a non-empty basis argument on entry is outside the property (refutation theorem documents that the function does not clear it).",
        "7 (C46)"),
    "C29": (
        "Rocq proof over an executable model of Lt/Le/Gt/Ge/Eq/Ne on two numbers (difference via Number::sub, sign tests; doubles via Flocq) + exhaustive palette correspondence",
        "Theorems for all real numbers of all kinds and values: Lt/Le agree with the numeric order (unguarded on integers, rationals and +-oo; guarded where an exact operand is converted to double, with refutation witnesses), Le(a,b) = not Lt(b,a), Ge/Le and Gt/Lt dualities, Eq symmetric, Ne = not Eq. Tied over all ordered pairs of a 32-value real palette x 6 relations plus throwing operands; the driver compares against exact rational order computed with GMP.",
        "Trusted: as C06; known findings (listed): comparisons where an exact operand truncates to double (Lt(RealDouble(2^53), 2^53+1)), infinite double vs +-oo.",
        "7 (C29)"),
    "C30": (
        "Rocq proof (nsatz/field identities in an arbitrary field of characteristic 0 with formal radicals as explicit hypotheses) over a model of solve.cpp's closed forms and dispatch, linsolve through the C24 elimination model + correspondence of solution sets",
        "Theorems: linear and quadratic solvers are sound and complete with multiplicities; the cubic (all branches incl. Cardano) and quartic (all branches incl. Euler's method, for every choice of resolvent roots) closed forms factor the polynomial identically, so every returned member is a root and all roots are returned; solve_poly dispatch is exact; solve_rational returns every non-pole zero and only zeros of the numerator (pole exclusion refuted for irrational poles = known finding, proved when all roots are rational); linsolve returns the exact solution or reports singularity, never out of bounds. Which complex branch each radical denotes, solve_trig and restricted domains are outside the theorems (oracle: exact substitution where it reduces to a number, numeric residual otherwise - testing, labelled).",
        "Trusted: Coq kernel; extraction; hand transcription validated by correspondence of result sets; known findings (listed): solve_trig quadrant via atan2, irrational poles not removed by set_complement.",
        "7 (C30)"),
    "C31": (
        "Rocq proof (axiom-free formal power series ring over Q: Cauchy product, congruence mod x^n, derivative, integral, ODE uniqueness) over an executable model of the SeriesBase recurrences and the SeriesVisitor dispatch + exact correspondence of coefficient maps",
        "Unbounded theorems (all precisions below 2^31, all rational series): truncated mul and pow; series_invert along step_list inverts modulo x^prec; nthroot; log, atan, atanh, exp, tan, tanh, asin, asinh, sin/cos, sinh/cosh, lambertw satisfy their defining initial value problems modulo x^(prec-1) (all branches incl. fast paths and Newton loops); such IVPs have at most one solution, so the coefficients equal those of any formal solution; compositions; the visitor is sound on the guarded fragment. The bridge from formal to analytic Taylor coefficients is stated, not formalised. cot/csc/sec/acos/series_reverse, general powers and symbolic constants are covered by correspondence and an independent exact Maclaurin oracle in the driver only.",
        "Trusted: Coq kernel; extraction; hand transcription validated by exact correspondence; known findings (listed): precision loss when dividing by a series without constant term, nthroot of the zero series.",
        "7 (C31)"),
    "C32": (
        "Rocq proof over an executable model of ntheory.cpp on top of the mp_* primitives (both the GMP-documented meaning and the Boost reimplementation) + exhaustive small-range correspondence in the GMP and Boost builds",
        "Unbounded theorems for all integers in the domain: both division conventions (and zero divisor throws), gcd/lcm, gcd_ext (termination, Bezout), mod_inverse, crt on positive moduli (solution iff compatible, unique mod lcm; single-modulus unreduced result refuted = known finding), powermod incl. negative exponents, factorial, binomial, fibonacci/lucas, trial-division primality = Znumtheory.prime, factorisation and prime_factors, totient, mobius, mertens, quadratic_residues, polygonal numbers and roots, perfect-power decomposition, integer roots. Proved only by complete evaluation over explicit finite ranges stated in the theorems: carmichael, multiplicative_order, primitive_root, legendre/jacobi/kronecker, is_quad_residue, is_nth_residue, Lehman soundness, harmonic, bernoulli. nthroot_mod(_list), rational powermod, primitive_root_list, Pollard methods, nextprime, primepi, primorial: oracle only.",
        "Trusted: Coq kernel (vm_compute for the finite-range sweeps); extraction; GMP as external; known findings (listed, 7 keys): crt single modulus unreduced, is_nth_residue negative a / zero exponent, Lehman misses factors, nthroot_mod with negative a and modulo 2^k, Boost is_quad_residue with negative p.",
        "7 (C32)"),
    "C33": (
        "Rocq proof over an executable state-machine model of Sieve (32-bit arithmetic, observable out-of-range accesses) + correspondence of histories against the rebuilt library",
        "Unbounded theorems (every history, every limit < 2^31, every sieve size 1..2^15 KB): no array access leaves its array, every loop terminates, generate_primes returns exactly the primes up to the limit in increasing order, iterators return the prime sequence without gaps or repeats. The model is tied to the code by running generated histories on the extracted model and on the library rebuilt from /repo and comparing every output.",
        "Trusted: Coq kernel; extraction (ExtrOcamlBasic); the hand transcription of prime_sieve.cpp into coq/C33/SieveModel.v, validated on every run by correspondence only (differential testing, not proof); floor(sqrt(double)) modelled as N.sqrt; valarray slice semantics; unbounded iterators (limit 0) are outside the theorems (Bertrand's postulate only proved below 2^31).",
        "7 (C33)"),
    "C34": (
        "Rocq proof (axiom-free, values in Q(i) plus oo/-oo/zoo/nan) over an executable model of the Assumptions constructor and every visitor of test_visitors.cpp + character-exact correspondence of tribool answers",
        "Theorems (all statement sets, all satisfying valuations): the Assumptions constructor records only true facts; is_zero/nonzero, negative, nonnegative, nonpositive, positive, integer, is_complex = false, finite/infinite, even/odd are sound in both directions on the fragment with a value (exact numbers, symbols, Add, Mul, integer and half-integer Pow, abs, sign, conjugate, floor, ceiling, max, min); is_real/is_complex = true guarded by 'value is not zoo' (poles refuted); is_rational partial; algebraic/transcendental/polynomial by correspondence only. Oracle: the library's own subs at sampled Gaussian-rational valuations satisfying the statements.",
        "Trusted: Coq kernel; extraction; hand transcription validated by correspondence; known findings (listed): is_real(I*x) = false at x = 0 (pinned by the repository's test), poles 1/x reported real, is_irrational(0.5).",
        "7 (C34)"),
    "C35": (
        "Rocq proof of each refine rule's value preservation given the query answers (same model and semantics as C34) + correspondence of rule decisions with results built by the library's constructors",
        "Theorems: the Abs, Sign, Floor, Ceiling, Conjugate, Max and Min rules of RefineVisitor preserve the value at every valuation satisfying the assumptions; the Pow-of-Pow rule partial (abs branch for half-integer outer exponents with even inner exponent, positive branch for even inner exponent); Log and simplify_pow have values outside Q(i): tie and numeric oracle only. Whole-expression refine soundness is not proved (constructors not modelled here).",
        "Trusted: as C34; known findings (listed): pow() collapses (x**-1)**q to x**(-q).",
        "7 (C35)"),
    "C36": (
        "Rocq proof at rule level (any field for numer/denom; C = RxR with Coq's real functions for rewrite/conjugate/real_imag rules) over models of NumerDenomVisitor, RealImagVisitor, the RewriteAs* rule tables, trig_to_sqrt and conjugate + exact-tree / recipe correspondence + numeric oracle",
        "Theorems: as_numer_denom's rules give n/d = e given arithmetic soundness of the constructors on defined operands (explicit premise record; integer-power laws proved in every field; non-integer powers refuted = known finding); all 22 rewrite_as_exp/sin/cos rules, the 12 conjugate rules, the 24 trig_to_sqrt rules (principal real domains) and the real/imaginary-part identities for sin, cos, sinh, cosh, tan, cot, tanh, coth preserve value; pow_number's binary loop returns z^n for n < 2^64. The visitor traversals around the rules and values at general complex points are tied by correspondence and a numeric oracle at sampled points (testing, labelled).",
        "Trusted: Coq kernel; Reals axioms; arithmetic constructors as in C03/C07 (premises); known findings (listed): cot imaginary part sign (pinned by the repository's test), (n/d)**r split for negative d, as_real_imag of non-integer powers.",
        "7 (C36)"),
    "C37": (
        "Rocq-proved checker (check_cse sound for ALL outputs) run on every implementation output + executable models of tree_cse and opt_cse with theorems on the tree_cse part + exact correspondence",
        "Theorems: whenever the extracted checker accepts (inputs, replacements, reduced), back-substitution last-to-first reproduces expressions equal to the inputs, every replacement symbol is fresh and pairwise distinct, and each replacement mentions only earlier symbols; for tree_cse itself: fresh increasing symbol names (whole cse()), freshness, acyclicity and faithfulness for every compositional semantics on well-formed inputs (guard excludes FunctionSymbols named add/mul/pow). opt_cse's regrouping is modelled and compared exactly but its faithfulness is validated per explored instance by the proved checker, not proved universally - the evidence says so.",
        "Trusted: Coq kernel; extraction; arithmetic constructors as modelled by the C03/C04/C07 slice (explicit hypothesis 'constructors invent no symbols'); known findings (listed): FunctionSymbols named add/mul/pow are evaluated or crash; regrouping by opt_cse can change the canonical form.",
        "7 (C37)"),
    "C38": (
        "Rocq proof (MathComp polynomials + stdlib refinement layer) over an executable model of generate_fdiff_weights_vector with its flat index layout and 32-bit index arithmetic + exact correspondence of weight vectors",
        "Unbounded theorem fornberg_exact: for every grid of distinct rationals of any size, any centre, any max_deriv (index space below 2^32), every derivative order k <= max_deriv and every polynomial of degree below the grid size, the weights applied to the polynomial's values give exactly its k-th derivative at the centre; plus the loop invariant (Lagrange-basis Taylor coefficients after every stage), in-bounds of every array access, partition of unity. Tied to the code by comparing weight vectors exactly (model vs library) on generated grids and by an exactness oracle on monomials evaluated by the driver in GMP arithmetic.",
        "Trusted: Coq kernel; extraction (ExtrOcamlBasic); hand transcription of finitediff.cpp validated by correspondence only; theorems cover rational grids (symbolic grids by substitution runs only); known findings: empty grid and 32-bit index-space wrap (listed).",
        "7 (C38)"),
}

NOT_YET = "model and theorems not built yet in the time used so far (see DESIGN.md section 10 build order); not claimed"

ALL = ["C%02d" % i for i in range(1, 47)]


def main():
    checks = []
    for pid in ALL:
        if pid not in CLAIMED:
            continue
        tech, text, note, ref = CLAIMED[pid]
        checks.append({
            "property_id": pid,
            "quick_cmd": "tools/check %s --tier quick" % pid,
            "thorough_cmd": "tools/check %s --tier thorough" % pid,
            "evidence_file": "/verif/evidence/%s.json" % pid,
            "replay_cmd_template": "tools/check %s --replay {path}" % pid,
            "engine": "rocq-model-correspondence",
            "level_claimed": {"category": "proof", "text": text, "design_ref": "DESIGN.md section " + ref},
            "level_note": note,
            "technique": tech,
        })
    na_reasons = json.load(open(os.path.join(ROOT, "tools", "not_applicable.json")))
    na = []
    for pid in ALL:
        if pid in CLAIMED:
            continue
        na.append({"property_id": pid, "reason": na_reasons.get(pid, NOT_YET)})
    hooks = json.load(open(os.path.join(ROOT, "tools", "hooks.json")))
    man = {
        "version": 1,
        "setup_cmd": "tools/setup.sh",
        "hooks": hooks,
        "engines": [{
            "name": "rocq-model-correspondence",
            "path": "tools/check",
            "serves_properties": [c["property_id"] for c in checks],
            "kind_free_text": "Coq 8.16.1 theorems about hand-written executable Gallina models (coq/), tied to /repo on every run by translators (Gen/*.v regenerated from source) and by correspondence runs of the extracted OCaml model against C++ drivers linked with the library rebuilt from /repo's working tree",
        }],
        "checks": checks,
        "notes": "See DESIGN.md. Every check: rebuilds the library from /repo's working tree (hooks on), compiles its proof obligations (coq/Cxx/P_*.v), runs model/implementation correspondence and the property oracle, writes evidence/<id>.json. known_findings.txt lists recorded and fixed defects.",
        "not_applicable": na,
    }
    with open(os.path.join(ROOT, "MANIFEST.json"), "w") as f:
        json.dump(man, f, indent=1)
        f.write("\n")


if __name__ == "__main__":
    main()
