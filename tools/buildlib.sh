#!/bin/bash
# Build (incrementally) the symengine library from /repo's *current working tree*
# into /verif/.work/build-<cfg>.  Only the library target is built.
# usage: buildlib.sh <cfg>      cfg in: rel asan boost ts mpfr llvm
set -e
CFG=${1:-rel}
REPO=${VERIF_REPO:-/repo}
ROOT=$(cd "$(dirname "$0")/.." && pwd)
TAG=""
if [ "$REPO" != "/repo" ]; then TAG="-$(echo -n "$REPO" | md5sum | cut -c1-8)"; fi
B=$ROOT/.work/build-$CFG$TAG
mkdir -p "$B"
COMMON="-DBUILD_TESTS=no -DBUILD_BENCHMARKS=no -DBUILD_SHARED_LIBS=no -DCMAKE_BUILD_TYPE=Release -DWITH_SYMENGINE_RCP=yes"
case $CFG in
  rel)   FLAGS="-O1 -g0 -DNDEBUG -DSYMENGINE_VERIF -D_GLIBCXX_ASSERTIONS"; EXTRA="" ;;
  asan)  FLAGS="-O1 -g -DNDEBUG -DSYMENGINE_VERIF -D_GLIBCXX_ASSERTIONS -fsanitize=address,undefined -fno-sanitize-recover=undefined -fno-omit-frame-pointer"; EXTRA="" ;;
  boost) FLAGS="-O1 -g0 -DNDEBUG -DSYMENGINE_VERIF"; EXTRA="-DINTEGER_CLASS=boostmp" ;;
  mpfr)  FLAGS="-O1 -g0 -DNDEBUG -DSYMENGINE_VERIF -D_GLIBCXX_ASSERTIONS"; EXTRA="-DWITH_MPFR=yes" ;;
  llvm)  FLAGS="-O1 -g0 -DNDEBUG -DSYMENGINE_VERIF"; EXTRA="-DWITH_LLVM=yes -DLLVM_DIR=/usr/lib/llvm-14/lib/cmake/llvm" ;;
  ts)    FLAGS="-O1 -g -DNDEBUG -DSYMENGINE_VERIF -fsanitize=thread"; EXTRA="-DWITH_SYMENGINE_THREAD_SAFE=yes" ;;
  *) echo "unknown cfg $CFG" >&2; exit 2 ;;
esac
(
  flock 9
  if [ ! -f "$B/build.ninja" ]; then
    cmake -G Ninja -S "$REPO" -B "$B" $COMMON $EXTRA -DCMAKE_CXX_FLAGS_RELEASE="$FLAGS" > "$B/cmake.log" 2>&1 || { cat "$B/cmake.log" >&2; exit 2; }
  fi
  ninja -C "$B" symengine > "$B/ninja.log" 2>&1 || { tail -40 "$B/ninja.log" >&2; exit 2; }
) 9> "$B/.lock"
echo "$B"
