#!/usr/bin/env python3
"""Runs the quick (or thorough) command of every claimed check, N at a time, and prints a summary.
usage: tools/runall.py [--tier quick|thorough] [--jobs N] [ids...]"""
import argparse
import json
import os
import subprocess
import sys
import time
from concurrent.futures import ThreadPoolExecutor

ROOT = os.path.dirname(os.path.dirname(os.path.abspath(__file__)))


def main():
    ap = argparse.ArgumentParser()
    ap.add_argument("--tier", default="quick")
    ap.add_argument("--jobs", type=int, default=3)
    ap.add_argument("ids", nargs="*")
    a = ap.parse_args()
    man = json.load(open(os.path.join(ROOT, "MANIFEST.json")))
    ids = a.ids or [c["property_id"] for c in man["checks"]]
    os.makedirs(os.path.join(ROOT, ".work", "runall"), exist_ok=True)

    def one(pid):
        t0 = time.time()
        log = os.path.join(ROOT, ".work", "runall", pid + ".log")
        with open(log, "w") as f:
            rc = subprocess.call([os.path.join(ROOT, "tools", "check"), pid, "--tier", a.tier], cwd=ROOT, stdout=f, stderr=subprocess.STDOUT)
        tail = [l for l in open(log, errors="replace").read().splitlines() if l.startswith(("OK ", "VIOLATION", "ERROR"))]
        print("%s rc=%d %.0fs %s" % (pid, rc, time.time() - t0, " | ".join(tail)[:200]), flush=True)
        return pid, rc

    with ThreadPoolExecutor(max_workers=a.jobs) as ex:
        res = list(ex.map(one, ids))
    bad = [p for p, rc in res if rc != 0]
    print("DONE: %d checks, %d non-zero: %s" % (len(res), len(bad), " ".join(bad)))
    sys.exit(1 if bad else 0)


if __name__ == "__main__":
    main()
