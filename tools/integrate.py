#!/usr/bin/env python3
"""Integration helper: append Coq files (dependency order) to coq/_CoqProject if missing.
usage: tools/integrate.py C38/FdiffModel.v C38/FdiffSpec.v ...   (P_*.v of the dirs are added automatically)"""
import os
import sys

ROOT = os.path.dirname(os.path.dirname(os.path.abspath(__file__)))
proj = os.path.join(ROOT, "coq", "_CoqProject")
lines = open(proj).read().splitlines()
have = set(lines)
new = []
dirs = []
for f in sys.argv[1:]:
    if not os.path.exists(os.path.join(ROOT, "coq", f)):
        print("missing", f)
        sys.exit(1)
    if f not in have and f not in new:
        new.append(f)
    d = os.path.dirname(f)
    if d not in dirs:
        dirs.append(d)
for d in dirs:
    for p in sorted(os.listdir(os.path.join(ROOT, "coq", d))):
        f = d + "/" + p
        if p.startswith("P_") and p.endswith(".v") and f not in have and f not in new:
            new.append(f)
open(proj, "w").write("\n".join(lines + new) + "\n")
print("added", len(new), "files")
