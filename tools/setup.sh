#!/bin/bash
# MANIFEST.setup_cmd: build the framework from files on disk only (offline).
#  - the `rel` library configuration from /repo's working tree
#  - the whole Coq development (full .vo build, no -vos)
set -e
ROOT=$(cd "$(dirname "$0")/.." && pwd)
cd "$ROOT"
tools/buildlib.sh rel > /dev/null &
LIBPID=$!
( cd coq && coq_makefile -f _CoqProject -o Makefile > /dev/null && timeout 5400 make -k -j12 > "$ROOT/.work/coq-setup.log" 2>&1 ) || { mkdir -p .work; echo "coq build had errors (checks will report them per property)"; tail -20 .work/coq-setup.log; }
wait $LIBPID || { echo "library build failed"; exit 2; }
echo "setup done"
