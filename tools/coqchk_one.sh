#!/bin/bash
# usage: coqchk_one.sh <coq-subdir> ... : independent re-check (coqchk -o) of the compiled obligation files of the given
# property directories and everything they depend on; appends the result to evidence/coqchk.txt
cd "$(dirname "$0")/../coq" || exit 2
for d in "$@"; do
  mods=$(ls $d/P_*.vo 2>/dev/null | sed 's/\.vo$//; s#/#.#g; s/^/SE./')
  [ -z "$mods" ] && { echo "$d: no compiled obligation files"; continue; }
  echo "== coqchk $d ($(date -u +%FT%TZ)): $(echo $mods | wc -w) modules" | tee -a ../evidence/coqchk.txt
  timeout 3600 coqchk -o -silent -Q . SE $mods 2>&1 | tail -25 | tee -a ../evidence/coqchk.txt
done
