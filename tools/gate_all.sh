#!/bin/bash
# Greps the WHOLE Coq development (comments stripped) for Axiom/Parameter/Admitted/admit/Conjecture/guard-disabling
# flags: prints every hit and exits 1 if there is one.  Each check runs the same gate on its own directories.
cd "$(dirname "$0")/.." && python3 - <<'P'
import os, sys
sys.path.insert(0, "tools")
import vlib
bad = []
for dp, _, fs in os.walk(vlib.COQ):
    for f in fs:
        if f.endswith(".v"):
            p = os.path.join(dp, f)
            txt = vlib.strip_coq_comments(open(p, encoding="utf-8", errors="replace").read())
            bad += ["%s: %s" % (os.path.relpath(p, vlib.COQ), m.group(0)) for m in vlib.FORBIDDEN.finditer(txt)]
print("\n".join(bad) if bad else "gate: no forbidden construct in the development")
sys.exit(1 if bad else 0)
P
