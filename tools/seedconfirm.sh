#!/bin/bash
# usage: seedconfirm.sh <seeddir-name> ...
# Confirms a seeded change independently of the sub-agent that produced it, in ONE scratch worktree of /repo (outside
# /repo and /verif) configured like /repo/_build:
#   1. unpatched HEAD: the demonstration passes (exit 0);
#   2. patched: the tree still compiles, the repository's whole test suite passes, the demonstration fails (exit != 0).
# Writes /verif/seeded/<name>/confirm.txt.  The worktree is kept between seeds (incremental builds) and removed with
#   seedconfirm.sh --clean
WT=/tmp/sc-wt
if [ "$1" = "--clean" ]; then git -C /repo worktree remove --force $WT 2>/dev/null; rm -rf $WT; git -C /repo worktree prune; exit 0; fi
HEAD=$(git -C /repo rev-parse HEAD)
if [ ! -d $WT ]; then
  git -C /repo worktree prune
  git -C /repo worktree add --detach $WT $HEAD >/dev/null 2>&1 || exit 3
  cmake -G Ninja -S $WT -B $WT/_build -DCMAKE_CXX_FLAGS=-Wno-error -DBUILD_BENCHMARKS=no >/dev/null || exit 3
fi
demo() {   # $1 = output binary
  g++ -std=c++11 -O1 -I$WT -I$WT/_build -I$WT/symengine/utilities/teuchos -I$WT/_build/symengine/utilities/teuchos \
      /verif/seeded/$NAME/demo.cpp -o $1 $WT/_build/symengine/libsymengine.a $( [ -f $WT/_build/symengine/utilities/teuchos/libteuchos.a ] && echo $WT/_build/symengine/utilities/teuchos/libteuchos.a ) -lgmp 2>&1 | tail -5
}
for NAME in "$@"; do
  OUT=/verif/seeded/$NAME/confirm.txt
  {
    echo "seed $NAME against /repo HEAD $HEAD"
    git -C $WT checkout -q -- . ; git -C $WT checkout -q --detach $HEAD
    ninja -C $WT/_build 2>&1 | tail -1
    demo /tmp/sc-demo-a; timeout 600 /tmp/sc-demo-a > /tmp/sc-demo-a.out 2>&1; A=$?
    echo "unpatched: demo exit=$A"
    git -C $WT apply /verif/seeded/$NAME/patch.diff || { echo "PATCH DOES NOT APPLY"; continue; }
    ninja -C $WT/_build 2>&1 | tail -1
    echo "patched: build rc=${PIPESTATUS[0]}"
    ctest --test-dir $WT/_build -j16 --timeout 1800 2>&1 | grep -E "tests passed|tests failed|\*\*\*Failed|Timeout|Exception" | head -10
    demo /tmp/sc-demo-b; timeout 600 /tmp/sc-demo-b > /tmp/sc-demo-b.out 2>&1; B=$?
    echo "patched: demo exit=$B"
    tail -4 /tmp/sc-demo-b.out | cut -c1-300
    git -C $WT checkout -q -- .
    if [ $A -eq 0 ] && [ $B -ne 0 ]; then echo "CONFIRMED"; else echo "NOT CONFIRMED"; fi
    rm -f /tmp/sc-demo-a /tmp/sc-demo-b /tmp/sc-demo-a.out /tmp/sc-demo-b.out
  } > $OUT 2>&1
  tail -3 $OUT
done
