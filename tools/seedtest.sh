#!/bin/bash
# usage: seedtest.sh <Cxx> <seeddir-name>   : runs the check against a scratch worktree with the seeded patch
PID=$1; NAME=$2
WT=/tmp/st-$NAME
rm -rf $WT; git -C /repo worktree prune
git -C /repo worktree add --detach $WT HEAD >/dev/null 2>&1
git -C $WT apply /verif/seeded/$NAME/patch.diff || { echo "PATCH DOES NOT APPLY"; exit 3; }
cd /verif
VERIF_REPO=$WT tools/check $PID --tier quick > /verif/seeded/$NAME/check_output.txt 2>&1
echo "exit=$?" >> /verif/seeded/$NAME/check_output.txt
TAG=$(echo -n "$WT" | md5sum | cut -c1-8)
rm -rf /verif/.work/build-rel-$TAG /verif/.work/bin/*-rel-$TAG*
git -C /repo worktree remove --force $WT
tail -5 /verif/seeded/$NAME/check_output.txt
