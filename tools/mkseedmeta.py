#!/usr/bin/env python3
"""Writes seeded/<name>/meta.json for every seeded change from the hand-written table below plus what the runs recorded
(check_output.txt = tools/seedtest.sh, confirm.txt = tools/seedconfirm.sh).  Existing hand-written meta.json files of the
first seeds are kept (only the 'confirmed'/'detected' fields are refreshed when the logs exist)."""
import json
import os
import re

ROOT = os.path.dirname(os.path.dirname(os.path.abspath(__file__)))
SEEDS = os.path.join(ROOT, "seeded")

# name -> (property, change, needs, strengthening made because of this seed or "")
TABLE = {
    "C03-1": ("C03", "RefineVisitor::bvisit(Log) merges the log(b**e) and perfect-power branches and builds the inner logarithm with make_rcp<const Log>(base) instead of log(base)",
              "refine()/simplify() of log(b**e) with b provably positive and e real where b is E, a Rational or an inexact number (log() would evaluate or split it): refine(log(exp(2))) = 2*Log(E)", ""),
    "C04-1": ("C04", "and_or<caller> splices the container of a nested And/Or without checking the spliced members against x/Not(x) pairs (complement test folded into the insertion loop)",
              "an operand and its complement in DIFFERENT nested groups of the same operator: and({and({a,b}), and({!a,c})}) = And(a,b,c,!a) while the flat call gives False", ""),
    "C07-1": ("C07", "Complex::powcomp reduces the exponent with integer_class % 4 (truncating) instead of the floored mod_f",
              "a purely imaginary exact Complex base (I, 2*I, the I coefficient of I*x) raised to a NEGATIVE integer congruent to 1 or 2 mod 4 (-2, -3, -6, -7): pow(I*x, -2) = -I/x**2", ""),
    "C08-1": ("C08", "lowergamma: the term x**(s-1)*exp(-x) hoisted out of both recursion branches, the downward branch needs x**s",
              "s a NEGATIVE half-integer (-1/2, -3/2, ...) and x != 1", "MISSED by the first run: the generator drew the first argument of lowergamma/uppergamma from a pool of 38 numbers, so the downward recursion (negative half-integer s) was almost never exercised. Strengthened: checks/C08.py draws s from integers and half-integers of both signs for the incomplete gamma functions and the corpus holds lowergamma(-1/2, x), lowergamma(-3/2, 2), lowergamma(-5/2, 1/3), uppergamma(-1/2, x), ..."),
    "C09-1": ("C09", "ExpandVisitor::pow_expand inserts a bare Symbol factor with std::map::insert (keeps an existing exponent) instead of Mul::dict_add_term",
              "(sum)**n with n >= 3 where the sum contains a bare symbol AND another term with the same symbol (x**2, x*y, 1/x) that is visited first in the hash-ordered dictionary: expand((x**2 + x)**3)", ""),
    "C10-1": ("C10", "DiffVisitor::bvisit(Subs) differentiates the body when it mentions x (has_symbol) instead of when x is not one of the substituted variables",
              "a Subs object whose substituted variable is the differentiation variable and also occurs in the body: Subs(Derivative(f(x,2y),x),{x:y}) differentiated by x (only built by Derivative::subs or Subs::create)", ""),
    "C11-1": ("C11", "XReplaceVisitor::bvisit(Add) looks a whole term c*t up in `visited` (seeded from subs_dict only when cache == true) instead of subs_dict_",
              "cache == false, a substitution key with a numeric coefficient other than 1 (2*x*y, 3*x) occurring as a summand of an Add", ""),
    "C15-1": ("C15", "CodePrinter::print_scalar_literal prints Float/Half literals with numeric_limits<float>::digits10 = 6 significant digits (max_digits10 = 9 is needed)",
              "ccode(e, CodePrinterPrecision::Float) with a constant of more than 6 significant digits (Integer 16777215, 1234.5625)", ""),
    "C16-1": ("C16", "Parser::parse_numeric decides that a literal fits into long from its digit count (<= 19) instead of errno == ERANGE",
              "an integer literal with 19 digits above LONG_MAX, i.e. |n| in [2^63, 10^19 - 1]: strtol saturates silently", ""),
    "C18-1": ("C18", "SbmlParser::parse_identifier memoises symbols in local_parser_constants keyed by the LOWERCASED name",
              "a reused SbmlParser: an earlier input (even one that fails to parse) with a mixed-case identifier (S, Km), a later input with the all-lowercase spelling (s, km)", "MISSED by the first run: every identifier of the SBML token soup was lower case, so the case-insensitive lookup of SbmlParser was never exercised with two spellings of one name. Strengthened: checks/C18.py SBML tokens now include mixed-case/lower-case pairs (S/s, Km/km, Vmax/vmax, Pi/PI/pi, TIME/time) and two corpus histories (the first contains an input that fails to parse)"),
    "C26-1": ("C26", "matrix_mul flattening a nested MatrixMul REPLACES the accumulated scalar by the inner scalar when that is not 1",
              "a nested product that carries a coefficient other than 1 AND a non-trivial coefficient accumulated before it: 3*(2*D) = 2*D, (3*A)*(2*B) = 2*(A*B)", ""),
    "C30-1": ("C30", "solve_poly_quartic: `aby4 = a/4` renamed to `shift = -a/4`, one use in the g == 0 branch converted to sub(r, shift) instead of add(r, shift)",
              "a quartic with non-zero x**3 coefficient and constant term whose depressed form has zero constant term (the mean of the roots, -a/4, is a root): (x-1)(x-2)**2(x+1)", ""),
    "C31-1": ("C31", "series_sinh/series_cosh pass s instead of s - c to series_exp although the c != 0 branch recombines with the addition formula",
              "a sinh/cosh whose argument has a NON-ZERO constant term at the expansion point (sinh(x+1), cosh(cos(x)))", ""),
    "C32-1": ("C32", "_sqrt_mod_prime brute-force search shortened to i < p/2 (skips i = (p-1)/2); _nthroot_mod1 ignores the return value",
              "a prime p = 1 (mod 8), p < 10000, n with gcd(n, p-1) = 2, and a = 1/4 (mod p) (roots exactly +-(p-1)/2): nthroot_mod(13, 2, 17) = 0", ""),
    "C34-1": ("C34", "IntegerVisitor::bvisit(Mul) walks the dictionary and accepts base**exp when exp is an integer NOT KNOWN to be negative (should be known non-negative)",
              "a product with a factor x**y, x and y assumed integer with no sign information on y: is_integer(x**y*z) = true (x=2, y=-1, z=3 gives 3/2)", ""),
    "C35-1": ("C35", "SimplifyVisitor::simplify_pow rewrites csc/sec/cot to a NEGATIVE numeric power (was: exactly -1) as sin/cos/tan to the positive power",
              "a negative NON-INTEGER exponent (-1/2, -3/2) on csc/sec/cot and a point where the matching sin/cos/tan is negative (branch cut: the value flips to its conjugate)", ""),
    "C36-1": ("C36", "RealImagVisitor::bvisit(Pow) integer-exponent branches merged: |z|^2 is computed AFTER pow_number overwrote real_/imag_",
              "as_real_imag of a Pow with integer exponent <= -2 whose base has a non-zero imaginary part and is not a plain Complex number (sqrt(2)+I, sin(2+I))", ""),
    "C42-1": ("C42", "mapbasicbasic_insert uses std::map::insert (does not overwrite) instead of operator[] assignment",
              "two mapbasicbasic_insert calls with structurally equal keys and different values, followed by mapbasicbasic_get or basic_subs", ""),
    "C43-1": ("C43", "mp_boost.cpp mp_fdiv_qr/mp_cdiv_qr copy only the dividend; the post-division fix-up reads the divisor b after the division",
              "the Boost.Multiprecision build and a call where the REMAINDER aliases the DIVISOR (mp_fdiv_r(t, a, t) in _nthroot_mod_prime_power): nthroot_mod(-7, 2, 16)", ""),
    "C44-1": ("C44", "MathML xml_escape rewritten in place and resumes the search at pos + 5 (length of &amp;) after every replacement (&lt; &gt; have 4)",
              "a Symbol/FunctionSymbol name with < or > IMMEDIATELY followed by < or & (n<<2, x<&y): the second character is written raw", "MISSED by the first run: the odd symbol names contained at most one XML special character. Strengthened: checks/C44.py ODD_SYMS now has names with several special characters, adjacent and apart (n<<2, x<&y, k>&m, f><g, <<<<, &&, a<b<c, &lt;), also as function names"),
    "C40-1": ("C40", "RCP<T>::operator=(const RCP<T>&) rewritten as `if (ptr_ != r.ptr_) { reset(); ptr_ = r.ptr_; ++refcount }`: the target is released BEFORE the source is read",
              "the assigned handle is the sole owner of a node and the right-hand side is a const reference to a handle stored INSIDE that node (e = FunctionSymbol(*e).get_vec()[0], e = Mul(*e).get_dict().begin()->first): read of freed memory, then a double free", "MISSED by the first run: handle programs assigned only from handle variables and temporaries, never from a handle that lives INSIDE the object the target owns. Strengthened: new driver op `km i j k` (v[i] = FunctionSymbol(*v[j]).get_vec()[k] through the getter's const reference, mostly with i == j), predicted by the model as OApi i [] (Old member); generated with probability 0.08 per step plus two corpus programs"),
    "C05-1": ("C05", "Complex::powcomp reduces the exponent with C++ `other.as_int() % 4` instead of the floored mod_f(other, 4)",
              "a NEGATIVE integer exponent not divisible by 4 on a pure-imaginary Gaussian rational (C++ % truncates towards zero, "
              "so rem is negative and falls into the wrong branch); positive exponents are unaffected", ""),
    "C06-1": ("C06", "RealDouble::is_negative() returns std::signbit(i) instead of i < 0",
              "a double negative zero (-0.0) as an operand of the extended-number rules (oo * -0.0, -0.0 compared with 0, sign-dependent "
              "branches of Infty arithmetic)", ""),
    "C12-1": ("C12", "eval_double converts a Rational with mp_get_d(num) / mp_get_d(den) instead of mpq_get_d (double rounding)",
              "a rational whose numerator or denominator does not fit in 53 bits (both conversions round, the quotient is then off by "
              "more than the claimed bound / differs between evaluators)", ""),
    "C13-1": ("C13", "OptsCSEVisitor::bvisit(Mul) inserts the negated product into `muls` even when it is no longer a Mul",
              "cse=true, an output containing a negated power (-x**2, -x**y) next to a product that contains both the base and the "
              "exponent as factors (2*x*z): match_common_args then treats the Pow as a product of base and exponent",
              "MISSED by the first run (the random expression generator of C13 almost never produced a negated power next to a product "
              "sharing base and exponent). Strengthened: checks/evalcommon.py gen_cse_history (algebraic outputs with shared factors, "
              "negated/negative powers, cse on then off on the same points), n/2 such histories per run"),
    "C17-1": ("C17", "parser.yy/parser.tab.cc: unary minus/plus given a different precedence relative to * / ** and implicit multiplication",
              "a string that mixes a unary sign with `/`, `**` or implicit multiplication (e.g. `a/+12.125pix/...`)", ""),
    "C19-1": ("C19", "RCPBasicAwareOutputArchive de-duplicates serialized nodes by VALUE (uset_basic) instead of by address",
              "two subexpressions that are eq() but not bit-identical, i.e. doubles 0.0 and -0.0 (eq since the C01 fix) in one expression or "
              "matrix: the second is written as a back-reference to the first and loses its sign bit", ""),
    "C20-1": ("C20", "load_basic(Rational) builds the value with rational_class(num, den) + from_mpq instead of Rational::from_two_ints",
              "a byte string whose denominator field is 0 (or negative / non-canonical): from_two_ints throws, the direct construction "
              "divides by zero (SIGFPE) or yields a non-canonical Rational", ""),
    "C22-1": ("C22", "MSymEnginePoly translation vector built in map order (`trans.push_back(p.second)`) instead of inverted (`trans[p.second] = i`)",
              "three or more generators passed in an order whose permutation is not an involution (a 3-cycle); with two generators or a "
              "swap the permutation equals its inverse", ""),
    "C23-1": ("C23", "GaloisFieldDict::gf_div takes the early exit when dict_.size() <= o.dict_.size() (was: dividend empty / degree smaller)",
              "dividend and divisor of EQUAL degree (quotient is a non-zero constant)", ""),
    "C24-1": ("C24", "mul_dense_dense accumulates each row in a scratch row and stores it directly into C, dropping the temporary used when C aliases A or B",
              "the result matrix being the RIGHT operand (mul_dense_dense(A, B, B), A.mul_matrix(B, B)) with at least two rows: rows of B "
              "are overwritten while still needed",
              "MISSED by the first run (the driver only multiplied into a fresh matrix). Strengthened: harness/c24_driver.cpp now repeats "
              "add/emul/mul with the result aliased to each operand (and X*X into X) and compares with the fresh result"),
    "C27-1": ("C27", "Interval::set_complement decides disjointness from the end points only (eq(min(end, o.start), end) ...) instead of an empty intersection",
              "two intervals that touch in one point with closed ends on both sides ([0,1] and [1,2]): the end-point test calls them "
              "disjoint although they share the point 1", ""),
    "C28-1": ("C28", "logical_and over Contains(x, FiniteSet) and a rest condition: `symexists` is overwritten per element instead of accumulated",
              "a FiniteSet with at least two surviving elements where the rest condition is undecided for an EARLIER element and true for the LAST one", ""),
    "C29-1": ("C29", "RealDouble::is_negative() returns std::signbit(i) instead of i < 0",
              "a comparison whose difference is the double -0.0 (Lt(1.0, 1) computes 1 - 1.0 ... with a negative zero, -0.0 vs 0)", ""),
    "C37-1": ("C37", "tree_cse treats Symbols as atoms in find_repeated and records excluded symbols only for symbols that are ARGUMENTS of a visited node",
              "an output that is a bare symbol named like a generated replacement symbol (x0/x1) - e.g. a state-space system whose first "
              "output is the state x1: the name is not excluded and is reused for a replacement", ""),
    "C38-1": ("C38", "generate_fdiff_weights_vector forms c1/c2 once per grid point and moves `c2 = c2*c3` after the inner update",
              "a grid of three or more points (the stale c2 only matters from the third point on) and exact rational arithmetic", ""),
    "C39-1": ("C39", "FreeSymbolsVisitor::bvisit(Subs) re-uses the visitor (and its visited-node cache) for the inner expression",
              "an expression in which a subexpression occurs both OUTSIDE a Subs/Derivative (already visited, cached) and inside it, "
              "or the bound variable also occurs free outside", ""),
    "C46-1": ("C46", "homogeneous_lde leaves the row loop with `break` (instead of skipping the term) when a matrix coefficient is zero",
              "a system with a ZERO coefficient in a row that is followed by further non-zero coefficients/rows", ""),
}


def summarize_check(path):
    if not os.path.exists(path):
        return None, "not run"
    txt = open(path, errors="replace").read()
    vio = [l for l in txt.splitlines() if l.lstrip().startswith("VIOLATION")]
    rc = re.findall(r"^exit=(\d+)", txt, re.M)
    if vio:
        lines = txt.splitlines()
        i = next(k for k, l in enumerate(lines) if l.lstrip().startswith("VIOLATION"))
        detail = " ".join(l.strip() for l in lines[i:i + 3])[:700]
        return True, "%d VIOLATION line(s), exit=%s; first: %s" % (len(vio), rc[-1] if rc else "?", detail)
    return False, "no VIOLATION line, exit=%s" % (rc[-1] if rc else "?")


def main():
    for name in sorted(os.listdir(SEEDS)):
        d = os.path.join(SEEDS, name)
        if not os.path.isdir(d):
            continue
        mp = os.path.join(d, "meta.json")
        meta = json.load(open(mp)) if os.path.exists(mp) else {}
        if name in TABLE:
            prop, change, needs, strengthening = TABLE[name]
            meta.update({"property": prop, "source": "independent sub-agent given only the property text and a scratch worktree (seed-%s)" % name.lower(),
                         "change": change, "needs": needs})
            if strengthening:
                meta["strengthening"] = strengthening
        det, how = summarize_check(os.path.join(d, "check_output.txt"))
        if det is not None:
            meta["detected"] = "yes" if det else "NO"
            meta["check_result"] = how
        meta.setdefault("ran", "tools/seedtest.sh %s %s (scratch worktree of /repo HEAD + patch, private library build, quick tier)" % (meta.get("property", "?"), name))
        cp = os.path.join(d, "confirm.txt")
        if os.path.exists(cp):
            c = open(cp, errors="replace").read()
            ok = "\nCONFIRMED" in c
            tests = re.findall(r"\d+% tests passed, \d+ tests failed out of \d+", c)
            meta["confirmed"] = ("%s by tools/seedconfirm.sh: %s; %s; %s" % (
                "yes" if ok else "NO", "; ".join(re.findall(r"(?:unpatched|patched): demo exit=\d+", c)), tests[-1] if tests else "test suite: ?",
                c.splitlines()[0] if c else ""))
        json.dump(meta, open(mp, "w"), indent=1)
        print(name, meta.get("detected"), (meta.get("confirmed") or "")[:60])


if __name__ == "__main__":
    main()
