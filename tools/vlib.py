"""Framework shared by all property checks (DESIGN.md section 5).

A check module (checks/Cxx.py) defines `run(ctx)`.  It uses the helpers here to
  1. rebuild the library from /repo's working tree and the C++ driver,
  2. (re)generate translated Coq files,
  3. compile the proof obligations (one small P_*.v file per property theorem),
  4. build the extracted OCaml model and run model and implementation on the same cases,
  5. evaluate the property oracle on the implementation's outputs,
  6. report: exit 0, or exit 1 with VIOLATION lines; KNOWN-FINDING lines for listed findings,
  7. write evidence/<id>.json.
"""
import fcntl
import hashlib
import json
import os
import random
import re
import subprocess
import sys
import time
from concurrent.futures import ThreadPoolExecutor

ROOT = os.path.dirname(os.path.dirname(os.path.abspath(__file__)))
REPO = os.environ.get("VERIF_REPO", "/repo")
WORK = os.path.join(ROOT, ".work")
COQ = os.path.join(ROOT, "coq")
DEFAULT_SEED = 20260922
# a scratch copy of the repository (mutation testing) gets its own build and driver directories
TAG = "" if REPO == "/repo" else "-" + hashlib.md5(REPO.encode()).hexdigest()[:8]

FORBIDDEN = re.compile(
    r"\b(Admitted|admit|Axiom|Axioms|Parameter|Parameters|Conjecture|Admit Obligations)\b"
    r"|Unset Guard Checking|Unset Positivity Checking|Unset Universe Checking|bypass_check|type-in-type|impredicative-set"
)

TRUSTED_COMMON = [
    "Coq 8.16.1 kernel (coqc); vm_compute used for reflection on finite domains and for refutation witnesses; native_compute not used",
    "extraction: ExtrOcamlBasic only (Extract Inductive bool/option/unit/list/prod/sumbool/sumor, Extract Inlined Constant andb/orb/negb/fst/snd), OCaml 4.13.1 compiler, the per-family main.ml reader/printer",
    "the C++ correspondence driver and the python orchestration (tools/vlib.py, checks/*.py)",
    "g++ 12 / libstdc++ (built with -D_GLIBCXX_ASSERTIONS so out-of-range container accesses abort observably)",
]


def sh(cmd, cwd=None, timeout=None, inp=None, env=None, drop_stderr=False):
    """Run a command; return (rc, stdout+stderr)."""
    try:
        p = subprocess.run(
            cmd, cwd=cwd, timeout=timeout, input=inp, env=env,
            stdout=subprocess.PIPE, stderr=(subprocess.DEVNULL if drop_stderr else subprocess.STDOUT), text=True,
            errors="replace",
            shell=isinstance(cmd, str),
        )
        return p.returncode, p.stdout
    except subprocess.TimeoutExpired as e:
        out = e.stdout if isinstance(e.stdout, str) else (e.stdout or b"").decode("utf-8", "replace")
        return 124, (out or "") + "\n[timeout]"


class Lock:
    def __init__(self, path):
        os.makedirs(os.path.dirname(path), exist_ok=True)
        self.f = open(path, "w")

    def __enter__(self):
        fcntl.flock(self.f, fcntl.LOCK_EX)
        return self

    def __exit__(self, *a):
        fcntl.flock(self.f, fcntl.LOCK_UN)
        self.f.close()


class Ctx:
    def __init__(self, pid, tier, seed):
        self.pid = pid
        self.tier = tier
        self.seed = seed
        self.t0 = time.time()
        self.rng = random.Random((seed * 1000003) ^ int(hashlib.sha1(pid.encode()).hexdigest()[:8], 16))
        self.violations = []       # dicts: key, what, replay
        self.broken = []           # dicts: kind ('proof'|'correspondence'|'translator'|'gate'), name, detail
        self.notes = []
        self.cov = {
            "obligations": 0, "discharged": 0, "checker_cmd": "", "trusted_base": list(TRUSTED_COMMON),
            "evaluations": 0, "distinct_nontrivial": 0, "rule": "", "samples": [],
            "traces_validated_against_impl": 0,
        }
        self.assumptions = []
        self.obligation_details = []
        os.makedirs(WORK, exist_ok=True)

    # ---------------------------------------------------------------- builds
    def build_lib(self, cfg="rel"):
        rc, out = sh([os.path.join(ROOT, "tools", "buildlib.sh"), cfg], timeout=3600)
        if rc != 0:
            print("ERROR: building %s (%s) failed:\n%s" % (REPO, cfg, out[-4000:]))
            sys.exit(2)
        return out.strip().splitlines()[-1]

    def build_driver(self, name, cfg="rel", extra=None, std="c++11"):
        """Compile harness/<name>.cpp against the rebuilt library."""
        b = self.build_lib(cfg)
        src = os.path.join(ROOT, "harness", name + ".cpp")
        exe = os.path.join(WORK, "bin", "%s-%s%s" % (name, cfg, TAG))
        os.makedirs(os.path.dirname(exe), exist_ok=True)
        lib = os.path.join(b, "symengine", "libsymengine.a")
        deps = [src, lib, os.path.join(ROOT, "harness", "common.h"), os.path.join(ROOT, "harness", "dump.h")]
        with Lock(exe + ".lock"):
            if os.path.exists(exe) and all(
                (not os.path.exists(d)) or os.path.getmtime(d) <= os.path.getmtime(exe) for d in deps
            ):
                return exe
            flags = ["-O1", "-D_GLIBCXX_ASSERTIONS", "-DSYMENGINE_VERIF"]
            libs = ["-lgmp"]
            if cfg == "asan":
                flags += ["-g", "-fsanitize=address,undefined", "-fno-sanitize-recover=undefined"]
            if cfg == "ts":
                flags += ["-g", "-fsanitize=thread", "-pthread"]
            if cfg == "boost":
                flags = ["-O1", "-DSYMENGINE_VERIF"]
                libs = []
            if cfg == "mpfr":
                libs = ["-lmpfr", "-lgmp"]
            if cfg == "llvm":
                flags = ["-O1", "-DSYMENGINE_VERIF"]
                rc_, out_ = sh("/usr/lib/llvm-14/bin/llvm-config --ldflags --libs --system-libs")
                libs = ["-lgmp"] + out_.split()
                std = "c++14"
            cmd = ["g++", "-std=" + std, "-w"] + flags + (extra or []) + [
                "-I" + REPO, "-I" + b, "-I" + os.path.join(ROOT, "harness"), src, lib] + libs + ["-o", exe + ".tmp"]
            rc, out = sh(cmd, timeout=1200)
            if rc != 0:
                # a driver that no longer compiles against the current tree = broken tie
                self.broken.append({"kind": "correspondence", "name": "driver " + name,
                                    "detail": "driver does not compile against the current tree:\n" + out[-3000:]})
                return None
            os.replace(exe + ".tmp", exe)
        return exe

    def coq_makefile(self):
        mk = os.path.join(COQ, "Makefile")
        proj = os.path.join(COQ, "_CoqProject")
        if not os.path.exists(mk) or os.path.getmtime(mk) < os.path.getmtime(proj):
            rc, out = sh(["coq_makefile", "-f", "_CoqProject", "-o", "Makefile"], cwd=COQ)
            if rc != 0:
                print("ERROR: coq_makefile failed\n" + out)
                sys.exit(2)

    def coq_make(self, targets, timeout=2400):
        """make -k the given .vo targets (full .vo build). Returns (all_ok, log)."""
        if not targets:
            return True, ""
        with Lock(os.path.join(WORK, "coq.lock")):
            self.coq_makefile()
            rc, out = sh(["timeout", str(timeout), "make", "-k", "-j16"] + targets, cwd=COQ, timeout=timeout + 30)
        return rc == 0, out

    def gate(self, dirs):
        """No Admitted/admit/Axiom/... anywhere in the given coq sub-directories."""
        bad = []
        for d in dirs:
            for dp, _, fs in os.walk(os.path.join(COQ, d)):
                for f in fs:
                    if not f.endswith(".v"):
                        continue
                    p = os.path.join(dp, f)
                    txt = open(p, encoding="utf-8", errors="replace").read()
                    txt = strip_coq_comments(txt)
                    for m in FORBIDDEN.finditer(txt):
                        bad.append("%s: %s" % (os.path.relpath(p, COQ), m.group(0)))
        if bad:
            self.broken.append({"kind": "gate", "name": "forbidden-construct", "detail": "\n".join(bad[:20])})
        return not bad

    def prove(self, proof_modules, prop_files, timeout=2400):
        """Build the proof modules with make, then compile every obligation file
        (coq/<dir>/P_*.v: statement, `exact lemma`, Print Assumptions) with coqc.
        Records obligations/discharged and the axioms each theorem depends on."""
        ok, log = self.coq_make(proof_modules, timeout=timeout)
        results = {}

        def one(pf):
            rc, out = sh(["timeout", "600", "coqc", "-Q", ".", "SE", "-w", "-notation-overridden", pf], cwd=COQ, timeout=630)
            return pf, rc, out

        # obligation files are compiled without the global lock (each writes only its own .vo)
        with ThreadPoolExecutor(max_workers=8) as ex:
            for pf, rc, out in ex.map(one, prop_files):
                results[pf] = (rc, out)
        n_ok = 0
        axioms = set()
        for pf in prop_files:
            rc, out = results[pf]
            ax = parse_assumptions(out)
            det = {"obligation": pf, "ok": rc == 0, "axioms": ax}
            if rc == 0:
                n_ok += 1
                axioms.update(ax)
            else:
                tail = out[-1500:]
                if not ok:
                    tail += "\n--- make log tail ---\n" + log[-2500:]
                det["error"] = tail
                self.broken.append({"kind": "proof", "name": pf, "detail": tail})
            self.obligation_details.append(det)
        self.cov["obligations"] += len(prop_files)
        self.cov["discharged"] += n_ok
        self.cov["checker_cmd"] = "cd coq && coq_makefile -f _CoqProject -o Makefile && make -k -j16 %s && coqc -Q . SE <each of: %s>" % (
            " ".join(proof_modules), " ".join(prop_files))
        if axioms:
            self.cov["trusted_base"].append("axioms reported by Print Assumptions under the property theorems (all from the Coq standard library / installed libraries, none declared here): " + ", ".join(sorted(axioms)))
        else:
            self.cov["trusted_base"].append("Print Assumptions: every property theorem of this check is closed under the global context (no axioms)")
        return n_ok == len(prop_files)

    def build_model(self, fam, extract_v, main_ml, modname, extra_ml=()):
        """Extract coq/<extract_v> (ExtrOcamlBasic) into .work/extract/<fam>/ and link with ocaml/<main_ml>."""
        d = os.path.join(WORK, "extract", fam)
        os.makedirs(d, exist_ok=True)
        exe = os.path.join(d, "model")
        ev = os.path.join(COQ, extract_v)
        mm = os.path.join(ROOT, "ocaml", main_ml)
        with Lock(os.path.join(d, ".lock")):
            # dependencies of the extraction file must be compiled
            deps = coq_deps(ev)
            ok, log = True, ""
            if deps:
                ok, log = self.coq_make(deps)
            if not ok:
                self.broken.append({"kind": "correspondence", "name": "model " + fam,
                                    "detail": "model does not compile:\n" + log[-3000:]})
                return None
            srcs = [ev, mm] + [os.path.join(COQ, x) for x in deps] + [os.path.join(ROOT, "ocaml", x) for x in extra_ml]
            if os.path.exists(exe) and all(os.path.getmtime(s) <= os.path.getmtime(exe) for s in srcs if os.path.exists(s)):
                return exe
            rc, out = sh(["coqc", "-Q", COQ, "SE", "-w", "-notation-overridden,-extraction-opaque-accessed,-extraction-reserved-identifier", "-o", os.path.join(d, "Extract.vo"), ev], cwd=d, timeout=900)
            if rc != 0:
                self.broken.append({"kind": "correspondence", "name": "extract " + fam, "detail": out[-3000:]})
                return None
            sh(["cp", mm, os.path.join(d, "main.ml")])
            for x in extra_ml:
                sh(["cp", os.path.join(ROOT, "ocaml", x), os.path.join(d, x)])
            rc, out = sh(["ocamlfind", "ocamlopt", "-O3", "-w", "-a", modname + ".mli", modname + ".ml"] + list(extra_ml) + ["main.ml", "-o", "model.tmp"], cwd=d, timeout=900)
            if rc != 0:
                self.broken.append({"kind": "correspondence", "name": "ocaml " + fam, "detail": out[-3000:]})
                return None
            os.replace(os.path.join(d, "model.tmp"), exe)
        return exe

    # ---------------------------------------------------------------- running
    def run_lines(self, exe, lines, timeout=1800, shards=8):
        """Feed `lines` to exe (one case per line), return one output line per case.
        Sharded over several processes."""
        if not lines:
            return []
        n = max(1, min(shards, len(lines) // 8 or 1))
        chunks = [lines[i::n] for i in range(n)]

        def one(chunk):
            rc, out = sh([exe], inp="\n".join(chunk) + "\n", timeout=timeout, drop_stderr=True)
            res = out.split("\n")
            if res and res[-1] == "":
                res.pop()
            if len(res) < len(chunk):
                res += ["NOOUTPUT(rc=%d)" % rc] * (len(chunk) - len(res))
            return res[:len(chunk)]

        with ThreadPoolExecutor(max_workers=n) as ex:
            outs = list(ex.map(one, chunks))
        res = [None] * len(lines)
        for k, o in enumerate(outs):
            for j, v in enumerate(o):
                res[k + j * n] = v
        return res

    # ---------------------------------------------------------------- verdict
    def violation(self, key, what, replay):
        self.violations.append({"key": key, "what": what, "replay": replay})

    def finish(self):
        known = load_known(self.pid)
        rc = 0
        os.makedirs(os.path.join(ROOT, "replays"), exist_ok=True)
        printed_known = set()
        nviol = 0
        seen_keys = set()
        for v in self.violations:
            if v["key"] in known:
                if v["key"] not in printed_known:
                    printed_known.add(v["key"])
                    print("KNOWN-FINDING: property=%s %s [%s]" % (self.pid, known[v["key"]], v["key"]))
                continue
            if v["key"] in seen_keys:
                continue
            seen_keys.add(v["key"])
            nviol += 1
            path = os.path.join(ROOT, "replays", "%s-%s.json" % (self.pid, safe(v["key"])))
            with open(path, "w") as f:
                json.dump({"property": self.pid, "key": v["key"], "what": v["what"], "replay": v["replay"],
                           "rerun": "tools/check %s --replay %s" % (self.pid, path),
                           "seed": self.seed, "tier": self.tier}, f, indent=1)
            print("VIOLATION property=%s replay=%s" % (self.pid, path))
            print("  " + v["what"][:600])
            rc = 1
        if self.broken:
            # a proof obligation or the tie no longer checks and the search gave no
            # *new* concrete failing input: still a violation (property no longer shown)
            if nviol == 0:
                path = os.path.join(ROOT, "replays", "%s-broken.json" % self.pid)
                with open(path, "w") as f:
                    json.dump({"property": self.pid, "no_failing_input_found": True, "broken": self.broken,
                               "seed": self.seed, "tier": self.tier}, f, indent=1)
                names = ", ".join("%s:%s" % (b["kind"], b["name"]) for b in self.broken[:6])
                print("  no longer checks: " + names)
                print("VIOLATION property=%s replay=%s no-failing-input-found" % (self.pid, path))
                nviol += 1
            else:
                for b in self.broken[:6]:
                    print("  also no longer checks: %s:%s" % (b["kind"], b["name"]))
            rc = 1
        self.write_evidence(nviol)
        if rc == 0:
            print("OK property=%s tier=%s obligations=%d/%d evaluations=%d wall=%.1fs" % (
                self.pid, self.tier, self.cov["discharged"], self.cov["obligations"], self.cov["evaluations"], time.time() - self.t0))
        sys.exit(rc)

    def write_evidence(self, nviol):
        cov = dict(self.cov)
        cov["samples"] = cov["samples"][:12]
        cov["obligation_details"] = [
            {k: (v if k != "error" else v[-400:]) for k, v in d.items()} for d in self.obligation_details]
        if self.notes:
            cov["notes"] = self.notes
        ev = {
            "property_id": self.pid, "tier": self.tier, "seed": self.seed, "level": "proof",
            "coverage": cov, "assumptions": self.assumptions,
            "wall_s": round(time.time() - self.t0, 2), "violations": nviol,
        }
        # evidence/ describes runs against /repo itself; a run against a scratch copy (VERIF_REPO: seeded/mutation experiments)
        # writes its evidence under .work/ so that it never replaces the committed one
        evdir = os.path.join(ROOT, "evidence") if REPO == "/repo" else os.path.join(WORK, "evidence-scratch")
        os.makedirs(evdir, exist_ok=True)
        with open(os.path.join(evdir, self.pid + ".json"), "w") as f:
            json.dump(ev, f, indent=1)
            f.write("\n")


def safe(s):
    return re.sub(r"[^A-Za-z0-9_.-]+", "_", s)[:80]


def strip_coq_comments(txt):
    out = []
    depth = 0
    i = 0
    n = len(txt)
    while i < n:
        if txt.startswith("(*", i):
            depth += 1
            i += 2
        elif txt.startswith("*)", i) and depth > 0:
            depth -= 1
            i += 2
        else:
            if depth == 0:
                out.append(txt[i])
            i += 1
    return "".join(out)


def parse_assumptions(out):
    """Axiom names printed by Print Assumptions in a coqc output (an entry is a line starting in
    column 0 with a qualified name; its type may continue on indented lines)."""
    ax = []
    if "Axioms:" in out:
        for blk in out.split("Axioms:")[1:]:
            for line in blk.splitlines():
                if line.startswith("Closed under"):
                    break
                m = re.match(r"^([A-Za-z_][A-Za-z0-9_.']*)\s*(:|$)", line)
                if m:
                    ax.append(m.group(1))
    return sorted(set(ax))


def coq_deps(vfile):
    """.vo files of the SE modules a .v file Requires (direct; make resolves the rest)."""
    txt = strip_coq_comments(open(vfile).read())
    deps = []
    for m in re.finditer(r"From\s+SE\s+Require\s+(?:Import\s+|Export\s+)?(.*?)\.(?=\s|$)", txt, re.S):
        for mod in m.group(1).split():
            deps.append(mod.replace(".", "/") + ".vo")
    return deps


def load_known(pid):
    known = {}
    p = os.path.join(ROOT, "known_findings.txt")
    if os.path.exists(p):
        for line in open(p):
            m = re.match(r"^finding:\s+property=(\S+)\s+key=(\S+)\s+::\s*(.*)$", line.strip())
            if m and m.group(1) == pid:
                known[m.group(2)] = m.group(3)
    return known


def in_project(vfile):
    """is coq/<vfile> listed in coq/_CoqProject (then `make` builds it; no private coqc loop needed)"""
    try:
        return vfile in open(os.path.join(COQ, "_CoqProject")).read().split()
    except OSError:
        return False


def diff_lines(cases, a, b):
    """Indices where model and implementation lines differ."""
    return [i for i in range(len(cases)) if a[i] != b[i]]
