"""C39 -- structural queries are accurate (free_symbols, has_symbol, function_symbols, atoms, coeff).
Model: coq/C39/QueryModel.v (get_args of every modelled class, FreeSymbolsVisitor with its memo set
and its Subs case, HasSymbolVisitor, AtomsVisitor), coq/C39/CoeffModel.v (CoeffVisitor with
Add::coef_dict_add_term / from_dict).  Theorems: coq/C39/P_*.v.
Tie: recipes of public API calls -> driver prints the dump of the input and the library's answers
(sets in container order, coefficients with Add dictionaries sorted) -> the extracted model reads
the dumps and recomputes every answer; texts must be identical.  The driver also evaluates the
property oracles on the library's answers alone (harness/c39_driver.cpp)."""
import os
import vlib
from checks import exprcommon as X

PROOF_MODULES = ["C39/FsSpec.vo", "C39/HasSym.vo", "C39/AtomsComplete.vo", "C39/CoeffProofs.vo", "C39/QueryLemmas.vo"]
OBLIGATIONS = [
    "C39/P_free_symbols_spec_guarded.v", "C39/P_free_symbols_code_spec.v", "C39/P_free_symbols_sound.v",
    "C39/P_free_symbols_terminates.v", "C39/P_free_symbols_refuted.v", "C39/P_eq_preserves_occurrences.v",
    "C39/P_has_symbol_spec.v", "C39/P_has_symbol_occurs.v", "C39/P_has_symbol_agrees_guarded.v",
    "C39/P_has_symbol_agrees_refuted.v",
    "C39/P_atoms_sound.v", "C39/P_atoms_complete.v", "C39/P_atoms_complete_exact.v", "C39/P_function_symbols_spec.v",
    "C39/P_coeff_spec.v", "C39/P_coeff_reconstruct_partial.v", "C39/P_coeff_requires_symbol.v",
    "C39/P_nonvacuous.v",
]
# C39's own Coq files in dependency order (until they are listed in coq/_CoqProject they are
# compiled here, directly with coqc, whenever a source or a shared library they load has changed)
OWN_FILES = ["C39/QueryModel.v", "C39/CoeffModel.v", "C39/QuerySpec.v", "C39/OccProofs.v", "C39/QueryLemmas.v",
             "C39/OccArgs.v", "C39/FsSound.v", "C39/EqbTransfer.v", "C39/ArgsDown.v", "C39/FsComplete.v",
             "C39/FsSpec.v", "C39/HasSym.v", "C39/Atoms.v", "C39/AtomsCong.v", "C39/AtomsArgs.v",
             "C39/AtomsComplete.v", "C39/CoeffProofs.v"]
SHARED_DEPS = ["Base/Prelude.vo", "Base/Word64.vo", "Num/NumDefs.vo", "Num/NumModel.vo", "Gen/TypeCodes.vo",
               "Expr/ExprDefs.vo", "Expr/Hash.vo", "Expr/Cmp.vo", "Expr/Guards.vo", "Expr/Wf.vo", "Expr/NumProofs.vo",
               "Expr/Unfold.vo", "Expr/IO.vo"]


def build_own(ctx):
    """compile coq/C39/*.v (model, spec, proofs) when stale; a file that no longer compiles is a broken proof"""
    coq = vlib.COQ
    with vlib.Lock(os.path.join(vlib.WORK, "c39-coq.lock")):
        newest = max((os.path.getmtime(os.path.join(coq, d)) for d in SHARED_DEPS if os.path.exists(os.path.join(coq, d))), default=0)
        for f in OWN_FILES:
            src = os.path.join(coq, f)
            vo = src + "o"
            newest = max(newest, os.path.getmtime(src))
            if os.path.exists(vo) and os.path.getmtime(vo) >= newest:
                newest = max(newest, os.path.getmtime(vo))
                continue
            rc, out = vlib.sh(["timeout", "900", "coqc", "-Q", ".", "SE", "-w", "-notation-overridden", f], cwd=coq, timeout=930)
            if rc != 0:
                ctx.broken.append({"kind": "proof", "name": f, "detail": out[-2500:]})
                return False
            newest = max(newest, os.path.getmtime(vo))
    return True


# recipes of the witnesses of the two refutation theorems (coq/C39/FsSpec.v, HasSym.v)
WITNESS_SET_BINDER = "(imageset x (pow x (i 2)) reals)\tx ;; y\t\t"
WITNESS_SUBS = "(Subs (deriv (fs f x y) x) x z)\tx ;; y ;; z\tx ;; (i 0) || y ;; (i 0)\t"

SYMS = ["x", "y", "z", "w", "ab"]
PALETTE = "x ;; y ;; z ;; w ;; ab ;; q ;; (fs f x) ;; (fs g z)"
COEFF_X = ["x", "x", "x", "y", "z", "(fs f x)", "(fs g z)", "(dum u)", "(f1 sin x)", "(i 2)", "(pow x (i 2))"]
COEFF_N = ["(i 0)", "(i 0)", "(i 1)", "(i 1)", "(i 2)", "(i 3)", "(i -1)", "(q 1 2)", "y", "(d 3ff0000000000000)",
           "(d 0000000000000000)", "(add y (i 1))"]
NUMS = ["(i 0)", "(i 1)", "(i -1)", "(i 2)", "(i -3)", "(i 7)", "(q 1 2)", "(q -3 7)", "(c 1 1 2 1)", "(c 0 1 1 1)",
        "(i 18446744073709551616)", "(d 3ff0000000000000)", "(d 4000000000000000)", "(d 0000000000000000)",
        "(d 8000000000000000)", "(d bff8000000000000)", "(cd 3ff0000000000000 4000000000000000)",
        "oo", "-oo", "zoo", "nan", "pi", "E", "I", "EulerGamma"]
F1 = ["sin", "cos", "tan", "log", "exp", "abs", "gamma", "asin", "sinh", "erf", "floor", "sign", "conjugate", "atan"]


def leaf(rng):
    r = rng.random()
    if r < 0.55:
        return rng.choice(SYMS)
    if r < 0.60:
        return "(dum %s)" % rng.choice(["u", "x"])
    return rng.choice(NUMS)


def gen_fun(rng, depth):
    """function symbols, derivatives, Subs (explicit and produced by diff)"""
    r = rng.random()
    a = gen_e(rng, depth - 1)
    b = gen_e(rng, depth - 1)
    v, v2 = rng.sample(SYMS, 2)
    if r < 0.25:
        return "(fs %s %s %s)" % (rng.choice(["f", "g", "h"]), a, b)
    if r < 0.35:
        return "(fs %s %s)" % (rng.choice(["f", "g"]), a)
    if r < 0.50:
        return "(deriv (fs f %s %s) %s)" % (v, v2, " ".join(rng.choice([v, v2]) for _ in range(rng.randint(1, 3))))
    if r < 0.65:
        # chain rule: produces Subs(Derivative(f(_xi_1, ..), _xi_1), _xi_1, g(..))
        return "(diff (fs f (fs g %s %s) %s) %s)" % (v, rng.choice(SYMS), rng.choice(SYMS + [a]), v)
    if r < 0.85:
        # explicit Subs: bound variable may also occur in the point and outside
        pt = rng.choice([a, v, v2, "(add %s %s)" % (v, b), "(fs g %s)" % v])
        return "(Subs (deriv (fs f %s %s) %s) %s %s)" % (v, v2, v, v, pt)
    pt1 = rng.choice([a, v2, "(i 1)"])
    pt2 = rng.choice([b, v, "(i 0)"])
    return "(Subs (deriv (fs f %s %s %s) %s %s) %s %s %s %s)" % (v, v2, rng.choice(SYMS), v, v2, v, pt1, v2, pt2)


def gen_binderset(rng, depth):
    v = rng.choice(SYMS)
    r = rng.random()
    if r < 0.5:
        body = rng.choice(["(pow %s (i 2))" % v, "(add (mul (i 2) %s) %s)" % (v, rng.choice(SYMS)),
                           "(f1 sin (mul %s %s))" % (v, gen_e(rng, depth - 1)), gen_e(rng, depth - 1)])
        base = rng.choice(["reals", "integers", "naturals", "(interval (i 0) (i 3) 0 1)",
                           "(imageset %s (mul (i 3) %s) integers)" % (v, v)])
        return "(imageset %s %s %s)" % (v, body, base)
    cond = rng.choice(["(gt %s %s)" % (v, rng.choice(SYMS + ["(i 0)"])),
                       "(and (lt %s %s) (gt %s (i 0)))" % (v, rng.choice(SYMS), v),
                       "(eq (f1 sin %s) %s)" % (v, gen_e(rng, depth - 1)),
                       "(ne (mul %s %s) (i 1))" % (v, rng.choice(SYMS))])
    return "(condset %s %s)" % (v, cond)


def gen_e(rng, depth):
    if depth <= 0 or rng.random() < 0.2:
        return leaf(rng)
    r = rng.random()
    if r < 0.18:
        return "(add %s %s)" % (gen_e(rng, depth - 1), gen_e(rng, depth - 1))
    if r < 0.34:
        return "(mul %s %s)" % (gen_e(rng, depth - 1), gen_e(rng, depth - 1))
    if r < 0.44:
        return "(pow %s %s)" % (gen_e(rng, depth - 1), rng.choice(["(i 2)", "(i 3)", "(i -1)", "(q 1 2)", gen_e(rng, depth - 1)]))
    if r < 0.48:
        return "(mul %s %s)" % (rng.choice(NUMS), gen_e(rng, depth - 1))
    if r < 0.58:
        return "(f1 %s %s)" % (rng.choice(F1), gen_e(rng, depth - 1))
    if r < 0.74:
        return gen_fun(rng, depth)
    if r < 0.80:
        # shared subterm reached along several paths (memo set), also with the other operand order
        t = gen_e(rng, depth - 1)
        u = gen_e(rng, depth - 1)
        return "(addv (f1 sin (add %s %s)) (f1 cos (add %s %s)) (pow (add %s %s) (i 2)) %s)" % (t, u, u, t, t, u, t)
    if r < 0.84:
        return "(f2 %s %s %s)" % (rng.choice(X.F2), gen_e(rng, depth - 1), gen_e(rng, depth - 1))
    if r < 0.88:
        return "(max %s %s)" % (gen_e(rng, depth - 1), gen_e(rng, depth - 1))
    if r < 0.92:
        return "(pw %s %s %s true)" % (gen_e(rng, depth - 1), X.gen_bool(rng, 1), gen_e(rng, depth - 1))
    if r < 0.96:
        return "(subs %s %s %s)" % (gen_fun(rng, depth), rng.choice(SYMS), gen_e(rng, 1))
    return "(div %s %s)" % (gen_e(rng, depth - 1), gen_e(rng, depth - 1))


def gen_top(rng):
    r = rng.random()
    if r < 0.62:
        return gen_e(rng, rng.randint(1, 4))
    if r < 0.70:
        return X.gen_bool(rng, 2)
    if r < 0.78:
        return X.gen_set(rng, 2)
    if r < 0.90:
        b = gen_binderset(rng, 2)
        q = rng.random()
        if q < 0.5:
            return b
        if q < 0.75:
            return "(union %s %s)" % (b, rng.choice([X.gen_set(rng, 1), gen_binderset(rng, 1)]))
        return "(contains %s %s)" % (rng.choice(SYMS), b)
    if r < 0.95:
        return "(contains %s %s)" % (gen_e(rng, 1), X.gen_set(rng, 1))
    return X.gen_arith(rng, 3)


def coeff_queries(rng, k):
    return " || ".join("%s ;; %s" % (rng.choice(COEFF_X), rng.choice(COEFF_N)) for _ in range(k))


def gen_poly(rng):
    """an expanded polynomial in x (sum of monomials c * x^k * rest, rest free of x)"""
    x = rng.choice(["x", "x", "y", "(fs f z)"])
    others = [s for s in ["x", "y", "z", "w"] if s != x]
    deg = rng.randint(0, 4)
    rests = ["(i 1)", "(i 1)", others[0], others[1], "(pow %s (i 2))" % others[0], "(mul %s %s)" % (others[0], others[1]),
             "(f1 sin %s)" % others[1], "(fs h %s)" % others[2], "(pow %s (q 1 2))" % others[0],
             "(add %s (i 1))" % others[1], "(pow (i 2) %s)" % others[0]]
    coefs = ["(i 1)", "(i 1)", "(i 2)", "(i -1)", "(i -3)", "(q 1 2)", "(q -2 3)", "(i 7)", "(c 0 1 1 1)", "(d 4000000000000000)"]
    terms = []
    for _ in range(rng.randint(1, 6)):
        k = rng.randint(0, deg)
        c = rng.choice(coefs)
        rest = rng.choice(rests)
        xp = "(i 1)" if k == 0 else (x if k == 1 else "(pow %s (i %d))" % (x, k))
        terms.append("(mulv %s %s %s)" % (c, xp, rest))
    r = rng.random()
    if r < 0.15 and len(terms) >= 1:
        e = terms[0]                                    # a single monomial: Mul / Pow / Symbol / Number on top
    elif r < 0.55:
        e = "(addv %s)" % " ".join(terms)
    else:
        e = "(expand (addv %s))" % " ".join(terms)
    qs = " || ".join("%s ;; (i %d)" % (x, k) for k in range(0, deg + 2))
    qs += " || " + coeff_queries(rng, 2)
    return "%s\t%s\t%s\tPOLY %s %d" % (e, PALETTE, qs, x, deg + 1)


def gen_case(rng):
    if rng.random() < 0.28:
        return gen_poly(rng)
    return "%s\t%s\t%s\t" % (gen_top(rng), PALETTE, coeff_queries(rng, rng.randint(1, 4)))


CORPUS = [
    # the two defect classes seen on the library (known findings)
    WITNESS_SET_BINDER,
    "(condset x (gt x y))\tx ;; y\t\t",
    "(union (imageset x (mul y x) integers) (interval (i 0) (i 1) 0 0))\tx ;; y\t\t",
    WITNESS_SUBS,
    "(diff (fs f (fs g z) y) z)\tz ;; y\tz ;; (i 1)\t",
    # bound variable also free in the point / outside
    "(add x (Subs (deriv (fs f x y) x) x (add x z)))\tx ;; y ;; z\t\t",
    "(Subs (deriv (fs f x y z) x y) x y y (i 1))\tx ;; y ;; z\t\t",
    # memo set: eq subterms with different dictionary order, shared subterms
    "(addv (f1 sin (add x y)) (mul (i 2) (f1 cos (add y x))) (pow (add x y) (i 2)) (pow x y))\tx ;; y\tx ;; (i 0)\t",
    # get_args of Add / Mul: coefficient zero or not, value one or not, key Mul / Pow / other
    "(addv (i 5) x (mul (i 2) y) (mul (i 3) (mul x y)) (mul (i 4) (pow x (i 2))) (mul (q 1 2) (f1 sin x)) (mul (d 3ff8000000000000) z))\tx ;; y ;; z\tx ;; (i 1) || x ;; (i 2) || x ;; (i 0)\t",
    "(mulv (i 2) x (pow y (i 3)) (pow z (q 1 2)) (pow w x))\tx ;; w\tx ;; (i 1) || y ;; (i 3) || w ;; x || z ;; (q 1 2)\t",
    "(mul oo x)\tx\tx ;; (i 1)\t",
    "(add (mul zoo x) (mul -oo y))\tx ;; y\t\t",
    "(add x (d 0000000000000000))\tx\tx ;; (i 0) || x ;; (i 1)\t",
    "(add (dum u) (mul (dum u) x))\tx\tx ;; (i 0) || (dum u) ;; (i 1)\t",
    # coeff: polynomial in x with symbolic coefficients
    "(addv (mul (i 2) (pow x (i 2))) (mulv (i 3) x y) (i 5))\tx ;; y\tx ;; (i 0) || x ;; (i 1) || x ;; (i 2) || x ;; (i 3) || y ;; (i 1)\tPOLY x 3",
    "(expand (pow (add x y (i 1)) (i 3)))\tx ;; y\tx ;; (i 0) || x ;; (i 1) || x ;; (i 2) || x ;; (i 3) || x ;; (i 4)\tPOLY x 4",
    "(addv (mulv x y) (mulv x z) (mulv (i 2) x (add y (i 1))) (mulv (i -1) x z))\tx\tx ;; (i 1) || x ;; (i 0)\tPOLY x 2",
    "(pow (i 2) x)\tx\tx ;; (i 0) || x ;; (i 1)\t",
    "(pow (add x (i 1)) (i 2))\tx\tx ;; (i 0) || x ;; (i 2)\t",
    "(i 7)\tx\tx ;; (i 0) || x ;; (i 1)\tPOLY x 1",
    "x\tx\tx ;; (i 0) || x ;; (i 1) || y ;; (i 0)\tPOLY x 2",
    "(pw x (lt x y) (fs f z) true)\tx ;; y ;; z\tx ;; (i 0)\t",
    "(contains x (interval (i 0) (i 1) 0 1))\tx\t\t",
]


def split_out(line):
    """driver line -> (model input, result text, [oracle strings])"""
    head, sep, rest = line.partition("\t=>\t")
    if not sep:
        return None, line, []
    parts = rest.split("\t#ORACLE:")
    return head, parts[0], parts[1:]


def run(ctx):
    ctx.gate(["Base", "Gen", "Num", "Expr", "C39"])
    ctx.prove(PROOF_MODULES, OBLIGATIONS)
    drv = ctx.build_driver("c39_driver")
    model = ctx.build_model("C39", "C39/Extract.v", "c39_main.ml", "semodel", extra_ml=["expr_io.ml"])
    ncases = 1500 if ctx.tier == "quick" else 40000
    cases = list(CORPUS) + [gen_case(ctx.rng) for _ in range(ncases)]
    explore(ctx, drv, model, cases)
    if ctx.broken and not ctx.violations:
        explore(ctx, drv, model, [gen_case(ctx.rng) for _ in range(6000)], search=True)
    ctx.cov["rule"] = ("recipes of public API calls (sums/products/powers incl. numeric coefficients of every kind, functions, "
                       "FunctionSymbols, Derivative, Subs built explicitly and by the chain rule, ImageSet, ConditionSet, "
                       "Piecewise, relationals, logic, sets, Dummies, subterms shared along several paths and eq subterms with "
                       "different dictionary order; expanded polynomials with symbolic coefficients for coeff); per case: "
                       "free_symbols, has_symbol for a palette plus every Symbol/FunctionSymbol node of e, function_symbols, "
                       "9 atoms<...> instantiations, coeff queries; evaluations = individual query answers compared; a case is "
                       "non-trivial when the has_symbol answers contain both 0 and 1 or e contains a binder class; "
                       "distinct = distinct input dumps")
    ctx.assumptions += [
        "std::set<RCP, RCPBasicKeyLess> is modelled as a list sorted by the modelled comparator with linear insertion (equal to the "
        "red-black tree when the comparator is a strict weak order on the inserted keys: C02); unordered_set::find as 'same hash and eq(query, stored)'",
        "ImageSet / ConditionSet are represented as EFN nodes with their own type codes (same get_args, hash, eq and compare)",
        "std::map::erase(key) with a key taken from the same map removes exactly that entry (CoeffVisitor::bvisit(Mul))",
        "the dictionary order of an Add built by coeff is not observable: coefficients are compared with Add dictionaries sorted",
        "classes outside the AST (polynomial, series, matrix classes, Tuple, NumberWrapper, RealMPFR) are dumped Opaque and skipped; "
        "free_symbols(MatrixBase) is not modelled",
        "coeff: number arithmetic is that of Num/NumModel.v (C05/C06); results needing libm are EXN:98 in the model and compared as such",
    ]


def explore(ctx, drv, model, cases, search=False):
    if drv is None or model is None:
        return
    impl = ctx.run_lines(drv, cases, timeout=1800, shards=16)
    heads, results, oracles, idx = [], [], [], []
    for i, line in enumerate(impl):
        if line.startswith("SKIP"):
            continue
        head, res, orc = split_out(line)
        if head is None:
            if "CRASH" in line or "HANG" in line or "UNCAUGHT" in line or "NOOUTPUT" in line:
                ctx.violation("C39/crash", "case `%s` ends with %s on the library" % (cases[i], line[-60:]),
                              {"family": "C39", "case": cases[i], "impl": line[-300:]})
            else:
                ctx.broken.append({"kind": "correspondence", "name": "C39 driver output", "detail": cases[i] + "\n" + line[-300:]})
            continue
        heads.append(head)
        results.append(res)
        oracles.append(orc)
        idx.append(i)
    mod = ctx.run_lines(model, heads, timeout=1800, shards=16)
    ndis = 0
    nontriv = set()
    guard_counts = ctx.cov.setdefault("cases_by_hypothesis", {
        "no_binder(all theorems apply)": 0, "set_binder(guard of free_symbols_spec)": 0, "subs(guard of has_symbol_agrees)": 0,
        "tree_ok": 0, "not_tree_ok": 0, "nums_ok": 0, "not_nums_ok": 0, "closure_exact": 0, "not_closure_exact": 0, "closure_exact_untested": 0})
    for k, i in enumerate(idx):
        m, _, g = mod[k].partition("\t#G:")
        ctx.cov["traces_validated_against_impl"] += 1
        nq = results[k].count("[") + results[k].count(" ; ") + max(0, len(results[k].split("HS[")[1].split("]")[0]) - 1) if "HS[" in results[k] else 1
        ctx.cov["evaluations"] += nq
        hs = results[k].split("HS[")[1].split("]")[0] if "HS[" in results[k] else ""
        dump_e = heads[k].split("\t")[0]
        if ("0" in hs and "1" in hs) or "Subs" in dump_e or "ImageSet" in dump_e or "ConditionSet" in dump_e:
            nontriv.add(dump_e)
        if g[:1] == "1":
            guard_counts["set_binder(guard of free_symbols_spec)"] += 1
        elif g[1:2] == "1":
            guard_counts["subs(guard of has_symbol_agrees)"] += 1
        else:
            guard_counts["no_binder(all theorems apply)"] += 1
        guard_counts["tree_ok" if g[2:3] == "1" else "not_tree_ok"] += 1
        guard_counts["nums_ok" if g[4:5] == "1" else "not_nums_ok"] += 1
        guard_counts[{"1": "closure_exact", "0": "not_closure_exact"}.get(g[3:4], "closure_exact_untested")] += 1
        if g[2:3] == "0" and len(ctx.notes) < 5:
            ctx.notes.append("a library-built tree violates tree_ok (hypothesis of the completeness theorems): " + dump_e[:300])
        if not search and cases[i] in (WITNESS_SET_BINDER, WITNESS_SUBS):
            what = "C39_free_symbols_refuted" if cases[i] == WITNESS_SET_BINDER else "C39_has_symbol_agrees_refuted"
            ctx.notes.append("%s %s on the library (witness %s)" % (
                what, "reproduces" if oracles[k] else "no longer reproduces", cases[i].split("\t")[0]))
        for o in oracles[k]:
            cls, _, text = o.partition(":")
            ctx.violation("C39/" + cls, "e = %s : %s" % (cases[i].split("\t")[0], text.strip()),
                          {"family": "C39", "case": cases[i], "impl": results[k], "model": m})
        if m.startswith("UNSUPPORTED") or m.startswith("FAIL") or m.startswith("NOOUTPUT"):
            ndis += 1
            if ndis <= 3:
                ctx.broken.append({"kind": "correspondence", "name": "C39 model reader", "detail": m + "\n" + cases[i] + "\n" + heads[k]})
            continue
        if m != results[k]:
            ndis += 1
            # a disagreement model/library is a broken tie; report the first differing query
            if ndis <= 3:
                ctx.broken.append({"kind": "correspondence", "name": "C39 query answers",
                                   "detail": "case `%s`\n%s" % (cases[i], first_diff(m, results[k]))})
            if search or True:
                # the disagreeing case is itself a concrete input on which the library departs from the
                # proved model: report it as the failing input
                ctx.violation("C39/model-mismatch:" + diff_field(m, results[k]),
                              "library and proved model disagree on `%s`: %s" % (cases[i].split("\t")[0], first_diff(m, results[k])),
                              {"family": "C39", "case": cases[i], "impl": results[k], "model": m})
    ctx.cov["distinct_nontrivial"] += len(nontriv)
    if not search:
        for k in range(min(6, len(idx))):
            ctx.cov["samples"].append({"case": cases[idx[k]], "impl": results[k][:400], "model": mod[k][:400]})


def fields_of(s):
    out = {}
    for part in s.split("] "):
        name, _, val = part.partition("[")
        out[name.strip()] = val.rstrip("]")
    return out


def diff_field(m, r):
    fm, fr = fields_of(m), fields_of(r)
    for k in fr:
        if fm.get(k) != fr[k]:
            return k.replace("A:", "atoms-")
    return "text"


def first_diff(m, r):
    fm, fr = fields_of(m), fields_of(r)
    for k in fr:
        if fm.get(k) != fr[k]:
            return "%s: model [%s] library [%s]" % (k, (fm.get(k) or "")[:300], fr[k][:300])
    return "model %s | library %s" % (m[:300], r[:300])


def replay(ctx, rep):
    drv = ctx.build_driver("c39_driver")
    model = ctx.build_model("C39", "C39/Extract.v", "c39_main.ml", "semodel", extra_ml=["expr_io.ml"])
    c = rep["replay"]["case"]
    line = ctx.run_lines(drv, [c])[0]
    head, res, orc = split_out(line)
    print("case   :", c)
    print("library:", res)
    for o in orc:
        print("oracle :", o)
    if head is not None:
        print("model  :", ctx.run_lines(model, [head])[0])
