"""C22 -- multivariate polynomial arithmetic (MIntPoly) agrees with monomial-dictionary arithmetic over
the union of the generators.
Model: coq/C22/MPolyModel.v (UDictWrapper arithmetic, translate, reconcile, add/sub/mul/neg/pow_mpoly, eval,
from_dict, __eq__, __hash__; 32-bit exponent wrap and checked vector accesses explicit).
Theorems: coq/C22/P_*.v.  Tie: generated cases run on the extracted model and on the library (dictionaries
compared exactly, sorted); the driver additionally checks every library result against an independent
reference implementation (polynomials as {var -> exponent} -> coefficient maps)."""
import os
import vlib

# C22 files are compiled directly, in this order, until they are listed in coq/_CoqProject
ORDER = ["C22/MPolyModel.v", "C22/MPolySpec.v", "C22/MPolyDict.v", "C22/MPolyRec.v", "C22/MPolyArith.v",
         "C22/MPolyOps.v", "C22/MPolyPow.v", "C22/MPolyEval.v", "C22/MPolyEval2.v", "C22/MPolyEq.v", "C22/MPolyInst.v",
         "C22/MPolyMain.v", "C22/MPolyFromDict.v", "C22/MPolyFromDict2.v", "C22/MPolyWfDef.v", "C22/MPolyWf.v"]
PROOF_MODULES = [f[:-2] + ".vo" for f in ORDER[1:]]
OBLIGATIONS = sorted("C22/" + f for f in os.listdir(os.path.join(vlib.COQ, "C22"))
                     if f.startswith("P_") and f.endswith(".v")) if os.path.isdir(os.path.join(vlib.COQ, "C22")) else []

# names chosen so that the hash order of set_basic differs from the alphabetical order
NAMES = ["x", "y", "z", "a", "b", "t", "u", "w", "x1", "x2", "aa", "ab", "alpha", "beta", "q"]
BIG_E = [2147483647, 2147483648, 4294967295, 4294967294, 2147483649]


def hexs(v):
    return ("-" if v < 0 else "") + "%x" % abs(v)


def gen_coef(rng):
    r = rng.random()
    if r < 0.45:
        return rng.choice([1, -1, 2, -2, 3, -3, 5, 7, -7, 10])
    if r < 0.55:
        return 0
    if r < 0.80:
        return rng.randint(-1000, 1000)
    if r < 0.92:
        return rng.choice([1, -1]) * (2 ** rng.choice([31, 32, 63, 64]) + rng.randint(-2, 2))
    return rng.choice([1, -1]) * rng.getrandbits(rng.choice([70, 130, 200]))


def gen_key(rng, nv, big=False, maxe=3):
    k = []
    for _ in range(nv):
        r = rng.random()
        if big and r < 0.25:
            k.append(rng.choice(BIG_E))
        elif r < 0.45:
            k.append(0)
        else:
            k.append(rng.randint(0, maxe))
    return k


def show_lit(vs, terms):
    v = ",".join(vs) if vs else "-"
    if not terms:
        return v + "/-"
    ts = []
    for k, c in terms:
        ts.append((".".join(str(e) for e in k) if k else "_") + ":" + hexs(c))
    return v + "/" + ";".join(ts)


def gen_terms(rng, nv, nterms=None, big=False, maxe=3, nonzero=False):
    if nterms is None:
        nterms = rng.choice([0, 1, 1, 2, 2, 3, 4, 5])
    terms = []
    seen = set()
    for _ in range(nterms):
        k = tuple(gen_key(rng, nv, big, maxe))
        if k in seen:
            continue
        seen.add(k)
        c = gen_coef(rng)
        if nonzero and c == 0:
            c = 1
        terms.append((list(k), c))
    return terms


def gen_varsets(rng):
    """pairs of generator lists aimed at the case splits of reconcile: equal / overlapping / disjoint /
    empty / subset / sharing only the first or only the last element of the union"""
    pool = rng.sample(NAMES, rng.randint(1, 5))
    kind = rng.choice(["equal", "overlap", "disjoint", "empty1", "empty2", "both-empty", "subset", "superset",
                       "share-one", "overlap", "disjoint", "equal"])
    if kind == "equal":
        a = list(pool)
        b = list(pool)
    elif kind == "overlap":
        a = [v for v in pool if rng.random() < 0.7]
        b = [v for v in pool if rng.random() < 0.7]
    elif kind == "disjoint":
        cut = rng.randint(0, len(pool))
        a, b = pool[:cut], pool[cut:]
    elif kind == "empty1":
        a, b = [], list(pool)
    elif kind == "empty2":
        a, b = list(pool), []
    elif kind == "both-empty":
        a, b = [], []
    elif kind == "subset":
        a = [v for v in pool if rng.random() < 0.5]
        b = list(pool)
    elif kind == "superset":
        a = list(pool)
        b = [v for v in pool if rng.random() < 0.5]
    else:
        shared = rng.choice(pool)
        rest = [v for v in pool if v != shared]
        cut = rng.randint(0, len(rest))
        a, b = rest[:cut] + [shared], rest[cut:] + [shared]
    rng.shuffle(a)
    rng.shuffle(b)
    return a, b


def gen_poly(rng, vs, **kw):
    return show_lit(vs, gen_terms(rng, len(vs), **kw))


def gen_case(rng, tier):
    r = rng.random()
    if r < 0.10:
        a, b = gen_varsets(rng)
        return "rec %s %s" % (",".join(a) or "-", ",".join(b) or "-")
    if r < 0.16:
        a, _ = gen_varsets(rng)
        return "fd " + gen_poly(rng, a, big=rng.random() < 0.2)
    if r < 0.44:
        a, b = gen_varsets(rng)
        op = rng.choice(["add", "sub"])
        pa = gen_terms(rng, len(a), big=rng.random() < 0.1)
        if a == b and rng.random() < 0.3:
            # cancellation: same keys, opposite or equal coefficients, some perturbed
            pb = [(k, (-c if op == "add" else c) if rng.random() < 0.7 else c + 1) for k, c in pa]
            rng.shuffle(pb)
        elif sorted(a) == sorted(b) and rng.random() < 0.3:
            perm = [a.index(v) for v in b]
            pb = [([k[i] for i in perm], (-c if op == "add" else c)) for k, c in pa]
        else:
            pb = gen_terms(rng, len(b), big=rng.random() < 0.1)
        return "%s %s %s" % (op, show_lit(a, pa), show_lit(b, pb))
    if r < 0.66:
        a, b = gen_varsets(rng)
        op = "mul" if rng.random() < 0.85 else "symb"
        big = op == "mul" and rng.random() < 0.12
        q = rng.random()
        if q < 0.12:
            pa, pb = gen_terms(rng, len(a), big=big), [([0] * len(b), gen_coef(rng))]     # other is a constant
        elif q < 0.2:
            pa, pb = [([0] * len(a), gen_coef(rng))], gen_terms(rng, len(b), big=big)     # this is a constant
        elif q < 0.26:
            pa, pb = gen_terms(rng, len(a)), []
        elif q < 0.30:
            pa, pb = [], gen_terms(rng, len(b))
        else:
            pa, pb = gen_terms(rng, len(a), big=big), gen_terms(rng, len(b), big=big)
            if a == b and pa and rng.random() < 0.2:
                # (p + q)(p - q): products that cancel
                pb = [(k, -c if i % 2 else c) for i, (k, c) in enumerate(pa)]
        return "%s %s %s" % (op, show_lit(a, pa), show_lit(b, pb))
    if r < 0.70:
        a, _ = gen_varsets(rng)
        return "neg " + gen_poly(rng, a, big=rng.random() < 0.2)
    if r < 0.80:
        a, _ = gen_varsets(rng)
        a = a[:3]
        n = rng.choice([1, 1, 2, 2, 3, 3, 4, 5, 6, 7, 8]) if tier == "quick" else rng.choice([1, 2, 3, 4, 5, 6, 7, 8, 9, 12, 16, 17])
        nt = rng.choice([0, 1, 1, 2, 2, 3])
        if n > 8:
            nt = min(nt, 2)
        big = rng.random() < 0.08
        return "pow %s %d" % (show_lit(a, gen_terms(rng, len(a), nterms=nt, big=big, maxe=2)), n)
    if r < 0.88:
        a, _ = gen_varsets(rng)
        terms = gen_terms(rng, len(a), maxe=5)
        names = list(a) + [v for v in rng.sample(NAMES, 2) if v not in a]
        rng.shuffle(names)
        vals = ",".join("%s=%s" % (n, hexs(rng.choice([0, 1, -1, 2, -2, 3, 10, -7, 2 ** 32 + 1, -(2 ** 64)]))) for n in names)
        return "eval %s %s" % (show_lit(a, terms), vals or "-")
    if r < 0.95:
        return gen_eq(rng)
    a, _ = gen_varsets(rng)
    return "rt " + show_lit(a, gen_terms(rng, len(a), maxe=4, nonzero=True))


def gen_eq(rng):
    a, b = gen_varsets(rng)
    q = rng.random()
    if q < 0.25:
        pa = gen_terms(rng, len(a))
        pb = list(pa)
        rng.shuffle(pb)
        if rng.random() < 0.3 and pb:
            k, c = pb[0]
            pb[0] = (k, c + 1)
        other = b if (len(a) == len(b) and rng.random() < 0.3) else a
        return "eq %s %s" % (show_lit(a, pa), show_lit(other, pb))
    c = gen_coef(rng) or 1
    single = lambda vs, const: [([0] * len(vs), c)] if const else [(gen_key(rng, len(vs)), c if rng.random() < 0.8 else c + 1)]
    if q < 0.65:
        return "eq %s %s" % (show_lit(a, single(a, rng.random() < 0.5)), show_lit(b, single(b, rng.random() < 0.5)))
    if q < 0.75:
        return "eq %s %s" % (show_lit(a, []), show_lit(b, [] if rng.random() < 0.7 else single(b, True)))
    pc = rng.choice([a, b])
    return "eq3 %s %s %s" % (show_lit(a, single(a, rng.random() < 0.3)), show_lit(b, single(b, rng.random() < 0.7)),
                             show_lit(pc, single(pc, rng.random() < 0.3)))


CORPUS = [
    # the defects seen while reading (DESIGN.md section 11 row 2, and the pow / wrap boundaries)
    "eq x/0:3 y/1:3",
    "eq x/1:3 x/0:3",
    "eq x/0:3 y/0:3",
    "eq -/- x/-",
    "eq3 x/1:3 x/0:3 x/2:3",
    "pow x/1:1 0",
    "pow x,y/1.0:1;0.1:1 0",
    "mul x/2147483648:1 x/2147483648:1",
    "mul x/4294967295:2 x/1:3",
    "pow x/65536:1 65536",
    # ordinary behaviour at the case splits
    "fd x,y/1.0:3;0.2:-a",
    "fd y,x/1.0:3;0.2:-a",
    "fd -/_:5",
    "fd x/1:0;2:1",
    "add x,y/1.0:3;0.2:-a y,z/1.1:5;2.0:a",
    "add x/1:3 y/1:-3",
    "add x/1:3 x/1:-3",
    "add -/_:5 x/1:1",
    "add -/- -/-",
    "sub x/1:3 x/1:3",
    "sub -/- x,y/1.1:1",
    "mul x,y/1.0:3;0.2:-a y,z/1.1:5;2.0:a",
    "mul x/1:1;0:1 x/1:1;0:-1",
    "mul x,y/1.0:1 -/_:7",
    "mul -/_:7 x,y/1.0:1;0.1:2",
    "mul x/- y/1:1",
    "mul x/1:1 y/-",
    "neg x,y/1.0:3;0.2:-a",
    "pow x,y/1.0:1;0.1:1 5",
    "pow x/1:1;0:1 1",
    "pow x/- 3",
    "pow -/_:2 10",
    "eval x,y/1.0:3;0.2:-a x=2,y=-3",
    "eval -/_:5 -",
    "eval x/- x=5",
    "rec x,y y,z",
    "rec - -",
    "rec a,b,c -",
    "rec x,y x,y",
    "rec x z",
    "rt x,y/1.0:3;0.2:-a;0.0:7",
    "symb x,y/1.0:3;0.2:-a y,z/1.1:5;2.0:a",
    # keys that do not fit the generators: the checked vector access is reached
    "fd x,y/1:3",
]


def nontrivial(c):
    """binary operation on two non-zero polynomials over different generator lists, a power >= 2 of a
    polynomial with >= 2 terms, an evaluation over >= 2 generators, or reconcile of two different sets"""
    t = c.split()
    if t[0] in ("add", "sub", "mul", "symb"):
        (va, ta), (vb, tb) = t[1].split("/"), t[2].split("/")
        return va != vb and ta != "-" and tb != "-"
    if t[0] == "pow":
        return int(t[2]) >= 2 and ";" in t[1]
    if t[0] == "eval":
        return "," in t[1].split("/")[0]
    if t[0] == "rec":
        return t[1] != t[2] and t[1] != "-" and t[2] != "-"
    if t[0] in ("eq", "eq3"):
        return t[1] != t[2]
    return False


def classify(case, oracle):
    """violation keys (classes of failure) for an oracle message"""
    op = case.split()[0]
    keys = []
    if "eq-unsound" in oracle:
        keys.append("C22/eq-true-for-different-polynomials")
    if "eq-hash" in oracle:
        keys.append("C22/eq-hash-mismatch")
    if "eq-trans" in oracle:
        keys.append("C22/eq-not-transitive")
    rest = [m for m in oracle.split(";") if m.strip() and not any(s in m for s in ("eq-unsound", "eq-hash", "eq-trans"))]
    if rest:
        wraps = False
        if op in ("mul", "pow", "symb"):
            # does some exponent of the exact result reach 2^32 ?
            try:
                t = case.split()
                es = [[int(e) for e in term.split(":")[0].split(".") if e != "_"]
                      for lit in t[1:] if "/" in lit for term in lit.split("/")[1].split(";") if term != "-"]
                m = max([max(k) for k in es if k] or [0])
                n = int(t[2]) if op == "pow" else 2
                wraps = m * n >= 2 ** 32
            except ValueError:
                pass
        keys.append("C22/exponent-wraps-u32" if wraps else "C22/wrong-" + op)
    return keys


def norm_model(m):
    # a checked vector access that fails aborts the library (-D_GLIBCXX_ASSERTIONS); an exhausted fuel is a hang
    if m == "OOB":
        return "CRASH:6"
    if m == "FUEL":
        return "HANG"
    return m


def explore(ctx, drv, model, cases, search=False):
    if drv is None or model is None:
        return 0
    impl = ctx.run_lines(drv, cases, timeout=1800)
    mod = ctx.run_lines(model, cases, timeout=1800)
    ctx.cov["evaluations"] += len(cases)
    ctx.cov["distinct_nontrivial"] += len(set(c for c in cases if nontrivial(c)))
    ctx.cov["traces_validated_against_impl"] += len(cases)
    if not search:
        ctx.cov["samples"] += [{"case": c, "model": m, "impl": i} for c, m, i in list(zip(cases, mod, impl))[10:16]]
    ndis = 0
    for c, m, i in zip(cases, mod, impl):
        canon, _, oracle = i.partition("\t#ORACLE:")
        op = c.split()[0]
        rep = {"family": "C22", "case": c, "impl": canon, "model": m}
        if oracle:
            for key in classify(c, oracle):
                ctx.violation(key, "case `%s`: %s" % (c, oracle.strip()), rep)
        if canon.endswith("HANG"):
            t = c.split()
            key = "C22/pow-zero-exponent-hangs" if op == "pow" and t[2] == "0" else "C22/hang-" + op
            ctx.violation(key, "case `%s` does not return on the library (model: %s)" % (c, m), rep)
        elif "CRASH" in canon and not (m == "OOB" and canon == "CRASH:6"):
            ctx.violation("C22/crash-" + op, "case `%s` ends with %s on the library (model: %s)" % (c, canon[-40:], m[-60:]), rep)
        elif "UNCAUGHT" in canon or canon.startswith("EXN") and not m.startswith("EXN"):
            ctx.violation("C22/exception-" + op, "case `%s` throws %s (model: %s)" % (c, canon[-40:], m[-60:]), rep)
        if canon != norm_model(m):
            ndis += 1
            if ndis <= 3:
                ctx.broken.append({"kind": "correspondence", "name": "C22 " + op,
                                   "detail": "case `%s`\n model: %s\n impl:  %s" % (c, m, canon)})
    return ndis


def compile_coq(ctx):
    """C22's Coq files are not in coq/_CoqProject yet: compile stale ones directly, in dependency order."""
    stale = False
    for f in ORDER:
        src = os.path.join(vlib.COQ, f)
        vo = src[:-2] + ".vo"
        if not os.path.exists(src):
            continue
        if stale or not os.path.exists(vo) or os.path.getmtime(vo) < os.path.getmtime(src):
            stale = True
            with vlib.Lock(os.path.join(vlib.WORK, "coq.lock")):
                rc, out = vlib.sh(["timeout", "1800", "coqc", "-Q", ".", "SE", "-w", "-notation-overridden", f],
                                  cwd=vlib.COQ, timeout=1830)
            if rc != 0:
                ctx.broken.append({"kind": "proof", "name": f, "detail": out[-2500:]})
                return False
    return True


def in_project():
    try:
        return "C22/MPolyModel.v" in open(os.path.join(vlib.COQ, "_CoqProject")).read()
    except OSError:
        return False


def new_violation_found(ctx):
    known = vlib.load_known(ctx.pid)
    return any(v["key"] not in known for v in ctx.violations)


def run(ctx):
    ctx.gate(["Base", "C22"])
    if in_project():
        ctx.prove(PROOF_MODULES, OBLIGATIONS)
    else:
        compile_coq(ctx)
        ctx.prove([], OBLIGATIONS)
    drv = ctx.build_driver("c22_driver")
    model = ctx.build_model("C22", "C22/Extract.v", "c22_main.ml", "mpoly_model")
    ncases = 3000 if ctx.tier == "quick" else 60000
    cases = list(CORPUS) + [gen_case(ctx.rng, ctx.tier) for _ in range(ncases)]
    explore(ctx, drv, model, cases)
    if ctx.broken and not new_violation_found(ctx):
        extra = [gen_case(ctx.rng, "thorough") for _ in range(12000)]
        explore(ctx, drv, model, extra, search=True)
    ctx.cov["rule"] = ("cases = one operation (from_dict, add, sub, mul, neg, pow, eval, __eq__/__hash__, reconcile, "
                       "as_symbolic/from_basic round trip) on MIntPoly literals from one PRNG; generator lists are drawn as "
                       "equal / overlapping / disjoint / empty / subset / sharing exactly one symbol, in shuffled order, from names "
                       "whose hash order differs from the alphabetical order; coefficients 0, +-1, small, around 2^31/2^32/2^63/2^64, "
                       "up to 200 bits; exponents 0..3 and around 2^31 / 2^32-1; cancelling sums and products, constant and zero "
                       "operands (the three shortcuts of operator*=); a case is non-trivial when a binary operation has two non-zero "
                       "operands over different generator lists, a power >= 2 has a base of >= 2 terms, an evaluation has >= 2 generators, "
                       "reconcile gets two different non-empty sets, or __eq__ gets two different literals; distinct = distinct case strings")
    ctx.assumptions += [
        "the unordered_map is modelled as an association list with distinct keys; results are compared as sorted dictionaries, "
        "so the library's bucket order is not part of the tie (no compared output depends on it: integer addition is commutative)",
        "generators are Symbols; their set_basic order is the shared expression model's RCPBasicKeyLess (validated by C01/C02)",
        "std::vector accesses are checked in the model; the library is built with -D_GLIBCXX_ASSERTIONS so that an out-of-range "
        "access aborts instead of reading foreign memory (model OOB == library SIGABRT)",
        "MIntPoly::eval with a generator missing from the valuation dereferences map::end() (undefined); the model returns an error "
        "value there and the case is never generated; the theorem about eval assumes every generator has a value",
        "as_symbolic / from_basic (BasicToMPolyBase) are tied by the driver's oracle only (round trip and homomorphism on expanded "
        "expressions), not modelled in Coq; MExprPoly (expression coefficients) shares the UDictWrapper template but is not exercised",
    ]


def replay(ctx, rep):
    drv = ctx.build_driver("c22_driver")
    model = ctx.build_model("C22", "C22/Extract.v", "c22_main.ml", "mpoly_model")
    c = rep["replay"]["case"]
    print("case :", c)
    print("impl :", ctx.run_lines(drv, [c])[0])
    print("model:", ctx.run_lines(model, [c])[0])
