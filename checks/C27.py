"""C27 -- set operations have pointwise membership semantics.
Model: coq/C27/SetModel.v (sets.cpp / set_funcs.cpp on the interval / finite set / number set / Union /
Intersection / Complement fragment, transcribed branch by branch over the shared expression core:
hash-ordered containers come from Expr/Cmp.v).  Spec: coq/C27/SetSpec.v (membership of every real point,
represented by its germ).  Theorems: coq/C27/P_*.v.
Tie: recipes are evaluated by the driver on the library, which prints the dumps of the operands and of the
result; the extracted model reads the operand dumps and recomputes the operation (exact tree comparison),
reports the defect flags (guard classes) it hit, and evaluates the specification on the model's AND on the
library's result at all germ points of all constants.  The driver evaluates the property with the library's own
contains() on endpoints / midpoints / +-1/2 neighbours."""
import hashlib
import itertools
import re
from fractions import Fraction

import vlib

# until the files are listed in coq/_CoqProject the proof modules are compiled by hand (see report)
# Proof modules in dependency order (compiled by coqc directly until they are listed in coq/_CoqProject):
#   C27/SetModel.v C27/SetSpec.v C27/SetOrder.v C27/SetNum.v C27/SetCont.v C27/SetIvl.v C27/SetFin.v C27/SetInt.v
#   C27/SetKey.v C27/SetWalk.v C27/SetProofs.v C27/SetTopo.v C27/SetSup.v C27/SetTheorems.v
PROOF_MODULES = ["C27/SetTheorems.vo"]
OBLIGATIONS = ["C27/P_%s.v" % n for n in (
    "union_correct", "intersection_correct", "complement_correct", "complement_helper_correct",
    "free_union_correct", "free_intersection_correct", "contains_sound",
    "closure_correct_partial", "interior_correct_partial", "boundary_correct_partial", "sup_inf_correct_partial",
    "boundary_union_refuted", "unbounded_recursion_refuted", "nonvacuous")]

# defect flags of the model (coq/C27/SetModel.v, DF_*) -> known-finding keys
FLAG_KEYS = {
    1: "container-comparator-collision",
    10: "interval-endpoint-not-integer",
    11: "unbounded-recursion",
    12: "set_difference-unsorted",
    14: "long-enumeration",
    15: "boundary-union-adjacent-members",
    16: "empty-union",
}

BIN_OPS = ["munion", "misect", "mcompl", "funion", "fisect", "fcompl", "helper"]
UN_OPS = ["sup", "inf", "boundary", "interior", "closure"]
ATOMS = ["emptyset", "universalset", "reals", "rationals", "integers", "naturals", "naturals0"]


def qrec(q):
    q = Fraction(q)
    return "(i %d)" % q.numerator if q.denominator == 1 else "(q %d %d)" % (q.numerator, q.denominator)


def ivl(a, b, lo, ro):
    f = lambda x: x if isinstance(x, str) else qrec(x)
    return "(interval %s %s %d %d)" % (f(a), f(b), lo, ro)


def fset(xs):
    return "(fset %s)" % " ".join(qrec(x) for x in xs)


CORPUS = [
    "munion\t%s\t%s" % (ivl(1, 3, 0, 1), ivl(3, 5, 0, 0)),
    "munion\t%s\t%s" % (ivl(1, 3, 0, 1), ivl(3, 5, 1, 0)),
    "misect\t%s\t%s" % (ivl(1, 3, 0, 0), ivl(3, 5, 0, 0)),
    "mcompl\t%s\t%s" % (ivl(5, 6, 0, 0), ivl(1, 2, 0, 0)),                 # [1,2] \ [5,6]
    "mcompl\t%s\t%s" % (ivl(1, 2, 0, 0), ivl(0, 5, 1, 0)),
    "mcompl\t%s\t%s" % (fset([-1, 2, 3]), ivl(-5, 5, 0, 0)),             # hash order walk
    "mcompl\t%s\t%s" % (fset([1, 2, 3]), ivl(0, 5, 0, 0)),
    "misect\t%s\trationals" % ivl(-2, 0, 1, 1),
    "munion\t%s\trationals" % ivl(-2, 0, 1, 1),
    "misect\t%s\tintegers" % ivl(-2, "oo", 1, 1),
    "misect\t%s\tnaturals" % ivl("-oo", 5, 1, 0),
    "misect\t%s\tnaturals0" % ivl(Fraction(-5, 2), Fraction(7, 2), 0, 0),
    "fcompl\tintegers\tnaturals0", "fcompl\tnaturals0\tnaturals", "fcompl\treals\trationals",
    "mcompl\t(rawcompl reals %s)\t%s" % (ivl(1, 2, 0, 0), ivl(0, 5, 0, 0)),
    "munion\t(rawcompl integers %s)\t%s" % (fset([1]), ivl(0, 5, 0, 0)),
    "mcompl\t(rawisect %s %s)\t%s" % (ivl(0, 2, 0, 0), ivl(1, 3, 0, 0), ivl(0, 3, 0, 0)),
    "contains\t(rawisect %s integers)\t(q 3 2)" % ivl(1, 3, 0, 1),
    "contains\t(rawcompl reals %s)\t(i 3)" % ivl(0, 1, 0, 0),
    "funion\treals\t(rawunion %s integers)" % ivl(0, 1, 0, 0),
    "funion\t%s\t%s\t%s" % (ivl(0, 1, 0, 0), ivl(1, 2, 1, 0), fset([5, -1])),
    "fisect\t%s\t%s\tintegers" % (ivl(0, 4, 0, 1), ivl(2, 9, 1, 0)),
    "fisect\t(rawunion %s %s)\t%s" % (ivl(0, 1, 0, 0), ivl(2, 3, 0, 0), ivl(Fraction(1, 2), Fraction(5, 2), 0, 0)),
    "helper\t%s\t(rawunion %s %s)" % (ivl(0, 5, 0, 0), ivl(-1, 1, 0, 0), fset([7, 3])),
    "sup\t(union %s %s)" % (ivl(1, 3, 0, 1), fset([7])), "inf\t(union %s naturals)" % ivl(-1, 3, 0, 1),
    "sup\temptyset", "inf\tnaturals0", "sup\t%s" % ivl(0, "oo", 0, 1), "sup\t%s" % fset([3, -1, Fraction(7, 2)]),
    "boundary\t%s" % ivl(0, 5, 1, 1), "closure\t%s" % ivl(0, 5, 1, 1), "interior\t%s" % ivl(0, 5, 0, 0),
    "boundary\t(union %s %s)" % (ivl(0, 5, 1, 1), ivl(7, 8, 0, 1)),
    "boundary\t(rawunion %s %s)" % (ivl(0, 5, 1, 1), ivl(5, 8, 0, 1)),
    "closure\trationals", "interior\tintegers", "boundary\t%s" % fset([1, 2]), "closure\t(union integers %s)" % ivl(0, 1, 1, 1),
    "boundary\t(rawisect %s integers)" % ivl(0, 2, 0, 0),
    "interior\t(rawunion %s %s)" % (ivl(0, 1, 0, 0), fset([3])),
    # the two classes recorded in known_findings.txt, in their natural form
    "boundary\t(union %s %s)" % (ivl(1, 3, 0, 1), ivl(3, 5, 0, 0)),
    "funion\t(isect rationals %s)\trationals" % ivl(0, 1, 0, 0),
    "munion\t(rawisect %s %s)\trationals" % (ivl(-2, Fraction(13, 3), 0, 0), ivl(-3, Fraction(-3, 2), 1, 0)),
    "misect\t(rawunion naturals0 %s)\t%s" % (ivl(Fraction(-3, 2), Fraction(5, 2), 1, 0), ivl("-oo", "oo", 0, 0)),
]


# ------------------------------------------------------------------ generators
class Gen:
    def __init__(self, rng):
        self.rng = rng
        self.used = []

    def num(self, inf_ok=False):
        rng = self.rng
        r = rng.random()
        if inf_ok and r < 0.07:
            return rng.choice(["oo", "-oo"])
        if self.used and r < 0.45:           # reuse a constant of this case: touching / equal endpoints
            return rng.choice(self.used)
        if r < 0.80:
            q = Fraction(rng.randint(-4, 6))
        elif r < 0.97:
            q = Fraction(rng.randint(-9, 13), rng.choice([2, 2, 3, 4]))
        else:
            q = Fraction(rng.choice([2 ** 64 + 3, -2 ** 63 - 1, 2 ** 32, 10 ** 20]), rng.choice([1, 1, 3]))
        self.used.append(q)
        return q

    @staticmethod
    def val(x):
        if x == "oo":
            return float("inf")
        if x == "-oo":
            return float("-inf")
        return x

    def interval(self):
        rng = self.rng
        a, b = self.num(True), self.num(True)
        if rng.random() < 0.92:
            if self.val(a) > self.val(b):
                a, b = b, a
            if self.val(a) == self.val(b) and rng.random() < 0.7:
                b = "oo" if a != "oo" else a
                if a == "oo":
                    a = Fraction(0)
        return ivl(a, b, rng.randint(0, 1), rng.randint(0, 1))

    def leaf(self):
        rng = self.rng
        r = rng.random()
        if r < 0.45:
            return self.interval()
        if r < 0.75:
            return fset([self.num() for _ in range(rng.randint(1, 4))])
        return rng.choice(ATOMS)

    def setexpr(self, depth):
        rng = self.rng
        if depth <= 0 or rng.random() < 0.45:
            return self.leaf()
        r = rng.random()
        a, b = self.setexpr(depth - 1), self.setexpr(depth - 1)
        if r < 0.15:
            return "(rawunion %s %s)" % (a, b)
        if r < 0.22:
            return "(rawisect %s %s)" % (a, b)
        if r < 0.35:
            return "(rawcompl %s %s)" % (a, b)
        if r < 0.55:
            return "(union %s %s)" % (a, b)
        if r < 0.70:
            return "(isect %s %s)" % (a, b)
        if r < 0.85:
            return "(compl %s %s)" % (a, b)
        return "(%s %s %s)" % (rng.choice(["mu", "mi", "mc"]), a, b)


def gen_case(rng):
    g = Gen(rng)
    r = rng.random()
    d = rng.choice([0, 0, 1, 1, 2])
    if r < 0.72:
        op = rng.choice(BIN_OPS)
        n = 2 if op not in ("funion", "fisect") else rng.choice([1, 2, 2, 2, 3])
        return "\t".join([op] + [g.setexpr(d) for _ in range(n)])
    if r < 0.90:
        return "%s\t%s" % (rng.choice(UN_OPS), g.setexpr(d))
    s = g.setexpr(d)
    x = g.num(rng.random() < 0.2)
    return "contains\t%s\t%s" % (s, x if isinstance(x, str) else qrec(x))


def exhaustive_small(tier):
    """complete small universes aimed at the case splits of the interval / finite set proofs"""
    pts = [0, 1, 2] if tier == "quick" else [0, 1, 2, 3]
    ivs = [ivl(a, b, lo, ro) for a, b in itertools.combinations(pts, 2) for lo in (0, 1) for ro in (0, 1)]
    out = []
    for a in ivs:
        for b in ivs:
            for op in ("munion", "misect", "mcompl"):
                out.append("%s\t%s\t%s" % (op, a, b))
    elems = [-1, 0, 1, 2] if tier == "quick" else [-1, 0, 1, 2, Fraction(1, 2)]
    subsets = [s for k in (1, 2, 3) for s in itertools.combinations(elems, k)]
    for s in subsets:
        for b in ivs[:12]:
            for op in ("munion", "misect", "mcompl"):
                out.append("%s\t%s\t%s" % (op, fset(s), b))
            out.append("mcompl\t%s\t%s" % (b, fset(s)))
    leaves = ATOMS + [ivl(0, 2, 0, 1), ivl("-oo", 1, 1, 0), ivl(Fraction(-1, 2), "oo", 0, 1), fset([0, 3]), fset([-1, Fraction(1, 2), 2]),
                      "(rawunion %s integers)" % ivl(0, 1, 0, 0), "(rawcompl reals %s)" % fset([1]),
                      "(rawisect %s rationals)" % ivl(0, 3, 1, 1)]
    for a in leaves:
        for b in leaves:
            for op in ("munion", "misect", "mcompl"):
                out.append("%s\t%s\t%s" % (op, a, b))
        for op in UN_OPS:
            out.append("%s\t%s" % (op, a))
        for x in ("(i 0)", "(i 1)", "(q 1 2)", "(i -1)", "(i 2)"):
            out.append("contains\t%s\t%s" % (a, x))
    return out


# ------------------------------------------------------------------ evaluation
def norm(r):
    return "R:DIVERGE" if r in ("R:HANG", "R:CRASH:11") else r


def classify(flags, impl_fields, has_inter):
    if flags:
        return "C27/" + FLAG_KEYS.get(flags[0], "flag-%d" % flags[0])
    return None


def explore(ctx, drv, model, cases, search=False):
    if drv is None or model is None:
        return
    impl = ctx.run_lines(drv, cases, timeout=1800, shards=14)
    idx = [i for i, o in enumerate(impl) if o and o.startswith("D:") and "\tR:" in o]
    mlines = []
    for i in idx:
        f = impl[i].split("\t")
        mlines.append("%s\t%s\t%s" % (cases[i].split("\t")[0], f[0][2:], f[1][2:]))
    mod = ctx.run_lines(model, mlines, timeout=1800, shards=14)
    ctx.cov["operand_recipe_failed"] = ctx.cov.get("operand_recipe_failed", 0) + (len(cases) - len(idx))
    ndiff = 0
    seen = ctx.cov.setdefault("_seen", set())
    for i, m in zip(idx, mod):
        f = impl[i].split("\t")
        g = (m or "NOOUTPUT").split("\t")
        rep = {"family": "c27", "case": cases[i]}
        if g[0] in ("FAIL timeout", "FAIL stack_overflow", "FAIL out_of_memory"):
            # the extracted model recomputes the hashes of whole trees at every container comparison; on a case
            # with very large intermediate sets it is abandoned after 20 s of CPU (ocaml/c27_main.ml)
            ctx.cov["model_too_slow_not_compared"] = ctx.cov.get("model_too_slow_not_compared", 0) + 1
            continue
        if len(g) < 5:
            ctx.broken.append({"kind": "correspondence", "name": "C27 model reader", "detail": "%s\n%s\n%s" % (cases[i], impl[i][:500], m)})
            continue
        mres, flags, wf, s_model, s_impl = g[0], [int(x) for x in g[1][2:].split(",") if x], g[2] == "W:1", g[3][2:], g[4][2:]
        ctx.cov["evaluations"] += 1
        ctx.cov["traces_validated_against_impl"] += 1
        op = cases[i].split("\t")[0]
        has_inter = False
        if mres == "R:UB" or 14 in flags:
            # the model says that Interval n Integers enumerates more than ENUM_LIMIT elements (the library may or
            # may not finish within the driver's time limit), or it reached a branch that is unreachable for
            # numbers of the fragment: nothing is compared
            ctx.cov["long_enumeration_or_unreachable_not_compared"] = ctx.cov.get("long_enumeration_or_unreachable_not_compared", 0) + 1
            continue
        key = (op, f[0])
        if key not in seen and not mres.startswith("R:EXN") and "Atom" not in f[0].split(" ;; ")[0][:6]:
            seen.add(key)
            ctx.cov["distinct_nontrivial"] += 1
        if wf:
            ctx.cov["cases_with_wellformed_operands"] = ctx.cov.get("cases_with_wellformed_operands", 0) + 1
        if not flags:
            ctx.cov["cases_inside_guards"] = ctx.cov.get("cases_inside_guards", 0) + 1
        # 1. correspondence
        if norm(mres) != norm(f[1]):
            ndiff += 1
            if ndiff <= 3:
                ctx.broken.append({"kind": "correspondence", "name": "C27 set operation",
                                   "detail": "case %s\noperands %s\nimpl  %s\nmodel %s (flags %s)" % (cases[i].replace("\t", " | "), f[0], f[1], mres, flags)})
        # 2. the property on the library's output
        problems = []
        if norm(f[1]) == "R:DIVERGE":
            problems.append("the library does not return (%s)" % f[1][2:])
        if s_impl not in ("", "?"):
            problems.append("membership specification fails on the library's result at germ points %s" % s_impl)
        if len(f) > 2:
            problems.append("library contains() oracle:" + f[2][8:][:300])
        if problems:
            k = classify(flags, f, has_inter and s_impl == "" and norm(f[1]) != "R:DIVERGE")
            if k is None:
                k = "unclassified/" + hashlib.sha1(cases[i].encode()).hexdigest()[:12]
            ctx.violation(k, "%s on %s -> %s : %s" % (op, f[0][2:][:300], f[1][2:][:200], "; ".join(problems)[:500]), rep)
        # 3. the model's own result against the specification when no defect flag was hit (guarded theorems)
        if not flags and s_model != "":
            ctx.broken.append({"kind": "correspondence", "name": "C27 guarded theorem instance",
                               "detail": "model result violates the specification although no defect flag was raised: %s -> %s at %s" % (cases[i], mres, s_model)})
    if not search:
        for i, m in list(zip(idx, mod))[:6]:
            ctx.cov["samples"].append({"case": cases[i], "impl": impl[i][:300], "model": (m or "")[:200]})


def run(ctx):
    ctx.gate(["C27"])
    ctx.prove(PROOF_MODULES, OBLIGATIONS)
    drv = ctx.build_driver("c27_driver")
    model = ctx.build_model("C27", "C27/Extract.v", "c27_main.ml", "semodel", extra_ml=["expr_io.ml"])
    n = 1500 if ctx.tier == "quick" else 30000
    cases = list(CORPUS) + exhaustive_small(ctx.tier) + [gen_case(ctx.rng) for _ in range(n)]
    explore(ctx, drv, model, cases)
    if ctx.broken and not [v for v in ctx.violations if v["key"].startswith("unclassified")]:
        explore(ctx, drv, model, [gen_case(ctx.rng) for _ in range(4000)], search=True)
    ctx.cov.pop("_seen", None)
    if ctx.cov.get("model_too_slow_not_compared", 0) * 100 > max(1, ctx.cov["evaluations"]):
        ctx.broken.append({"kind": "correspondence", "name": "C27 model speed",
                           "detail": "%d cases were abandoned by the model's CPU limit" % ctx.cov["model_too_slow_not_compared"]})
    ctx.cov["rule"] = ("cases = one set operation (member functions set_union / set_intersection / set_complement, the free functions, "
                       "set_complement_helper, contains, sup, inf, boundary, interior, closure) on operands built by recipes (constructors, raw "
                       "Union/Intersection/Complement constructors, nested operations); complete small universes of interval x interval and "
                       "finite set x interval (all endpoint coincidences and open/closed combinations) plus random trees; evaluations = cases whose "
                       "operands could be built and were compared tree-for-tree with the model; non-trivial = distinct (operation, operand dumps) whose "
                       "first operand is not a field-less atom and whose result is not an exception")
    ctx.assumptions += [
        "points are germs (a rational, or the rational / irrational numbers just above / below a rational): every real number has the same memberships as one of them in every set of the fragment (coq/C27/SetSpec.v, not proved against Coq's R)",
        "recursion depth fuel 200 in the model = stack exhaustion in the library (driver children run with a 1 MiB stack so that unbounded recursion is a prompt SIGSEGV); HANG and SIGSEGV are both compared as 'does not return'",
        "Interval n Integers is followed by the model up to ENUM_LIMIT = 100000 enumerated elements; longer enumerations are not compared",
        "the theorems assume the model returned a set without raising a defect flag (DF_COLLISION / DF_UNSORTED: the container comparator identified two different keys or a container was not sorted -- never observed; DF_RECURSION; DF_BOUNDARY_UNION_SHARED); cases_inside_guards counts the cases where no flag was raised",
        "ordered containers: the model uses the shared RCPBasicKeyLess model (Expr/Cmp.v, validated by C01/C02)",
    ]


def replay(ctx, rep):
    drv = ctx.build_driver("c27_driver")
    model = ctx.build_model("C27", "C27/Extract.v", "c27_main.ml", "semodel", extra_ml=["expr_io.ml"])
    case = rep["replay"]["case"]
    impl = ctx.run_lines(drv, [case])[0]
    print("case :", case.replace("\t", " | "))
    print("impl :", impl.replace("\t", " | "))
    f = impl.split("\t")
    if f[0].startswith("D:") and len(f) > 1:
        m = ctx.run_lines(model, ["%s\t%s\t%s" % (case.split("\t")[0], f[0][2:], f[1][2:])])[0]
        print("model:", m.replace("\t", " | "))
