"""C23 -- finite-field polynomial arithmetic and factorisation (symengine/fields.h, fields.cpp).
Model: coq/C23/GFModel.v (GaloisFieldDict over lists of Z, checked vector accesses, fuelled loops,
random polynomials from explicit streams).  Theorems: coq/C23/P_*.v.
Tie: one operation per case, run on the extracted model and on the library (exact coefficient
vectors); the driver also checks every library result against its own schoolbook GF(p)[x]."""
import vlib

PROOF_MODULES = ["C23/GFProofs.vo"]
ORDER = ["C23/GFPolyDefs.v", "C23/GFPolyLemmas.v", "C23/GFModel.v", "C23/GFSpec.v", "C23/GFArith.v",
         "C23/GFProofsRing.v", "C23/GFProofsDiv.v", "C23/GFProofsGcd.v", "C23/GFProofs.v"]
OBLIGATIONS = ["C23/P_%s.v" % n for n in (
    "from_vec_spec", "neg_spec", "add_spec", "sub_spec", "add_int_spec", "mul_int_spec", "mul_spec",
    "div_spec", "quo_spec", "rem_spec", "div_unique", "quo_exact", "shift_spec", "pow_spec", "pow_mod_spec",
    "monic_spec", "gcd_spec", "lcm_spec_partial", "diff_spec", "eval_spec", "compose_mod_spec", "zinvert_spec",
    "nonvacuous")]

SMALL = [2, 3, 5, 7, 11, 13]
MEDIUM = [17, 31, 101, 257, 65537]
LARGE = [2147483647, 2305843009213693951, 618970019642690137449562111, 170141183460469231731687303715884105727]

UNARY = ["fromvec", "neg", "sqr", "monic", "diff", "issqf", "sqflist", "sqfpart", "frobbase", "ddfz"]
BINARY = ["add", "sub", "mul", "mula", "div", "quo", "rem", "gcd", "lcm", "frobmap"]


# ------------------------------------------------------------------ python-side helpers (generation only)
def norm(v, p):
    r = [c % p for c in v]
    while r and r[-1] == 0:
        r.pop()
    return r


def pmul(a, b, p):
    if not a or not b:
        return []
    r = [0] * (len(a) + len(b) - 1)
    for i, x in enumerate(a):
        for j, y in enumerate(b):
            r[i + j] = (r[i + j] + x * y) % p
    return norm(r, p)


def fmt(v):
    return ",".join(str(c) for c in v) if v else "-"


def parse(s):
    return [] if s == "-" else [int(c) for c in s.split(",")]


def rand_poly(rng, p, maxdeg, kind=None):
    """coefficient vectors aimed at the case splits: empty, constants, leading coefficient 1 / p-1,
    unreduced and negative coefficients, trailing zeros that from_vec must strip, sparse"""
    kind = kind or rng.choice(["any", "any", "any", "monic", "zero", "const", "unreduced", "lead_pm1",
                               "sparse", "trail0", "x"])
    if kind == "zero":
        return rng.choice([[], [0], [p], [0, 0], [p, -p]])
    if kind == "const":
        return [rng.choice([1, p - 1, 2 % p, -1, p + 1, rng.randrange(p)])]
    if kind == "x":
        return rng.choice([[0, 1], [0, 0, 1], [1, 1], [p - 1, 1]])
    d = rng.randint(0, maxdeg)
    v = [rng.randrange(p) for _ in range(d + 1)]
    if kind == "monic":
        v[-1] = 1
    elif kind == "lead_pm1":
        v[-1] = p - 1
    elif kind == "unreduced":
        v = [c + p * rng.randint(-3, 3) for c in v]
    elif kind == "sparse":
        v = [c if rng.random() < 0.35 else 0 for c in v]
        v[-1] = rng.randrange(1, p) if p > 1 else 0
    elif kind == "trail0":
        v += [0] * rng.randint(1, 3)
    return v


def pick_prime(rng, tier):
    r = rng.random()
    if r < 0.6:
        return rng.choice(SMALL)
    if r < 0.85:
        return rng.choice(MEDIUM)
    return rng.choice(LARGE)


def gen_case(rng, tier):
    p = pick_prime(rng, tier)
    maxdeg = 7 if tier == "quick" else 10
    r = rng.random()
    P = lambda k=None: rand_poly(rng, p, maxdeg, k)
    if r < 0.14:
        op = rng.choice(UNARY)
        if op in ("frobbase", "ddfz") and p >= 2 ** 64:
            op = "sqflist"          # the Frobenius maps truncate the modulus to 64 bits (known finding, see CORPUS)
        return "%s %d %s" % (op, p, fmt(P()))
    if r < 0.50:
        op = rng.choice(BINARY)
        a, b = P(), P()
        s = rng.random()
        if s < 0.25:                 # divisible / common factor: a = b*c or a = c*d, b = c*e
            c = P("any")
            if rng.random() < 0.5:
                a = pmul(b, c, p)
            else:
                a, b = pmul(c, P("any"), p), pmul(c, P("any"), p)
        elif s < 0.33:
            b = list(a)              # equal operands
        elif s < 0.40 and len(a) > 0:
            b = a[:rng.randint(0, len(a))]       # degree thresholds: deg b = deg a - k
        if op == "frobmap" and p >= 2 ** 64:
            op = "rem"
        return "%s %d %s %s" % (op, p, fmt(a), fmt(b))
    if r < 0.58:
        op = rng.choice(["addi", "subi", "muli", "quoi", "remi"])
        c = rng.choice([0, 1, -1, p, p - 1, p + 1, rng.randrange(p), -rng.randrange(1, p + 1)])
        if op in ("quoi", "remi") and rng.random() < 0.9 and c % p == 0:
            c = 1
        return "%s %d %s %d" % (op, p, fmt(P()), c)
    if r < 0.63:
        return "%s %d %s %d" % (rng.choice(["lsh", "rsh"]), p, fmt(P()), rng.choice([0, 1, 2, 3, maxdeg, maxdeg + 1, 12]))
    if r < 0.70:
        n = rng.choice([0, 1, 2, 3, 4, 5, 7, 8, 15, 16, 17, rng.randint(0, 40)])
        return "pow %d %s %d" % (p, fmt(rand_poly(rng, p, 4)), n)
    if r < 0.78:
        n = min(2 ** 64 - 1, rng.choice([0, 1, 2, 3, 4, 5, 8, 31, 32, 33, p, p - 1, rng.randint(0, 10 ** 6), 2 ** 63 + 5, 2 ** 64 - 1]))
        return "powmod %d %s %s %d" % (p, fmt(P()), fmt(P()), n)
    if r < 0.84:
        x = rng.choice([0, 1, -1, p, p - 1, -p, rng.randrange(p), rng.randrange(-3 * p, 3 * p)])
        if rng.random() < 0.3:
            return "meval %d %s %s" % (p, fmt(P()), fmt([rng.randrange(0, 2 * p) for _ in range(rng.randint(0, 4))]))
        return "eval %d %s %d" % (p, fmt(P()), x)
    if r < 0.90:
        m, g, h = P(), P(), P()
        if rng.random() < 0.25:
            h = rng.choice([[], pmul(m, P("any"), p), m])      # intermediate results vanish modulo m
        return "compose %d %s %s %s" % (p, fmt(m), fmt(g), fmt(h))
    if r < 0.93:
        ks = sorted(set(rng.randint(0, 9) for _ in range(rng.randint(0, 5))))
        return "frommap %d %s" % (p, ",".join("%d:%d" % (k, rng.choice([0, p, rng.randrange(-p, 2 * p)])) for k in ks) or "-")
    if r < 0.95:
        return "fromint %d %d" % (p, rng.choice([0, 1, -1, p, -p, p + 1, rng.randrange(-3 * p, 3 * p)]))
    # square-free decomposition on products with repeated factors (p-th powers included)
    ps = rng.choice(SMALL)
    f = [1]
    for _ in range(rng.randint(1, 3)):
        g = rand_poly(rng, ps, 2, "monic")
        f = pmul(f, [1] if not norm(g, ps) else norm(g, ps), ps)
        e = rng.choice([1, 2, 3, ps, ps + 1])
        for _ in range(e - 1):
            if len(f) + len(g) < 14:
                f = pmul(f, norm(g, ps), ps)
    return "%s %d %s" % (rng.choice(["sqflist", "sqfpart", "issqf"]), ps, fmt(f))


def peval(f, x, p):
    r = 0
    for c in reversed(f):
        r = (r * x + c) % p
    return r


def rand_irreducible(rng, p, n):
    """a random monic irreducible polynomial of degree n <= 3 over GF(p), p small (no roots <=> irreducible)"""
    while True:
        f = [rng.randrange(p) for _ in range(n)] + [1]
        if n == 1 or all(peval(f, x, p) != 0 for x in range(p)):
            return f


def gen_factor_case(rng, tier):
    """factor: any nonzero polynomial (products with repeated factors);  zass: monic square-free products of
    distinct irreducibles;  edfz: products of distinct irreducibles of one degree n.  All with the streams
    of the random source."""
    p = rng.choice(SMALL + SMALL + [17, 31, 101]) if rng.random() < 0.9 else rng.choice([257, 1009])
    maxtot = 8 if tier == "quick" else 11
    if p == 2:
        maxtot = min(maxtot, 9)          # the p = 2 branch runs 2^(deg-1) squarings
    seed = rng.randint(1, 3)
    op = rng.choice(["factor", "factor", "factor", "zass", "edfz", "shoup", "shoup", "edfs", "ddfz", "ddfs"])
    if op == "factor":
        f = [rng.randrange(1, p)]
        while True:
            g = norm(rand_poly(rng, p, 3, "monic"), p)
            if len(f) + len(g) - 2 > maxtot:
                break
            f = pmul(f, g, p)
            if rng.random() < 0.3:
                break
        return op, p, seed, f, ""
    n = rng.choice([1, 1, 2, 2, 3])
    irr = []
    tot = 0
    for _ in range(rng.randint(1, 5)):
        d = n if op in ("edfz", "edfs") else rng.choice([1, 2, 3])
        g = rand_irreducible(rng, p, d)
        if g not in irr and tot + d <= maxtot:
            irr.append(g)
            tot += d
    f = [1]
    for g in irr:
        f = pmul(f, g, p)
    return op, p, seed, f, (" %d" % n if op in ("edfz", "edfs") else "")


CORPUS = [
    # inputs on which the library was wrong before bc03f74 / da7c58d, and the witnesses of the known
    # finding about moduli above 64 bits (kept so that a repair is noticed)
    "addi 5 - 3",
    "subi 5 0 3",
    "compose 5 1,0,0,1 1,0,1 -",
    "compose 5 1,0,0,1 1,0,1 1,0,0,1",
    "eval 5 0,1 -1",
    "frobbase 618970019642690137449562111 1,0,1,1",
    "ddfz 618970019642690137449562111 3,0,1,1",
    # gf_edf_shoup recursed without bound before a432cd9 (trace taken from the wrong _gf_trace_map)
    "shoup 1009 1 x 927,594,946,36,852,857,1",
    "edfs 1009 1 x 927,594,946,36,852,857,1 3",
    # boundaries of the division loops: deg f = deg g, deg f = deg g + 1, divisor of degree 1, constant divisor
    "div 5 1,2,3,4,1 4,0,2", "div 5 1,2,3 1,2,3", "div 5 1,2,3 0,0,4", "div 5 1,2,3,4 3,1", "div 5 1,2,3 4",
    "div 5 1,2 1,2,3", "div 5 - 1,2", "div 5 1,2 -", "div 7 6,5,4,3,2,1,1 1,1,1,1", "div 2 1,0,1,1,0,1,1 1,1,1",
    "quo 5 1,2,3,4,1 4,0,2", "rem 5 1,2,3,4,1 4,0,2", "quo 5 1,2,3 3", "rem 5 1,2,3 3", "quo 5 - -", "rem 5 1 -",
    "gcd 5 1,2,1 1,1", "gcd 5 - -", "gcd 5 - 2,4", "gcd 5 2,4 -", "gcd 7 1,0,6 1,2,1", "lcm 7 1,2,1 1,1", "lcm 7 - 1,1",
    "pow 5 1,1 5", "pow 5 - 0", "pow 5 - 3", "pow 5 2 4", "pow 2 1,1 16", "powmod 5 1,0,0,1 1,1 7", "powmod 5 3 1,1 7",
    "powmod 5 1,0,1 1,1 0", "powmod 5 1,0,1 - 5",
    "sqflist 3 1,0,0,2,0,0,1", "sqflist 5 4,2,1,1,4,1", "sqflist 2 1,0,1", "sqflist 3 1,0,0,1", "sqflist 3 0,0,0,1",
    "sqflist 5 0,0,0,0,0,1", "sqflist 2 0,0,1,0,1", "issqf 7 1,2,1", "sqfpart 7 1,3,3,1",
    "diff 3 1,1,1,1,1,1,1", "diff 5 1", "diff 5 -", "monic 7 1,2,3", "monic 7 -", "neg 7 0,1,0,6",
    "add 7 1,2,3 6,5,4", "add 7 1,2,3 1,2", "add 7 1,2 1,2,3", "sub 7 1,2,3 1,2,3", "sub 7 1,2 1,2,3", "sub 7 - 1,2,3",
    "mul 5 1,2,3 4,0,1", "mula 5 1,2,3 4", "mula 5 1,2,3 -", "muli 5 1,2,3 5", "muli 5 1,2,3 0", "quoi 5 1,2,3 2", "quoi 5 1,2,3 0",
    "lsh 5 1,2 3", "lsh 5 - 3", "rsh 5 1,2,3 1", "rsh 5 1,2,3 3", "rsh 5 0,0,3 2",
    "frommap 7 0:8,3:14,2:5", "frommap 7 -", "fromint 7 -3", "fromvec 7 7,14,0",
    "frobbase 5 1,0,0,0,1", "frobbase 2 1,1,0,1,1,0,0,1", "frobmap 5 1,1,1 1,0,0,0,1", "ddfz 5 1,0,0,0,1", "ddfz 3 2,0,1,1,0,0,1",
    "ddfs 5 1,0,0,0,1", "ddfs 3 2,0,1,1,0,0,1", "ddfs 7 3,1", "ddfs 7 1", "ddfs 7 -", "ddfs 2 1,1,0,1,1,0,0,1",
]


POLY_ARGS = {"ddfs": (2,), "powmod": (2, 3), "compose": (2, 3, 4), "edfz": (4,), "zass": (4,), "factor": (4,), "edfs": (4,), "shoup": (4,),
             "fromint": (), "frommap": ()}
for _op in BINARY:
    POLY_ARGS[_op] = (2, 3)


def nontrivial(case):
    """every polynomial operand is non-constant after reduction modulo p"""
    t = case.split()
    p = int(t[1])
    idx = POLY_ARGS.get(t[0], (2,))
    return bool(idx) and all(len(norm(parse(t[i]), p)) >= 2 for i in idx)


class Streams:
    def __init__(self, ctx, drv):
        self.ctx, self.drv, self.cache = ctx, drv, {}

    def get(self, p, seed, op):
        # Zassenhaus: few generators, many draws (2n-1 per attempt); Shoup: one generator per recursive call, deg-1 draws
        J, I = (200, 14) if op in ("shoup", "edfs") else ((40, 120) if p < 1000 else (16, 60))
        k = (p, seed, J, I)
        if k not in self.cache:
            self.cache[k] = self.ctx.run_lines(self.drv, ["streams %d %d %d %d" % (p, seed, J, I)])[0]
        return self.cache[k]


def exhaustive_cases(tier):
    """all polynomials / pairs of polynomials of small degree over tiny fields"""
    out = []

    def polys(p, maxlen):
        res = [[]]
        for n in range(1, maxlen + 1):
            def rec(pref):
                if len(pref) == n:
                    if pref[-1] != 0:
                        res.append(list(pref))
                    return
                for c in range(p):
                    rec(pref + [c])
            rec([])
        return res

    pair_spec = [(2, 4), (3, 3)] if tier == "quick" else [(2, 5), (3, 4), (5, 3)]
    for p, ml in pair_spec:
        ps = polys(p, ml)
        ops = ["div", "gcd", "mul"] if tier == "quick" else ["add", "sub", "mul", "mula", "div", "quo", "rem", "gcd", "lcm"]
        for a in ps:
            for b in ps:
                for op in ops:
                    out.append("%s %d %s %s" % (op, p, fmt(a), fmt(b)))
    un_spec = [(2, 5), (3, 4)] if tier == "quick" else [(2, 8), (3, 6), (5, 5)]
    for p, ml in un_spec:
        for a in polys(p, ml):
            for op in ["sqflist", "diff", "ddfz_if_sqf"] + ([] if tier == "quick" else ["monic", "neg", "issqf", "sqr", "frobbase"]):
                if op == "ddfz_if_sqf":
                    continue
                out.append("%s %d %s" % (op, p, fmt(a)))
            for x in range(p):
                if tier != "quick" or len(a) <= 3:
                    out.append("eval %d %s %d" % (p, fmt(a), x))
    return out


def exhaustive_factor(tier):
    out = []
    spec = [(2, 5), (3, 4)] if tier == "quick" else [(2, 8), (3, 6), (5, 5), (7, 4)]
    for p, ml in spec:
        def rec(pref, n):
            if len(pref) == n:
                if pref[-1] != 0:
                    out.append(("factor", p, 1, list(pref), ""))
                return
            for c in range(p):
                rec(pref + [c], n)
        for n in range(1, ml + 1):
            rec([], n)
    return out


def run(ctx):
    ctx.gate(["Base", "C23"])
    ctx.prove(PROOF_MODULES, OBLIGATIONS)
    drv = ctx.build_driver("c23_driver")
    model = ctx.build_model("C23", "C23/Extract.v", "c23_main.ml", "gf_model")
    if drv is None or model is None:
        return
    streams = Streams(ctx, drv)
    quick = ctx.tier == "quick"
    cases = list(CORPUS)
    cases += [gen_case(ctx.rng, ctx.tier) for _ in range(2500 if quick else 40000)]
    fac = exhaustive_factor(ctx.tier) + [gen_factor_case(ctx.rng, ctx.tier) for _ in range(300 if quick else 6000)]
    for op, p, seed, f, extra in fac:
        if op in ("ddfz", "ddfs"):
            cases.append("%s %d %s" % (op, p, fmt(f)))
        else:
            cases.append("%s %d %d %s %s%s" % (op, p, seed, streams.get(p, seed, op), fmt(f), extra))
    cases += exhaustive_cases(ctx.tier)
    explore(ctx, drv, model, cases)
    if ctx.broken and not ctx.violations:
        # a proof or the tie broke: search harder for a concrete failing input
        extra = [gen_case(ctx.rng, "thorough") for _ in range(20000)]
        explore(ctx, drv, model, extra, search=True)
    ctx.cov["rule"] = (
        "one GaloisFieldDict operation per case over primes 2..13 (60 %), 17..65537, and 2^31-1, 2^61-1, 2^89-1, 2^127-1; "
        "operands aimed at the case splits (empty, constant, equal degrees, degree thresholds of the division loops, divisible pairs, "
        "common factors, unreduced/negative input coefficients, p-th powers, vanishing intermediate results) plus exhaustive sweeps over "
        "all (pairs of) polynomials of small degree over GF(2), GF(3), GF(5); non-trivial = every polynomial operand is non-constant modulo p; "
        "distinct = distinct case lines")
    ctx.assumptions += [
        "the modulus is a prime p >= 2 (the theorems assume Znumtheory.prime p); mixing two moduli throws and is not modelled",
        "mp_fdiv_r = Z.modulo, mpz_invert(a, p) = the inverse in [0,p) (modelled by an extended Euclid, proved correct for prime p: P_zinvert_spec), mp_get_ui = low 64 bits",
        "exponents of gf_pow / gf_pow_mod fit unsigned long (< 2^64), shift counts and p used as `unsigned` in gf_sqf_list fit 32 bits",
        "the equal-degree factorisations draw their random polynomials from mp_randstate objects seeded by std::rand(); the driver fixes srand(seed) and "
        "hands the resulting streams to the model, so factorisation results are compared exactly; termination for every stream is not proved (Las Vegas)",
        "not proved (checked per explored input by the driver's oracle and tied by correspondence): gf_sqf_list / gf_sqf_part multiply back to the monic input with "
        "square-free pairwise coprime parts; Frobenius base/map = x^(ip), f^p; ddf parts have factors of one degree; factor products = input; irreducibility of returned factors "
        "(brute force for small p^deg, Rabin's test otherwise); minimality of gf_lcm",
    ]


def classify(case, canon):
    return "C23/crash-" + case.split()[0]


def explore(ctx, drv, model, cases, search=False):
    impl = ctx.run_lines(drv, cases, timeout=3000)
    mod = ctx.run_lines(model, cases, timeout=3000)
    ctx.cov["evaluations"] += len(cases)
    ctx.cov["distinct_nontrivial"] += len(set(c for c in cases if nontrivial(c)))
    ctx.cov["traces_validated_against_impl"] += len(cases)
    if not search:
        ctx.cov["samples"] += [{"case": c[:300], "model": m[:300], "impl": i[:300]} for c, m, i in list(zip(cases, mod, impl))[5:11]]
    ndis = 0
    nstream = 0
    for c, m, i in zip(cases, mod, impl):
        canon, _, oracle = i.partition("\t#ORACLE:")
        short = c if len(c) < 400 else c[:200] + " ... " + c[-150:]
        if oracle:
            cls, _, what = oracle.partition(": ")
            ctx.violation("C23/" + cls.strip(), "case `%s`: %s" % (short, what.strip()),
                          {"family": "C23", "case": c, "impl": canon, "model": m})
        elif "CRASH" in canon or "HANG" in canon or "UNCAUGHT" in canon or "EXN:3" in canon:
            ctx.violation(classify(c, canon), "case `%s` ends with %s on the library (model: %s)" % (short, canon[-40:], m[-80:]),
                          {"family": "C23", "case": c, "impl": canon, "model": m})
        elif m == "EXN:99":
            nstream += 1        # the model ran out of its explicit random stream: inconclusive, not a disagreement
        elif canon != m:
            ndis += 1
            if ndis <= 3:
                ctx.broken.append({"kind": "correspondence", "name": "C23 " + c.split()[0],
                                   "detail": "case `%s`\n model: %s\n impl:  %s" % (short, m[:500], canon[:500])})
    if nstream:
        ctx.notes.append("%d factorisation cases inconclusive (model stream exhausted)" % nstream)
    return ndis


def replay(ctx, rep):
    drv = ctx.build_driver("c23_driver")
    model = ctx.build_model("C23", "C23/Extract.v", "c23_main.ml", "gf_model")
    c = rep["replay"]["case"]
    print("case :", c)
    print("impl :", ctx.run_lines(drv, [c])[0])
    print("model:", ctx.run_lines(model, [c])[0])
