"""Shared machinery of the C12 / C13 checks: the translator step (regenerates coq/Eval/Gen_*.v from the
evaluator sources; files are written only when their content changes), the framework calls
(make of the proof modules, obligations, driver, extracted model) and the case generators."""
import os
import re
import sys

import vlib

ROOT = vlib.ROOT
COQ = vlib.COQ

# proof modules built by `make` (the shared Makefile resolves their dependencies: model files, Gen_*.v)
C12_PROOF_MODULES = ["Eval/TableProofs.vo", "Eval/AgreeProofs.vo", "Eval/Witnesses.vo"]
C13_PROOF_MODULES = ["Eval/TableProofs.vo", "Eval/AgreeProofs.vo", "Eval/LambdaProofs.vo", "Eval/ReinitProofs.vo",
                     "Eval/Witnesses.vo"]
C12_OBLIGATIONS = ["C12/P_evalrule_ideal.v", "C12/P_tables_cover_spec.v", "C12/P_dispatch_agree.v",
                   "C12/P_dispatch_agree_sem.v", "C12/P_nonvacuous.v"]
C13_OBLIGATIONS = ["C13/P_lambda_rules_ideal.v", "C13/P_lambda_rules_agree_eval.v", "C13/P_lambda_agree_sem.v",
                   "C13/P_compile_sound.v", "C13/P_call_sound.v", "C13/P_cse_transparent.v", "C13/P_reinit_fresh.v",
                   "C13/P_reinit_fresh_guarded.v", "C13/P_reinit_unrepaired_refuted.v",
                   "C13/P_piecewise_unrepaired_refuted.v", "C13/P_nonvacuous.v"]


def run_translator(ctx):
    env = dict(os.environ)
    env["VERIF_REPO"] = vlib.REPO
    rc, out = vlib.sh([sys.executable, os.path.join(ROOT, "translators", "tr_evalrules.py")], env=env, timeout=300)
    if rc != 0:
        ctx.broken.append({"kind": "translator", "name": "tr_evalrules",
                           "detail": "the evaluator source no longer has the recognised shape:\n" + out[-2500:]})
        return False
    for line in out.splitlines():
        if "regenerated" in line:
            ctx.notes.append(line.strip())
    return True


def prepare(ctx, proof_modules, obligations):
    """translator, gate, proofs (make + obligations), driver, model.  Returns (driver, model)."""
    import time
    t = [time.time()]

    def lap(name):
        t.append(time.time())
        ctx.notes.append("stage %s: %.1fs" % (name, t[-1] - t[-2]))
    run_translator(ctx)
    lap("translate")
    ctx.gate(["Base", "Eval", "C12", "C13"])
    ctx.prove(proof_modules, obligations)
    lap("prove")
    drv = ctx.build_driver("eval_driver")
    lap("driver")
    model = ctx.build_model("EVAL" + vlib.TAG, "Eval/Extract.v", "eval_main.ml", "semodel", extra_ml=["expr_io.ml"])
    lap("model")
    return drv, model


def gen_flag(name):
    """value of a generated boolean/constructor in Gen_LambdaRules.v / Gen_EvalRules.v"""
    for f in ("Eval/Gen_LambdaRules.v", "Eval/Gen_EvalRules.v"):
        p = os.path.join(COQ, f)
        if os.path.exists(p):
            for line in open(p):
                m = re.match(r"\s*Definition %s : bool := (true|false)\." % name, line)
                if m:
                    return m.group(1) == "true"
    return None


def gen_rule(table, cls):
    p = os.path.join(COQ, "Eval/Gen_LambdaRules.v" if table == "lambda_rules" else "Eval/Gen_EvalRules.v")
    if not os.path.exists(p):
        return None
    txt = open(p).read()
    m = re.search(r"Definition %s : list \(N \* rule\) := \[(.*?)\n\]\." % table, txt, re.S)
    if not m:
        return None
    mm = re.search(r"\(TC_%s, (.*?)\);?\n" % cls, m.group(1))
    return mm.group(1) if mm else None


# ------------------------------------------------------------------ generators
CONSTS = ["pi", "E", "EulerGamma", "Catalan", "GoldenRatio"]
INTS = ["(i 0)", "(i 1)", "(i -1)", "(i 2)", "(i -3)", "(i 7)", "(i 10)", "(i 100)",
        "(i 9007199254740995)", "(i -9007199254740995)", "(i 100000000000000000000)", "(i 18446744073709551617)"]
RATS = ["(q 1 2)", "(q -1 2)", "(q 1 3)", "(q 2 3)", "(q 1 10)", "(q -1 10)", "(q 3 7)", "(q 22 7)", "(q -7 3)", "(q 7 2)",
        "(q 2 5)", "(q -3 4)", "(q 9 10)", "(q 11 10)", "(q -11 10)", "(q 100000000000000000000 3)", "(q 1 1000000000000001)",
        "(q 5 4)", "(q 99 100)", "(q 101 100)"]
F1 = ["sin", "cos", "tan", "cot", "sec", "csc", "asin", "acos", "atan", "acot", "asec", "acsc", "sinh", "cosh", "tanh",
      "coth", "sech", "csch", "asinh", "acosh", "atanh", "acoth", "asech", "acsch", "log", "exp", "abs", "erf", "erfc",
      "gamma", "loggamma"]
# arguments that keep the node unevaluated, aimed at the domain boundaries of the inverse functions
ARGS = RATS + ["(i 2)", "(i -3)", "(i 7)", "(div pi (i 7))", "(div (i 1) pi)", "(neg (div E (i 2)))", "(sqrt (i 2))",
               "(div (sqrt (i 3)) (i 2))", "(add pi (q 1 3))", "(sub E (i 3))", "(div (i 10) pi)", "(mul (i 5) EulerGamma)",
               "(f1 sin (i 1))", "(f1 cos (q 1 3))", "(pow pi (i 2))", "(pow E (q 1 2))", "(neg pi)", "(div pi (i 2))"]


def atom(rng):
    r = rng.random()
    if r < 0.3:
        return rng.choice(CONSTS)
    if r < 0.55:
        return rng.choice(INTS[:8])
    if r < 0.6:
        return rng.choice(INTS[8:])
    return rng.choice(RATS)


def gen_num(rng, depth):
    """a numeric expression tree"""
    if depth <= 0 or rng.random() < 0.18:
        return atom(rng)
    r = rng.random()
    if r < 0.18:
        n = rng.choice([2, 2, 3, 4])
        return "(addv %s)" % " ".join(gen_num(rng, depth - 1) for _ in range(n))
    if r < 0.36:
        n = rng.choice([2, 2, 3, 4])
        return "(mulv %s)" % " ".join(gen_num(rng, depth - 1) for _ in range(n))
    if r < 0.48:
        e = rng.choice(["(i 2)", "(i 3)", "(i -1)", "(i -2)", "(q 1 2)", "(q -1 2)", "(q 1 3)", "(q 3 2)", "(i 10)"])
        if rng.random() < 0.25:
            e = rng.choice(CONSTS + RATS[:10] + ["(f1 sin (i 1))", "(add pi (q 1 3))", "(neg E)"])
        b = rng.choice(["E", "E", gen_num(rng, depth - 1), gen_num(rng, depth - 1)])
        return "(pow %s %s)" % (b, e)
    if r < 0.55:
        return "(div %s %s)" % (gen_num(rng, depth - 1), gen_num(rng, depth - 1))
    if r < 0.60:
        return "(sub %s %s)" % (gen_num(rng, depth - 1), gen_num(rng, depth - 1))
    if r < 0.88:
        return "(f1 %s %s)" % (rng.choice(F1), gen_num(rng, depth - 1) if rng.random() < 0.6 else rng.choice(ARGS))
    if r < 0.91:
        return "(f2 atan2 %s %s)" % (gen_num(rng, depth - 1), gen_num(rng, depth - 1))
    if r < 0.95:
        return "(%s %s)" % (rng.choice(["max", "min"]), " ".join(gen_num(rng, depth - 1) for _ in range(rng.choice([2, 3, 4]))))
    if r < 0.98:
        c = "(%s %s %s)" % (rng.choice(["lt", "le", "gt", "ge", "eq", "ne"]), gen_num(rng, depth - 1), gen_num(rng, depth - 1))
        return "(pw %s %s %s true)" % (gen_num(rng, depth - 1), c, gen_num(rng, depth - 1))
    return "(%s %s %s)" % (rng.choice(["lt", "le", "eq", "ne"]), gen_num(rng, depth - 1), gen_num(rng, depth - 1))


def class_sweep():
    """every one-argument class on every palette argument (the per-class obligations' boundaries)"""
    cases = []
    for f in F1:
        for a in ARGS:
            cases.append("(f1 %s %s)" % (f, a))
    return cases


# ---- C13: expressions over symbols
SYMS = ["x", "y", "z", "w", "x0"]
F1_LAMBDA = F1 + ["sign", "floor", "ceiling", "truncate"]
DOUBLES = ["0000000000000000", "8000000000000000", "3ff0000000000000", "bff0000000000000", "3fe0000000000000",
           "4000000000000000", "3ff8000000000000", "c004000000000000", "4024000000000000", "3fb999999999999a",
           "3fd5555555555555", "400921fb54442d18", "4005bf0a8b145769", "3fefffffffffffff", "3ff0000000000001",
           "bfefffffffffffff", "40c3880000000000", "3f50624dd2f1a9fc", "c059000000000000", "4202a05f20000000",
           "3e112e0be826d695", "7ff0000000000000", "fff0000000000000", "7ff8000000000000", "0010000000000000",
           "4340000000000001", "c340000000000001", "3fdfffffffffffff", "4004000000000000", "bfe0000000000000"]

DOUBLES_GENERIC = ["3ff8000000000000", "4000000000000000", "4004000000000000", "3fe0000000000000", "400921fb54442d18", "3fb999999999999a",
                   "3fd5555555555555", "4005bf0a8b145769", "4008000000000000", "3ff199999999999a"]


def dbl(rng):
    if rng.random() < 0.75:
        return rng.choice(DOUBLES)
    import struct
    v = rng.choice([rng.uniform(-3, 3), rng.uniform(-1, 1), rng.uniform(0, 50), rng.gauss(0, 1), rng.uniform(1, 2)])
    return "%016x" % struct.unpack("<Q", struct.pack("<d", v))[0]


def gen_bool(rng, depth, syms):
    r = rng.random()
    if depth <= 0 or r < 0.5:
        return "(%s %s %s)" % (rng.choice(["lt", "le", "gt", "ge", "eq", "ne"]), gen_sym(rng, depth - 1, syms), gen_sym(rng, depth - 1, syms))
    if r < 0.6:
        return "(contains %s (interval %s %s %d %d))" % (gen_sym(rng, depth - 1, syms), rng.choice(["(i -1)", "(q 1 2)", "-oo", "(i 0)"]),
                                                          rng.choice(["(i 2)", "oo", "(i 1)", "(q 3 2)"]), rng.randint(0, 1), rng.randint(0, 1))
    if r < 0.7:
        return "(not %s)" % gen_bool(rng, depth - 1, syms)
    if r < 0.97:
        return "(%s %s)" % (rng.choice(["and", "or", "xor"]), " ".join(gen_bool(rng, depth - 1, syms) for _ in range(rng.choice([2, 2, 3]))))
    return rng.choice(["true", "false"])


def gen_sym(rng, depth, syms, shared=None):
    """an expression over the symbols `syms` (and numbers)"""
    if shared and rng.random() < 0.3:
        return rng.choice(shared)
    if depth <= 0 or rng.random() < 0.15:
        r = rng.random()
        if r < 0.6 and syms:
            return rng.choice(syms)
        if r < 0.7:
            return rng.choice(CONSTS)
        if r < 0.75:
            return "(d %s)" % rng.choice(DOUBLES[:21])
        return rng.choice(INTS[:8] + RATS[:12])
    r = rng.random()
    sub = lambda: gen_sym(rng, depth - 1, syms, shared)
    if r < 0.2:
        return "(addv %s)" % " ".join(sub() for _ in range(rng.choice([2, 2, 3, 4])))
    if r < 0.4:
        return "(mulv %s)" % " ".join(sub() for _ in range(rng.choice([2, 2, 3, 4])))
    if r < 0.52:
        return "(pow %s %s)" % (rng.choice(["E", sub(), sub()]), rng.choice(["(i 2)", "(i 3)", "(i -1)", "(q 1 2)", "(q -1 2)", sub()]))
    if r < 0.58:
        return "(div %s %s)" % (sub(), sub())
    if r < 0.80:
        return "(f1 %s %s)" % (rng.choice(F1_LAMBDA), sub())
    if r < 0.83:
        return "(f2 atan2 %s %s)" % (sub(), sub())
    if r < 0.88:
        return "(%s %s)" % (rng.choice(["max", "min"]), " ".join(sub() for _ in range(rng.choice([2, 3]))))
    if r < 0.95:
        n = rng.choice([1, 2, 3])
        parts = []
        for _ in range(n):
            parts.append(sub())
            parts.append(gen_bool(rng, depth - 1, syms))
        if rng.random() < 0.85:
            parts += [sub(), "true"]
        return "(pw %s)" % " ".join(parts)
    return gen_bool(rng, depth - 1, syms)


def gen_outputs(rng, syms, depth, n):
    shared = [gen_sym(rng, max(1, depth - 1), syms) for _ in range(rng.choice([1, 2, 3]))]
    shared = [s for s in shared if s.startswith("(")] or ["(add x y)"]
    return [gen_sym(rng, depth, syms, shared) for _ in range(n)]


def gen_cse_outputs(rng, syms):
    """outputs aimed at the case splits of cse.cpp's optimisation pass (OptsCSEVisitor / match_common_args): negated products and
    powers, negative exponents, products and sums that share several factors/addends, a power next to a product of its base and exponent"""
    atoms = list(syms) + ["(i 2)", "(i 3)"]
    def power():
        b = rng.choice(syms)
        e = rng.choice(["(i 2)", "(i 3)", "(i -1)", "(i -2)", "(q 1 2)", "(q -1 2)"] + list(syms))
        return "(pow %s %s)" % (b, e)
    def product():
        fs = rng.sample(atoms, rng.randint(2, min(4, len(atoms))))
        if rng.random() < 0.3:
            fs.append(power())
        if rng.random() < 0.3:
            fs.append("(f1 %s %s)" % (rng.choice(["sin", "cos", "exp"]), rng.choice(syms)))
        return "(mulv %s)" % " ".join(fs)
    def term():
        r = rng.random()
        t = power() if r < 0.35 else product() if r < 0.75 else rng.choice(syms)
        r = rng.random()
        if r < 0.35:
            return "(neg %s)" % t
        if r < 0.45:
            return "(mul (i -2) %s)" % t
        return t
    outs = []
    for _ in range(rng.choice([2, 2, 3, 4])):
        r = rng.random()
        if r < 0.5:
            outs.append("(addv %s)" % " ".join(term() for _ in range(rng.choice([2, 2, 3, 4]))))
        elif r < 0.8:
            outs.append(product())
        elif r < 0.9:
            outs.append("(f1 %s (addv %s %s))" % (rng.choice(["sin", "exp", "cos"]), term(), term()))
        else:
            outs.append("(div %s %s)" % (term(), product()))
    return outs


def gen_cse_history(rng):
    """one cse=1 init on algebraic outputs with heavy sharing, followed by calls on generic (non-special) points, then the same with cse=0"""
    syms = rng.sample(SYMS[:4], rng.randint(2, min(4, len(SYMS[:4]))))
    outs = gen_cse_outputs(rng, syms)
    pts = ["C " + " ".join(rng.choice(DOUBLES_GENERIC) for _ in syms) for _ in range(2)]
    body = " ;; ".join(syms) + " :: " + " ;; ".join(outs)
    return "H " + " || ".join(["I 1 :: " + body] + pts + ["I 0 :: " + body] + pts)


def gen_history(rng, tier):
    ops = []
    nin = rng.randint(1, 4)
    for k in range(rng.choice([1, 1, 2, 2, 3, 4])):
        syms = rng.sample(SYMS, rng.randint(1, 4))
        outs = gen_outputs(rng, syms, rng.choice([1, 2, 2, 3]), rng.choice([1, 1, 2, 3]))
        cse = rng.randint(0, 1)
        r = rng.random()
        if r < 0.22:
            # an init that throws: unknown symbol / unsupported class, possibly after common subexpressions
            bad = rng.choice(["u", "(f2 zeta x (i 2))", "(fs f x)", "(contains x (fset (i 1) (i 2)))", "(add u (f1 sin u))", "zoo",
                              "(c 1 2 3 4)"])
            pos = rng.randint(0, len(outs))
            outs = outs[:pos] + [bad] + outs[pos:]
        elif r < 0.40 and k > 0:
            # symbols named like the CSE symbols that are NOT inputs (must be rejected by a fresh object)
            outs.append("(add %s %s)" % (rng.choice(["x0", "x1", "x2"]), rng.choice(syms)))
        ops.append("I %d :: %s :: %s" % (cse, " ;; ".join(syms), " ;; ".join(outs)))
        for _ in range(rng.choice([0, 1, 1, 2, 3])):
            ops.append("C " + " ".join(dbl(rng) for _ in syms))
    return "H " + " || ".join(ops)


def split_history(line):
    """driver output -> (op input parts, op results, oracle text).  A result is followed by "~" when the
    driver starts oracle work (fresh objects ...) and by "." when that work is done: a crash after "~"
    is not the visitor's, the history just ends there."""
    body, _, oracle = line.partition("\t#ORACLE:")
    died = re.search(r"(CRASH:\d+|HANG|DIED)$", body)
    if died:
        body = body[:died.start()]
    ins, outs = [], []
    for op in body.split(" || "):
        if " => " in op:
            a, b = op.split(" => ", 1)
            ins.append(a)
            outs.append(b)
        elif op.strip():
            ins.append(op)
            outs.append("")
    if died and body.rstrip().endswith("||"):
        died = None          # died while CONSTRUCTING the expressions of the next op: not the visitor's
    if outs:
        last = outs[-1]
        if died and "~" in last and not last.endswith("."):
            outs[-1] = last.split("~")[0]          # died during oracle work
        elif died:
            outs[-1] = "CRASH" if died.group(1) != "HANG" else "HANG"
    outs = [o.split("~")[0] for o in outs]
    return ins, outs, oracle.strip()
