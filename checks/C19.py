"""C19 -- serialization round-trips exactly (doubles bit for bit, sharing restored, DenseMatrix too).
Model: coq/Codec/CodecModel.v (encoder = save_rcp_basic + save_basic overloads, decoder = load_rcp_basic +
load_basic overloads, on labelled trees so that sharing is visible).  Theorems: coq/C19/P_*.v.
Tie and oracle: see checks/codeccommon.py."""
import re
import vlib
from checks import codeccommon as K

PROOF_MODULES = ["Codec/CodecTree.vo", "Codec/CodecMatrix.vo", "Codec/CodecRoundtrip.vo"]
OBLIGATIONS = ["C19/P_decode_encode.v", "C19/P_decode_encode_tree.v", "C19/P_sharing_restored.v",
               "C19/P_node_roundtrip.v", "C19/P_dense_roundtrip.v", "C19/P_nonvacuous.v"]


NAN_RE = re.compile(r"\b[7f]ff[0-9a-f]{13}\b")


def has_nan(dump):
    return any(int(m.group(0), 16) & 0xFFFFFFFFFFFFF for m in NAN_RE.finditer(dump))


def classify_rt(de, dl):
    """class of a round-trip difference, from the two dumps"""
    a, b = K.canon(de), K.canon(dl)
    if a == b:
        return None
    # only ComplexDouble values changed (sets containing them may have been re-ordered)
    ra = sorted(re.sub(r"\(CD [0-9a-f]{16} [0-9a-f]{16}\)", "(CD)", a).replace("(", " ( ").replace(")", " ) ").split())
    rb = sorted(re.sub(r"\(CD [0-9a-f]{16} [0-9a-f]{16}\)", "(CD)", b).replace("(", " ( ").replace(")", " ) ").split())
    if ra == rb and "(CD" in a:
        return "C19/complexdouble-not-bit-exact"
    return "C19/roundtrip-differs"


def run(ctx):
    K.translate(ctx)
    ctx.gate(["Codec", "C19"])
    ctx.prove(PROOF_MODULES, OBLIGATIONS)
    drv, model = K.build(ctx)
    if drv is None or model is None:
        return
    ver = ctx.run_lines(drv, ["version"])[0].split()
    ctx.ver = (ver[0], ver[1])
    n = 700 if ctx.tier == "quick" else 12000
    cases = ["rt " + r for r in K.CORPUS] + ["rtx " + s for s in K.SPECIALS] + ["rt " + K.gen_expr(ctx.rng) for _ in range(n)]
    ctx.stats = {"nontrivial": set(), "classes": set(), "shared": 0}
    explore(ctx, drv, model, cases)
    matrices(ctx, drv, model, 40 if ctx.tier == "quick" else 600)
    if ctx.broken and not ctx.violations:
        explore(ctx, drv, model, ["rt " + K.gen_expr(ctx.rng) for _ in range(4000)], search=True)
    ctx.cov["distinct_nontrivial"] = len(ctx.stats["nontrivial"])
    ctx.cov["classes_seen"] = sorted(ctx.stats["classes"])
    ctx.cov["streams_with_back_references"] = ctx.stats["shared"]
    ctx.cov["rule"] = ("expressions built by recipes of public API calls covering every class with a save_basic overload (numbers of every kind "
                       "incl. signed zeros / inf / NaN payloads in RealDouble and ComplexDouble, multi-limb integers, symbols, dummies, constants, "
                       "Add/Mul/Pow, all one-/two-/multi-argument functions, relationals, And/Or/Not/Xor, Piecewise, Contains, Interval, FiniteSet, "
                       "Union, Complement, the atomic sets, Derivative, Subs, FunctionSymbol), explicit sharing (one object inserted at several "
                       "places by xreplace) next to the library's own sharing (one, zero, pi ...), objects recipes cannot build (rtx), and "
                       "DenseMatrix contents; each case: dumps, loads, dumps again on the library and decode / encode / re-encode on the model; "
                       "a case is non-trivial when the stream has at least 4 nodes; distinct = distinct canonical dumps")
    ctx.assumptions += [
        "node ids are object addresses: the model's encoder takes the ids as part of its input (labelled tree); byte equality is checked by "
        "re-encoding the decoded labelled tree of every library stream",
        "Add dictionaries (unordered_map) are modelled in insertion order; dumps are compared after sorting Add entries",
        "std::map / std::set containers are modelled as lists sorted by the expression-core model of RCPBasicKeyLess (coq/Expr/Cmp.v, tied by C01/C02)",
        "classes outside the expr model (ImageSet, ConditionSet, polynomials, Tuple, matrices expressions) are covered by the library-side oracle only",
        "operator<<(integer_class) prints the decimal digits without leading zeros, '-' first for negatives",
    ]


def explore(ctx, drv, model, cases, search=False):
    impl = ctx.run_lines(drv, cases, timeout=1800)
    dec_cases, dec_idx = [], []
    enc_cases, enc_idx = [], []
    rows = []
    for c, line in zip(cases, impl):
        pre, at, line = line.partition("@")
        row = {"case": c, "impl": line}
        rows.append(row)
        if not at:
            # the recipe itself crashed / hung / was rejected: not a codec case
            ctx.notes.append("recipe not evaluated: %s -> %s" % (c[:200], pre[-40:]))
            continue
        p = line.split("\t")
        ctx.cov["evaluations"] += 1
        rep = {"family": "codec", "case": c, "impl": line[:2000]}
        if p[0].startswith("NORECIPE"):
            continue
        if "CRASH" in line or "HANG" in line or "UNCAUGHT" in line:
            ctx.violation("C19/crash-in-dumps-or-loads", "case `%s`: %s" % (c, line[-200:]), rep)
            continue
        if p[0].startswith("NOSAVE"):
            row["nosave"] = True
            continue
        if len(p) >= 3 and p[2].startswith("LOADFAIL"):
            cls = sorted(K.heads(p[1]))
            ctx.violation("C19/loads-rejects-dumps:" + "+".join(cls)[:60],
                          "case `%s`: dumps() succeeds (%d bytes) but loads() of these bytes throws %s; object %s" % (
                              c, len(p[0]) // 2, p[2], p[1][:200]), rep)
            continue
        if len(p) < 5:
            ctx.broken.append({"kind": "correspondence", "name": "codec driver output", "detail": c + "\n" + line[:500]})
            continue
        hexb, de, dl, hexb2, flags = p[0], p[1], p[2], p[3], p[4]
        row.update(hex=hexb, de=de, dl=dl, hex2=hexb2)
        ctx.stats["classes"] |= K.heads(de)
        # ---- the property oracle on the library alone: equal, and bit-identical dumps
        cls = classify_rt(de, dl)
        if cls:
            ctx.violation(cls, "case `%s`: loads(dumps(e)) differs from e:\n   e      = %s\n   loaded = %s" % (c, K.canon(de)[:400], K.canon(dl)[:400]), rep)
        elif "#ORACLE" in line and not has_nan(de):
            ctx.violation("C19/roundtrip-not-eq", "case `%s`: %s (dumps identical: %s)" % (c, flags, de[:300]), rep)
        if "Opaque" in de:
            continue
        for which, hx in (("B", hexb), ("B2", hexb2)):
            dec_cases.append("dec %s %s %s" % (ctx.ver[0], ctx.ver[1], hx))
            dec_idx.append((row, which))
        for pol in ("fresh", "share"):
            enc_cases.append("enc %s %s %s %s" % (pol, ctx.ver[0], ctx.ver[1], de))
            enc_idx.append((row, pol))
    mod = ctx.run_lines(model, dec_cases + enc_cases, timeout=1800)
    mdec, menc = mod[:len(dec_cases)], mod[len(dec_cases):]
    ndis = 0

    def broken(name, detail):
        nonlocal ndis
        ndis += 1
        if ndis <= 4:
            ctx.broken.append({"kind": "correspondence", "name": name, "detail": detail[:3000]})

    # (a) the model decodes the library's bytes; (c) re-encoding gives the same bytes; sharing restored
    for (row, which), m in zip(dec_idx, mdec):
        ctx.cov["traces_validated_against_impl"] += 1
        mp = m.split("\t")
        want = row["dl"]          # both streams load to dl on the library (B2 = dumps(loads(B)); checked below)
        if mp[0] != "OK" or len(mp) < 4:
            if mp[0] == "EXN:99":
                continue
            broken("C19 decode_model(dumps_impl)", "case `%s` (%s): model says %s\n bytes %s" % (row["case"], which, m[:200], row["hex" if which == "B" else "hex2"]))
            continue
        if K.canon(mp[1]) != K.canon(want):
            broken("C19 decode_model(dumps_impl)", "case `%s` (%s)\n model: %s\n impl:  %s" % (row["case"], which, K.canon(mp[1]), K.canon(want)))
        if mp[3] != "REENC=1":
            broken("C19 encode_model(decode_model(B)) = B", "case `%s` (%s): re-encoding differs\n bytes %s" % (row["case"], which, row["hex"]))
        row["cl" + which] = mp[2]
        row["sig" + which] = mp[4] if len(mp) > 4 else ""
        if which == "B":
            if mp[2].count("=(") >= 4:
                ctx.stats["nontrivial"].add(K.canon(want))
            if "#" in mp[2].replace("=(", ""):
                pass
            if any(t.endswith("#") for t in mp[2].replace(")", " ").split()):
                ctx.stats["shared"] += 1
    for row in rows:
        # the multiset of (node, number of occurrences in the stream) must be the same for dumps(e) and
        # dumps(loads(dumps(e))): an object written once and referenced k times is again one object
        if "sigB" in row and "sigB2" in row and row["sigB"] != row["sigB2"] and K.canon(row["de"]) == K.canon(row["dl"]):
            ctx.violation("C19/sharing-not-restored", "case `%s`: the DAG of loads(dumps(e)) differs from the DAG of e "
                          "(canonical labelled dumps of the two streams):\n   %s\n   %s" % (row["case"], row["clB"][:400], row["clB2"][:400]),
                          {"family": "codec", "case": row["case"], "impl": row["impl"][:2000]})
    # (b) the library loads the model's bytes
    mself = [m.partition("\t")[2] for m in menc]
    menc = [m.partition("\t")[0] for m in menc]
    load_cases = ["load " + m for m in menc]
    okidx = [i for i, m in enumerate(menc) if m and all(ch in "0123456789abcdef" for ch in m)]
    for i, m in enumerate(menc):
        if i not in set(okidx):
            broken("C19 encode_model", "case `%s` (%s): model says %s" % (enc_idx[i][0]["case"], enc_idx[i][1], m[:200]))
    limpl = ctx.run_lines(drv, [load_cases[i] for i in okidx], timeout=1800)
    for i, line in zip(okidx, limpl):
        row, pol = enc_idx[i]
        ctx.cov["traces_validated_against_impl"] += 1
        res, stages, crashed = K.split_load(line)
        if crashed:
            ctx.violation("C19/crash-loading-model-bytes", "case `%s`: loads of the model's encoding (%s ids) ends with %s" % (row["case"], pol, line[-100:]),
                          {"family": "codec", "case": "load " + menc[i]})
        elif not res.startswith("OK ") or not mself[i].startswith("OK ") or K.canon(res[3:]) != K.canon(mself[i][3:]):
            if mself[i] != "EXN:99":
                broken("C19 loads_impl(encode_model) = decode_model(encode_model)", "case `%s` (%s ids)\n model bytes %s\n impl:  %s\n model: %s" % (
                    row["case"], pol, menc[i], res[:600], mself[i][:600]))
        elif K.canon(res[3:]) != K.canon(row["de"]):
            cls = classify_rt(row["de"], res[3:])
            ctx.violation(cls, "case `%s`: the stream the model's encoder produces for e (%s ids) loads as a different expression:\n   e      = %s\n   loaded = %s" % (
                row["case"], pol, K.canon(row["de"])[:400], K.canon(res[3:])[:400]), {"family": "codec", "case": "load " + menc[i]})
    if not search:
        for row in rows[:60:10]:
            if "hex" in row:
                ctx.cov["samples"].append({"case": row["case"], "bytes": row["hex"][:160], "dump": row["de"][:200], "labelled": row.get("clB", "")[:200]})


def matrices(ctx, drv, model, n):
    cases = ["mrt 2 2 x ;; (i 1) ;; (d 8000000000000000) ;; (add x y)", "mrt 0 0 ", "mrt 1 3 x ;; x ;; x", "mrt 3 1 pi ;; pi ;; (mul x pi)"]
    for _ in range(n):
        r, c = ctx.rng.randint(0, 3), ctx.rng.randint(1, 3)
        cases.append("mrt %d %d %s" % (r, c, " ;; ".join(K.gen_arith(ctx.rng, 2) for _ in range(r * c))))
    impl = ctx.run_lines(drv, cases, timeout=1800)
    mcases, idx = [], []
    for c, line in zip(cases, impl):
        pre, at, line = line.partition("@")
        if not at:
            ctx.notes.append("recipe not evaluated: %s -> %s" % (c[:200], pre[-40:]))
            continue
        ctx.cov["evaluations"] += 1
        p = line.split("\t")
        rep = {"family": "codec", "case": c, "impl": line[:2000]}
        if p[0].startswith("NORECIPE"):
            continue
        if "CRASH" in line or "HANG" in line:
            ctx.violation("C19/matrix-crash", "case `%s`: %s" % (c, line[-200:]), rep)
            continue
        if ("#ORACLE" in line and not has_nan(line)) or len(p) < 4:
            ctx.violation("C19/matrix-roundtrip", "case `%s`: %s" % (c, line[-300:]), rep)
            continue
        want = " ;; ".join(K.canon(d) for d in p[1].split(" ;; ")) if p[1] else ""
        got = " ;; ".join(K.canon(d) for d in p[3].split(" ;; ")) if p[3] else ""
        dims = c.split()[1:3]
        if got != want or p[2].split() != dims:
            cls = "C19/matrix-roundtrip"
            if classify_rt(p[1].replace(" ;; ", " "), p[3].replace(" ;; ", " ")) == "C19/complexdouble-not-bit-exact":
                cls = "C19/complexdouble-not-bit-exact"
            ctx.violation(cls, "case `%s`: DenseMatrix::loads(dumps(A)) differs from A:\n  %s\n  %s" % (c, want[:300], got[:300]), rep)
        if "Opaque" not in p[1]:
            mcases.append("mat %s %s %s" % (ctx.ver[0], ctx.ver[1], p[0]))
            idx.append((c, p, want))
    mod = ctx.run_lines(model, mcases, timeout=1800)
    nd = 0
    for (c, p, want), m in zip(idx, mod):
        ctx.cov["traces_validated_against_impl"] += 1
        mp = m.split("\t")
        if mp[0] == "EXN:99":
            continue
        got = " ;; ".join(K.canon(d) for d in mp[2].split(" ;; ")) if len(mp) > 2 and mp[2] else ""
        if mp[0] != "OK" or mp[1].split() != c.split()[1:3] or got != want or (len(mp) > 3 and mp[3] != "REENC=1"):
            nd += 1
            if nd <= 2:
                ctx.broken.append({"kind": "correspondence", "name": "C19 decode_matrix_model(dumps_impl)",
                                   "detail": "case `%s`\n model: %s\n want: %s" % (c, m[:600], want[:600])})


def replay(ctx, rep):
    drv, model = K.build(ctx)
    ver = ctx.run_lines(drv, ["version"])[0].split()
    c = rep["replay"]["case"]
    print("case :", c)
    line = ctx.run_lines(drv, [c])[0]
    print("impl :", line)
    p = line.partition("@")[2].split("\t") if "@" in line else line.split("\t")
    if c.startswith("rt") and len(p) >= 4 and not p[2].startswith("LOADFAIL"):
        print("e      :", K.canon(p[1]))
        print("loaded :", K.canon(p[2]))
        for hx in (p[0], p[3]):
            print("model :", ctx.run_lines(model, ["dec %s %s %s" % (ver[0], ver[1], hx)])[0])
    if c.startswith("load "):
        print("model :", ctx.run_lines(model, ["dec %s %s %s" % (ver[0], ver[1], c[5:])])[0])
