"""C31 -- series expansion coefficients equal Taylor coefficients.
Model: coq/C31/SeriesModel.v (ODictWrapper/UnivariateSeries/SeriesBase recurrences over sparse
maps int -> Q) and coq/C31/VisitorModel.v (SeriesVisitor over the dumped expression tree).
Theorems: coq/C31/P_*.v.  Tie: (A) every primitive called directly on explicit series polynomials,
(B) series(f, x, n) through the public API, the model reading the dump of f; exact comparison of the
complete coefficient maps.  Oracle (driver): independent exact Taylor/Laurent coefficients."""
import vlib

PROOF_MODULES = ["C31/VisitorProofs.vo", "C31/Compose.vo", "C31/SeriesProofs.vo"]
OBLIGATIONS = [
    "C31/P_mul_spec.v", "C31/P_pow_spec.v", "C31/P_step_list.v", "C31/P_invert_spec.v", "C31/P_invert_congruence.v",
    "C31/P_log_spec.v", "C31/P_atan_spec.v", "C31/P_atanh_spec.v", "C31/P_exp_spec.v", "C31/P_nthroot_spec.v",
    "C31/P_sinh_cosh_spec.v", "C31/P_sin_cos_spec.v", "C31/P_tan_tanh_spec.v", "C31/P_asin_asinh_spec.v", "C31/P_lambertw_spec.v", "C31/P_compose.v", "C31/P_visitor_sound.v", "C31/P_ode_unique.v", "C31/P_refuted.v", "C31/P_nonvacuous.v",
]

KEY_OF_TAG = {
    "[shift]": "C31/precision-loss-dividing-by-series-without-constant-term",
    "[taylor]": "C31/wrong-taylor-coefficient",
    "[laurent]": "C31/wrong-laurent-coefficient",
    "[symbolic]": "C31/wrong-symbolic-coefficient",
    "[primitive]": "C31/primitive-identity-fails",
}

A_OPS1 = ["invert", "atan", "tan", "sin", "cos", "asin", "log", "exp", "lambertw", "sinh", "cosh",
          "atanh", "asinh", "tanh", "diff", "integrate", "sec", "cot", "csc", "reverse", "acos"]


# ------------------------------------------------------------------ generators
def rq(rng, nz=True):
    """small rational, aimed at 0, 1, -1 and perfect squares/cubes"""
    r = rng.random()
    if r < 0.25:
        v = rng.choice([1, -1, 2, -2, 3])
        return (v, 1)
    if r < 0.5:
        return (rng.choice([1, -1, 1, 3, -5, 7]), rng.choice([2, 3, 4, 6]))
    if r < 0.6:
        return rng.choice([(4, 1), (9, 4), (1, 4), (8, 1), (27, 8), (1, 9), (16, 1)])
    n = rng.randint(-9, 9)
    if n == 0 and nz:
        n = 1
    return (n, rng.randint(1, 7))


def fmt_poly(terms):
    from math import gcd
    d = {}
    for k, (n, m) in terms:
        if n == 0:
            continue
        g = gcd(abs(n), m)
        d[k] = (n // g, m // g)
    if not d:
        return "-"
    return ",".join("%d:%d/%d" % (k, d[k][0], d[k][1]) for k in sorted(d))


def gen_poly(rng, kind, maxdeg):
    """kind: 'z' zero constant term (valuation >= 1), '1' constant term 1, 'c' any non-zero constant,
    'sq' perfect-square constant, 'l' Laurent (negative low degree), 'any'"""
    terms = []
    lo = 0
    if kind == "z":
        lo = rng.choice([1, 1, 1, 2, 3])
    elif kind == "1":
        terms.append((0, (1, 1)))
        lo = 1
    elif kind == "c":
        terms.append((0, rq(rng)))
        lo = 1
    elif kind == "sq":
        terms.append((0, rng.choice([(4, 1), (9, 4), (1, 4), (1, 1), (25, 9), (16, 1)])))
        lo = 1
    elif kind == "cube":
        terms.append((0, rng.choice([(8, 1), (27, 8), (1, 8), (1, 1), (1, 27)])))
        lo = 1
    elif kind == "l":
        lo = rng.choice([-3, -2, -1, -1])
    ks = [k for k in range(lo, maxdeg + 1) if rng.random() < 0.55]
    if kind in ("z", "l") and (not ks or ks[0] != lo):
        ks = [lo] + ks
    for k in ks:
        if kind in ("1", "c", "sq", "cube") and k == 0:
            continue
        terms.append((k, rq(rng)))
    return fmt_poly(terms)


def gen_a(rng, tier):
    maxprec = 9 if tier == "quick" else 14
    prec = rng.choice([0, 1, 2, 3, 4, 5, 5, 6, 7, 8, maxprec, rng.randint(0, maxprec)])
    op = rng.choice(A_OPS1 + ["mul", "pow", "nthroot", "nthroot", "invert", "invert", "exp", "log", "subs",
                              "add", "sub", "mulfull", "mulassign", "steps"])
    n = 0
    b = "-"
    maxdeg = rng.choice([2, 4, prec, prec + 2])
    if op == "steps":
        return "A steps %d 0 - -" % rng.choice([prec, rng.randint(0, 70), rng.randint(0, 5000), 2 ** rng.randint(3, 31) + rng.randint(-2, 2)])
    if op in ("mul", "add", "sub", "mulfull", "mulassign"):
        a = gen_poly(rng, rng.choice(["z", "1", "c", "l", "any"]), maxdeg)
        b = gen_poly(rng, rng.choice(["z", "1", "c", "l", "any", "c"]), maxdeg)
        if rng.random() < 0.1:
            b = rng.choice(["-", "0:2/1", "1:1/1", "0:1/1", a])
    elif op == "pow":
        a = gen_poly(rng, rng.choice(["z", "1", "c", "any"]), min(maxdeg, 5))
        n = rng.choice([0, 1, 2, 3, 4, 5, 7, 8])
        if rng.random() < 0.15:
            a = rng.choice(["1:1/1", "2:3/1", "-1:1/2"])
            n = rng.choice([-1, -2, -3, -5])
    elif op == "subs":
        a = gen_poly(rng, "z", 4)
        b = gen_poly(rng, "z", 4)
    elif op == "nthroot":
        n = rng.choice([2, 2, 3, -2, -3, 4, -1, 1, 0, 5])
        r = rng.random()
        if r < 0.5:
            a = gen_poly(rng, "sq" if abs(n) % 2 == 0 else "cube", maxdeg)
        elif r < 0.7:
            a = gen_poly(rng, "1", maxdeg)
        elif r < 0.8:
            a = gen_poly(rng, "c", maxdeg)
        else:
            # lowest degree divisible by n or not (Puiseux)
            base = gen_poly(rng, "1", 3)
            sh = rng.choice([2, 3, 4, 6, -2, 1])
            a = ",".join("%d:%s" % (int(t.split(":")[0]) + sh, t.split(":")[1]) for t in base.split(","))
    elif op in ("log",):
        a = gen_poly(rng, rng.choice(["1", "1", "1", "c", "z"]), maxdeg)
        if rng.random() < 0.1:
            a = rng.choice(["0:1/1", "0:1/1,1:1/1", "0:1/1,1:2/1"])
    elif op in ("invert", "sec"):
        a = gen_poly(rng, rng.choice(["1", "c", "c", "z", "l"]) if op == "invert" else "z", maxdeg)
        if rng.random() < 0.08:
            a = rng.choice(["-", "0:1/1", "0:2/1", "1:1/1"])
    elif op in ("diff", "integrate"):
        a = gen_poly(rng, rng.choice(["z", "c", "l", "any"]), maxdeg)
    elif op == "reverse":
        hi = gen_poly(rng, "z", maxdeg)
        hi = ",".join(t for t in hi.split(",") if t != "-" and int(t.split(":")[0]) > 1)
        r = rng.random()
        if r < 0.8:
            a = "1:%d/%d" % rq(rng) + ("," + hi if hi else "")
        elif r < 0.9:
            a = hi or "-"
        else:
            a = "0:1/1,1:1/1" + ("," + hi if hi else "")
        prec = min(prec, 7)
    else:
        a = gen_poly(rng, rng.choice(["z", "z", "z", "z", "c", "l"]), maxdeg)
        r = rng.random()
        if r < 0.08:
            a = "1:1/1"       # the fast paths s == x
        elif r < 0.12:
            a = "-"
    if op in ("lambertw", "tanh", "tan") and prec > 8:
        prec = 8
    return "A %s %d %d %s %s" % (op, prec, n, a, b)


X = "(s x)"
F_ZERO = ["sin", "tan", "atan", "asin", "sinh", "tanh", "asinh", "atanh", "lambertw"]   # f(0) = 0
F_ONE = ["cos", "cosh", "sec"]                                                              # f(0) = 1


def rnum(rng):
    n, d = rq(rng)
    return "(i %d)" % n if d == 1 else "(q %d %d)" % (n, d)


def g_zero(rng, depth):
    """recipe of a series without constant term"""
    r = rng.random()
    if depth <= 0 or r < 0.25:
        k = rng.choice([1, 1, 1, 2, 3])
        t = X if k == 1 else "(pow %s (i %d))" % (X, k)
        if rng.random() < 0.5:
            t = "(mul %s %s)" % (rnum(rng), t)
        if rng.random() < 0.35:
            t = "(add %s (mul %s (pow %s (i %d))))" % (t, rnum(rng), X, rng.choice([2, 3, 4]))
        return t
    if r < 0.55:
        return "(f1 %s %s)" % (rng.choice(F_ZERO), g_zero(rng, depth - 1))
    if r < 0.65:
        return "(mul %s %s)" % (g_zero(rng, depth - 1), g_any(rng, depth - 1))
    if r < 0.75:
        return "(add %s %s)" % (g_zero(rng, depth - 1), g_zero(rng, depth - 1))
    if r < 0.82:
        return "(f1 log %s)" % g_one(rng, depth - 1)
    if r < 0.90:
        return "(sub %s (i 1))" % g_one(rng, depth - 1)
    return "(div %s %s)" % (g_zero(rng, depth - 1), g_one(rng, depth - 1))


def g_one(rng, depth):
    """recipe of a series with constant term 1"""
    r = rng.random()
    if depth <= 0 or r < 0.3:
        return "(add (i 1) %s)" % g_zero(rng, 0)
    if r < 0.45:
        return "(exp %s)" % g_zero(rng, depth - 1)
    if r < 0.6:
        return "(f1 %s %s)" % (rng.choice(F_ONE), g_zero(rng, depth - 1))
    if r < 0.7:
        return "(div (i 1) %s)" % g_one(rng, depth - 1)
    if r < 0.8:
        return "(pow %s %s)" % (g_one(rng, depth - 1), rng.choice(["(q 1 2)", "(q -1 2)", "(q 3 2)", "(q 1 3)", "(q -2 3)", "(i -2)", "(i 3)", "(q 5 2)"]))
    if r < 0.88:
        return "(mul %s %s)" % (g_one(rng, depth - 1), g_one(rng, depth - 1))
    if r < 0.94:
        return "(pow %s %s)" % (g_one(rng, depth - 1), g_zero(rng, depth - 1))
    return "(add (i 1) %s)" % g_zero(rng, depth - 1)


def g_any(rng, depth):
    r = rng.random()
    if r < 0.3:
        return g_zero(rng, depth)
    if r < 0.6:
        return g_one(rng, depth)
    if r < 0.75:
        # perfect-power constants for rational powers
        c, ex = rng.choice([("(i 4)", "(q 1 2)"), ("(q 9 4)", "(q -1 2)"), ("(i 8)", "(q 1 3)"), ("(q 1 4)", "(q 3 2)"),
                            ("(i 2)", "(q 1 2)"), ("(i 4)", "(q -3 2)")])
        return "(pow (add %s %s) %s)" % (c, g_zero(rng, depth - 1), ex)
    if r < 0.9:
        return "(add %s %s)" % (rnum(rng), g_zero(rng, depth))
    return "(div %s (add %s %s))" % (g_any(rng, depth - 1), rnum(rng), g_zero(rng, depth - 1))


def g_shift(rng):
    """quotients whose denominator has no constant term (removable singularities and poles),
    roots of series with non-zero lowest degree, symbolic constants"""
    z = g_zero(rng, 1)
    return rng.choice([
        "(div %s %s)" % (g_zero(rng, 1), z),
        "(div %s (f1 sin %s))" % (X, X),
        "(div (sub (i 1) (f1 cos %s)) (pow %s (i 2)))" % (X, X),
        "(f1 %s %s)" % (rng.choice(["cot", "csc"]), z),
        "(sqrt (mul (pow %s (i 2)) %s))" % (X, g_one(rng, 1)),
        "(pow (mul (pow %s (i %d)) %s) (q %d 3))" % (X, rng.choice([3, 6, 2]), g_one(rng, 0), rng.choice([1, -1, 2])),
        "(f1 %s (add %s %s))" % (rng.choice(["sin", "cos", "exp", "tan", "atan", "asin", "acos", "sinh", "tanh", "log", "asinh", "atanh", "cosh"]), rnum(rng), z),
        "(f1 %s %s)" % (rng.choice(["acos", "sech", "csch", "coth", "acot", "erf", "acosh"]), g_any(rng, 0)),
        "(mul (s y) %s)" % g_any(rng, 1),
    ])


def gen_b(rng, tier):
    maxprec = 8 if tier == "quick" else 12
    prec = rng.choice([1, 2, 3, 4, 5, 6, 7, maxprec, maxprec])
    r = rng.random()
    depth = rng.choice([1, 2, 2, 3]) if tier == "quick" else rng.choice([1, 2, 3, 3])
    if r < 0.4:
        rec = g_zero(rng, depth)
    elif r < 0.65:
        rec = g_one(rng, depth)
    elif r < 0.85:
        rec = g_any(rng, depth)
    else:
        rec = g_shift(rng)
        prec = min(prec, 6)
    if len(rec) > 260:
        prec = min(prec, 6)
    return "B %d %s" % (prec, rec)


CORPUS = [
    # precision loss after a division by a series without constant term (known finding)
    "B 5 (div (s x) (f1 sin (s x)))",
    "B 4 (div (sub (i 1) (f1 cos (s x))) (pow (s x) (i 2)))",
    "B 6 (div (s x) (sub (exp (s x)) (i 1)))",
    # series_nthroot with a non-zero lowest degree
    "B 5 (sqrt (add (pow (s x) (i 2)) (pow (s x) (i 3))))",
    "A nthroot 5 2 2:1/1,3:1/1 -",
    "A nthroot 6 -2 2:4/1,3:1/1 -",
    # acos with non-zero constant term
    "B 3 (f1 acos (add (q 1 2) (s x)))",
    "B 3 (f1 acos (s x))",
    # nthroot of the zero series (reads begin() of an empty map)
    "A nthroot 4 2 - -",
    "B 2 (sqrt (sub (f1 sin (s x)) (s x)))",
    # shortcuts and fast paths
    "A invert 6 0 0:1/1 -", "A invert 6 0 - -", "A log 6 0 0:1/1 -", "A log 7 0 0:1/1,1:1/1 -", "A exp 7 0 1:1/1 -",
    "A exp 7 0 - -", "A atan 8 0 1:1/1 -", "A atan 8 0 - -", "A invert 9 0 0:2/1,1:1/1,2:1/3 -",
    "A invert 0 0 0:2/1,1:1/1 -", "A invert 1 0 0:2/1,1:1/1 -", "A invert 2 0 0:2/1,1:1/1 -",
    "A asin 0 0 1:1/1,2:1/2 -", "A atan 0 0 1:1/1,2:1/2 -", "A atanh 0 0 1:1/1,2:1/2 -",
    "A steps 0 0 - -", "A steps 4 0 - -", "A steps 5 0 - -", "A steps 4294967295 0 - -",
    "A pow 5 0 - -", "A pow 5 0 1:1/1 -", "A pow 3 -4 1:1/1 -", "A integrate 5 0 -1:1/1,0:1/1 -",
    "A reverse 6 0 1:1/1,2:1/1 -", "A reverse 6 0 0:1/1,1:1/1 -", "A reverse 6 0 2:1/1 -",
    "A mul 4294967295 0 0:1/1,1:1/1 0:1/1,1:1/1", "A mul 2147483648 0 0:1/1,1:1/1 -3:1/1,1:1/1",
    "B 8 (f1 tan (f1 sin (s x)))", "B 8 (exp (f1 log (add (i 1) (f1 atan (s x)))))",
    "B 7 (f1 lambertw (mul (s x) (exp (s x))))", "B 7 (pow (add (i 1) (s x)) (s x))",
    "B 6 (pow (add (i 4) (f1 sinh (s x))) (q -3 2))", "B 0 (f1 sin (s x))", "B 6 (div (i 1) (pow (s x) (i 7)))",
    "B 5 (f1 sin (add (i 1) (s x)))", "B 5 (mul (s y) (f1 sin (s x)))", "B 5 (f1 coth (s x))",
]


def nontrivial(case, out):
    """the result is a series with at least three non-zero coefficients"""
    return out.startswith("P") and out.count(":") >= 3


def classify(canon, model):
    """'' when model and implementation agree (or the case is outside the rational model)"""
    if model.startswith("SCOPE:"):
        return ""
    if model == "UNSUPPORTED":
        return ""
    if canon == model:
        return ""
    return "differ"


def explore(ctx, drv, model, cases, search=False):
    if drv is None or model is None:
        return
    big = len(cases) > 4000
    impl = ctx.run_lines(drv, cases, timeout=5400 if big else 1800, shards=16 if big else 8)
    # a shard that ran into the time limit (heavily loaded machine) leaves empty / "[timeout]" /
    # NOOUTPUT lines: run those cases again before judging them
    redo = [k for k, l in enumerate(impl) if l in ("", "[timeout]") or l.startswith("NOOUTPUT")]
    if redo and len(redo) < len(cases):
        again = ctx.run_lines(drv, [cases[k] for k in redo], timeout=5400, shards=16)
        for k, l in zip(redo, again):
            impl[k] = l
    mcases = []
    canon = []
    oracle = []
    for c, line in zip(cases, impl):
        body, _, orc = line.partition("\t#ORACLE:")
        oracle.append(orc)
        if c.startswith("B "):
            dump, _, res = body.partition("\t")
            canon.append(res)
            mcases.append("B %s %s" % (c.split(" ", 2)[1], dump))
        else:
            canon.append(body)
            mcases.append(c)
    mod = ctx.run_lines(model, mcases, timeout=5400 if big else 1800, shards=16 if big else 8)
    ctx.cov["evaluations"] += len(cases)
    ctx.cov["distinct_nontrivial"] += len(set(c for c, r in zip(cases, canon) if nontrivial(c, r)))
    ctx.cov["traces_validated_against_impl"] += sum(1 for m in mod if not m.startswith("SCOPE") and m != "UNSUPPORTED")
    if not search:
        ctx.cov["samples"] += [{"case": c, "model": m, "impl": i} for c, m, i in list(zip(cases, mod, canon))[:8]]
    ndis = 0
    for c, m, i, o, mc in zip(cases, mod, canon, oracle, mcases):
        rep = {"family": "C31", "case": c, "model_case": mc, "impl": i, "model": m}
        if o:
            tag = o.strip().split(" ")[0]
            key = KEY_OF_TAG.get(tag, "C31/oracle")
            if tag == "[symbolic]" and "acos" in c:
                key = "C31/acos-with-nonzero-constant-term"
            ctx.violation(key, "`%s`: %s (library: %s)" % (c, o.strip(), i[:200]), rep)
        elif "CRASH" in i or "HANG" in i or "UNCAUGHT" in i or "NOOUTPUT" in i:
            ctx.violation("C31/crash", "`%s` ends with %s on the library (model: %s)" % (c, i[-40:], m[:80]), rep)
        elif m == "OOB":
            # the model read the first entry of an empty map: series_nthroot calls ldegree(s) = begin()->first
            ctx.violation("C31/nthroot-of-zero-series-reads-empty-map",
                          "`%s`: series_nthroot reads begin() of an empty dictionary (library returned %s)" % (c, i[:80]), rep)
        elif classify(i, m):
            ndis += 1
            if ndis <= 3:
                ctx.broken.append({"kind": "correspondence", "name": "C31 series",
                                   "detail": "case `%s`\n model: %s\n impl:  %s" % (c, m, i)})
    return ndis


def run(ctx):
    ctx.gate(["C31"])
    ctx.prove(PROOF_MODULES, OBLIGATIONS)
    drv = ctx.build_driver("c31_driver")
    model = ctx.build_model("C31", "C31/Extract.v", "c31_main.ml", "semodel", extra_ml=["expr_io.ml"])
    na, nb = (700, 400) if ctx.tier == "quick" else (8000, 4000)
    cases = list(CORPUS) + [gen_a(ctx.rng, ctx.tier) for _ in range(na)] + [gen_b(ctx.rng, ctx.tier) for _ in range(nb)]
    explore(ctx, drv, model, cases)
    if ctx.broken and not [v for v in ctx.violations if v["key"] not in vlib.load_known("C31")]:
        extra = [gen_a(ctx.rng, "thorough") for _ in range(3000)] + [gen_b(ctx.rng, "thorough") for _ in range(1500)]
        explore(ctx, drv, model, extra, search=True)
    ctx.cov["rule"] = ("A-cases: one SeriesBase/UnivariateSeries primitive on explicit sparse polynomials with small rational "
                       "coefficients (constant term 0 / 1 / perfect powers / other, negative lowest degrees, the s==x, s==1, s==1+x "
                       "shortcuts, empty polynomials, precisions 0..14 and 32-bit edge values); B-cases: series(f, x, n) for random "
                       "compositions of sin cos tan atan asin sinh cosh tanh asinh atanh lambertw exp log powers roots quotients; "
                       "a case is non-trivial when the result has at least three non-zero coefficients; distinct = distinct case strings")
    ctx.assumptions += [
        "Expression arithmetic on Integer/Rational coefficients is exact rational arithmetic (modelled by Q with Qred)",
        "std::map<int, Expression> iterates in increasing key order (the model's association lists are kept sorted)",
        "coefficients that leave Q (sin(c), log(c), irrational roots; zoo) are outside the model: the case is only checked for crashes and by the numeric oracle",
        "theorems are about power series (keys >= 0) with precisions below 2^31; Laurent inputs and the 32-bit edge are covered by the correspondence only",
        "the bridge from the formal identities (inverse, ODEs with initial values, uniqueness) to analytic Taylor coefficients is standard and not formalised",
    ]


def replay(ctx, rep):
    drv = ctx.build_driver("c31_driver")
    model = ctx.build_model("C31", "C31/Extract.v", "c31_main.ml", "semodel", extra_ml=["expr_io.ml"])
    c = rep["replay"]["case"]
    print("case :", c)
    out = ctx.run_lines(drv, [c])[0]
    print("impl :", out)
    mc = c
    if c.startswith("B "):
        mc = "B %s %s" % (c.split(" ", 2)[1], out.split("\t")[0])
    print("model:", ctx.run_lines(model, [mc])[0])
