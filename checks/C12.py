"""C12 -- double-precision evaluation is accurate.
Model: coq/Eval/EvalModel.v (table-driven evaluator) over coq/Eval/Gen_EvalRules.v (formula tables
regenerated from eval_double.cpp by translators/tr_evalrules.py), Flocq binary64 arithmetic
(coq/Eval/EvalFloat.v).  Theorems: coq/C12/P_*.v.
Tie: eval_double / eval_double_single_dispatch / LambdaRealDoubleVisitor on numeric trees against the
extracted model, bit for bit (libm symbols interpreted by the same C library on both sides).
Testing part (labelled so): accuracy against a long double reference, agreement of the evaluators."""
import hashlib
import re

import vlib
from checks import evalcommon as ec

HEX = re.compile(r"^[0-9a-f]{16}$")

CORPUS = [
    "(pow E (i 10))",                       # single dispatch: pow(2.718.., 10) instead of exp(10)
    "(pow E (q 7 2))",
    "(mul (i 2) (pow E (i 10)))",
    "(f1 acoth (q 7 2))", "(f1 acoth (q -11 10))", "(f1 acsc (q 7 3))", "(f1 asec (q -7 3))", "(f1 acot (q 1 3))",
    "(f1 asech (q 2 5))", "(f1 acsch (q -3 4))", "(f1 coth (q 1 3))", "(f1 sech (i 2))", "(f1 csch (q 1 10))",
    "(f1 cot (q 1 3))", "(f1 sec (i 2))", "(f1 csc (i 7))",
    "(add pi (i 9007199254740995))", "(add pi (i -9007199254740995))", "(mul pi (q 1 10))", "(add E (q 1 10))",
    "(add pi (q 100000000000000000000 3))", "(mul E (i 18446744073709551617))",
    "(addv pi E EulerGamma Catalan GoldenRatio)", "(mulv pi E EulerGamma Catalan GoldenRatio (q 3 7))",
    "(addv (mul (i 2) pi) (mul (q 1 3) E) (mul (i -7) Catalan) (i 5))",
    "(pow pi (i 2))", "(pow pi (i -1))", "(pow (add pi (i 1)) (i 3))", "(pow pi (q 1 2))", "(pow (i 2) (q 1 2))",
    "(mulv (pow pi (i 2)) (pow E (i 3)) (pow EulerGamma (q 1 2)))",
    "(max pi E (q 22 7))", "(min pi E (q 22 7))", "(pw (i 1) (lt pi (i 3)) (i 2) true)", "(pw pi (lt E (i 3)) (i 2) true)",
    "(f2 atan2 pi E)", "(f1 abs (sub E pi))", "(f1 gamma pi)", "(f1 loggamma pi)", "(f1 erf (q 1 3))", "(f1 erfc pi)",
    "(uneval (add (i 1) (i 2)))", "(s x)", "(add (s x) (i 1))", "oo", "nan", "(c 1 2 3 4)", "(f1 floor (mul pi (i 100)))",
    "(lt pi (i 3))", "(eq pi E)", "true",
]


def parse_fields(line):
    parts = line.split("\t")
    f = {}
    oracle = ""
    for p in parts[1:]:
        if p.startswith("#ORACLE:"):
            oracle = p[8:]
        elif "=" in p:
            k, v = p.split("=", 1)
            f[k] = v
    return parts[0], f, oracle


def nontrivial(dump, f):
    return bool(HEX.match(f.get("V", ""))) and any(t in dump for t in ("(F1 ", "(F2 ", "(FN ", "(Add ", "(Mul ", "(Pow ", "(Pw "))


def explore(ctx, drv, model, recipes, search=False):
    if drv is None or model is None:
        return 0
    impl = ctx.run_lines(drv, ["E " + r for r in recipes], timeout=1800)
    rows = []
    for r, line in zip(recipes, impl):
        dump, f, oracle = parse_fields(line)
        rows.append((r, dump, f, oracle, line))
    usable = [i for i, (r, dump, f, oracle, line) in enumerate(rows)
              if dump.startswith("(") and "Opaque" not in dump and "V" in f]
    mod = ctx.run_lines(model, ["E " + rows[i][1] for i in usable], timeout=1800)
    mrow = dict(zip(usable, mod))
    ctx.cov["evaluations"] += len(recipes)
    seen = ctx.cov.setdefault("_seen", set())
    ndis = 0
    nacc = 0
    nskip = 0
    for i, (r, dump, f, oracle, line) in enumerate(rows):
        if "CRASH" in line or "HANG" in line or "UNCAUGHT" in line or "DIED" in line:
            if dump.startswith("("):
                ctx.violation("C12/crash", "evaluating `%s` ends with %s" % (r, line[-40:]), {"family": "C12", "case": r, "impl": line})
            else:
                nskip += 1      # the library died while CONSTRUCTING the expression: not this property
            continue
        if i not in mrow:
            nskip += 1
            continue
        m = mrow[i]
        _, mf, _ = parse_fields("\t" + m)
        guards = set(filter(None, mf.get("G", "").split(",")))
        if nontrivial(dump, f) and dump not in seen:
            seen.add(dump)
            ctx.cov["distinct_nontrivial"] += 1
        if f.get("A") == "1":
            nacc += 1
        # ---- correspondence (bit for bit), per evaluator
        compared = False
        for k in ("V", "S", "L"):
            mv = mf.get(k)
            if mv is None or mv in ("NOMODEL",) or m.startswith("UNSUPPORTED") or m.startswith("FAIL"):
                continue
            compared = True
            if mv != f.get(k):
                ndis += 1
                if ndis <= 3:
                    ctx.broken.append({"kind": "correspondence", "name": "C12 %s" % {"V": "eval_double", "S": "eval_double_single_dispatch", "L": "lambda"}[k],
                                       "detail": "recipe `%s`\n dump %s\n model %s=%s\n impl  %s=%s" % (r, dump, k, mv, k, f.get(k))})
        if compared:
            ctx.cov["traces_validated_against_impl"] += 1
        # ---- the property on the library's outputs
        if oracle:
            for item in split_oracle(oracle):
                if item.startswith("dispatch:exn-vs-visitor:"):
                    continue      # a class the single-dispatch table does not have: not a disagreement of values
                if item.startswith("dispatch:"):
                    key = "C12/dispatch-vs-visitor:pow-E" if "powE" in guards else \
                        "C12/dispatch-vs-visitor:unclassified-" + hashlib.md5(dump.encode()).hexdigest()[:8]
                elif item.startswith("inaccurate"):
                    key = "C12/inaccurate:" + top_class(dump)
                else:
                    key = "C12/" + item.split("(")[0]
                ctx.violation(key, "`%s` (tree %s): %s; V=%s S=%s L=%s F=%s C=%s" % (
                    r, dump[:200], item, f.get("V"), f.get("S"), f.get("L"), f.get("F"), f.get("C")),
                    {"family": "C12", "case": r, "impl": line, "model": m})
    if not search:
        ctx.cov["samples"] += [{"recipe": rows[i][0], "impl": rows[i][4][:300], "model": mrow[i]} for i in usable[:5]]
    ctx.cov["_acc"] = ctx.cov.get("_acc", 0) + nacc
    ctx.cov["_skip"] = ctx.cov.get("_skip", 0) + nskip
    return ndis


def split_oracle(s):
    """items separated by spaces, parentheses kept together"""
    items, cur, depth = [], "", 0
    for ch in s:
        if ch == "(":
            depth += 1
        elif ch == ")":
            depth -= 1
        if ch == " " and depth == 0:
            if cur:
                items.append(cur)
            cur = ""
        else:
            cur += ch
    if cur:
        items.append(cur)
    return items


def top_class(dump):
    m = re.match(r"\((F1|F2|FN) (\w+)", dump)
    if m:
        return m.group(2)
    m = re.match(r"\((\w+)", dump)
    return m.group(1) if m else "?"


def boundary_search(ctx):
    """after a broken proof/tie: every class on every palette argument, nested once"""
    cases = ec.class_sweep()
    for f in ec.F1:
        for g in ("(add pi (q 1 3))", "(mul (q 3 7) E)", "(pow pi (i 2))"):
            cases.append("(f1 %s (f1 %s %s))" % (rng_free_inner(f), f, g))
    cases += ["(pow E %s)" % a for a in ec.ARGS] + ["(mul (i 3) (pow E %s))" % a for a in ec.ARGS[:10]]
    return cases


def rng_free_inner(f):
    return {"sin": "cos"}.get(f, "sin")


def run(ctx):
    drv, model = ec.prepare(ctx, ec.C12_PROOF_MODULES, ec.C12_OBLIGATIONS)
    n = 700 if ctx.tier == "quick" else 20000
    cases = list(CORPUS)
    sweep = ec.class_sweep()
    if ctx.tier == "quick":
        cases += [sweep[i] for i in sorted(ctx.rng.sample(range(len(sweep)), 350))]
    else:
        cases += sweep
    cases += [ec.gen_num(ctx.rng, ctx.rng.choice([1, 2, 2, 3, 3, 4])) for _ in range(n)]
    explore(ctx, drv, model, cases)
    if ctx.broken and not ctx.violations:
        extra = boundary_search(ctx) + [ec.gen_num(ctx.rng, ctx.rng.choice([2, 3, 4])) for _ in range(1500)]
        explore(ctx, drv, model, extra, search=True)
    acc = ctx.cov.pop("_acc", 0)
    skip = ctx.cov.pop("_skip", 0)
    ctx.cov.pop("_seen", None)
    ctx.cov["rule"] = ("numeric expression trees (recipes of public API calls: constants pi/E/EulerGamma/Catalan/GoldenRatio, "
                       "integers incl. 2^53+3 and 10^20, rationals incl. 1/10, the 31 one-argument classes on a 38-argument palette "
                       "aimed at the domain boundaries of the inverse functions, atan2, Max/Min, Piecewise, relationals, random composites of depth <= 4); "
                       "a case is non-trivial when eval_double returns a number and the tree has at least one operation node; distinct = distinct trees. "
                       "accuracy_checked = %d cases compared with the long double reference (well-conditioned, finite); %d cases had no usable tree" % (acc, skip))
    ctx.cov["accuracy_checked"] = acc
    ctx.assumptions += [
        "rounding error of the C library's transcendental functions is outside every theorem: evalrule_ideal is about the formulas over ideal real functions; "
        "the accuracy of the composed double computation is TESTED against a long double reference (tolerance 64 x observed conditioning spread + 8 ulp)",
        "correspondence interprets the abstract libm symbols with the same glibc on both sides (OCaml Stdlib -> libm): it validates the formula tables, "
        "get_args() order and operation order, not libm",
        "mpz_get_d / mpq_get_d truncate toward zero (GMP documentation), modelled with Flocq mode_ZR; gcc evaluates + * / in binary64 round-to-nearest-even "
        "without contraction (x86-64 SSE2, -O1, no -march flags)",
        "tgamma/lgamma are not available to the extracted model (results NOMODEL: those trees are covered by the evaluator-agreement and accuracy oracles only)",
        "eval_complex_double and evalf(53) are compared with eval_double by the driver (testing); only the real evaluators are modelled",
    ]
    ctx.cov["trusted_base"].append("translators/tr_evalrules.py (bvisit bodies -> formula terms; fails on unrecognised shapes; every generated rule is exercised by the correspondence run)")
    ctx.cov["trusted_base"].append("Flocq 4.1 (IEEE-754 binary64 operations used by the extracted model)")


def replay(ctx, rep):
    drv, model = ec.prepare(ctx, [], [])
    c = rep["replay"]["case"]
    line = ctx.run_lines(drv, ["E " + c])[0]
    print("case :", c)
    print("impl :", line)
    dump = line.split("\t")[0]
    if dump.startswith("("):
        print("model:", ctx.run_lines(model, ["E " + dump])[0])
