"""C25 -- sparse CSR matrices stay canonical and agree with dense ones.
Model: coq/C25/CsrModel.v (CSRMatrix get/set/from_coo/sort/sum-duplicates/transpose/conjugate/
binop/matmat/diagonal/scale/jacobian/is_canonical over checked 32-bit-indexed vectors and an
abstract element type; extracted with Gaussian-integer entries).
Theorems: coq/C25/P_*.v.  Tie: programs of CSR operations run on the extracted model and on the
library (the three arrays p_, j_, x_ compared after every operation); oracle: dense mirror kept by
the driver (canonical format, dimensions, every entry from the arrays and through get())."""
import itertools
import vlib

PROOF_MODULES = ["C25/CsrInst.vo", "C25/CsrTranspose.vo", "C25/CsrFromCoo.vo", "C25/CsrMatmat.vo"]
OBLIGATIONS = [
    # get / set / histories
    "C25/P_get_spec.v", "C25/P_set_spec.v", "C25/P_history_spec.v", "C25/P_history_from_zero.v",
    # the canonical-format checkers
    "C25/P_has_canonical_format_spec.v", "C25/P_is_canonical_complete.v", "C25/P_is_canonical_spec.v",
    # construction from coordinate lists
    "C25/P_from_coo_spec.v", "C25/P_sort_indices_spec.v", "C25/P_sum_duplicates_spec.v",
    # operations
    "C25/P_binop_spec.v", "C25/P_transpose_spec.v", "C25/P_conjugate_spec.v", "C25/P_scale_rows_spec.v",
    "C25/P_scale_rows_zero.v", "C25/P_scale_columns_spec.v", "C25/P_diagonal_spec.v", "C25/P_jacobian_spec.v",
    "C25/P_matmat_spec.v",
    "C25/P_nonvacuous.v",
]

VALS = ["1", "2", "3", "-1", "-2", "5", "7", "-4", "1_1", "2_-1", "0_1", "0_-3", "-2_5", "9"]
REGS = ["A", "B", "C", "D"]


def val(rng, zero_p=0.0):
    if rng.random() < zero_p:
        return "0"
    return rng.choice(VALS)


def neg(v):
    """the additive inverse of an element token"""
    parts = v.split("_")
    return "_".join(str(-int(x)) for x in parts)


def dense_random(rng, r, c, density):
    return [[(val(rng) if rng.random() < density else None) for _ in range(c)] for _ in range(r)]


def raw_of_dense(name, d, r, c):
    p, j, x = [0], [], []
    for row in d:
        for k, v in enumerate(row):
            if v is not None:
                j.append(k)
                x.append(v)
        p.append(len(j))
    return raw_cmd(name, r, c, p, j, x)


def raw_cmd(name, r, c, p, j, x):
    return "raw %s %d %d %d %s %d %s %d %s" % (
        name, r, c, len(p), " ".join(map(str, p)), len(j), " ".join(map(str, j)), len(x), " ".join(x))


def dims(rng, tier, big=False):
    hi = 5 if tier == "quick" else 7
    r = rng.choice([1, 1, 2, 2, 3, 3, 4, hi])
    c = rng.choice([1, 1, 2, 2, 3, 3, 4, hi])
    if big:
        c = rng.choice([6, 9, 13, 17])
    return r, c


def canonical_matrix(rng, name, r, c, density=None):
    """a command creating a canonical r x c matrix in register `name` (three different routes)"""
    density = density if density is not None else rng.choice([0.0, 0.2, 0.5, 0.5, 0.8, 1.0])
    d = dense_random(rng, r, c, density)
    route = rng.random()
    if route < 0.6:
        return [raw_of_dense(name, d, r, c)], d
    if route < 0.85:
        ent = [(i, k, d[i][k]) for i in range(r) for k in range(c) if d[i][k] is not None]
        rng.shuffle(ent)
        return ["coo %s %d %d %d %s %s %s" % (name, r, c, len(ent), " ".join(str(e[0]) for e in ent),
                                              " ".join(str(e[1]) for e in ent), " ".join(e[2] for e in ent))], d
    cmds = ["zero %s %d %d" % (name, r, c)]
    ent = [(i, k, d[i][k]) for i in range(r) for k in range(c) if d[i][k] is not None]
    rng.shuffle(ent)
    cmds += ["set %s %d %d %s" % (name, i, k, v) for i, k, v in ent]
    return cmds, d


def gen_setget(rng, tier):
    big = rng.random() < 0.3
    r, c = dims(rng, tier, big)
    cmds, _ = canonical_matrix(rng, "A", r, c, rng.choice([0.0, 0.0, 0.3, 0.6, 1.0]))
    hot = [(rng.randrange(r), rng.randrange(c)) for _ in range(3)]
    n = rng.randint(4, 14 if tier == "quick" else 30)
    for _ in range(n):
        q = rng.random()
        if q < 0.5:
            i, k = rng.choice(hot)
        elif q < 0.7:
            i, k = rng.randrange(r), rng.choice([0, c - 1])
        else:
            i, k = rng.randrange(r), rng.randrange(c)
        if rng.random() < 0.02:
            k = c + rng.randrange(2)          # column outside the matrix: tolerated by the code
        if rng.random() < 0.65:
            cmds.append("set A %d %d %s" % (i, k, val(rng, 0.3)))
        else:
            cmds.append("get A %d %d" % (i, k))
    cmds.append("canon A")
    return cmds


def gen_coo(rng, tier):
    r, c = dims(rng, tier)
    n = rng.choice([0, 1, 2, 4, 6, 9, 12])
    cells = [(rng.randrange(r), rng.randrange(c)) for _ in range(max(1, n // 2))]
    ent = []
    for _ in range(n):
        i, k = rng.choice(cells) if rng.random() < 0.6 else (rng.randrange(r), rng.randrange(c))
        v = val(rng)
        ent.append((i, k, v))
        if rng.random() < 0.2:
            ent.append((i, k, neg(v)))        # duplicates that cancel
    rng.shuffle(ent)

    def coo(name, e):
        return "coo %s %d %d %d %s %s %s" % (name, r, c, len(e), " ".join(str(t[0]) for t in e),
                                             " ".join(str(t[1]) for t in e), " ".join(t[2] for t in e))
    cmds = [coo("A", ent), "canon A"]
    e2 = list(ent)
    rng.shuffle(e2)
    cmds += [coo("B", e2), "eq A B"]
    for _ in range(3):
        cmds.append("get A %d %d" % (rng.randrange(r), rng.randrange(c)))
    if rng.random() < 0.4:
        cmds += ["add C A B", "sub D A B", "canon D"]
    return cmds


def gen_binop(rng, tier):
    r, c = dims(rng, tier, rng.random() < 0.15)
    ca, da = canonical_matrix(rng, "A", r, c)
    # B shares positions with A; some values are the negation (add cancels), some absent
    db = [[None] * c for _ in range(r)]
    for i in range(r):
        for k in range(c):
            q = rng.random()
            if da[i][k] is not None and q < 0.35:
                db[i][k] = neg(da[i][k])
            elif da[i][k] is not None and q < 0.5:
                db[i][k] = da[i][k]
            elif q < 0.75:
                db[i][k] = val(rng)
    cmds = ca + [raw_of_dense("B", db, r, c)]
    ops = ["add", "sub", "mul", "ewm"]
    rng.shuffle(ops)
    for op, dst in zip(ops[:rng.randint(1, 4)], ["C", "D", "C", "D"]):
        cmds.append("%s %s A B" % (op, dst))
        cmds.append("canon %s" % dst)
    if rng.random() < 0.5:
        cmds += ["add C A B", "sub D C B", "eq D A"]
    return cmds


def gen_transpose(rng, tier):
    r, c = dims(rng, tier)
    cmds, _ = canonical_matrix(rng, "A", r, c)
    cmds += ["tr B A", "canon B", "tr C B", "eq C A", "ctr D A", "canon D"]
    cmds += ["conj C A", "canon C", "ctr B A", "tr D B", "eq D C"]   # conjugate = transpose of conjugate-transpose
    return cmds


def gen_mm(rng, tier):
    r, k = dims(rng, tier)
    c = rng.randint(1, k) if rng.random() < 0.6 else k + rng.randint(1, 3)   # also B wider than A
    ca, _ = canonical_matrix(rng, "A", r, k)
    cb, _ = canonical_matrix(rng, "B", k, c)
    cmds = ca + cb + ["mm C A B", "canon C"]
    if rng.random() < 0.5:
        cmds += ["sort C", "canon C", "get C 0 0"]
    return cmds


def gen_diag(rng, tier):
    r, c = dims(rng, tier)
    d = dense_random(rng, r, c, rng.choice([0.2, 0.5, 0.9]))
    if rng.random() < 0.3:
        for i in range(min(r, c)):
            if d[i][i] is None:
                d[i][i] = val(rng)            # full diagonal
    return [raw_of_dense("A", d, r, c), "canon A", "diag A", "tr B A", "diag B"]


def gen_scale(rng, tier):
    r, c = dims(rng, tier)
    cmds, _ = canonical_matrix(rng, "A", r, c)
    zr = rng.random() < 0.15
    cmds.append("scol A %d %s" % (c, " ".join(val(rng, 0.1 if zr else 0.0) for _ in range(c))))
    cmds.append("srow A %d %s" % (r, " ".join(val(rng, 0.1 if zr else 0.0) for _ in range(r))))
    cmds.append("canon A")
    return cmds


def gen_jac(rng, tier):
    r, c = dims(rng, tier)
    cmds = ["jac A %d %d %s" % (r, c, " ".join(val(rng, 0.5) for _ in range(r * c))), "canon A"]
    cmds += ["get A %d %d" % (rng.randrange(r), rng.randrange(c)), "tr B A"]
    return cmds


def gen_noncanon(rng, tier):
    """well-formed row pointers, rows with unsorted and duplicate columns"""
    r, c = dims(rng, tier)
    p, j, x = [0], [], []
    for _ in range(r):
        n = rng.choice([0, 1, 2, 3, 5])
        cols = [rng.randrange(c) for _ in range(n)]
        if rng.random() < 0.4:
            cols.sort()
        if rng.random() < 0.3:
            cols = sorted(set(cols))
        j += cols
        x += [val(rng) for _ in cols]
        p.append(len(j))
    cmds = [raw_cmd("A", r, c, p, j, x), "sorted A", "dups A", "fmt A", "canon A"]
    q = rng.random()
    if q < 0.5:
        cmds += ["sort A", "sorted A", "dups A", "sumdup A", "canon A"]
    elif q < 0.7:
        cmds += ["tr B A", "sort B"]
    else:
        cb, _ = canonical_matrix(rng, "B", c, rng.randint(1, c))
        cmds += cb + ["mm C A B"]
    return cmds


def gen_malformed(rng, tier):
    """array sizes / row pointers that is_canonical must reject (only `canon` is run on them)"""
    r, c = dims(rng, tier)
    d = dense_random(rng, r, c, 0.6)
    p, j, x = [0], [], []
    for row in d:
        for k, v in enumerate(row):
            if v is not None:
                j.append(k)
                x.append(v)
        p.append(len(j))
    q = rng.randrange(7)
    if q == 5:
        p = [v + 1 for v in p]                # p_[0] != 0
        j = [0] + j
        x = ["1"] + x
    elif q == 6:
        p = [0] + [rng.choice([0, 0, 1, 3]) for _ in range(r - 1)] + [0]   # nothing stored, row pointers arbitrary
        j, x = [], []
    elif q == 0 and len(p) > 2:
        i = rng.randrange(1, len(p) - 1)
        p[i], p[i - 1] = p[i - 1], p[i]       # possibly non-monotone
    elif q == 1:
        p = p + [p[-1]]
    elif q == 2 and j:
        j = j[:-1]
    elif q == 3:
        x = x + ["1"]
    elif q == 4 and len(p) > 1:
        p = p[:-1]
    return [raw_cmd("A", r, c, p, j, x), "canon A"]


def gen_ni(rng, tier):
    return ["zero A 2 2", "ni A %s" % rng.choice(["add_matrix", "mul_matrix", "add_scalar", "mul_scalar", "submatrix"])]


GENS = [(gen_setget, 30), (gen_coo, 12), (gen_binop, 14), (gen_transpose, 10), (gen_mm, 8), (gen_diag, 6),
        (gen_scale, 6), (gen_jac, 4), (gen_noncanon, 7), (gen_malformed, 2), (gen_ni, 1)]


def gen_line(rng, tier):
    tot = sum(w for _, w in GENS)
    q = rng.random() * tot
    for g, w in GENS:
        if q < w:
            return " ; ".join(g(rng, tier))
        q -= w
    return " ; ".join(gen_setget(rng, tier))


CORPUS = [
    # the library's own test matrices
    "raw A 3 3 4 0 2 3 6 6 0 2 2 0 1 2 6 1 2 3 4 5 6 ; diag A ; tr B A ; add C A A ; sub D A A ; ewm C A A ; canon C",
    "raw A 3 3 4 0 2 3 6 6 0 2 2 0 1 2 6 1 2 3 4 5 6 ; scol A 3 1 -1 3 ; srow A 3 1 -1 3 ; srow A 3 1 0 -1",
    # every position of a 1 x 6 row: insert in descending, ascending and middle-out order, replace, delete
    "zero A 1 6 ; set A 0 5 1 ; set A 0 4 2 ; set A 0 3 3 ; set A 0 2 4 ; set A 0 1 5 ; set A 0 0 6 ; get A 0 0 ; get A 0 3 ; get A 0 5 ; set A 0 3 0 ; set A 0 0 0 ; set A 0 5 0 ; get A 0 4 ; canon A",
    "zero A 2 7 ; set A 1 3 1 ; set A 1 1 2 ; set A 1 5 3 ; set A 1 0 4 ; set A 1 6 5 ; set A 1 2 6 ; set A 1 4 7 ; set A 0 6 8 ; set A 1 4 0_1 ; set A 1 4 0 ; get A 1 4 ; get A 1 5 ; get A 0 6 ; canon A",
    # from_coo: duplicates summed (also to zero), unsorted input
    "coo A 3 3 7 2 0 2 0 2 1 2 1 1 0 1 1 0 1 4 1 2 3 -2 5 -4 ; canon A ; get A 2 1 ; get A 0 1 ; get A 2 0",
    # the inputs that exposed the defects repaired in the library (see `fixed:` lines in known_findings.txt)
    "raw A 1 2 2 0 1 1 1 1 1 ; diag A",
    "zero A 2 2 ; diag A",
    "raw A 1 2 2 0 1 1 1 1 1_2 ; conj B A ; canon B",
    "raw A 2 1 3 0 1 2 2 0 0 2 1 2 ; raw B 1 3 2 0 2 2 0 2 2 3 4 ; mm C A B",
    "raw A 2 2 3 0 2 3 3 0 1 1 3 1 2 5 ; raw B 2 2 3 0 2 4 4 0 1 0 1 4 3 4 1 1 ; mm C A B ; canon C ; get C 0 1",
    "raw A 2 2 3 0 5 0 0 0 ; canon A",
    "raw A 1 2 2 1 2 2 0 1 2 5 7 ; canon A",
]


def exhaustive_small(tier):
    """every history of set operations of a bounded length on a small matrix, followed by a full read-out"""
    out = []
    r, c = (1, 3) if tier == "quick" else (2, 3)
    cells = [(i, k) for i in range(r) for k in range(c)]
    steps = [(i, k, v) for (i, k) in cells for v in ("0", "4")]
    depth = 3
    reads = " ; ".join("get A %d %d" % (i, k) for (i, k) in cells)
    for h in itertools.product(steps, repeat=depth):
        out.append("zero A %d %d ; %s ; %s ; canon A" % (r, c, " ; ".join("set A %d %d %s" % s for s in h), reads))
    # every pair of sparsity patterns of a 1 x 3 row under add/sub/mul (values chosen to cancel under add)
    for pa in itertools.product([None, "2", "-3"], repeat=3):
        for pb in itertools.product([None, "-2", "3"], repeat=3):
            a = raw_of_dense("A", [list(pa)], 1, 3)
            b = raw_of_dense("B", [list(pb)], 1, 3)
            out.append("%s ; %s ; add C A B ; sub D A B ; mul C A B ; ewm D A B" % (a, b))
    return out


def norm_field(f):
    """model OOB and a libstdc++ assertion abort are the same observation"""
    if f.startswith("OOB:") or f == "CRASH:6":
        return "MEMERR"
    return f


def nontrivial_from_output(m):
    """some matrix in the output has a row with >= 2 stored entries"""
    for f in m.split(";"):
        if f.startswith("M:"):
            parts = f.split("|")
            if len(parts) >= 2 and parts[1]:
                try:
                    p = [int(t) for t in parts[1].split(",")]
                except ValueError:
                    continue
                if any(b - a >= 2 for a, b in zip(p, p[1:])):
                    return True
    return False


def run(ctx):
    import time
    t0 = time.time()
    ctx.gate(["Base", "C25"])
    ctx.prove(PROOF_MODULES if proofs_in_project() else [], OBLIGATIONS)
    t1 = time.time()
    drv = ctx.build_driver("c25_driver")
    model = ctx.build_model("C25", "C25/Extract.v", "c25_main.ml", "csr_model")
    t2 = time.time()
    ncases = 2500 if ctx.tier == "quick" else 25000
    cases = list(CORPUS) + exhaustive_small(ctx.tier) + [gen_line(ctx.rng, ctx.tier) for _ in range(ncases)]
    explore(ctx, drv, model, cases)
    if ctx.broken and not new_violation_found(ctx):
        extra = [gen_line(ctx.rng, "thorough") for _ in range(6000)]
        explore(ctx, drv, model, extra, search=True)
    t3 = time.time()
    ctx.notes.append("phases: proofs %.0fs, builds %.0fs, exploration %.0fs" % (t1 - t0, t2 - t1, t3 - t2))
    ctx.cov["rule"] = (
        "programs over CSR registers from one PRNG plus a fixed corpus and exhaustive small universes (all set-histories of "
        "length 3 with values {0,4} on a 1x3 (quick) / 2x3 (thorough) matrix with a full read-out; all pairs of 1x3 sparsity "
        "patterns under add/sub/mul/elementwise product); matrices 1..5 (7) rows/cols and rows of 6..17 columns, densities "
        "0..1, entries Gaussian integers incl. negations that cancel, duplicates in coordinate lists, repeated/hot positions "
        "and first/last columns for set/get, zero scaling factors, unsorted/duplicate/malformed raw arrays; a program is "
        "non-trivial when some matrix it produces has a row with at least 2 stored entries; distinct = distinct program strings")
    ctx.assumptions += [
        "entries are exact Gaussian integers (Integer / Complex with integer parts); the model's element type is abstract with "
        "the ring laws as hypotheses and is extracted at Z[i]; is_true(is_zero(.)) is the exact zero test on these",
        "std::sort inside csr_sort_indices is modelled by a stable insertion sort (C++ leaves the order of equal columns unspecified; "
        "the values are summed afterwards by a commutative addition)",
        "null RCPs of freshly sized vec_basic are modelled as zero (every slot is overwritten when the row pointers are well formed)",
        "theorems assume rows*cols < 2^31 so that no 32-bit index computation wraps; the model itself carries the wrap",
        "csr_matmat_pass1/2 have no caller in the library: the driver and the model use the SciPy protocol (allocate C(A.rows,B.cols), "
        "pass 1, size j_/x_ to p_[rows], pass 2 -- which since the repair trims and sorts its result --, final resize)",
        "vector::insert/erase positions and DenseMatrix::get are bounds-checked in the model (the library relies on its callers)",
    ]


def proofs_in_project():
    try:
        return "C25/CsrInst.v" in open(vlib.COQ + "/_CoqProject").read()
    except OSError:
        return False


def new_violation_found(ctx):
    known = vlib.load_known(ctx.pid)
    return any(v["key"] not in known for v in ctx.violations)


def split_cmds(case):
    return [c.strip() for c in case.split(" ; ")]


BATCH = 4000


def run_retry(ctx, exe, part):
    """run one batch; lines without output (process killed by the harness timeout on an overloaded machine)
    are run again one by one; if that fails too the run itself has failed (exit 2), which is not a verdict"""
    out = ctx.run_lines(exe, part, timeout=3000, shards=16)
    missing = [k for k, o in enumerate(out) if o.startswith("NOOUTPUT")]
    for k in missing[:200]:
        out[k] = ctx.run_lines(exe, [part[k]], timeout=600, shards=1)[0]
    if any(o.startswith("NOOUTPUT") for o in out):
        import sys
        print("ERROR: %s produced no output for %d programs (harness timeout / machine overloaded); no verdict" % (
            exe, sum(1 for o in out if o.startswith("NOOUTPUT"))))
        sys.exit(2)
    return out


def explore(ctx, drv, model, cases, search=False):
    if drv is None or model is None:
        return
    impl, mod = [], []
    for b in range(0, len(cases), BATCH):               # small batches: no shard can run into the timeout
        part = cases[b:b + BATCH]
        impl += run_retry(ctx, drv, part)
        mod += run_retry(ctx, model, part)
    ctx.cov["evaluations"] += len(cases)
    ctx.cov["traces_validated_against_impl"] += len(cases)
    seen = set()
    nontriv = 0
    for c, m in zip(cases, mod):
        if c not in seen and nontrivial_from_output(m):
            nontriv += 1
        seen.add(c)
    ctx.cov["distinct_nontrivial"] += nontriv
    if not search:
        ctx.cov["samples"] += [{"program": c, "model": m, "impl": i} for c, m, i in list(zip(cases, mod, impl))[:3]]
        ctx.cov["samples"] += [{"program": c, "model": m, "impl": i} for c, m, i in list(zip(cases, mod, impl))[-6:]]
    ndis = 0
    for c, m, i in zip(cases, mod, impl):
        canon, _, oracle = i.partition("\t#ORACLE:")
        cmds = split_cmds(c)
        ifields = canon.split(";")
        rep = {"family": "C25", "case": c, "impl": i, "model": m}
        last = ifields[-1] if ifields else ""
        if last.startswith("ORACLECRASH") or last == "ORACLEHANG":
            # the result of command k-1 was printed; get()/is_canonical() on it killed the oracle
            k = max(len(ifields) - 2, 0)
            op = cmds[k].split()[0] if k < len(cmds) else "?"
            ctx.violation("C25/%s-result-unusable" % op,
                          "program `%s`: reading back the result of command %d (`%s`) through get()/is_canonical() ends with %s" % (
                              c, k + 1, cmds[k] if k < len(cmds) else "?", last[6:]), rep)
            ifields = ifields[:-1]
        elif last.startswith("CRASH") or last == "HANG" or last == "UNCAUGHT":
            k = len(ifields) - 1
            op = cmds[k].split()[0] if k < len(cmds) else "?"
            ctx.violation("C25/%s-crash" % op,
                          "program `%s`: command %d (`%s`) ends with %s on the library (model: %s)" % (
                              c, k + 1, cmds[k] if k < len(cmds) else "?", last, m.split(";")[-1]), rep)
        for item in oracle.split(";"):
            item = item.strip()
            if not item:
                continue
            cls = item.split()[0]                      # e.g. mm:canon
            ctx.violation("C25/" + cls.replace(":", "-"), "program `%s`: %s" % (c, item), rep)
        mfields = m.split(";")
        if last.startswith("ORACLE"):
            mfields = mfields[:len(ifields)]
        if [norm_field(f) for f in ifields] != [norm_field(f) for f in mfields]:
            ndis += 1
            if ndis <= 3:
                ctx.broken.append({"kind": "correspondence", "name": "C25 CSR program",
                                   "detail": "program `%s`\n model: %s\n impl:  %s" % (c, m, canon)})
    return ndis


def replay(ctx, rep):
    drv = ctx.build_driver("c25_driver")
    model = ctx.build_model("C25", "C25/Extract.v", "c25_main.ml", "csr_model")
    c = rep["replay"]["case"]
    print("case :", c)
    print("impl :", ctx.run_lines(drv, [c])[0])
    print("model:", ctx.run_lines(model, [c])[0])
