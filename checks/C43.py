"""C43 -- results do not depend on the integer backend.
Model: coq/C43/MpModel.v transcribes what the Boost.Multiprecision backend reimplements (symengine/mp_boost.cpp,
BOOSTMP section of mp_class.h).  Theorems: coq/C43/P_*.v -- each function equals the GMP-documented function it replaces.
Tie: the SAME driver source (harness/c43_driver.cpp) is built against the GMP build (cfg rel) and the Boost build
(cfg boost); every case line is run on both and on the extracted model.
  * GMP result != Boost result, or the driver's oracle (documented meaning of the mpz_* function, evaluated with
    + - * < only) fails  => violation (the key names the class of difference);
  * model != Boost build   => the tie is broken (the model transcribes mp_boost.cpp)."""
import vlib

ORDER = ["C43/MpModel.v", "C43/MpSpec.v", "C43/MpLoop.v", "C43/MpDiv.v", "C43/MpGcd.v", "C43/MpGcdNorm.v", "C43/MpPowm.v",
         "C43/MpRoot.v", "C43/MpFib.v", "C43/MpBin.v", "C43/MpPrime.v", "C43/MpJacobi.v"]
PROOF_MODULES = [f[:-2] + ".vo" for f in ORDER]
OBLIGATIONS = ["C43/P_%s.v" % n for n in (
    "fdiv_qr_spec", "fdiv_qr_floor", "cdiv_qr_spec", "cdiv_qr_ceiling", "tdiv_qr_spec", "divisible_spec", "scan1_spec",
    "gcdext_bezout", "gcdext_spec", "gcdext_spec_unique", "invert_spec", "powm_spec", "powm_spec_neg", "root_spec", "root_errors", "rootrem_spec", "sqrt_spec",
    "sqrtrem_spec", "perfect_square_spec", "fib_spec", "fib2_spec", "lucnum_spec", "lucnum2_spec", "fac_spec", "bin_spec", "binom_fact",
    "probab_prime_spec", "nextprime_partial", "nextprime_total_bertrand", "perfect_power_partial", "jacobi_total", "jacobi_spec_relative", "kronecker_spec_relative",
    "jacobi_definition_small", "kronecker_definition_small", "refuted", "nonvacuous")]

PRIMES_SMALL = [3, 5, 7, 11, 13, 17, 19, 23, 29, 31, 37, 41, 43, 47, 53, 59, 61, 67, 71, 73, 79, 83, 89, 97, 101, 103, 107, 109, 113,
                127, 251, 257, 521, 1009, 4099, 7919, 65537, 99991]
PRIMES_BIG = [2147483647, 4294967291, 4294967311, 2305843009213693951, 18446744073709551557, 18446744073709551629,
              618970019642690137449562111, 170141183460469231731687303715884105727]
PSEUDO = [561, 1105, 1729, 2047, 2465, 3277, 4033, 6601, 8911, 25326001, 3215031751, 3825123056546413051, 341550071728321,
          318665857834031151167461, 2152302898747, 10403, 1000036000099, 4295098369, 18446744030759878681]


# ------------------------------------------------------------------ number generators aimed at the case splits
def zany(rng, bits=None):
    k = rng.random()
    if k < 0.18:
        return rng.randint(-3, 3)
    if k < 0.40:
        return rng.randint(-40, 40)
    if k < 0.55:
        e = rng.choice([8, 16, 31, 32, 53, 63, 64, 65, 96, 127, 128])
        return rng.choice([1, -1]) * (2 ** e + rng.randint(-2, 2))
    if k < 0.65:
        return rng.choice([1, -1]) * rng.choice(PRIMES_SMALL + PRIMES_BIG)
    b = bits or rng.choice([20, 40, 62, 64, 70, 100, 128, 200, 300])
    return rng.choice([1, -1]) * rng.getrandbits(rng.randint(2, b))


def znz(rng, bits=None):
    while True:
        v = zany(rng, bits)
        if v != 0:
            return v


def gcd_pair(rng):
    k = rng.random()
    a, b = zany(rng), zany(rng)
    if k < 0.12:
        return rng.choice([(a, a), (a, -a), (a, 0), (0, a), (0, 0), (a, 1), (1, a), (a, -1)])
    if k < 0.30:          # b divides a / a divides b / |b| = 2g / |a| = 2g
        g = znz(rng, 64)
        m = rng.choice([2, -2, 3, -3, 5, 2 * rng.randint(1, 9) + 1, znz(rng, 40)])
        return rng.choice([(g * m, g), (g, g * m), (g * (2 * rng.randint(-9, 9) + 1), 2 * g), (2 * g, g * (2 * rng.randint(-9, 9) + 1))])
    if k < 0.45:          # consecutive Fibonacci numbers (longest Euclid run), random signs
        f0, f1 = 0, 1
        for _ in range(rng.randint(2, 140)):
            f0, f1 = f1, f0 + f1
        s1, s2 = rng.choice([1, -1]), rng.choice([1, -1])
        return rng.choice([(s1 * f1, s2 * f0), (s1 * f0, s2 * f1)])
    if k < 0.75:          # common factor
        g = znz(rng, 80)
        return (g * a, g * b)
    return (a, b)


def root_case(rng):
    n = rng.choice([2, 2, 2, 3, 3, 4, 5, 6, 7, 8, 11, 13, 16])
    rbits = max(1, rng.choice([40, 64, 96, 128]) // n)
    r = rng.getrandbits(rng.randint(1, rbits)) + rng.randint(0, 2)
    d = rng.choice([0, 0, 1, -1, 2, rng.randint(-r, r)])
    i = r ** n + d
    k = rng.random()
    if k < 0.25 and n % 2 == 1:
        i = -i
    if k > 0.97:          # large index: Newton starts at i/n and needs about n*ln(i) turns, keep i small
        n = rng.choice([1, 17, 30, 64, 65, 200])
        i = rng.choice([zany(rng, 64), 2 ** 64, 2 ** 64 + 1, 3 ** 30]) if n <= 30 else rng.choice([rng.randint(0, 5000), 2 ** 12, 3 ** 7])
        if i < 0 and n % 2 == 0:
            i = -i
    return i, n


def gen_case(rng, tier):
    op = rng.choice(["fdiv", "cdiv", "tdiv", "gcdext", "gcdext", "gcdext", "gcd", "lcm", "invert", "invert", "powm", "powm", "powm",
                     "powui", "qpowui", "root", "root", "rootrem", "sqrt", "sqrtrem", "psq", "scan1", "fib", "fib2", "luc", "luc2",
                     "fac", "bin", "bin", "ppow", "ppow", "legendre", "jacobi", "jacobi", "kronecker", "kronecker", "nextprime",
                     "isprime", "isprime", "divisible", "cmpabs", "and", "shr", "shl", "getui", "getsi", "fits", "hex", "hash", "setd", "getd",
                     "primorial", "nt", "nt", "nt"])
    if op in ("fdiv", "cdiv", "tdiv"):
        b = znz(rng)
        a = rng.choice([zany(rng), b * zany(rng, 64), b * zany(rng, 64) + rng.choice([1, -1]), 0, b, -b])
        return "%s %d %d" % (op, a, b)
    if op in ("gcdext", "gcd", "lcm"):
        return "%s %d %d" % ((op,) + gcd_pair(rng))
    if op == "invert":
        m = znz(rng)
        a = rng.choice([zany(rng), zany(rng), m * zany(rng, 30) + 1, m + 1, m - 1, m, 0, 1, -1])
        return "invert %d %d" % (a, m)
    if op == "powm":
        m = znz(rng)
        if rng.random() < 0.75:
            m = abs(m)
        e = rng.choice([0, 1, 2, 3, rng.randint(0, 200), rng.getrandbits(rng.choice([10, 64, 130])), -1, -2, -rng.randint(1, 60)])
        a = rng.choice([zany(rng), zany(rng), 0, 1, -1, m, m + 1])
        return "powm %d %d %d" % (a, e, m)
    if op == "powui":
        return "powui %d %d" % (zany(rng, 70), rng.choice([0, 1, 2, 3, rng.randint(0, 60)]))
    if op == "qpowui":
        return "qpowui %d %d %d" % (zany(rng, 70), abs(znz(rng, 70)), rng.choice([0, 1, 2, rng.randint(0, 40)]))
    if op in ("root", "rootrem"):
        return "%s %d %d" % ((op,) + root_case(rng))
    if op in ("sqrt", "sqrtrem", "psq"):
        r = rng.getrandbits(rng.choice([3, 16, 32, 33, 64, 100]))
        i = r * r + rng.choice([0, 0, 1, -1, 2 * r, 2 * r + 1, rng.randint(0, 2 * r)])
        if op == "psq" and rng.random() < 0.15:
            i = -i
        return "%s %d" % (op, max(i, 0) if op != "psq" else i)
    if op == "scan1":
        return "scan1 %d" % (zany(rng) * 2 ** rng.choice([0, 0, 1, 2, 5, 31, 32, 63, 64, 65, 200]))
    if op in ("fib", "fib2", "luc", "luc2"):
        lim = 700 if tier == "quick" else 4000
        n = rng.choice([0, 1, 2, 3, 4, 5, 6, 7, 8, rng.randint(0, 100), rng.randint(0, lim)])
        if op == "luc2" and n == 0 and rng.random() < 0.7:
            n = 1
        return "%s %d" % (op, n)
    if op == "fac":
        return "fac %d" % rng.choice([0, 1, 2, 3, rng.randint(0, 30), rng.randint(0, 300)])
    if op == "bin":
        r = rng.choice([0, 1, 2, 3, rng.randint(0, 40)])
        n = rng.choice([rng.randint(-50, 90), r, r - 1, r + 1, 0, -1, zany(rng, 70)])
        return "bin %d %d" % (n, r)
    if op == "ppow":
        k = rng.random()
        if k < 0.5:
            base = rng.choice([2, 3, 5, 6, 7, 10, rng.randint(2, 2000), rng.getrandbits(20) + 2])
            e = rng.choice([2, 3, 3, 4, 5, 6, 7, 9, 11, 13])
            while abs(base) ** e > 2 ** 90:
                e -= 1
            v = base ** max(e, 2) * rng.choice([1, 1, -1]) + rng.choice([0, 0, 0, 1, -1])
            if abs(v) > 2 ** 20 and not is_perfect_power(v):
                v = base ** max(e, 2)
            return "ppow %d" % v
        return "ppow %d" % rng.choice([rng.randint(-300, 300), rng.choice([1, -1]) * rng.getrandbits(rng.choice([12, 16, 20]))])
    if op == "legendre":
        p = rng.choice(PRIMES_SMALL + PRIMES_SMALL + PRIMES_BIG)
        a = rng.choice([zany(rng), zany(rng), 0, 1, -1, p, 2, p - 1, p + 1, zany(rng, 40) * p])
        return "legendre %d %d" % (a, p)
    if op == "jacobi":
        n = abs(rng.choice([zany(rng), rng.randint(0, 60), 1, 9, 15, 45, rng.choice(PSEUDO)])) | 1
        if rng.random() < 0.04:
            n = -n          # known finding: the Boost build rejects a negative denominator
        a = rng.choice([zany(rng), zany(rng), 0, 1, -1, 2, n, n - 1, n + 2, 3 * n, rng.randint(-50, 50)])
        return "jacobi %d %d" % (a, n)
    if op == "kronecker":
        n = rng.choice([znz(rng), rng.randint(-40, 40) or 1, 1, -1, 2, -2, 4, 8, -8, 2 ** rng.randint(1, 70), -(2 ** rng.randint(1, 70)) * 3])
        a = rng.choice([zany(rng), zany(rng), 0, 1, -1, 2, n, 3, 5, 7, rng.randint(-50, 50)])
        return "kronecker %d %d" % (a, n)
    if op == "nextprime":
        return "nextprime %d" % rng.choice([rng.randint(-5, 300), 2 ** 31 - 2, 2 ** 32 - 6, 2 ** 32, 2 ** 64 - 60, 2 ** 64, rng.getrandbits(rng.choice([20, 40, 66, 90])),
                                            rng.choice(PRIMES_BIG[:6]) - rng.randint(0, 2), rng.choice(PSEUDO) - 1])
    if op == "isprime":
        return "isprime %d" % rng.choice([rng.randint(0, 400), rng.choice(PRIMES_SMALL), rng.choice(PRIMES_BIG), rng.choice(PSEUDO),
                                          rng.choice(PRIMES_SMALL) * rng.choice(PRIMES_BIG), rng.choice(PRIMES_BIG[:4]) ** 2, abs(zany(rng, 90)),
                                          rng.choice(PRIMES_BIG[:6]) + 2])
    if op in ("divisible", "cmpabs", "and"):
        b = zany(rng)
        a = rng.choice([zany(rng), b * zany(rng, 40), b, -b, 0])
        return "%s %d %d" % (op, a, b)
    if op in ("shr", "shl"):
        a = zany(rng)
        return "%s %d %d" % (op, a, rng.choice([0, 1, 2, 31, 32, 63, 64, 65, rng.randint(0, 130)]))
    if op in ("getui", "hex", "hash", "fits"):
        return "%s %d" % (op, rng.choice([zany(rng), 2 ** 63 - 1, 2 ** 63, -2 ** 63, -2 ** 63 - 1, 2 ** 64 - 1, 2 ** 64, 2 ** 64 + 5, -2 ** 64 - 5]))
    if op == "getsi":
        return "getsi %d" % rng.choice([rng.randint(-2 ** 63, 2 ** 63 - 1), rng.randint(-100, 100), 2 ** 63 - 1, -2 ** 63, 2 ** 63, 2 ** 64 + rng.randint(0, 9)])
    if op == "getd":
        e = rng.choice([10, 52, 53, 54, 60, 64, 100, 200])
        return "getd %d" % (rng.choice([1, -1]) * rng.choice([rng.getrandbits(53), 2 ** e, 2 ** e + 2 ** max(e - 52, 0), 2 ** e + 1, 2 ** e + 3, 2 ** e - 1, rng.getrandbits(e + 1)]))
    if op == "setd":
        import struct
        v = rng.choice([float(rng.randint(-10 ** 6, 10 ** 6)) / rng.choice([1, 2, 4, 3]), float(zany(rng, 200)), 0.5, -0.5, 1e300, 2.0 ** 64, -2.0 ** 63])
        return "setd %016x" % struct.unpack("<Q", struct.pack("<d", v))[0]
    if op == "primorial":
        return "primorial %d" % rng.choice([0, 1, 2, 3, rng.randint(0, 400)])
    return gen_nt(rng)


def is_perfect_power(v):
    a = abs(v)
    if a <= 1:
        return True
    for k in range(2, a.bit_length() + 1):
        if v < 0 and k % 2 == 0:
            continue
        lo, hi = 1, 1 << (a.bit_length() // k + 1)
        while hi - lo > 1:
            mid = (lo + hi) // 2
            if mid ** k <= a:
                lo = mid
            else:
                hi = mid
        if lo ** k == a:
            return True
    return False


def gen_nt(rng):
    """ntheory / Integer / Rational API level (compared between the two backends only)"""
    f = rng.choice(["gcd_ext", "mod_inverse", "mod", "quotient", "mod_f", "quotient_f", "lucas2", "fibonacci2", "binomial", "probab_prime_p",
                    "nextprime", "i_nth_root", "isqrt", "perfect_power", "perfect_square", "legendre", "jacobi", "kronecker", "powermod",
                    "factor", "prime_factors", "totient", "carmichael", "primitive_root", "multiplicative_order", "nthroot_mod",
                    "nthroot_mod_list", "is_quad_residue", "is_nth_residue", "mobius", "bernoulli", "harmonic", "crt", "ppdecomp",
                    "rat_nth_root", "rat_is_perfect_power"])
    small = lambda: rng.randint(1, 2000)
    if f == "gcd_ext":
        return "nt gcd_ext %d %d" % gcd_pair(rng)
    if f == "mod_inverse":
        return "nt mod_inverse %d %d" % (zany(rng), znz(rng))
    if f in ("mod", "quotient", "mod_f", "quotient_f"):
        return "nt %s %d %d" % (f, zany(rng), znz(rng))
    if f in ("lucas2", "fibonacci2"):
        return "nt %s %d" % (f, rng.choice([1, 2, 3, rng.randint(1, 500)]))
    if f == "binomial":
        return "nt binomial %d %d" % (rng.randint(-40, 80), rng.randint(0, 30))
    if f == "probab_prime_p":
        return "nt probab_prime_p %d" % rng.choice([rng.randint(0, 300), rng.choice(PRIMES_BIG), rng.choice(PSEUDO)])
    if f == "nextprime":
        return "nt nextprime %d" % rng.choice([rng.randint(-3, 1000), rng.getrandbits(70)])
    if f == "i_nth_root":
        i, n = root_case(rng)
        return "nt i_nth_root %d %d" % (i, n)
    if f == "isqrt":
        return "nt isqrt %d" % rng.getrandbits(rng.choice([10, 64, 130]))
    if f in ("perfect_power", "perfect_square"):
        b = rng.randint(2, 3000)
        return "nt %s %d" % (f, rng.choice([b ** rng.randint(2, 6), b ** 2 + 1, -(b ** 3), rng.randint(-200, 200), rng.getrandbits(24)]))
    if f == "legendre":
        p = rng.choice(PRIMES_SMALL + PRIMES_BIG)
        return "nt legendre %d %d" % (zany(rng), p)
    if f == "jacobi":
        return "nt jacobi %d %d" % (zany(rng), abs(zany(rng)) | 1)
    if f == "kronecker":
        return "nt kronecker %d %d" % (zany(rng), znz(rng))
    if f == "powermod":
        m = abs(znz(rng, 64)) + 1
        return "nt powermod %d %d %d %d" % (zany(rng, 64), rng.randint(-20, 40), rng.choice([1, 1, 2, 3]), m)
    if f in ("factor", "prime_factors", "totient", "carmichael", "mobius"):
        v = rng.choice([small(), rng.choice(PRIMES_SMALL) * rng.choice(PRIMES_SMALL) * rng.choice([1, 2, 4, 9]), rng.getrandbits(40) + 2,
                        rng.choice(PRIMES_BIG[:3]) * rng.choice(PRIMES_SMALL)])     # trial division: keep sqrt(n) small
        return "nt %s %d" % (f, v)
    if f == "primitive_root":
        p = rng.choice(PRIMES_SMALL)
        return "nt primitive_root %d" % rng.choice([p, 2 * p, p * p, 4, 8, 15, small()])
    if f == "multiplicative_order":
        return "nt multiplicative_order %d %d" % (rng.randint(-50, 3000), small())
    if f in ("nthroot_mod", "nthroot_mod_list"):
        m = rng.choice([small(), rng.choice(PRIMES_SMALL), rng.choice(PRIMES_SMALL) ** 2, 2 ** rng.randint(1, 10), 2 * rng.choice(PRIMES_SMALL)])
        return "nt %s %d %d %d" % (f, rng.randint(-30, 3000), rng.randint(1, 12), m)
    if f == "is_quad_residue":
        return "nt is_quad_residue %d %d" % (rng.randint(-100, 5000), small())
    if f == "is_nth_residue":
        return "nt is_nth_residue %d %d %d" % (rng.randint(-100, 5000), rng.randint(1, 9), small())
    if f == "bernoulli":
        return "nt bernoulli %d" % rng.randint(0, 60)
    if f == "harmonic":
        return "nt harmonic %d %d" % (rng.randint(0, 60), rng.randint(1, 4))
    if f == "crt":
        ms = rng.sample([3, 4, 5, 7, 9, 11, 13, 16, 17, 25, 6, 10, 2 ** 61 - 1], rng.randint(2, 4))
        return "nt crt " + " ".join("%d %d" % (rng.randint(-20, 2 ** 62), m) for m in ms)
    if f == "ppdecomp":
        b = rng.randint(2, 300)
        return "nt ppdecomp %d %d" % (rng.choice([b ** rng.randint(1, 8), b ** 2 + 1, rng.randint(2, 5000)]), rng.randint(0, 1))
    if f == "rat_nth_root":
        n = rng.choice([2, 3, 4, 5])
        p, q = rng.randint(1, 400), rng.randint(2, 400)
        return "nt rat_nth_root %d %d %d" % rng.choice([(p ** n, q ** n, n), (p ** n + 1, q ** n, n), (-(p ** n), q ** n, n | 1), (p, q, n)])
    p, q = rng.randint(1, 60), rng.randint(2, 60)
    n = rng.choice([2, 3, 4])
    return "nt rat_is_perfect_power %d %d %d" % (rng.choice([p ** n, 1, p]), q ** n, rng.randint(0, 1))


def workload(rng, n):
    """a deterministic workload of exact computations at expression level: rational arithmetic, expansion, powers, number theory"""
    out = []
    for _ in range(n):
        q = lambda: "(q %d %d)" % (rng.randint(-99, 99), rng.randint(1, 99))
        bigq = lambda: "(q %d %d)" % (zany(rng, 140), znz(rng, 140))      # also negative denominators
        k = rng.random()
        if k < 0.25:
            terms = " ".join("(mul %s (pow %s (i %d)))" % (q(), rng.choice("xyz"), rng.randint(0, 3)) for _ in range(rng.randint(2, 4)))
            out.append("W (expand (pow (addv %s) (i %d)))" % (terms, rng.randint(2, 7)))
        elif k < 0.40:
            out.append("W (expand (mul (pow (add x %s) (i %d)) (pow (sub y %s) (i %d))))" % (bigq(), rng.randint(1, 4), q(), rng.randint(1, 4)))
        elif k < 0.60:
            op = rng.choice(["add", "sub", "mul", "div"])
            out.append("W (%s %s (%s %s %s))" % (op, bigq(), rng.choice(["add", "mul", "div", "sub"]), bigq(), q()))
        elif k < 0.75:
            out.append("W (pow %s (q %d %d))" % (rng.choice([bigq(), q(), "(i %d)" % rng.choice([8, 27, -8, 16, 12, 72, 2 ** 40, 10 ** 12, -(3 ** 9)])]),
                                                rng.randint(-7, 7), rng.choice([1, 2, 3, 4, 6])))
        elif k < 0.85:
            out.append("W (pow (i %d) (i %d))" % (zany(rng, 70), rng.randint(-30, 60)))
        elif k < 0.93:
            out.append("W (expand (pow (add (sqrt (i %d)) %s) (i %d)))" % (rng.randint(2, 50), q(), rng.randint(2, 6)))
        else:
            out.append("W (add (mul (i %d) (pow x (i %d))) (mul %s (pow x (i %d))))" % (2 ** 64 + rng.randint(0, 9), 2 ** 65 + rng.randint(0, 3), bigq(), rng.randint(1, 9)))
    return out


CORPUS = [
    # the differences between the two backends seen while building this check (see known_findings.txt / fixes)
    "powm -2 3 -5", "powm -7 5 -13", "luc2 0", "nt lucas2 0", "kronecker 1 0", "kronecker -1 0", "kronecker 2 0", "kronecker 0 0",
    "isprime -3", "isprime -2", "isprime -1", "isprime -7", "gcdext 0 0", "nt gcd_ext 0 0", "shr -5 1", "shr -8 2", "jacobi 5 -15", "jacobi 2 -7", "getd 9007199254740995", "getd 9007199254740993",
    "getsi 18446744073709551621", "getsi 9223372036854775808", "getsi -9223372036854775809",
    # boundaries
    "fdiv -5 3", "fdiv 5 -3", "fdiv -6 3", "cdiv 5 3", "cdiv -5 3", "cdiv 6 -3", "tdiv -7 2",
    "gcdext 6 4", "gcdext -6 4", "gcdext 2 4", "gcdext 4 2", "gcdext 3 3", "gcdext 3 -3", "gcdext 5 0", "gcdext 0 -5", "gcdext 2 5", "gcdext 240 46",
    "invert 3 7", "invert 3 -7", "invert 3 1", "invert 0 1", "invert 0 -1", "invert 2 4", "invert -3 7",
    "powm 2 -1 7", "powm 2 0 1", "powm 3 -2 -7", "powm 2 -1 4", "powm 0 0 5", "powm 0 5 5",
    "root 27 3", "root 28 3", "root -27 3", "root -28 3", "root 1 2", "root 2 2", "root 3 2", "root 4 2", "root 5 1", "root 7 64", "root 4294967296 32",
    "rootrem -28 3", "sqrt 17", "sqrtrem 17", "sqrt 0", "sqrt 1", "psq -4", "psq 0", "scan1 0", "scan1 -12", "scan1 1",
    "fib 0", "fib 1", "fib 2", "fib 3", "fib2 0", "fib2 1", "luc 0", "luc 1", "luc2 1", "luc2 2", "fac 0", "fac 1", "fac 2", "fac 25",
    "bin 5 2", "bin -5 2", "bin -5 3", "bin 2 5", "bin 0 0", "bin -1 4", "bin 4 4", "bin 36893488147419103232 3",
    "ppow 0", "ppow 1", "ppow -1", "ppow 8", "ppow -8", "ppow 16", "ppow -16", "ppow -64", "ppow 2", "ppow 4", "ppow -4", "ppow 1048577",
    "ppow 1267650600228229401496703205376", "ppow 2147483648", "ppow -2147483648",
    "legendre 2 7", "legendre 0 7", "legendre -1 7", "jacobi 2 15", "jacobi 0 1", "jacobi 7 1", "jacobi 1001 9907", "jacobi 3 9",
    "kronecker 3 -1", "kronecker -3 -1", "kronecker 3 8", "kronecker 2 8", "kronecker -3 -8", "kronecker 0 1", "kronecker 0 -1", "kronecker 5 2",
    "nextprime -5", "nextprime 0", "nextprime 1", "nextprime 2", "nextprime 3", "nextprime 13", "nextprime 100000000000000000000",
    "isprime 0", "isprime 1", "isprime 2", "isprime 3", "isprime 4", "isprime 561", "isprime 3215031751", "isprime 170141183460469231731687303715884105727",
    "divisible 0 0", "divisible 5 0", "primorial 0", "primorial 30",
]


# ------------------------------------------------------------------ classification
def failed(s):
    return s.startswith("EXN:") or s in ("CRASH:8", "CRASH:6", "UNCAUGHT")


def classify(case, rel, boost):
    """key naming the class of a difference between the two backends (or of an oracle failure)"""
    t = case.split()
    op = t[0]
    if op == "nt":
        op = t[1]
        args = [int(x) for x in t[2:]]
    elif op in ("W", "setd"):
        return "C43/%s-backend-difference" % ("workload" if op == "W" else op)
    else:
        args = [int(x) for x in t[1:]]
    if op == "powm" and args[2] < 0:
        return "C43/powm-negative-modulus"
    if op in ("luc2", "lucas2") and args[0] == 0:
        return "C43/lucnum2-zero-index"
    if op == "kronecker" and args[1] == 0:
        return "C43/kronecker-zero-denominator"
    if op in ("isprime", "probab_prime_p") and args[0] < 0:
        return "C43/probab-prime-negative"
    if op in ("gcdext", "gcd_ext") and args[0] == 0 and args[1] == 0:
        return "C43/gcdext-zero-zero"
    if op == "jacobi" and args[1] < 0 and args[1] % 2 == 1:
        return "C43/jacobi-negative-denominator"
    if op == "shr" and args[0] < 0:
        return "C43/shift-right-negative"
    if op == "getsi" and not (-2 ** 63 <= args[0] < 2 ** 63):
        return "C43/get_si-out-of-range"
    if op == "getd" and abs(args[0]) >= 2 ** 53:
        return "C43/get_d-rounding"
    if failed(rel) != failed(boost):
        return "C43/%s-fails-on-one-backend" % op
    return "C43/%s-backend-difference" % op


def nontrivial(case):
    """a case is non-trivial when some operand has more than 64 bits or the operation takes a case split on signs/zero"""
    t = case.split()
    if t[0] == "W":
        return True
    for x in t[1:]:
        try:
            v = int(x)
        except ValueError:
            continue
        if v < 0 or abs(v) >= 2 ** 64:
            return True
    return False


def explore(ctx, drvs, model, cases, search=False):
    rel_exe, boost_exe = drvs
    from concurrent.futures import ThreadPoolExecutor
    with ThreadPoolExecutor(max_workers=3) as ex:       # the three runs are independent
        futs = [ex.submit(ctx.run_lines, exe, cases, 3000) for exe in (rel_exe, boost_exe, model)]
        rel, boost, mod = [f.result() for f in futs]
    ctx.cov["evaluations"] += len(cases)
    ctx.cov["distinct_nontrivial"] += len(set(c for c in cases if nontrivial(c)))
    ctx.cov["traces_validated_against_impl"] += sum(1 for m in mod if m != "-")
    if not search:
        ctx.cov["samples"] += [{"case": c[:200], "gmp": r[:200], "boost": b[:200], "model": m[:200]}
                               for c, r, b, m in list(zip(cases, rel, boost, mod))[140:152]]
    ndis = 0
    for c, r, b, m in zip(cases, rel, boost, mod):
        rc, _, ro = r.partition("\t#ORACLE:")
        bc, _, bo = b.partition("\t#ORACLE:")
        short = c if len(c) < 300 else c[:200] + " ..."
        rep = {"family": "C43", "case": c, "gmp": r, "boost": b, "model": m}
        reported = False
        for who, o, canon in (("GMP", ro, rc), ("Boost", bo, bc)):
            if o:
                cls, _, what = o.partition(": ")
                key = "C43/" + cls.strip()
                spec = classify(c, rc, bc)
                if not spec.endswith("-backend-difference") and not spec.endswith("-fails-on-one-backend"):
                    key = spec
                ctx.violation(key, "case `%s` on the %s build: %s (GMP: %s | Boost: %s)" % (short, who, what.strip(), rc[:80], bc[:80]), rep)
                reported = True
        for who, canon in (("GMP", rc), ("Boost", bc)):
            if "HANG" in canon or "NOOUTPUT" in canon or "PIPEFAIL" in canon or "BADOP" in canon or (canon.startswith("CRASH") and not failed(canon)):
                ctx.violation("C43/%s-crash-or-hang" % c.split()[0], "case `%s` on the %s build ends with %s" % (short, who, canon[-40:]), rep)
                reported = True
        same = (rc == bc) or (failed(rc) and failed(bc))
        if not same and not reported:
            ctx.violation(classify(c, rc, bc), "case `%s`: the GMP build gives `%s`, the Boost build gives `%s`" % (short, rc[:120], bc[:120]), rep)
            reported = True
        if m != "-" and m != bc and not (failed(m) and failed(bc)):
            ndis += 1
            if ndis <= 3:
                ctx.broken.append({"kind": "correspondence", "name": "C43 model vs Boost build",
                                   "detail": "case `%s`\n model: %s\n boost: %s\n gmp:   %s" % (short, m[:300], bc[:300], rc[:300])})
    return ndis


def run(ctx):
    ctx.gate(["C43"])
    ctx.prove(PROOF_MODULES, OBLIGATIONS)
    rel = ctx.build_driver("c43_driver")
    boost = ctx.build_driver("c43_driver", cfg="boost")
    model = ctx.build_model("C43", "C43/Extract.v", "c43_main.ml", "mp_model")
    if rel is None or boost is None or model is None:
        return
    quick = ctx.tier == "quick"
    cases = list(CORPUS)
    cases += [gen_case(ctx.rng, ctx.tier) for _ in range(2600 if quick else 20000)]
    cases += workload(ctx.rng, 150 if quick else 1500)
    if not quick:
        cases += ["ppow %d" % v for v in range(-1100, 1101)] + ["isprime %d" % v for v in range(0, 3000)]
        cases += ["jacobi %d %d" % (a, n) for n in range(1, 60, 2) for a in range(-n, 2 * n)]
        cases += ["kronecker %d %d" % (a, n) for n in range(-24, 25) if n for a in range(-25, 26)]
        cases += ["gcdext %d %d" % (a, b) for a in range(-24, 25) for b in range(-24, 25)]
        cases += ["fdiv %d %d" % (a, b) for a in range(-12, 13) for b in range(-6, 7) if b] + ["cdiv %d %d" % (a, b) for a in range(-12, 13) for b in range(-6, 7) if b]
        cases += ["root %d %d" % (i, n) for n in range(1, 8) for i in range(-130, 131) if i >= 0 or n % 2] + ["bin %d %d" % (n, r) for n in range(-12, 16) for r in range(0, 9)]
    explore(ctx, (rel, boost), model, cases)
    if ctx.broken and not ctx.violations:
        extra = [gen_case(ctx.rng, "thorough") for _ in range(12000)]
        explore(ctx, (rel, boost), model, extra, search=True)
    ctx.cov["rule"] = (
        "one big-integer operation per case (mp_* wrapper level, plus ntheory/Integer/Rational API calls and an expression-level workload of rational "
        "arithmetic, expansion and powers), run on the GMP build, the Boost build and the extracted model; operands aimed at the case splits "
        "(zero, +-1, sign combinations, |a| = |b|, b | a, |b| = 2g, consecutive Fibonacci numbers, r^n + {-1,0,1}, negative radicands, powers of two +-2 "
        "around 2^31/2^32/2^63/2^64, Mersenne primes, Carmichael numbers and strong pseudoprimes); non-trivial = an operand is negative or has more than "
        "64 bits (or a workload expression); distinct = distinct case lines")
    ctx.assumptions += [
        "cpp_int primitives have their documented meaning: divide_qr, /, % truncate (Z.quot, Z.rem) and throw on a zero divisor; pow = Z.pow; gcd/lcm/abs = Z.gcd/Z.lcm/Z.abs; "
        "powm is the square-and-multiply loop of boost/multiprecision/detail/integer_ops.hpp (transcribed as bpowm)",
        "miller_rabin_test(n, 25) is a parameter of the model; theorems about mp_nextprime / mp_perfect_power_p assume that it decides primality for n >= 0 "
        "(error probability 4^-25 per composite in the library); the extracted model uses a deterministic Miller-Rabin with the first 13 prime bases",
        "termination of mp_nextprime is not proved (needs Bertrand's postulate); its theorem is a partial-correctness statement",
        "the Jacobi-symbol theorem is relative to the standard laws of the symbol (periodicity, multiplicativity, supplements, reciprocity) taken as section hypotheses, "
        "plus an exhaustive comparison with the definition (Legendre symbols by listing squares) for odd n < 100",
        "inputs on which GMP raises its arithmetic exception (SIGFPE: division by zero, even root of a negative number, non-invertible base with a negative exponent) and "
        "the Boost build throws are counted as the same outcome; GMP documents them as undefined/raising",
        "mp_probab_prime_p returns 2 for small primes with GMP and 1 with Boost (the library's own tests only require non-zero): compared as zero / non-zero; "
        "the random streams of mp_randstate differ (factor() is compared as found / not found)",
        "unsigned long arguments (root index, fib/fac/bin index, shift counts) fit 64 bits; boost::multiprecision::pow's exponent fits `unsigned` (numeric_cast throws otherwise)",
        "not covered: FLINT and Piranha backends (not installed), the gmpxx backend (same GMP functions through mpz_class)",
    ]


def replay(ctx, rep):
    rel = ctx.build_driver("c43_driver")
    boost = ctx.build_driver("c43_driver", cfg="boost")
    model = ctx.build_model("C43", "C43/Extract.v", "c43_main.ml", "mp_model")
    c = rep["replay"]["case"]
    print("case :", c)
    print("gmp  :", ctx.run_lines(rel, [c])[0])
    print("boost:", ctx.run_lines(boost, [c])[0])
    print("model:", ctx.run_lines(model, [c])[0])
