"""C03 -- every expression the API returns is in canonical form.
Model: coq/Expr/Arith.v (add / mul / pow / rpowrat ... transcribed), coq/Expr/Canon.v (the deep predicate
`canonical` = Add/Mul/Pow::is_canonical + Rational/Complex invariants on every node).  Theorems: coq/C03/P_*.v.
Tie: every arithmetic API call of generated recipes is recomputed by the extracted model from the dumps of its
operands (result tree and hash compared).  Oracles on the library: (a) the extracted `canonical` is evaluated on the
dump of EVERY result (independent structural validator), (b) the driver evaluates the library's own is_canonical
predicates on every node of every result (what the assertion build would check, without aborting)."""
import vlib
from checks import arithcommon as A

OBLIGATIONS = [
    "C03/P_add_canonical.v",
    "C03/P_mul_canonical.v",
    "C03/P_pow_canonical.v",
    "C03/P_div_neg_canonical.v",
    "C03/P_api_reachable_canonical.v",
    "C03/P_fuel_mono.v",
    "C03/P_nonvacuous.v",
]
REFUTATIONS = ['C03/P_refuted.v']
PROOF_MODULES = A.PROOF_MODULES

CORPUS_API = [
    "(f1 sign (c 1 1 2 1))", "(f1 ceiling (add (f1 floor x) (i 1)))", "(pow (i 0) nan)", "(pow nan (i 0))",
    "(expand (pow (add x y) (i 3)))", "(expand (mul (add x (i 1)) (sub x (i 1))))", "(diff (pow x (i 3)) x)", "(diff (f1 sin (mul (i 2) x)) x)",
    "(subs (add (pow x (i 2)) y) x (q 1 2))", "(subs (mul x (pow y (i -1))) y x)", "(f1 abs (mul (i -2) x))", "(f1 sin (neg x))", "(f1 cos (neg x))",
    "(f1 log (pow E x))", "(f1 exp (f1 log x))", "(f1 abs (f1 abs x))", "(f1 floor (add x (i 2)))", "(f1 sign (mul (i -3) x))",
    "(f1 conjugate (mul I x))", "(f1 sin (add x (mul (i 2) pi)))", "(f1 cos (mul (q 1 3) pi))", "(f1 gamma (i 5))", "(f1 gamma (q 1 2))",
    "(max x y x)", "(max (i 1) (i 2) x)", "(min x (q 1 2) (i 3))", "(add (mul (i 2) (add x y)) (sub z (add x y)))",
    "(mul (sqrt (pow x (i 2))) (mul x (sqrt (pow x (i 2)))))", "(add (pow (i 0) x) (pow (i 0) x))", "(mul y (pow (i 0) x))",
    "(mul z (pow (pow (i -2) (q 1 2)) (q 2 3)))", "(pow (i 0) I)", "(mul (pow (pow x (i 2)) (q 3 2)) (pow (pow x (i 2)) (q 1 2)))",
    "(pow (mul (pow z (i -1)) (sqrt (pow x (i 2)))) (i 2))", "(pow (i 1) (c 0 1 -1 1))", "(mul (pow (i 1) (c 0 1 -1 1)) (pow x y))",
]


def rule_key(rule):
    return "C03/noncanonical:" + rule


def run(ctx):
    ctx.gate(["Expr", "C03"])
    A.prove(ctx, OBLIGATIONS, REFUTATIONS)
    drv, model = A.build(ctx)
    q = ctx.tier == "quick"
    rng = ctx.rng
    recipes = list(A.CORPUS_T) + list(A.CORPUS_FLOAT) + CORPUS_API
    recipes += [A.gen_tree(rng, rng.randint(1, 3), "exact") for _ in range(1200 if q else 20000)]
    recipes += [A.gen_cancel(rng, "exact") for _ in range(900 if q else 15000)]
    recipes += [A.gen_tree(rng, rng.randint(1, 3), "float") for _ in range(400 if q else 6000)]
    recipes += [A.gen_cancel(rng, "float") for _ in range(300 if q else 5000)]
    recipes += [A.gen_with_funcs(rng, rng.randint(1, 2)) for _ in range(500 if q else 8000)]
    stats = {}
    explore(ctx, drv, model, recipes, stats)
    if ctx.broken and not ctx.violations:
        extra = [A.gen_cancel(rng, "exact") for _ in range(4000)] + [A.gen_tree(rng, 3, "exact") for _ in range(3000)]
        explore(ctx, drv, model, extra, stats, search=True)
    ctx.cov["distinct_nontrivial"] = len(stats.get("nontrivial", ()))
    ctx.cov["results_validated_by_extracted_canonical"] = stats.get("canon_checked", 0)
    ctx.cov["results_validated_by_library_is_canonical"] = stats.get("libcanon_checked", 0)
    ctx.cov["calls_outside_model_skipped"] = stats.get("skipped_outside_model", 0)
    ctx.cov["rule"] = ("recipes of public API calls: a fixed corpus (every branch of add / mul / pow / rpowrat / power_num, the known defects), random "
                       "arithmetic trees of depth <= 3 over integers (incl. perfect powers, negatives, multi-limb), rationals, Gaussian rationals, "
                       "symbols, pi, E, doubles, oo/zoo/nan, `cancel` shapes (same base with exponents that merge / cancel / sum to integers, same term "
                       "with coefficients that cancel, powers of products with numeric coefficients, nested powers), and programs with functions, expand, "
                       "diff, subs around them; evaluations = distinct (operation, operands) calls compared with the model; a call is non-trivial when "
                       "its result is not one of its operands and not an atom; distinct = distinct call texts")
    ctx.assumptions += [
        "Add's unordered_map iteration order is not modelled (results compared after sorting Add dictionaries; hash / eq / compare of an Add do not depend on it)",
        "std::map<RCPBasicKeyLess> is a list sorted by the modelled comparator, find = lower_bound + equivalence",
        "GMP (mpz_root, mpz_pow_ui, mpq canonicalisation) is exact integer arithmetic: modelled by Z",
        "libm-dependent results (std::pow on doubles, exp) are outside the model: such calls are counted and skipped",
        "function constructors (sin, abs, ...) are opaque atoms for the theorems; their own is_canonical predicates are evaluated on the library's results by the driver",
        "the pointer-identity shortcut of eq() is outside the model",
    ]


def explore(ctx, drv, model, recipes, stats, search=False):
    calls = A.correspondence_phase(ctx, "C03", drv, model, recipes, stats, search)
    if not calls:
        return
    # oracle (b): the library's own predicates, evaluated by the driver on every result
    for c in calls:
        if A.is_error(c.res):
            if c.res.startswith("CRASH"):
                ctx.violation("C03/crash:" + A.crash_class(c), "%s ends with %s (recipe %s)" % (A.call_text(c)[:300], c.res, c.recipe),
                              {"family": "arith", "mode": "T", "case": c.recipe})
            elif c.res.startswith("HANG"):
                ctx.notes.append("call did not finish within 20 s (huge integer power; skipped): " + A.call_text(c)[:200])
            continue
        stats["libcanon_checked"] = stats.get("libcanon_checked", 0) + 1
        if c.libcanon and c.libcanon.startswith("0:"):
            cls = c.libcanon[2:]
            if cls not in ("Add", "Mul", "Pow", "Rational", "Complex"):
                ctx.violation("C03/noncanonical:function:" + cls,
                              "the result of recipe %s contains a %s node that %s::is_canonical rejects: %s" % (c.recipe, cls, cls, c.res[:300]),
                              {"family": "arith", "mode": "T", "case": c.recipe})
    # oracle (a): the extracted deep predicate on every result dump
    results = [c.res for c in calls if not A.is_error(c.res)]
    mc = A.model_canon(ctx, model, results)
    done = set()
    for c in calls:
        if A.is_error(c.res) or c.res in done or c.res not in mc:
            continue
        done.add(c.res)
        ok, info = mc[c.res]
        stats["canon_checked"] = stats.get("canon_checked", 0) + 1
        lib_ok = not (c.libcanon or "1").startswith("0:")
        if ok is None:
            ctx.broken.append({"kind": "correspondence", "name": "C03 canonical validator", "detail": "%s on %s" % (info, c.res[:300])})
        elif not ok:
            rule, node = info
            ctx.violation(rule_key(rule), "%s returns %s, which contains the non-canonical node %s (%s)%s; recipe %s" % (
                A.call_text(c)[:300], c.res[:300], node[:200], rule, "" if not lib_ok else " [the library's is_canonical accepts it]", c.recipe),
                {"family": "arith", "mode": "T", "case": c.recipe})
        elif not lib_ok and c.libcanon[2:] in ("Add", "Mul", "Pow", "Rational", "Complex"):
            ctx.broken.append({"kind": "correspondence", "name": "C03 canonical predicate vs library is_canonical",
                               "detail": "library rejects (%s) but the model's canonical accepts %s" % (c.libcanon, c.res[:300])})


def replay(ctx, rep):
    drv, model = A.build(ctx)
    r = rep["replay"]["case"]
    for _, line, cs in A.run_traces(ctx, drv, [r]):
        mo = A.model_calls(ctx, model, cs)
        mc = A.model_canon(ctx, model, [c.res for c in cs if not A.is_error(c.res)])
        for c in cs:
            print("call   :", A.call_text(c))
            print("  impl :", c.res, "| hash", c.hash, "| library is_canonical:", c.libcanon)
            print("  model:", mo.get(c.key))
            if c.res in mc:
                print("  extracted canonical:", mc[c.res])
