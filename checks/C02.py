"""C02 -- expression ordering is a strict total order consistent with eq.
Model: coq/Expr/Cmp.v (compare / __cmp__ / RCPBasicKeyLess, container models).
Theorems: coq/C02/P_*.v.  Tie: __cmp__ and eq matrices of generated pools compared between the
extracted model and the library; type codes regenerated."""
import re
import vlib
from checks import exprcommon as X
from checks.C01 import translate

PROOF_MODULES = ["Expr/CmpProofs.vo"]
OBLIGATIONS = ["C02/P_cmp_range.v", "C02/P_cmp_eq_iff.v", "C02/P_cmp_antisym.v", "C02/P_cmp_trans.v",
               "C02/P_keyless_strict_weak_order.v", "C02/P_map_insert_order_independent.v",
               "C01/P_typecodes.v", "C02/P_nonvacuous.v"]

NAN_RE = re.compile(r"\b[7f]ff[0-9a-f]{13}\b")


def has_nan_double(d):
    for m in NAN_RE.finditer(d):
        h = m.group(0)
        if int(h[3:], 16) != 0:
            return True
    return False


def classify(kind, dumps):
    if any(has_nan_double(d) for d in dumps):
        return "C02/nan-double-" + kind
    return "C02/" + kind


NEG = {"-": "+", "+": "-", "0": "0", "?": "?"}


def run(ctx):
    translate(ctx)
    ctx.gate(["Base", "Num", "Gen", "Expr", "C02"])
    ctx.prove(PROOF_MODULES, OBLIGATIONS)
    drv = ctx.build_driver("exprpool_driver")
    model = ctx.build_model("Expr", "Expr/Extract.v", "exprpool_main.ml", "semodel", extra_ml=["expr_io.ml"])
    npools = 40 if ctx.tier == "quick" else 400
    pools = list(X.CORPUS) + [X.gen_pool(ctx.rng, 30, allow_nan=(k % 4 == 0)) for k in range(npools)]
    explore(ctx, drv, model, pools)
    if ctx.broken and not ctx.violations:
        explore(ctx, drv, model, [X.gen_pool(ctx.rng, 40, allow_nan=False) for _ in range(200)], search=True)
    ctx.cov["rule"] = ("pools of ~30 expressions of every modelled kind built by recipes of public API calls; all ordered pairs "
                       "(range, cmp=0 <=> eq, antisymmetry) and all ordered triples (transitivity) inside a pool are checked on the "
                       "library's own results; evaluations = ordered pairs; non-trivial pair = two expressions of the SAME class with "
                       "different dumps (so compare() itself, not the type-code shortcut, decides); distinct = distinct dump pairs")
    ctx.assumptions += [
        "std::map/std::set are modelled as sorted lists with insertion by RCPBasicKeyLess (equivalent keys dropped)",
        "the pointer-identity shortcut of eq() is outside the model (drivers never compare an object with itself)",
        "kinds outside the model are dumped as Opaque and skipped",
    ]


def explore(ctx, drv, model, pools, search=False):
    if drv is None or model is None:
        return
    res = X.run_pools(ctx, drv, model, pools)
    nontriv = set()
    ndis = 0
    for p in res:
        if "bad" in p:
            ctx.violation("C02/crash", "pool evaluation ended with %s" % p["bad"], {"family": "exprpool", "case": p["pool"]})
            continue
        ctx.cov["traces_validated_against_impl"] += 1
        ih, ie, ic = X.split_matrix(p["impl"])
        n = len(ih)
        ctx.cov["evaluations"] += n * n
        R, D = p["recipes"], p["dumps"]

        def viol(kind, idx, what):
            ctx.violation(classify(kind, [D[k] for k in idx]), what,
                          {"family": "exprpool", "case": " ;; ".join(R[k] for k in idx), "dumps": [D[k] for k in idx]})
        for i in range(n):
            for j in range(n):
                c = ic[i][j]
                if D[i] != D[j] and D[i].split(" ")[0] == D[j].split(" ")[0]:
                    nontriv.add((D[i], D[j]))
                if c == "?":
                    viol("range", [i, j], "__cmp__(%s, %s) is outside {-1,0,1}" % (R[i], R[j]))
                if (c == "0") != (ie[i][j] == "1"):
                    viol("cmp-eq-mismatch", [i, j], "__cmp__(a,b) = %s but eq(a,b) = %s for a = %s, b = %s" % (c, ie[i][j], R[i], R[j]))
                if ic[j][i] != NEG[c]:
                    viol("antisymmetry", [i, j], "__cmp__(a,b) = %s and __cmp__(b,a) = %s for a = %s, b = %s" % (c, ic[j][i], R[i], R[j]))
        # transitivity over all triples (on the implementation's own matrix)
        lt = [[ic[i][j] == "-" for j in range(n)] for i in range(n)]
        for i in range(n):
            for j in range(n):
                if not lt[i][j]:
                    continue
                for k in range(n):
                    if lt[j][k] and not lt[i][k]:
                        viol("transitivity", [i, j, k], "a < b and b < c but __cmp__(a,c) = %s for a = %s, b = %s, c = %s" % (ic[i][k], R[i], R[j], R[k]))
        if p["model"].startswith("UNSUPPORTED") or p["model"].startswith("FAIL"):
            ctx.broken.append({"kind": "correspondence", "name": "exprpool reader", "detail": p["model"] + "\n" + p["pool"]})
            continue
        wfl = X.wf_flags(p["model"])
        ctx.cov["trees_total"] = ctx.cov.get("trees_total", 0) + len(wfl)
        ctx.cov["trees_satisfying_theorem_hypotheses_wf"] = ctx.cov.get("trees_satisfying_theorem_hypotheses_wf", 0) + wfl.count("1")
        mh, me, mc = X.split_matrix(p["model"])
        if mc != ic or me != ie:
            ndis += 1
            if ndis <= 3:
                det = "pool %s\n" % p["pool"]
                for i in range(n):
                    if i < len(mc) and mc[i] != ic[i]:
                        j = [t for t in range(n) if mc[i][t] != ic[i][t]][0]
                        det += "__cmp__ differs for (%s, %s): model %s impl %s" % (R[i], R[j], mc[i][j], ic[i][j])
                        break
                ctx.broken.append({"kind": "correspondence", "name": "C02 cmp/eq", "detail": det})
    ctx.cov["distinct_nontrivial"] += len(nontriv)
    if not search:
        for p in res[:4]:
            if "bad" not in p:
                ctx.cov["samples"].append({"recipes": p["recipes"][:5], "cmp_rows": p["impl"].split(" || ")[2].split()[:5]})


def replay(ctx, rep):
    from checks.C01 import replay as r
    r(ctx, rep)
