"""C34 -- property queries under assumptions are sound.
Model: coq/Assume/{Tribool,AssumeModel}.v (Assumptions constructor, the visitors of test_visitors.cpp as
abstract interpreters expr -> assumptions -> tribool, tribool.h).  Semantics and theorems:
coq/Assume/{AssumeSem,AssumeProofs}.v, obligations coq/C34/P_*.v.
Tie: every query of the library is recomputed by the extracted model from the DUMP of the expression and
of the statement set and compared exactly; oracle: the library's own substitution at sampled rational /
Gaussian-rational valuations that satisfy the statements."""
import os
from fractions import Fraction as Fr
import vlib

PROOF_MODULES = ["Assume/C34Theorems.vo", "Assume/AssumeProofs3.vo"]
OBLIGATIONS = ["C34/P_assumptions_sound.v", "C34/P_zero_sound.v", "C34/P_nonzero_sound.v", "C34/P_negative_sound.v",
               "C34/P_nonnegative_sound.v", "C34/P_nonpositive_sound.v", "C34/P_positive_sound.v",
               "C34/P_integer_sound.v", "C34/P_real_sound_guarded.v", "C34/P_complex_true_sound_guarded.v",
               "C34/P_complex_false_sound.v", "C34/P_rational_sound_partial.v", "C34/P_finite_sound.v",
               "C34/P_even_sound.v", "C34/P_odd_sound.v",
               "C34/P_refuted_real_false_mul.v", "C34/P_refuted_real_pole.v", "C34/P_nonvacuous.v"]
ASSUME_SRC = ["Assume/Tribool.v", "Assume/AssumeModel.v", "Assume/RefineModel.v", "Assume/AssumeSem.v",
              "Assume/AssumeProofs.v", "Assume/AssumeProofs2.v", "Assume/AssumeProofs3.v", "Assume/C34Theorems.v",
              "Assume/RefineProofs.v", "Assume/RefinePow.v", "Assume/RefineMaxMin.v"]

QNAMES = ["zero", "nonzero", "positive", "negative", "nonnegative", "nonpositive", "integer", "real", "complex",
          "rational", "irrational", "finite", "infinite", "algebraic", "transcendental", "even", "odd",
          "polynomial", "polynomial_x"]

# ------------------------------------------------------------------ values
RATS = [Fr(0), Fr(1), Fr(-1), Fr(2), Fr(-2), Fr(1, 2), Fr(-1, 2), Fr(3), Fr(-3), Fr(3, 2), Fr(7, 3), Fr(-5, 4),
        Fr(4), Fr(-4), Fr(9), Fr(1, 4), Fr(-9, 4), Fr(5), Fr(-7), Fr(1, 3)]
CPLX = [(Fr(0), Fr(1)), (Fr(0), Fr(-1)), (Fr(1), Fr(1)), (Fr(1, 2), Fr(-3, 4)), (Fr(-2), Fr(1)), (Fr(3), Fr(4)),
        (Fr(0), Fr(2)), (Fr(-1), Fr(-1))]


def is_int(q):
    return q.denominator == 1


def val_recipe(v):
    re, im = v
    if im == 0:
        return "(i %d)" % re.numerator if is_int(re) else "(q %d %d)" % (re.numerator, re.denominator)
    return "(c %d %d %d %d)" % (re.numerator, re.denominator, im.numerator, im.denominator)


def realp(p):
    return lambda v: v[1] == 0 and p(v[0])


# kind -> (statement templates, predicate on (re, im))
KINDS = {
    "none": ([], lambda v: True),
    "complex": (["(contains %s complexes)"], lambda v: True),
    "real": (["(contains %s reals)"], realp(lambda r: True)),
    "rational": (["(contains %s rationals)"], realp(lambda r: True)),
    "integer": (["(contains %s integers)"], realp(is_int)),
    "pos": (["(gt %s (i 0))"], realp(lambda r: r > 0)),
    "neg": (["(lt %s (i 0))"], realp(lambda r: r < 0)),
    "nonneg": (["(ge %s (i 0))"], realp(lambda r: r >= 0)),
    "nonpos": (["(le %s (i 0))"], realp(lambda r: r <= 0)),
    "nonzero": (["(ne %s (i 0))"], lambda v: v != (0, 0)),
    "zero": (["(eq %s (i 0))"], lambda v: v == (0, 0)),
    "gt2": (["(gt %s (i 2))"], realp(lambda r: r > 2)),
    "ltm1": (["(lt %s (i -1))"], realp(lambda r: r < -1)),
    "gehalf": (["(ge %s (q 1 2))"], realp(lambda r: r >= Fr(1, 2))),
    "lemhalf": (["(le %s (q -1 2))"], realp(lambda r: r <= Fr(-1, 2))),
    "gtm1": (["(gt %s (i -1))"], realp(lambda r: r > -1)),
    "lt3": (["(lt %s (i 3))"], realp(lambda r: r < 3)),
    "eq3": (["(eq %s (i 3))"], lambda v: v == (3, 0)),
    "intpos": (["(contains %s integers)", "(gt %s (i 0))"], realp(lambda r: is_int(r) and r > 0)),
    "intnonneg": (["(contains %s integers)", "(ge %s (i 0))"], realp(lambda r: is_int(r) and r >= 0)),
    "intneg": (["(contains %s integers)", "(lt %s (i 0))"], realp(lambda r: is_int(r) and r < 0)),
    "realnz": (["(contains %s reals)", "(ne %s (i 0))"], realp(lambda r: r != 0)),
    "ratpos": (["(contains %s rationals)", "(gt %s (i 0))"], realp(lambda r: r > 0)),
    "gtfloat": (["(gt %s (d 3fe0000000000000))"], realp(lambda r: r > Fr(1, 2))),
}
COMMON_KINDS = ["none", "complex", "real", "real", "rational", "integer", "integer", "pos", "pos", "neg", "neg",
                "nonneg", "nonpos", "nonzero", "zero", "gt2", "ltm1", "gehalf", "lemhalf", "gtm1", "lt3", "eq3",
                "intpos", "intnonneg", "intneg", "realnz", "ratpos", "gtfloat"]
INCONSISTENT = [["(gt %s (i 0))", "(lt %s (i 0))"], ["(eq %s (i 0))", "(gt %s (i 0))"], ["(ge %s (i 0))", "(lt %s (i -1))"],
                ["(ne %s (i 0))", "(eq %s (i 0))"], ["(le %s (i 0))", "(gt %s (i 2))"]]
SYMS = ["x", "y", "z", "w"]


def gen_assumptions(rng):
    """-> (assumption field, {sym: kind})"""
    r = rng.random()
    if r < 0.05:
        return "-", {s: "none" for s in SYMS}
    if r < 0.08:
        return "0", {s: "none" for s in SYMS}
    kinds = {s: rng.choice(COMMON_KINDS) for s in SYMS}
    stmts = []
    for s in SYMS:
        stmts += [t % ("(s %s)" % s) for t in KINDS[kinds[s]][0]]
    if r < 0.11:
        s = rng.choice(SYMS)
        stmts += [t % ("(s %s)" % s) for t in rng.choice(INCONSISTENT)]
    if r > 0.9:
        # statements the constructor ignores / treats specially
        stmts.append(rng.choice(["(contains (s x) naturals)", "(lt (s x) (s y))", "(gt (add (s x) (i 1)) (i 0))",
                                 "(ge (s y) (i -3))", "(ne (s z) (i 1))", "(eq (s w) (q 1 2))"]))
        # (these may be false at the sampled valuations: the driver then skips the valuation)
    rng.shuffle(stmts)
    return (" ;; ".join(stmts) if stmts else "0"), kinds


def gen_valuations(rng, kinds, n):
    out = []
    for _ in range(n):
        parts = []
        for s in SYMS:
            pred = KINDS[kinds[s]][1]
            pool = [(q, Fr(0)) for q in RATS] + (CPLX if rng.random() < 0.5 else [])
            ok = [v for v in pool if pred(v)]
            if not ok:
                ok = [(Fr(0), Fr(0))]
            # boundary values first: the smallest admissible ones
            v = rng.choice(ok[:3]) if rng.random() < 0.4 else rng.choice(ok)
            parts.append("%s=%s" % (s, val_recipe(v)))
        out.append(";".join(parts))
    return "|".join(out)


# ------------------------------------------------------------------ expressions
NUMS = ["(i 0)", "(i 1)", "(i -1)", "(i 2)", "(i -2)", "(i 3)", "(q 1 2)", "(q -1 2)", "(q 3 2)", "(q -2 3)", "I",
        "(c 1 1 1 1)", "(c 0 1 -1 1)", "(c 1 2 1 2)", "(c 0 1 2 1)"]
RARE = ["oo", "-oo", "zoo", "nan", "(d 3ff0000000000000)", "(d 3fe0000000000000)", "(d c000000000000000)",
        "(d 0000000000000000)", "(d 8000000000000000)", "(d 7ff0000000000000)", "(d 7ff8000000000000)",
        "(cd 3ff0000000000000 0000000000000000)", "(cd 0000000000000000 3ff0000000000000)"]
CONSTS = ["pi", "E", "EulerGamma", "Catalan", "GoldenRatio"]
F1A = ["abs", "sign", "conjugate", "floor", "ceiling"]
F1B = ["sin", "cos", "tan", "cot", "sec", "csc", "asin", "acos", "atan", "acot", "asec", "acsc", "sinh", "cosh", "tanh",
       "coth", "asinh", "atanh", "acoth", "asech", "acsch", "log", "lambertw", "exp", "gamma", "erf"]
WEIRD = ["true", "reals", "(lt (s x) (s y))", "(contains (s x) reals)", "(interval (i 0) (i 1) 0 0)",
         "(f2 kronecker_delta (s x) (s y))", "(dum d)", "(fs f (s x))", "(and (lt (s x) (s y)) (gt (s z) (i 0)))"]
COEFS = ["(i 1)", "(i -1)", "(i 2)", "(i -3)", "(q 1 2)", "(q -1 2)", "I", "(c 1 1 1 1)", "(d 4000000000000000)"]
EXPS = ["(i 2)", "(i 3)", "(i -1)", "(i -2)", "(q 1 2)", "(q -1 2)", "(q 1 3)", "(q 3 2)", "(i 0)", "(i 1)"]


def leaf(rng):
    r = rng.random()
    if r < 0.55:
        return "(s %s)" % rng.choice(SYMS)
    if r < 0.85:
        return rng.choice(NUMS)
    if r < 0.93:
        return rng.choice(CONSTS)
    if r < 0.98:
        # non-finite doubles only as bare numbers (gen_targeted): floor/ceiling/... of them kill the
        # process in the constructors (SIGFPE, outside the anchored code)
        return rng.choice([x for x in RARE if not (x.startswith("(d 7ff") or x.startswith("(d fff"))])
    return rng.choice(WEIRD)


def gen_expr(rng, depth):
    if depth <= 0 or rng.random() < 0.2:
        return leaf(rng)
    r = rng.random()
    if r < 0.28:
        n = rng.randint(2, 4)
        terms = []
        for _ in range(n):
            t = gen_expr(rng, depth - 1)
            if rng.random() < 0.6:
                t = "(mul %s %s)" % (rng.choice(COEFS), t)
            terms.append(t)
        if rng.random() < 0.5:
            terms.append(rng.choice(NUMS))
        return "(addv %s)" % " ".join(terms)
    if r < 0.50:
        n = rng.randint(2, 3)
        fs = []
        for _ in range(n):
            t = gen_expr(rng, depth - 1)
            if rng.random() < 0.4:
                t = "(pow %s %s)" % (t, rng.choice(EXPS + ["(s %s)" % rng.choice(SYMS)]))
            fs.append(t)
        if rng.random() < 0.5:
            fs.append(rng.choice(COEFS))
        return "(mulv %s)" % " ".join(fs)
    if r < 0.66:
        e = rng.choice(EXPS) if rng.random() < 0.7 else gen_expr(rng, depth - 1)
        return "(pow %s %s)" % (gen_expr(rng, depth - 1), e)
    if r < 0.80:
        return "(f1 %s %s)" % (rng.choice(F1A), gen_expr(rng, depth - 1))
    if r < 0.92:
        return "(f1 %s %s)" % (rng.choice(F1B), gen_expr(rng, depth - 1))
    if r < 0.96:
        return "(%s %s %s)" % (rng.choice(["max", "min"]), gen_expr(rng, depth - 1), gen_expr(rng, depth - 1))
    return "(div %s %s)" % (gen_expr(rng, depth - 1), gen_expr(rng, depth - 1))


def gen_targeted(rng):
    """shapes aimed at the case splits of the visitors"""
    S = lambda: "(s %s)" % rng.choice(SYMS)
    r = rng.randint(0, 11)
    if r == 0:      # PositiveVisitor(Add): signs of coefficient and terms
        ts = ["(mul %s %s)" % (rng.choice(COEFS), S()) for _ in range(rng.randint(1, 3))]
        return "(addv %s %s)" % (" ".join(ts), rng.choice(NUMS + ["(i 0)"]))
    if r == 1:      # RealVisitor(Mul)
        fs = ["(pow %s %s)" % (S(), rng.choice(EXPS + [S()])) for _ in range(rng.randint(1, 3))]
        return "(mulv %s %s)" % (" ".join(fs), rng.choice(COEFS))
    if r == 2:      # check_power
        return "(pow %s %s)" % (rng.choice([S(), "(add %s (i 1))" % S(), "(mul I %s)" % S(), "(c 0 1 1 1)", "(i -2)", "(i 2)", "pi"]),
                                rng.choice(EXPS + [S(), "(mul (i 2) %s)" % S(), "pi", "I"]))
    if r == 3:      # RealVisitor(Add)
        ts = [rng.choice([S(), "(mul I %s)" % S(), "(pow %s (i 2))" % S(), "(mul (i 2) %s)" % S(), "pi"]) for _ in range(rng.randint(2, 3))]
        return "(addv %s %s)" % (" ".join(ts), rng.choice(NUMS))
    if r == 4:      # ComplexVisitor functions with singular arguments
        f = rng.choice(["log", "asec", "asech", "acsc", "acsch", "atan", "acot", "atanh", "acoth", "tan", "cot", "sec", "csc"])
        a = rng.choice([S(), "(i 0)", "(i 1)", "(i -1)", "I", "(c 0 1 -1 1)", "(add %s (i 1))" % S(), "(add %s I)" % S(),
                        "(f1 abs %s)" % S(), "(f1 sign %s)" % S(), "(mul (i 2) %s)" % S(), "zoo", "(q 1 2)"])
        return "(f1 %s %s)" % (f, a)
    if r == 5:      # pass-through functions
        return "(f1 %s %s)" % (rng.choice(F1A), rng.choice([S(), "(f1 %s %s)" % (rng.choice(F1A), S()), "(mul I %s)" % S(), "(add %s %s)" % (S(), S())]))
    if r == 6:      # integer sums / products
        ts = [rng.choice([S(), "(mul (i 2) %s)" % S(), "(mul %s %s)" % (S(), S()), "(mul (q 1 2) %s)" % S(), "(pow %s (i 2))" % S(), "(f1 conjugate %s)" % S()]) for _ in range(rng.randint(1, 3))]
        return "(addv %s %s)" % (" ".join(ts), rng.choice(["(i 0)", "(i 1)", "(i -4)", "(q 1 2)"]))
    if r == 7:      # rational / algebraic sums of constants
        ts = rng.sample(CONSTS + ["(i 1)", "(q 1 2)", "I", "(s x)", "(f1 sin (i 1))", "(f1 sin (s x))", "(f1 cosh (q 1 2))", "(f1 lambertw (i 2))"], rng.randint(1, 3))
        return "(addv %s)" % " ".join(ts)
    if r == 8:      # bare numbers of every kind
        return rng.choice(NUMS + RARE)
    if r == 9:      # even / odd
        return rng.choice(["(mul (i 2) %s)" % S(), "(add (mul (i 2) %s) (i 1))" % S(), "(mul (i 4) %s %s)" % (S(), S()), "(i 6)", "(i 7)", "(add %s %s)" % (S(), S()), S()])
    if r == 10:     # polynomial
        return rng.choice(["(add (pow (s x) (i 2)) (mul (s y) (s x)) (i 1))", "(pow (s x) (s y))", "(pow (i 2) (s x))", "(pow (s x) (i -1))",
                           "(f1 sin (s x))", "(f1 sin (s y))", "(mul (pow (s x) (q 1 2)) (s y))", "(pow (add (s x) (i 1)) (i 3))",
                           "(pow (add (s x) (i 1)) (s y))", "(pow (add (s y) (i 1)) (q 1 2))", "(add (s x) (lt (s x) (s y)))" if False else "(mul (s x) pi)"])
    return "(mul %s %s)" % (rng.choice(["I", "(c 1 1 1 1)", "(i 2)", "(i -1)", "zoo", "oo"]), S())


CORPUS = [
    ("(add (s x) (i 1))", "(gt (s x) (i 0))", {"x": "pos"}),
    ("(mul (s x) I)", "(contains (s x) reals)", {"x": "real"}),
    ("(add (add (i 1) I) (mul I (s x)))", "(contains (s x) reals)", {"x": "real"}),
    ("nan", "-", {}), ("zoo", "-", {}), ("oo", "0", {}), ("-oo", "-", {}),
    ("(pow (s x) (i -1))", "(contains (s x) reals)", {"x": "real"}),
    ("(pow (s x) (i -1))", "(contains (s x) complexes)", {"x": "complex"}),
    ("(add (s x) (c 1 1 1 1))", "(gt (s x) (i 0))", {"x": "pos"}),
    ("(add pi E)", "-", {}), ("(d 3fe0000000000000)", "-", {}),
    ("(pow (s x) (s y))", "(ge (s x) (i 0)) ;; (contains (s y) reals)", {"x": "nonneg", "y": "real"}),
    ("(pow (s x) (q 1 2))", "(ge (s x) (i 0))", {"x": "nonneg"}),
    ("(pow (s x) (q 1 2))", "(lt (s x) (i 0))", {"x": "neg"}),
    ("(add (mul (i 2) (s x)) (mul (i -1) (s y)) (i 3))", "(gt (s x) (i 0)) ;; (lt (s y) (i 0))", {"x": "pos", "y": "neg"}),
    ("(add (mul (i -2) (s x)) (s y) (i -3))", "(gt (s x) (i 0)) ;; (lt (s y) (i 0))", {"x": "pos", "y": "neg"}),
    ("(add (s x) (s y))", "(gt (s x) (i 0)) ;; (lt (s y) (i 0))", {"x": "pos", "y": "neg"}),
    ("(mul (i 2) (s x) (s y))", "(contains (s x) integers) ;; (contains (s y) integers)", {"x": "integer", "y": "integer"}),
    ("(add (mul (i 2) (s x)) (i 1))", "(contains (s x) integers)", {"x": "integer"}),
    ("(f1 log (s x))", "(contains (s x) complexes)", {"x": "complex"}),
    ("(f1 log (i 0))", "-", {}), ("(f1 atan I)", "-", {}), ("(f1 atanh (i 1))", "-", {}), ("(f1 acoth (i -1))", "-", {}),
    ("(f1 abs (s x))", "(eq (s x) (i 0))", {"x": "zero"}),
    ("(f1 sign (f1 conjugate (s x)))", "(ne (s x) (i 0))", {"x": "nonzero"}),
    ("(s x)", "(gt (s x) (i 0)) ;; (lt (s x) (i 0))", {"x": "pos"}),
    ("(s x)", "(eq (s x) (i 0)) ;; (contains (s x) integers)", {"x": "zero"}),
    ("(mul (s x) (s y))", "(contains (s x) reals) ;; (contains (s y) reals)", {"x": "real", "y": "real"}),
    ("(mul I (s x) (s y))", "(contains (s x) reals) ;; (contains (s y) reals)", {"x": "real", "y": "real"}),
    ("(mul I I (s x))", "(contains (s x) reals)", {"x": "real"}),
    ("(mul (pow I (s x)) (s y))", "(eq (s x) (i 0)) ;; (contains (s y) reals)", {"x": "zero", "y": "real"}),
    ("(add GoldenRatio (i 1))", "-", {}), ("(add pi (s x))", "(contains (s x) rationals)", {"x": "rational"}),
    ("(f1 sin (s x))", "(contains (s x) rationals)", {"x": "rational"}), ("(f1 sin (i 1))", "-", {}),
    ("(true)" if False else "true", "-", {}), ("reals", "-", {}), ("(lt (s x) (s y))", "-", {}),
    ("(mul (i 2) (s x))", "(contains (s x) integers)", {"x": "integer"}),
    ("(add (pow (s x) (i 2)) (mul (s y) (s x)) (i 1))", "-", {}), ("(pow (i 2) (s x))", "-", {}),
    ("(pow (add (s x) (i 1)) (s y))", "-", {}), ("(f1 sin (s y))", "-", {}),
]


def mk_case(rng, expr, afield, kinds, nval):
    k = {s: kinds.get(s, "none") for s in SYMS}
    return "Q\t%s\t%s\t%s" % (expr, afield, gen_valuations(rng, k, nval))


def gen_cases(rng, n, nval):
    cases = []
    for _ in range(n):
        afield, kinds = gen_assumptions(rng)
        r = rng.random()
        e = gen_targeted(rng) if r < 0.5 else gen_expr(rng, rng.randint(1, 3))
        cases.append(mk_case(rng, e, afield, kinds, nval))
    return cases


# ------------------------------------------------------------------ running
def shape_of(dump):
    d = dump.strip()
    if d.startswith("(F1 ") or d.startswith("(F2 ") or d.startswith("(FN ") or d.startswith("(Atom ") or d.startswith("(Lex "):
        return d.split()[1].rstrip(")")
    return d[1:].split()[0].rstrip(")")


def value_class(vdump):
    d = vdump.strip()
    if d.startswith("(Inf 0"):
        return "zoo"
    if d.startswith("(Inf"):
        return "inf"
    if d.startswith("(NaN"):
        return "nan"
    if d.startswith("(I 0)"):
        return "zero"
    if d.startswith("(I ") or d.startswith("(Q "):
        return "real"
    if d.startswith("(C "):
        return "nonreal"
    if d.startswith("(D "):
        return "double"
    return "numeric"


def classify(qname, claim, dump, vdump):
    """known-finding class of an unsound definite answer: query, claim, top node of the expression and the
    kind of value that contradicts the claim"""
    vc, sh = value_class(vdump), shape_of(dump)
    if qname == "real" and claim == "F" and sh in ("Add", "Mul", "Pow"):
        # the unsound "not real" answers of RealVisitor(Add) / (Mul) propagate through every composite
        sh = "composite"
    if vc in ("zoo", "nan", "inf") and sh not in ("NaN", "Inf") and claim == "T":
        # a definite "real" / "complex" answer for an expression that has a pole at the valuation
        return "C34/pole:%s=%s" % (qname, claim)
    return "C34/%s=%s:%s@%s" % (qname, claim, sh, vc)


def outside_domain(dump):
    """infinities / nan inside a composite expression: arithmetic on them is outside the semantic domain"""
    d = dump.strip()
    if d.startswith("(Inf") or d.startswith("(NaN"):
        return False
    if "(Inf" in d or "(NaN" in d or "(D 7ff" in d or "(D fff" in d:
        return True
    # booleans / sets used as operands of arithmetic
    inner = d[1:]
    return any(t in inner for t in ("(Bool ", "(Lex ", "(Atom ", "(Interval ", "(FN And", "(FN Or", "(FN Xor", "(FN FiniteSet",
                                    "(FN Union", "(F2 Equality", "(F2 Unequality", "(F2 LessThan", "(F2 StrictLessThan", "(F1 Not"))


def build(ctx):
    drv = ctx.build_driver("assume_driver")
    model = ctx.build_model("Assume", "Assume/Extract.v", "assume_main.ml", "semodel", extra_ml=["expr_io.ml"])
    return drv, model


def check_sources_compiled(ctx):
    """the Assume/*.v files are compiled outside the shared Makefile: a stale or missing .vo = broken proof"""
    for f in ASSUME_SRC:
        src = os.path.join(vlib.COQ, f)
        vo = src[:-2] + ".vo"
        if not os.path.exists(src):
            continue
        if not os.path.exists(vo) or os.path.getmtime(vo) < os.path.getmtime(src):
            rc, out = vlib.sh(["timeout", "1500", "coqc", "-Q", ".", "SE", "-w", "-notation-overridden", f], cwd=vlib.COQ, timeout=1530)
            if rc != 0:
                ctx.broken.append({"kind": "proof", "name": f, "detail": out[-2500:]})


def explore(ctx, drv, model, cases, stats, search=False):
    if drv is None or model is None or not cases:
        return []
    impl = ctx.run_lines(drv, cases)
    mod = ctx.run_lines(model, ["Q\t" + l for l in impl])
    suspects = []
    for case, il, ml in zip(cases, impl, mod):
        f = il.split("\t")
        if len(f) < 4 or il.startswith("SETUP") or "CRASH" in il or "HANG" in il or il.startswith("NOOUTPUT"):
            if ("CRASH" in il or "HANG" in il) and not il.startswith("SETUP"):
                ctx.violation("C34/crash", "query evaluation ended with %s on %s" % (il[-40:], case), {"family": "assume", "case": case})
            stats["skipped"] += 1
            continue
        res = f[3]
        ctx.cov["traces_validated_against_impl"] += 1
        stats["cases"] += 1
        if res == "AEXN" or ml == "AEXN":
            stats["aexn"] += 1
            if res != ml:
                ctx.broken.append({"kind": "correspondence", "name": "C34 Assumptions constructor",
                                   "detail": "case %s\nimpl %s model %s" % (case, res, ml)})
                suspects.append(case)
            continue
        if len(ml) != len(res) or ml.startswith("FAIL") or ml.startswith("UNSUPPORTED") or ml.startswith("BAD"):
            if ml.startswith("UNSUPPORTED"):
                stats["skipped"] += 1
                continue
            ctx.broken.append({"kind": "correspondence", "name": "C34 model output", "detail": "case %s\nimpl %s\nmodel %s" % (case, il[:300], ml)})
            continue
        ctx.cov["evaluations"] += len(res)
        bad = [i for i in range(len(res)) if ml[i] != "U" and ml[i] != res[i]]
        stats["declined"] += ml.count("U")
        definite = [i for i in range(17) if res[i] in "TF"]
        if definite and ("Sym" in f[0]):
            stats["nontrivial"].add((f[0], f[1]))
        for i in definite:
            stats["definite_by_query"][QNAMES[i]] = stats["definite_by_query"].get(QNAMES[i], 0) + 1
        if bad:
            suspects.append(case)
            if stats["mismatches"] < 4:
                ctx.broken.append({"kind": "correspondence", "name": "C34 query " + QNAMES[bad[0]],
                                   "detail": "case %s\ndump %s | %s\nimpl  %s\nmodel %s (differs for %s)" % (
                                       case, f[0], f[1], res, ml, ", ".join(QNAMES[i] for i in bad))})
            stats["mismatches"] += 1
        if len(f) > 4 and f[4].startswith("#ORACLE:") and not outside_domain(f[0]):
            import re as _re
            for m in _re.finditer(r"(\w+)=([TF])@(\d+):(\([^()]*\))", f[4]):
                qn, claim, vdump = m.group(1), m.group(2), m.group(4)
                if qn == "complex" and claim == "F" and shape_of(f[0]) not in ("I", "Q", "C", "D", "CD", "Inf", "NaN"):
                    # "not a finite complex number" for a composite comes from a singular function value
                    # (atanh(1), log(0) ...) that substitution leaves unevaluated: not judged
                    continue
                key = classify(qn, claim, f[0], vdump)
                ctx.violation(key, "is_%s(e) = %s under the assumptions, but the value at a satisfying valuation does not agree: %s ; case %s" % (
                    qn, claim, f[4], case.replace("\t", " | ")), {"family": "assume", "case": case, "dump": f[0]})
        if not search and len(ctx.cov["samples"]) < 8 and definite and "Sym" in f[0]:
            ctx.cov["samples"].append({"case": case.replace("\t", " | ")[:300], "dump": f[0][:200], "answers": res})
    return suspects


def new_stats():
    return {"cases": 0, "skipped": 0, "aexn": 0, "declined": 0, "mismatches": 0, "nontrivial": set(), "definite_by_query": {}}


def run(ctx):
    ctx.gate(["Assume", "C34"])
    check_sources_compiled(ctx)
    ctx.prove(PROOF_MODULES, [o for o in OBLIGATIONS if os.path.exists(os.path.join(vlib.COQ, o))])
    missing = [o for o in OBLIGATIONS if not os.path.exists(os.path.join(vlib.COQ, o))]
    for o in missing:
        ctx.broken.append({"kind": "proof", "name": o, "detail": "obligation file missing"})
    drv, model = build(ctx)
    stats = new_stats()
    n = 1500 if ctx.tier == "quick" else 40000
    nval = 6 if ctx.tier == "quick" else 10
    cases = [mk_case(ctx.rng, e, a, k, 8) for (e, a, k) in CORPUS] + gen_cases(ctx.rng, n, nval)
    suspects = explore(ctx, drv, model, cases, stats)
    if ctx.broken and not [v for v in ctx.violations if v["key"] not in vlib.load_known(ctx.pid)]:
        # the tie or a proof broke: look for a concrete wrong answer with many more valuations,
        # first on the cases where model and implementation disagree
        more = []
        for c in suspects[:200]:
            f = c.split("\t")
            for _ in range(3):
                more.append("\t".join(f[:3] + [gen_valuations(ctx.rng, guess_kinds(f[2]), 12)]))
        more += gen_cases(ctx.rng, 3000, 12)
        explore(ctx, drv, model, more, new_stats(), search=True)
    ctx.cov["distinct_nontrivial"] = len(stats["nontrivial"])
    ctx.cov["cases"] = stats["cases"]
    ctx.cov["cases_skipped"] = stats["skipped"]
    ctx.cov["assumption_sets_rejected_by_constructor"] = stats["aexn"]
    ctx.cov["answers_declined_by_model"] = stats["declined"]
    ctx.cov["definite_answers_by_query"] = stats["definite_by_query"]
    ctx.cov["rule"] = ("cases = (expression recipe, statement set, sampled valuations); 19 answers per case (is_zero ... is_odd, is_polynomial "
                       "with no / one variable) compared character by character between the library and the extracted model "
                       "(evaluations = answers compared); the model declines ('U') only where the C++ builds an expression with a constructor "
                       "that is not modelled (sub(arg,1) collapsing, cos(arg), PrimePi); non-trivial = distinct (expression, statements) pairs "
                       "containing a symbol for which at least one query gives a definite answer")
    ctx.assumptions += [
        "values of symbols range over Gaussian rationals Q(i) in the theorems and in the oracle (real symbols: rationals); irrational reals are not sampled",
        "the denotation covers numbers, symbols, Add, Mul, Pow with integer or half-integer exponents, abs, sign, conjugate, floor, ceiling, max, min; "
        "constants (pi, E ...) and the elementary functions are outside it: for them only the correspondence and the numeric oracle apply",
        "is_algebraic / is_transcendental / is_polynomial: correspondence only (no semantic theorem)",
        "could_extract_minus, mp_perfect_power_decomposition and the expression constructors (neg, abs, pow, mul, max, min ...) are library code outside the anchored files: their results are inputs of the model",
    ]


def guess_kinds(afield):
    """kinds of the symbols, recovered from the statement recipes of a case (for re-sampling valuations)"""
    kinds = {}
    for s in SYMS:
        sym = "(s %s)" % s
        best = "none"
        for k, (tmpl, _) in KINDS.items():
            if tmpl and all((t % sym) in afield for t in tmpl) and len(tmpl) >= len(KINDS[best][0]):
                best = k
        kinds[s] = best
    return kinds


def replay(ctx, rep):
    drv, model = build(ctx)
    case = rep["replay"]["case"]
    impl = ctx.run_lines(drv, [case])
    mod = ctx.run_lines(model, ["Q\t" + impl[0]])
    print("case :", case.replace("\t", " | "))
    f = impl[0].split("\t")
    print("dump :", f[0] if f else impl[0])
    print("stmts:", f[1] if len(f) > 1 else "")
    print("order:", " ".join(QNAMES))
    print("impl :", f[3] if len(f) > 3 else impl[0])
    print("model:", mod[0])
    if len(f) > 4:
        print("oracle:", f[4])
