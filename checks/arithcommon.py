"""Shared by C03, C04, C07: recipe generators for the arithmetic constructors (add.cpp, mul.cpp,
pow.cpp, rational.cpp), the trace / permutation / value protocols of harness/arith_driver.cpp, the
comparison with the extracted model (coq/Expr/Arith.v, Canon.v through ocaml/arith_main.ml) and an
independent evaluator of recipes (exact in Q(i), numeric with principal branches)."""
import cmath
import itertools
import math
from fractions import Fraction

ARITH_OPS = ("add", "sub", "mul", "div", "pow", "neg", "sqrt", "cbrt", "addv", "mulv")

# ----------------------------------------------------------------------------- S-expressions


def parse_sexp(s):
    """dump text -> nested lists of strings"""
    out = []
    stack = [out]
    tok = []

    def flush():
        if tok:
            stack[-1].append("".join(tok))
            tok.clear()
    for ch in s:
        if ch == "(":
            flush()
            new = []
            stack[-1].append(new)
            stack.append(new)
        elif ch == ")":
            flush()
            stack.pop()
            if not stack:
                raise ValueError("unbalanced")
        elif ch in " \t":
            flush()
        else:
            tok.append(ch)
    flush()
    if len(stack) != 1 or len(out) != 1:
        raise ValueError("bad sexp: " + s[:80])
    return out[0]


def show_sexp(x):
    if isinstance(x, str):
        return x
    return "(" + " ".join(show_sexp(k) for k in x) + ")"


def canon_sexp(x):
    """Add dictionaries sorted by the text of their entries (hash-bucket order is not modelled)"""
    if isinstance(x, str):
        return x
    kids = [canon_sexp(k) for k in x]
    if kids and kids[0] == "Add":
        kids = kids[:2] + sorted(kids[2:], key=show_sexp)
    return kids


def canon_dump(s):
    try:
        return show_sexp(canon_sexp(parse_sexp(s)))
    except (ValueError, IndexError):
        return s


# ----------------------------------------------------------------------------- generators

SYMS = ["x", "y", "z"]
INTS = ["(i 0)", "(i 1)", "(i -1)", "(i 2)", "(i -2)", "(i 3)", "(i 4)", "(i -4)", "(i 8)", "(i -8)", "(i 9)", "(i 12)",
        "(i 27)", "(i -27)", "(i 6)", "(i 18)", "(i 72)", "(i 10007)", "(i 18446744073709551616)"]
RATS = ["(q 1 2)", "(q -1 2)", "(q 1 3)", "(q -1 3)", "(q 2 3)", "(q 3 2)", "(q -3 2)", "(q 4 9)", "(q 8 27)", "(q -8 27)",
        "(q 9 4)", "(q 5 2)", "(q 1 4)", "(q 3 4)", "(q 12 5)", "(q 2 9)", "(q 7 3)", "(q -7 3)", "(q 1 6)", "(q 5 6)"]
CPLX = ["I", "(c 1 1 1 1)", "(c 0 1 -1 1)", "(c 1 2 3 4)", "(c 0 1 2 1)", "(c 0 1 1 2)", "(c 3 1 -4 1)"]
CONSTS = ["pi", "E"]
FLOATS = ["(d 4000000000000000)", "(d 3fe0000000000000)", "(d 3ff0000000000000)", "(d 0000000000000000)",
          "(d 8000000000000000)", "(d bff0000000000000)", "(d 400921fb54442d18)", "(d c000000000000000)",
          "(cd 3ff0000000000000 4000000000000000)", "(cd 0000000000000000 3ff0000000000000)"]
SPECIALS = ["oo", "-oo", "zoo", "nan"]
EXPONENTS = ["(i 2)", "(i 3)", "(i -1)", "(i -2)", "(i 0)", "(i 1)", "(q 1 2)", "(q -1 2)", "(q 1 3)", "(q 2 3)", "(q 3 2)",
             "(q -3 2)", "(q 5 2)", "(q 1 4)", "(q 1 6)"]
FUNCS = ["sin", "cos", "log", "abs", "gamma", "exp"]


def atom(rng, frag):
    r = rng.random()
    if r < 0.34:
        return rng.choice(SYMS)
    if r < 0.56:
        return rng.choice(INTS[:14])
    if r < 0.70:
        return rng.choice(RATS)
    if r < 0.76:
        return rng.choice(CPLX)
    if r < 0.80:
        return rng.choice(CONSTS)
    if r < 0.83:
        return rng.choice(INTS)
    if frag == "float" and r < 0.95:
        return rng.choice(FLOATS)
    if frag == "float" and r < 0.97:
        return rng.choice(SPECIALS)
    return rng.choice(SYMS)


def exact_operand(rng, frag="exact"):
    """the operand classes of the C04 statement: integers, rationals, Gaussian rationals, symbols, constants,
    integer and rational powers, function applications -- and small sums / products of them"""
    r = rng.random()
    if r < 0.22:
        return rng.choice(SYMS)
    if r < 0.34:
        return rng.choice(INTS[:14])
    if r < 0.44:
        return rng.choice(RATS)
    if r < 0.49:
        return rng.choice(CPLX)
    if r < 0.53:
        return rng.choice(CONSTS)
    if r < 0.66:
        return "(pow %s %s)" % (rng.choice(SYMS + ["(i 2)", "(i 3)", "(i 6)", "(i 12)", "(q 2 3)", "pi"]), rng.choice(EXPONENTS))
    if r < 0.72:
        return "(pow %s %s)" % (rng.choice(SYMS + ["(i 2)"]), rng.choice(SYMS))
    if r < 0.78:
        return "(f1 %s %s)" % (rng.choice(FUNCS), rng.choice(SYMS))
    if r < 0.81:
        return "(fs f %s %s)" % (rng.choice(SYMS), rng.choice(SYMS))
    if r < 0.86:
        return "(sqrt (pow %s (i 2)))" % rng.choice(SYMS)
    if r < 0.90:
        return "(mul %s %s)" % (rng.choice(INTS[1:8] + RATS[:6]), rng.choice(SYMS))
    if r < 0.94:
        return "(add %s %s)" % (rng.choice(SYMS), rng.choice(SYMS + INTS[1:5]))
    if r < 0.97:
        return "(mul %s %s)" % (rng.choice(SYMS), rng.choice(SYMS))
    if frag == "float":
        return rng.choice(FLOATS)
    return "(pow %s (q 1 2))" % rng.choice(["(i 2)", "(i 3)", "(i -2)", "(i 8)"])


MS_BASES = ["x", "y", "(i 2)", "(i 3)", "(i 6)", "(i 12)", "(i -2)", "(q 2 3)", "(q 4 9)", "(mul x y)", "(mul (i 2) x)", "(mul (i -1) x)",
            "(mul (i -2) x)", "(add x y)", "(add x (i 1))", "(pow x (i 2))", "(pow x y)", "(f1 sin x)", "pi", "E", "I", "(c 1 1 1 1)",
            "(mul (q 4 9) x)", "(pow (i 2) (q 1 2))"]


def gen_multiset(rng, op, n, frag="exact"):
    """operand multisets for the order / grouping enumeration: mostly operands that interact (same base with
    exponents that merge or cancel, same term with coefficients that merge or cancel)"""
    if rng.random() < 0.25:
        return [exact_operand(rng, frag) for _ in range(n)]
    b = rng.choice(MS_BASES)
    b2 = rng.choice(MS_BASES + SYMS)
    nums = INTS[:12] + RATS[:10] + CPLX[:3] + (FLOATS[:4] if frag == "float" else [])
    if op == "mul":
        exps = EXPONENTS + ["z", "(neg z)", "(sub (i 1) z)", "(sub (q 1 2) z)", "(add z (i 1))", "(mul (i 2) z)", "(q 1 2)", "(q 1 2)", "(q -1 2)"]
        pool = ["(pow %s %s)" % (b, e) for e in exps] * 2 + [b, b, "(sqrt (pow %s (i 2)))" % b, "(mul %s %s)" % (rng.choice(nums), b),
                                                                "(pow %s %s)" % (b2, rng.choice(exps)), b2, "(div (i 1) %s)" % b]
        pool += [rng.choice(nums) for _ in range(4)]
    else:
        pool = [b, b, "(neg %s)" % b, "(mul (i 2) %s)" % b, "(mul (i -2) %s)" % b, "(mul (q 1 2) %s)" % b, "(mul (q -1 2) %s)" % b,
                "(add %s z)" % b, "(neg (add %s z))" % b, "(mul (i 2) (add %s z))" % b, "(sub z %s)" % b, "z", "(neg z)", b2, "(neg %s)" % b2,
                "(mul %s %s)" % (rng.choice(nums), b2), "(mul %s z)" % b, "(mul (i 3) (mul %s z))" % b]
        pool += [rng.choice(nums) for _ in range(4)]
    return [rng.choice(pool) for _ in range(n)]


def gen_tree(rng, depth, frag="exact"):
    """arithmetic recipe aimed at the case splits of add / mul / pow"""
    if depth <= 0 or rng.random() < 0.18:
        return atom(rng, frag) if rng.random() < 0.7 else exact_operand(rng, frag)
    r = rng.random()
    a = gen_tree(rng, depth - 1, frag)
    if r < 0.24:
        return "(add %s %s)" % (a, gen_tree(rng, depth - 1, frag))
    if r < 0.48:
        return "(mul %s %s)" % (a, gen_tree(rng, depth - 1, frag))
    if r < 0.66:
        e = rng.choice(EXPONENTS) if rng.random() < 0.8 else gen_tree(rng, depth - 1, frag)
        return "(pow %s %s)" % (a, e)
    if r < 0.74:
        return "(sub %s %s)" % (a, gen_tree(rng, depth - 1, frag))
    if r < 0.82:
        return "(div %s %s)" % (a, gen_tree(rng, depth - 1, frag))
    if r < 0.86:
        return "(neg %s)" % a
    if r < 0.91:
        return "(sqrt %s)" % a
    if r < 0.93:
        return "(cbrt %s)" % a
    if r < 0.965:
        return "(addv %s)" % " ".join([a] + [gen_tree(rng, depth - 1, frag) for _ in range(rng.randint(0, 3))])
    return "(mulv %s)" % " ".join([a] + [gen_tree(rng, depth - 1, frag) for _ in range(rng.randint(0, 3))])


def gen_cancel(rng, frag="exact"):
    """shapes in which exponents / coefficients cancel or merge (boundaries of dict_add_term(_new))"""
    x = rng.choice(SYMS)
    y = rng.choice(SYMS)
    b = rng.choice(["(i 2)", "(i 3)", "(i 6)", "(i 12)", "(q 2 3)", "(q 4 9)", "(i -2)", x, "(add %s (i 1))" % x, "(mul (i 2) %s)" % x,
                    "(mul %s %s)" % (x, y), "(mul (i -1) %s)" % x, "(pow %s (i 2))" % x, "pi", "E", "I", "(c 1 1 1 1)"]
                   + (FLOATS[:3] if frag == "float" else []))
    e1 = rng.choice(EXPONENTS + [y, "(add %s (i 1))" % y, "(neg %s)" % y, "(mul (i 2) %s)" % y, "(q 1 2)", "(q 1 2)"])
    e2 = rng.choice(EXPONENTS + ["(neg %s)" % y, "(sub (i 1) %s)" % y, "(sub (i 3) %s)" % y, "(sub (q 1 2) %s)" % y, "(q 1 2)", "(q -1 2)"])
    k = rng.random()
    if k < 0.45:
        return "(mul (pow %s %s) (pow %s %s))" % (b, e1, b, e2)
    if k < 0.6:
        return "(mul (mul (pow %s %s) %s) (pow %s %s))" % (b, e1, rng.choice(SYMS + INTS[:6]), b, e2)
    if k < 0.75:
        c1 = rng.choice(INTS[:8] + RATS[:6])
        c2 = rng.choice(INTS[:8] + RATS[:6])
        return "(add (mul %s %s) (mul %s %s))" % (c1, b, c2, b)
    if k < 0.87:
        return "(pow (pow %s %s) %s)" % (b, e1, e2)
    return "(pow (mul %s (pow %s %s)) %s)" % (rng.choice(INTS[:10] + RATS[:8]), b, e1, rng.choice(EXPONENTS))


def gen_with_funcs(rng, depth):
    """broader API programs for C03: functions, expand, diff, subs around arithmetic"""
    r = rng.random()
    a = gen_tree(rng, depth, "exact")
    if r < 0.25:
        return "(expand %s)" % a
    if r < 0.4:
        return "(diff %s %s)" % (a, rng.choice(SYMS))
    if r < 0.55:
        return "(subs %s %s %s)" % (a, rng.choice(SYMS), gen_tree(rng, 1, "exact"))
    if r < 0.8:
        return "(f1 %s %s)" % (rng.choice(["sin", "cos", "tan", "log", "abs", "sign", "floor", "ceiling", "exp", "gamma", "asin",
                                           "sinh", "conjugate", "erf", "atan"]), a)
    if r < 0.9:
        return "(add (f1 %s %s) %s)" % (rng.choice(FUNCS), a, gen_tree(rng, 1, "exact"))
    return "(expand (pow %s %s))" % (a, rng.choice(["(i 2)", "(i 3)", "(i -2)"]))


CORPUS_T = [
    "(add x x)", "(add x (i 0))", "(add (i 0) (i 0))", "(sub x x)", "(add (mul (i 2) x) (mul (i -2) x))",
    "(add (add x y) (add (i 1) (neg y)))", "(add (mul (i 2) (add x y)) (sub z (add x y)))", "(addv x y x (i 3) (q 1 2))", "(addv)",
    "(addv (add x y) (mul (i 2) (add x y)))", "(add (mul (q 1 2) x) (mul (q 1 2) x))", "(add I (c 0 1 -1 1))",
    "(mul x x)", "(mul x (pow x (i -1)))", "(mul (i 0) x)", "(mul (i 1) x)", "(mul (i 2) (i 3))", "(mul (mul (i 2) x) (mul (q 1 2) y))",
    "(mul (mul (i 2) x) (pow x (i -1)))", "(mulv)", "(mulv x)", "(mulv x y x (i 3) (q 1 2))", "(mulv (mul (i 2) x) (mul (i 3) (pow x (i -1))))",
    "(mul (q 2 3) x)", "(mul (q 2 3) (q 3 2))", "(mul (pow (i 2) (q 1 2)) (pow (i 2) (q 1 2)))", "(mul (pow (i 2) (q 1 2)) (pow (i 2) (q 1 3)))",
    "(mul (pow (i 2) (q 1 2)) (pow (i 2) x))", "(mul (mul (sqrt (i 2)) (sqrt (i 2))) (pow (i 2) x))", "(mul (sqrt (i 2)) (mul (sqrt (i 2)) (pow (i 2) x)))",
    "(mul (pow (i 2) x) (pow (i 2) (neg x)))", "(mul (pow (i 2) x) (pow (i 2) (sub (i 3) x)))", "(mul (pow (q 2 3) x) (pow (q 2 3) (sub (q 1 2) x)))",
    "(mul (sqrt (pow x (i 2))) (sqrt (pow x (i 2))))", "(mul (sqrt (pow x (i 2))) (mul x (sqrt (pow x (i 2)))))",
    "(mul (pow (mul x y) (q 1 2)) (pow (mul x y) (q 1 2)))", "(mul (pow (mul (i 2) x) (q 1 2)) (pow (mul (i 2) x) (q 3 2)))",
    "(mul (pow (mul (i -1) x) (q 1 2)) (pow (mul (i -1) x) (q 1 2)))", "(mul (pow E x) (pow E (i 2)))", "(mul (pow I x) (pow I (i 2)))",
    "(mul (pow (c 1 1 1 1) x) (pow (c 1 1 1 1) (sub (i 2) x)))", "(mul (pow (c 1 1 1 1) (q 1 2)) (pow (c 1 1 1 1) (q 1 2)))",
    "(pow x (i 0))", "(pow x (i 1))", "(pow (i 0) (i 0))", "(pow (i 0) (i 2))", "(pow (i 0) (i -2))", "(pow (i 0) x)", "(pow (i 0) I)", "(pow (i 1) x)",
    "(pow (i 1) (q 1 2))", "(pow (i -1) (i 3))", "(pow (i -1) (i 4))", "(pow (i -1) (q 1 2))", "(pow (i -1) (q 1 3))", "(pow (i -1) (q 3 2))", "(pow (i -1) x)",
    "(pow (i 2) (i 10))", "(pow (i 2) (i -10))", "(pow (q 2 3) (i -3))", "(pow I (i 3))", "(pow (c 1 1 1 1) (i 2))", "(pow (c 1 1 1 1) (i -2))",
    "(pow (i 8) (q 1 3))", "(pow (i 8) (q 2 3))", "(pow (i 8) (q -2 3))", "(pow (i 8) (q 1 2))", "(pow (i 12) (q 1 2))", "(pow (i 12) (q 3 2))",
    "(pow (i 12) (q -3 2))", "(pow (i -8) (q 1 3))", "(pow (i -8) (q 2 3))", "(pow (i -4) (q 1 2))", "(pow (i -4) (q 3 2))", "(pow (i -2) (q 1 2))",
    "(pow (i -2) (q 5 2))", "(pow (i -2) (q -1 2))", "(pow (i -27) (q 1 3))", "(pow (i -27) (q -1 3))", "(pow (i -5) (q 1 3))", "(pow (i -5) (q 7 3))",
    "(pow (q 4 9) (q 1 2))", "(pow (q 4 9) (q -1 2))", "(pow (q 8 27) (q 2 3))", "(pow (q 2 3) (q 1 2))", "(pow (q 2 3) (q 3 2))", "(pow (q 2 3) (q -3 2))",
    "(pow (q -2 3) (q 1 2))", "(pow (q -8 27) (q 1 3))", "(pow (q -4 9) (q 1 2))", "(pow (q 1 2) (q 1 2))", "(pow (q 1 4) (q 1 2))", "(pow (q 9 4) (q 3 2))",
    "(pow I (q 1 2))", "(pow (c 1 1 1 1) (q 1 2))", "(pow (i 2) I)", "(pow (q 1 2) (c 1 1 1 1))", "(pow I I)",
    "(pow (pow x (i 2)) (i 3))", "(pow (pow x (q 1 2)) (i 2))", "(pow (pow x (i 2)) (q 1 2))", "(pow (pow x y) (i 2))", "(pow (pow x y) (i -1))",
    "(pow (pow x (i -1)) y)", "(pow (pow x (i -1)) (q 1 2))", "(pow (pow x (i -1)) (i -1))", "(pow (pow x y) z)", "(pow (pow (i 2) x) (i 2))",
    "(pow (mul x y) (i 2))", "(pow (mul (i 2) x) (i 3))", "(pow (mul (i 2) x) (i -1))", "(pow (mul (i 2) x) (q 1 2))", "(pow (mul (i -2) x) (q 1 2))",
    "(pow (mul (i -1) x) (q 1 2))", "(pow (mul (i 4) x) (q 1 2))", "(pow (mul (q 4 9) x) (q 1 2))", "(pow (mul (q -4 9) x) (q 3 2))", "(pow (mul x y) (q 1 2))",
    "(pow (mul x (pow y (i 2))) (q 1 2))", "(pow (mul (mul (i 2) x) (pow y (q 1 2))) (i 2))", "(pow (mul x (pow y z)) (i 2))", "(pow (mul I x) (i 2))",
    "(pow (mul I x) (q 1 2))", "(pow (mul (c 1 1 1 1) x) (i 2))", "(pow (mul (i 2) (mul x y)) (i 0))", "(pow (mul x (pow (mul (i 2) y) (q 1 2))) (i 2))",
    "(pow (mul (i 3) (pow (mul x y) (q 1 2))) (i 2))", "(pow (mul (pow (i 2) (q 1 2)) x) (i 2))", "(pow (mul (pow (i 2) (q 1 2)) x) (i 3))",
    "(pow (add x y) (i 2))", "(pow (add x y) (i 1))", "(pow (mul (i 2) (add x y)) (i 2))", "(pow E (i 2))", "(pow E x)", "(pow pi (q 1 2))", "(pow E (q 1 2))",
    "(div x x)", "(div x y)", "(div (i 1) (i 0))", "(div (i 0) (i 0))", "(div x (i 0))", "(div (i 0) x)", "(div (i 1) (q 2 3))", "(div (q 1 2) (c 1 1 2 1))",
    "(div (i 1) (sqrt (i 2)))", "(div x (sqrt x))", "(div (sqrt x) x)", "(div (i 6) (sqrt (i 3)))", "(div (i 1) (mul (i 2) x))", "(neg x)", "(neg (neg x))",
    "(neg (i 0))", "(neg (add x y))", "(neg (mul (i 2) x))", "(sub (i 0) x)", "(sub x (mul (i 2) x))", "(sub (add x y) y)", "(sub (add x (i 1)) (add x (i 1)))",
    "(sqrt (i 4))", "(sqrt (i 8))", "(sqrt (i -4))", "(sqrt (q 1 4))", "(sqrt (q 1 2))", "(sqrt x)", "(sqrt (pow x (i 2)))", "(sqrt (pow x (i 4)))",
    "(sqrt (mul (i 4) x))", "(sqrt (mul (i -4) x))", "(cbrt (i 8))", "(cbrt (i -8))", "(cbrt (i 16))", "(cbrt (q 8 27))", "(cbrt (pow x (i 3)))", "(cbrt x)",
    "(mul (pow (i 0) x) (pow (i 0) (sub (i -1) x)))", "(mul (pow (i 0) x) (pow (i 0) (neg x)))", "(mul (pow (i 0) x) (pow (i 0) (sub (i 2) x)))",
    "(mul (i 18446744073709551616) (pow (i 18446744073709551616) (q 1 2)))", "(pow (i 18446744073709551616) (q 1 2))", "(pow (i 18446744073709551616) (q 1 64))",
    "(pow (i 2) (q 1 18446744073709551616))", "(pow (i 2) (q 18446744073709551617 18446744073709551616))", "(pow (i 3) (i 18446744073709551616))",
    "(pow (i 2) (i -18446744073709551616))", "(mul (f1 sin x) (f1 sin x))", "(mul (f1 sin x) (pow (f1 sin x) (i -1)))", "(add (f1 sin x) (f1 sin x))",
    "(mul (pow x (q 1 2)) (pow x (q 1 2)))", "(mul (pow x (q 1 3)) (pow x (q 2 3)))", "(mul (pow x y) (pow x (neg y)))", "(mul (pow x y) (pow x (sub (i 1) y)))",
    "(mul (pow x y) (pow x (sub (i 2) y)))", "(mul (mul x y) (mul (pow x (i -1)) (pow y (i -1))))", "(mul (mul (i 2) (mul x y)) (mul (q 1 2) (pow y (i -1))))",
    "(mul (pow (mul x y) (q 1 2)) (pow (mul x y) (q 3 2)))", "(mul (pow (mul (i 2) x) x) (pow (mul (i 2) x) (sub (i 2) x)))",
    "(mul (pow (mul x y) z) (pow (mul x y) (sub (i 2) z)))", "(mul (pow (mul (i -1) x) y) (pow (mul (i -1) x) (sub (i 2) y)))",
    "(mul (pow (mul (i -2) x) y) (pow (mul (i -2) x) (sub (q 1 2) y)))",
]
CORPUS_FLOAT = [
    "(add x (d 0000000000000000))", "(add (d 0000000000000000) x)", "(add (i 1) (d 0000000000000000))", "(add (d 0000000000000000) (i 1))",
    "(add (i 1) (d bff0000000000000))", "(mul (i 0) (d 4000000000000000))", "(mul (d 4000000000000000) x)", "(mul (d 3ff0000000000000) x)",
    "(mul (mul (d 4000000000000000) x) (d 3fe0000000000000))", "(add (mul (d 4000000000000000) x) (mul (i -2) x))",
    "(pow x (d 4000000000000000))", "(pow x (d 0000000000000000))", "(pow x (d 3ff0000000000000))", "(pow (d 4000000000000000) x)",
    "(pow (d 4000000000000000) (i 2))", "(pow (i 2) (d 4000000000000000))", "(mul (pow (d 4000000000000000) x) (pow (d 4000000000000000) (sub (i 3) x)))",
    "(mul (pow (d 4000000000000000) x) (pow (d 4000000000000000) (neg x)))", "(mul (pow (i 2) (d 3fe0000000000000)) x)",
    "(mul (pow x (d 3fe0000000000000)) (pow x (d 3fe0000000000000)))", "(mul (pow x (d 3fe0000000000000)) (pow x (q 1 2)))",
    "(mul (pow E x) (pow E (sub (d 4000000000000000) x)))", "(pow E (d 4000000000000000))", "(pow (mul (i 2) x) (d 4000000000000000))",
    "(pow (mul (d 4000000000000000) x) (i 2))", "(pow (mul (d 4000000000000000) x) (q 1 2))", "(pow (mul (d c000000000000000) x) (q 1 2))",
    "(add oo x)", "(add x oo)", "(add oo -oo)", "(mul oo x)", "(mul (i 0) oo)", "(mul zoo x)", "(pow x oo)", "(pow oo x)", "(pow (i 2) oo)", "(pow nan (i 0))",
    "(pow (i 0) nan)", "(pow oo nan)", "(pow -oo nan)", "(add nan x)", "(mul nan x)", "(pow x nan)", "(div x oo)", "(div oo oo)", "(mul (pow oo x) (pow oo (neg x)))",
    "(mul (pow (i 2) x) (pow (i 2) (sub (d 4000000000000000) x)))", "(mul (pow x y) (pow x (sub (d 4000000000000000) y)))",
    "(mul (pow (mul (i 2) x) y) (pow (mul (i 2) x) (sub (d 4000000000000000) y)))",
]

# ----------------------------------------------------------------------------- trace protocol


class Call:
    __slots__ = ("op", "args", "res", "hash", "libcanon", "recipe", "key")


def parse_trace_line(recipe, line):
    """-> list of Call (the library's calls of one recipe), and the way the line ended"""
    calls = []
    recs = line.split("\t")
    tail = recs[-1] if recs else ""
    for rec in recs:
        if not rec.strip() or " ;; => ;; " not in rec and not rec.endswith(" ;; => ;;"):
            continue
        head, _, out = rec.partition(" ;; => ;; ")
        hs = head.split(" ;; ")
        c = Call()
        c.op = hs[0]
        c.args = hs[1:]
        c.recipe = recipe
        outs = out.split(" ;; ")
        c.res = outs[0].strip() if outs and outs[0].strip() else None
        c.hash = outs[1].strip() if len(outs) > 1 else None
        c.libcanon = outs[2].strip() if len(outs) > 2 else None
        if c.res is None:
            c.res = tail.strip() or "NOOUTPUT"    # CRASH:n / HANG for the call that was running
        c.key = c.op + " ;; " + " ;; ".join(c.args)
        calls.append(c)
    return calls


def run_traces(ctx, drv, recipes, timeout=1800):
    lines = ctx.run_lines(drv, ["T " + r for r in recipes], timeout=timeout, shards=16)
    out = []
    for r, l in zip(recipes, lines):
        out.append((r, l, parse_trace_line(r, l)))
    return out


def has_opaque(c):
    return any("Opaque" in a for a in c.args) or (c.res is not None and "Opaque" in c.res)


BIG = 2500


def too_big(c):
    """results with thousands of digits (or calls that did not finish) are not replayed on the extracted model,
    whose integers are binary lists: counted as skipped"""
    return len(c.key) > BIG or (c.res is not None and len(c.res) > BIG) or (c.res or "").startswith("HANG")


def is_error(res):
    return res is None or res.startswith(("EXN", "CRASH", "HANG", "UNCAUGHT", "NOOUTPUT"))


def model_calls(ctx, model, calls):
    """run the distinct modelled calls through the extracted model -> {key: model output}"""
    keys = []
    seen = set()
    for c in calls:
        if c.op in ARITH_OPS and c.key not in seen and not has_opaque(c) and not too_big(c):
            seen.add(c.key)
            keys.append(c.key)
    outs = ctx.run_lines(model, keys, timeout=1800, shards=16)
    return dict(zip(keys, outs))


def model_canon(ctx, model, dumps):
    """the extracted deep `canonical` predicate on implementation dumps -> {dump: (bool, witness)}"""
    ds = sorted(set(d for d in dumps if d and "Opaque" not in d))
    outs = ctx.run_lines(model, ["canon ;; " + d for d in ds], timeout=1800, shards=16)
    res = {}
    for d, o in zip(ds, outs):
        if o.startswith("1"):
            res[d] = (True, "")
        elif o.startswith("0"):
            f = [x.strip() for x in o.split(" ;; ")]
            res[d] = (False, (RULES.get(f[1], "rule-" + f[1]) if len(f) > 1 else "?", f[2] if len(f) > 2 else ""))
        else:
            res[d] = (None, o)
    return res


RULES = {
    "1": "Add-empty-dict", "2": "Add-single-term-zero-coef", "3": "Add-number-key", "4": "Add-zero-coefficient-term",
    "5": "Add-Mul-key-with-coefficient", "10": "Mul-zero-coef", "11": "Mul-empty-dict", "12": "Mul-single-term-coef-one",
    "13": "Mul-number-key-integer-exponent", "14": "Mul-zero-key", "15": "Mul-one-key", "16": "Mul-zero-exponent",
    "17": "Mul-Mul-key-integer-exponent", "18": "Mul-Mul-key-with-coefficient-number-exponent", "19": "Mul-Pow-key-integer-exponent",
    "20": "Mul-inexact-number-power-entry", "30": "Pow-zero-base-number-exponent", "31": "Pow-base-one", "32": "Pow-zero-exponent",
    "33": "Pow-exponent-one", "34": "Pow-number-base-integer-exponent", "35": "Pow-Mul-base-integer-exponent",
    "36": "Pow-Pow-base-integer-exponent", "37": "Pow-number-base-rational-exponent-outside-0-1",
    "38": "Pow-imaginary-base-integer-exponent", "39": "Pow-inexact-number-power", "40": "Rational-not-normalised",
    "41": "Complex-not-normalised", "42": "double-out-of-range", "43": "Infty-direction", "44": "Add-Mul-coefficient-not-normalised",
}

SKIP_MODEL = ("LIBM", "UNMODELLED", "UNSUPPORTED")


def compare_call(c, mout):
    """-> 'ok' | 'skip' | description of the disagreement"""
    if mout is None:
        return "skip"
    if mout.startswith(SKIP_MODEL):
        return "skip"
    if mout.startswith(("FAIL", "INTERNAL", "OOB", "FUEL", "NOOUTPUT")):
        return "model answered %s" % mout[:80]
    if is_error(c.res):
        if mout == c.res:
            return "ok"
        if mout.startswith("CRASH") and c.res.startswith("CRASH"):
            return "ok"          # undefined behaviour: the signal is not modelled
        return "model %s, implementation %s" % (mout[:120], c.res)
    if mout.startswith(("EXN", "CRASH")):
        return "model %s, implementation %s" % (mout, c.res[:120])
    md, _, mh = mout.partition(" ;; ")
    if canon_dump(md) != canon_dump(c.res):
        return "result differs: model %s, implementation %s" % (md[:300], c.res[:300])
    if mh.strip() != (c.hash or "").strip():
        return "hash differs: model %s, implementation %s for %s" % (mh, c.hash, c.res[:200])
    return "ok"


def call_text(c):
    return "%s(%s)" % (c.op, ", ".join(c.args))


# ----------------------------------------------------------------------------- independent evaluation of recipes


class Undefined(Exception):
    pass


class NotExact(Exception):
    pass


def tokenize(s):
    return parse_sexp(s) if s.startswith("(") else s


class QI:
    """Gaussian rationals"""
    __slots__ = ("re", "im")

    def __init__(self, re, im=0):
        self.re = Fraction(re)
        self.im = Fraction(im)

    def __add__(self, o):
        return QI(self.re + o.re, self.im + o.im)

    def __sub__(self, o):
        return QI(self.re - o.re, self.im - o.im)

    def __mul__(self, o):
        return QI(self.re * o.re - self.im * o.im, self.re * o.im + self.im * o.re)

    def inv(self):
        n = self.re * self.re + self.im * self.im
        if n == 0:
            raise Undefined()
        return QI(self.re / n, -self.im / n)

    def powi(self, k):
        if k < 0:
            return self.inv().powi(-k)
        r = QI(1)
        b = self
        while k:
            if k & 1:
                r = r * b
            b = b * b
            k >>= 1
        return r

    def is_zero(self):
        return self.re == 0 and self.im == 0

    def __eq__(self, o):
        return self.re == o.re and self.im == o.im

    def dump(self):
        def q(fr):
            return "%d %d" % (fr.numerator, fr.denominator)
        if self.im == 0:
            if self.re.denominator == 1:
                return "(I %d)" % self.re.numerator
            return "(Q %s)" % q(self.re)
        return "(C %s %s)" % (q(self.re), q(self.im))


def eval_exact(t, env):
    """value in Q(i) of a recipe over add sub mul div neg pow(integer exponent) addv mulv; raises NotExact /
    Undefined (division by zero, 0^negative, 0^0 is 1 as in the library)"""
    if isinstance(t, str):
        if t in env:
            return env[t]
        if t == "I":
            return QI(0, 1)
        try:
            return QI(int(t))
        except ValueError:
            raise NotExact(t)
    op = t[0]
    if op == "i":
        return QI(int(t[1]))
    if op == "q":
        if int(t[2]) == 0:
            raise Undefined()
        return QI(Fraction(int(t[1]), int(t[2])))
    if op == "c":
        return QI(Fraction(int(t[1]), int(t[2])), Fraction(int(t[3]), int(t[4])))
    if op == "s":
        return env[t[1]]
    a = [eval_exact(k, env) for k in t[1:]] if op != "pow" else None
    if op == "add":
        return a[0] + a[1]
    if op == "sub":
        return a[0] - a[1]
    if op == "mul":
        return a[0] * a[1]
    if op == "div":
        return a[0] * a[1].inv()
    if op == "neg":
        return QI(0) - a[0]
    if op == "addv":
        r = QI(0)
        for x in a:
            r = r + x
        return r
    if op == "mulv":
        r = QI(1)
        for x in a:
            r = r * x
        return r
    if op == "pow":
        b = eval_exact(t[1], env)
        e = eval_exact(t[2], env)
        if e.im != 0 or e.re.denominator != 1:
            raise NotExact("pow")
        k = e.re.numerator
        if abs(k) > 64:
            raise NotExact("big")
        if b.is_zero() and k < 0:
            raise Undefined()
        return b.powi(k)
    raise NotExact(op)


def cpow(b, e):
    if b == 0:
        if e == 0:
            return 1 + 0j
        if e.real > 0:
            return 0j
        raise Undefined()
    if e.imag == 0 and e.real == int(e.real) and abs(e.real) <= 64:
        k = int(e.real)
        r = 1 + 0j
        base = b if k >= 0 else 1 / b
        for _ in range(abs(k)):
            r *= base
        return r
    return cmath.exp(e * cmath.log(b))


def eval_numeric(t, env):
    """complex double value with principal branches; raises Undefined near poles / branch cuts"""
    if isinstance(t, str):
        if t in env:
            return complex(env[t])
        if t == "I":
            return 1j
        if t == "pi":
            return complex(math.pi)
        if t == "E":
            return complex(math.e)
        try:
            return complex(int(t))
        except ValueError:
            raise NotExact(t)
    op = t[0]
    if op == "i":
        return complex(int(t[1]))
    if op == "q":
        return complex(Fraction(int(t[1]), int(t[2])))
    if op == "c":
        return complex(Fraction(int(t[1]), int(t[2])), Fraction(int(t[3]), int(t[4])))
    if op == "s":
        return complex(env[t[1]])
    a = [eval_numeric(k, env) for k in t[1:]]
    try:
        if op == "add":
            return a[0] + a[1]
        if op == "sub":
            return a[0] - a[1]
        if op == "mul":
            return a[0] * a[1]
        if op == "div":
            if a[1] == 0:
                raise Undefined()
            return a[0] / a[1]
        if op == "neg":
            return -a[0]
        if op == "addv":
            return sum(a, 0j)
        if op == "mulv":
            r = 1 + 0j
            for x in a:
                r *= x
            return r
        if op == "pow":
            return cpow(a[0], a[1])
        if op == "sqrt":
            return cpow(a[0], 0.5 + 0j)
        if op == "cbrt":
            return cpow(a[0], complex(1.0 / 3.0))
    except (OverflowError, ZeroDivisionError, ValueError):
        raise Undefined()
    raise NotExact(op)


def near_cut(t, env, eps=1e-6):
    """does some non-integer power in the recipe have its base within eps (relatively) of the negative real axis or of 0?"""
    if isinstance(t, str):
        return False
    op = t[0]
    if op in ("i", "q", "c", "s", "d", "cd"):
        return False
    for k in t[1:]:
        if near_cut(k, env, eps):
            return True
    if op in ("pow", "sqrt", "cbrt"):
        try:
            b = eval_numeric(t[1], env)
            if op == "pow":
                e = eval_numeric(t[2], env)
                if e.imag == 0 and e.real == int(e.real):
                    return abs(b) < eps and e.real < 0
        except (Undefined, NotExact):
            return True
        if abs(b) < eps:
            return True
        if b.real < 0 and abs(b.imag) <= eps * abs(b):
            return True
    return False


def bits_to_float(h):
    import struct
    return struct.unpack(">d", bytes.fromhex(h))[0]


def permutations_count(n):
    return math.factorial(n)


def all_bracketings(items, op):
    """all binary bracketings of a sequence of recipes"""
    if len(items) == 1:
        return [items[0]]
    out = []
    for m in range(1, len(items)):
        for l in all_bracketings(items[:m], op):
            for r in all_bracketings(items[m:], op):
                out.append("(%s %s %s)" % (op, l, r))
    return out


def subst_form(form, operands):
    """$i -> operand recipe"""
    out = form
    for i in reversed(range(len(operands))):
        out = out.replace("$%d" % i, operands[i])
    return out


_ = itertools


# ----------------------------------------------------------------------------- shared phases

def prove(ctx, obligations, refutations=()):
    """build the family's proof modules (make), then the obligations; refutation
    witnesses (`..._refuted` theorems: the model violates the property on a concrete input) are compiled too
    but are not obligations: when one stops compiling the finding no longer reproduces in the model"""
    ctx.prove(PROOF_MODULES, obligations, timeout=7200)
    for rf in refutations:
        rc, out = _vlib.sh(["timeout", "900", "coqc", "-Q", ".", "SE", "-w", "-notation-overridden", rf], cwd=_vlib.COQ, timeout=930)
        if rc != 0:
            msg = "refutation %s no longer compiles: the finding no longer reproduces in the model (update model, theorem and known_findings.txt together)" % rf
            ctx.notes.append(msg)
            print("NOTICE: " + msg)
        else:
            ctx.cov.setdefault("refutations_checked", []).append(rf)


def build(ctx):
    drv = ctx.build_driver("arith_driver")
    model = ctx.build_model("Arith", "C03/Extract.v", "arith_main.ml", "semodel", extra_ml=["expr_io.ml"])
    return drv, model


def crash_class(c):
    """stable class of a crashing call, from its operands"""
    txt = " ".join(c.args)
    if "(Pow (I 0) " in txt:
        return "zero-base-symbolic-exponents"
    if "(D " in txt or "(CD " in txt:
        return "inexact-base-symbolic-exponents"
    return "other"


def correspondence_phase(ctx, pid, drv, model, recipes, stats, search=False):
    """runs the recipes on the library, every recorded call on the model; fills ctx.broken / coverage.
    returns the list of calls (with .model set)"""
    if drv is None or model is None:
        return []
    tr = run_traces(ctx, drv, recipes)
    calls = [c for _, _, cs in tr for c in cs]
    for r, line, cs in tr:
        if not cs and not line.strip():
            ctx.broken.append({"kind": "correspondence", "name": "arith_driver", "detail": "no output for recipe " + r})
    mo = model_calls(ctx, model, calls)
    ndis = stats.setdefault("ndis", 0)
    seen = set()
    for c in calls:
        c_model = mo.get(c.key)
        if c.op not in ARITH_OPS or has_opaque(c):
            stats["unmodelled_calls"] = stats.get("unmodelled_calls", 0) + 1
            continue
        if c.key in seen:
            continue
        seen.add(c.key)
        ctx.cov["evaluations"] += 1
        v = compare_call(c, c_model)
        if v == "skip":
            stats["skipped_outside_model"] = stats.get("skipped_outside_model", 0) + 1
            continue
        ctx.cov["traces_validated_against_impl"] += 1
        if v != "ok":
            stats["ndis"] = stats.get("ndis", 0) + 1
            if stats["ndis"] <= 4:
                ctx.broken.append({"kind": "correspondence", "name": "%s model vs library" % pid,
                                   "detail": "recipe %s\ncall %s\n%s" % (c.recipe, call_text(c)[:600], v[:900]),
                                   "recipe": c.recipe})
        else:
            nontriv = (not is_error(c.res)) and not any(canon_dump(a) == canon_dump(c.res) for a in c.args) and len(c.res) > 12
            if nontriv:
                stats.setdefault("nontrivial", set()).add(c.key)
    if not search:
        for r, line, cs in tr[:6]:
            if cs:
                ctx.cov["samples"].append({"recipe": r, "last_call": call_text(cs[-1])[:200], "result": (cs[-1].res or "")[:200],
                                           "model": (mo.get(cs[-1].key) or "")[:200]})
    return calls


# ----------------------------------------------------------------------------- Coq files of this family
# (listed in coq/_CoqProject; `make` resolves the dependencies of these top-level proof modules)
import vlib as _vlib

MODEL_FILES = ["Expr/Arith.v", "Expr/Canon.v", "Expr/ArithGuards.v"]
PROOF_MODULES = ["Expr/ArithAddProofs.vo", "Expr/ArithFuelMono.vo", "Expr/ArithProg.vo", "Expr/ArithMulUnique.vo",
                 "Expr/DenotePow.vo"]
