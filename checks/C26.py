"""C26 -- matrix expressions preserve value; their predicates are sound.
Model: coq/C26/MatModel.v (matrix_add / matrix_mul / hadamard_product merge rules, transpose,
conjugate_matrix, trace, size, is_zero/diagonal/symmetric/lower/upper/real/square/toeplitz).
Theorems: coq/C26/P_*.v.  Tie: stack programs of public API calls run on the extracted model and
on the library; result dumps, sizes, predicates and traces compared; the driver's oracle evaluates
recipe and result to dense matrices of exact numbers independently of the model."""
import re

import vlib

# the proof modules are compiled by the builder until coq/_CoqProject lists them (then: MatFinal.vo)
PROOF_MODULES = ["C26/MatFinal.vo", "C26/MatWfOps.vo", "C26/MatTotal.vo", "C26/MatErrSound.vo", "C26/MatFindings.vo"]
OBLIGATIONS = [
    "C26/P_matrix_add_sound.v",
    "C26/P_hadamard_product_sound.v",
    "C26/P_matrix_mul_sound_guarded.v",
    "C26/P_matrix_mul_zero_shape_refuted.v",
    "C26/P_transpose_sound.v",
    "C26/P_conjugate_matrix_sound.v",
    "C26/P_size_sound.v",
    "C26/P_trace_sound.v",
    "C26/P_trace_error_sound.v",
    "C26/P_is_zero_sound.v",
    "C26/P_is_real_sound.v",
    "C26/P_is_square_sound.v",
    "C26/P_is_diagonal_sound.v",
    "C26/P_is_symmetric_sound.v",
    "C26/P_is_lower_sound.v",
    "C26/P_is_upper_sound.v",
    "C26/P_is_toeplitz_sound.v",
    "C26/P_predicates_total.v",
    "C26/P_unary_total.v",
    "C26/P_error_sound.v",
    "C26/P_wf_preserved.v",
    "C26/P_run_wf.v",
    "C26/P_canon_not_preserved_refuted.v",
    "C26/P_nonvacuous.v",
]

# ------------------------------------------------------------------ generators
ENTS_SMALL = ["0", "0", "0", "1", "1", "-1", "2", "-2", "3", "1/2", "-3/2", "0:1", "1:2", "2:-1", "1/2:1/3"]
ENTS_REAL = ["0", "0", "1", "1", "-1", "2", "-2", "3", "5", "1/2", "-3/2"]


class Gen:
    def __init__(self, rng, tier):
        self.rng = rng
        self.tier = tier
        self.nsym = 0
        self.env = {}
        self.maxdim = 3 if tier == "quick" else 4

    def ent(self, real=False):
        return self.rng.choice(ENTS_REAL if real else ENTS_SMALL)

    def nz_ent(self, real=False):
        while True:
            e = self.ent(real)
            if e != "0":
                return e

    def dim_tok(self, k):
        """an integer dimension, or (sometimes) a dimension symbol whose value is k"""
        if self.rng.random() < 0.25:
            name = "n%d" % (10 * k + self.rng.randint(0, 1))   # n<10k>, n<10k+1> both stand for k
            self.env[name] = str(k)
            return name
        return str(k)

    def dense_entries(self, r, c):
        rng = self.rng
        real = rng.random() < 0.6
        kind = rng.choice(["random", "random", "sym", "lower", "upper", "diag", "toeplitz", "sparse", "zero", "ident", "const"])
        a = [[self.ent(real) for _ in range(c)] for _ in range(r)]
        if kind == "sym":
            for i in range(r):
                for j in range(c):
                    if j < i and j < r and i < c:
                        a[i][j] = a[j][i]
        elif kind == "lower":
            for i in range(r):
                for j in range(c):
                    if j > i:
                        a[i][j] = "0"
        elif kind == "upper":
            for i in range(r):
                for j in range(c):
                    if j < i:
                        a[i][j] = "0"
        elif kind == "diag":
            for i in range(r):
                for j in range(c):
                    if j != i:
                        a[i][j] = "0"
        elif kind == "toeplitz":
            first = {}
            for i in range(r):
                for j in range(c):
                    a[i][j] = first.setdefault(i - j, a[i][j])
        elif kind == "sparse":
            for i in range(r):
                for j in range(c):
                    if rng.random() < 0.7:
                        a[i][j] = "0"
        elif kind == "zero":
            a = [["0"] * c for _ in range(r)]
        elif kind == "ident":
            a = [["1" if i == j else "0" for j in range(c)] for i in range(r)]
        elif kind == "const":
            e = self.nz_ent(real)
            a = [[e] * c for _ in range(r)]
        return [x for row in a for x in row]

    def leaf(self, r, c):
        rng = self.rng
        kinds = ["M", "M", "M", "Z", "S", "S"]
        if r == c:
            kinds += ["I", "I", "D", "D", "D"]
        k = rng.choice(kinds)
        if k == "I":
            return ["I", self.dim_tok(r)]
        if k == "Z":
            return ["Z", self.dim_tok(r), self.dim_tok(c)]
        if k == "S":
            # a few symbols are shared between leaves
            cands = [s for s, v in self.env.items() if s[0] == "S" and v == "%dx%d" % (r, c)]
            if cands and rng.random() < 0.4:
                name = rng.choice(cands)
            else:
                self.nsym += 1
                name = "S%d" % self.nsym
                self.env[name] = "%dx%d" % (r, c)
            return ["S", name[1:]]
        if k == "D":
            kind = rng.choice(["random", "random", "const", "zero", "one", "partzero"])
            real = rng.random() < 0.6
            if kind == "random":
                d = [self.ent(real) for _ in range(r)]
            elif kind == "const":
                d = [self.nz_ent(real)] * r
            elif kind == "zero":
                d = ["0"] * r
            elif kind == "one":
                d = ["1"] * r
            else:
                d = [self.nz_ent(real) if rng.random() < 0.5 else "0" for _ in range(r)]
            return ["D", str(r)] + d
        return ["M", str(r), str(c)] + self.dense_entries(r, c)

    def negated(self, leaf):
        """the entrywise negative of a D / M leaf (sums that cancel)"""
        def neg(e):
            parts = e.split(":")
            out = []
            for p in parts:
                out.append(p[1:] if p.startswith("-") else ("0" if p == "0" else "-" + p))
            return ":".join(out)
        if leaf[0] == "D":
            return leaf[:2] + [neg(e) for e in leaf[2:]]
        if leaf[0] == "M":
            return leaf[:3] + [neg(e) for e in leaf[3:]]
        return leaf

    def tree(self, r, c, depth):
        rng = self.rng
        if depth <= 0 or rng.random() < 0.25:
            return self.leaf(r, c)
        op = rng.choice(["add", "add", "mul", "mul", "had", "tr", "conj"])
        if op == "tr":
            return self.tree(c, r, depth - 1) + ["tr"]
        if op == "conj":
            return self.tree(r, c, depth - 1) + ["conj"]
        n = rng.choice([2, 2, 2, 3, 3, 4])
        out = []
        if op in ("add", "had"):
            prev = None
            for i in range(n):
                rr, cc = r, c
                if rng.random() < 0.03:      # a deliberate mismatch
                    rr = rng.randint(1, self.maxdim)
                is_leaf = prev is not None and ((prev[0] == "D" and len(prev) == 2 + int(prev[1]))
                                                or (prev[0] == "M" and len(prev) == 3 + int(prev[1]) * int(prev[2])))
                if is_leaf and op == "add" and rng.random() < 0.15:
                    sub = self.negated(prev)
                else:
                    sub = self.tree(rr, cc, depth - 1)
                prev = sub
                out += sub
            return out + [op, str(n)]
        # mul: a chain r x k1, k1 x k2, ..., x c with scalars in between
        inner = [rng.randint(1, self.maxdim) for _ in range(n - 1)]
        if rng.random() < 0.5:
            inner = [rng.choice([r, c])] * (n - 1)   # square-ish chains merge more
        shapes = list(zip([r] + inner, inner + [c]))
        cnt = 0
        for (a, b) in shapes:
            if rng.random() < 0.2:
                out += ["k", self.nz_ent() if rng.random() < 0.9 else "0"]
                cnt += 1
            if rng.random() < 0.03:
                a = rng.randint(1, self.maxdim)
            out += self.tree(a, b, depth - 1)
            cnt += 1
        if rng.random() < 0.1:
            out += ["k", self.nz_ent()]
            cnt += 1
        return out + ["mul", str(cnt)]


def gen_case(rng, tier):
    g = Gen(rng, tier)
    r = rng.randint(1, g.maxdim)
    c = r if rng.random() < 0.6 else rng.randint(1, g.maxdim)
    depth = rng.choice([1, 1, 2, 2, 3]) if tier == "quick" else rng.choice([1, 2, 2, 3, 3, 4])
    prog = g.tree(r, c, depth)
    env = " ".join("%s=%s" % (k, v) for k, v in sorted(g.env.items()))
    return (env + " ; " + " ".join(prog)).strip()


CORPUS = [
    # the class splits of the merge rules, and the defects found while building the slice
    "; I 2 M 2 2 1 2 3 4 add 2",
    "; D 2 1 2 D 2 -1 -2 add 2",
    "; D 2 1 2 M 2 2 1 2 3 4 add 2",
    "; M 2 2 1 2 3 4 M 2 2 -1 -2 -3 -4 add 2",
    "; Z 2 2 Z 2 2 add 2",
    "; Z 2 2 I 2 add 2",
    "; Z 2 3 M 3 4 1 2 3 4 1 2 1 2 3 4 1 2 mul 2",
    "; M 2 3 1 2 3 4 1 2 Z 3 4 mul 2",
    "; k 2 I 2 mul 2",
    "; k 2 I 2 I 2 mul 3",
    "; I 2 I 2 mul 2",
    "; I 2 M 2 2 1 2 3 4 had 2",
    "; I 2 M 2 2 1 2 3 4 had 2 M 2 2 0 1 1 0 add 2",
    "; M 1 3 1 2 3",
    "; M 2 5 1 2 3 4 1 0 1 2 3 4",
    "; M 5 2 1 2 3 1 4 3 0 4 3 0",
    "; M 3 3 1 2 3 4 1 2 5 4 1",
    "S1=2x2 ; M 2 2 1 2 3 4 S 1 mul 2 M 2 2 1 2 3 4 add 2",
    "S1=2x2 ; M 2 2 1 2 3 4 M 2 2 1 2 3 4 S 1 mul 2 add 2",
    "S1=2x2 ; S 1 M 2 2 1 2 3 4 mul 2 M 2 2 1 2 3 4 add 2",
    "S1=2x2 ; M 2 2 1 2 3 4 S 1 mul 2 M 2 2 1 2 3 4 had 2",
    "n20=2 ; I n20 M 2 2 1 2 3 4 add 2",
    "n20=2 n21=2 ; Z n20 n21 M 2 2 1 2 3 4 add 2",
    "n20=2 n21=2 ; Z n20 n21",
    "n20=2 ; Z n20 n20",
    "n20=2 ; I n20 I n20 add 2 I 2 add 2",
    "; D 2 1:2 1 conj",
    "; M 2 3 1 2 3 4 5 6 tr",
    "; M 2 3 1 2 3 4 5 6 M 2 2 1 2 3 4 add 2",
    "; M 2 2 1 2 3 4 D 2 2 3 had 2",
    "; M 2 2 1 2 3 4 D 2 2 3 mul 2",
    "; D 2 2 3 M 2 2 1 2 3 4 mul 2",
    "; D 2 2 3 D 2 1/2 1/3 mul 2",
    "; M 2 2 1 1 0 1 M 2 2 1 -1 0 1 mul 2",
    "S1=2x2 ; S 1 conj tr conj",
    "n30=3 ; M 1 2 2 0 M 2 4 0 3 3 0 0 -3/2 0 0 I n30 k 1 M 3 1 0 2 -1 mul 5",
    "n30=3 ; M 1 2 1 2 I n30 M 3 1 1 2 3 mul 3",
    "n30=3 ; D 2 1 2 I n30 D 3 1 2 3 mul 3",
    "S1=2x2 S2=2x2 ; S 1 S 2 add 2 I 2 add 2 tr",
    "S1=2x2 ; D 2 1 2 S 1 D 2 3 4 mul 3",
    "S1=2x2 ; M 2 2 1 2 3 4 D 2 1 2 S 1 D 2 3 4 M 2 2 0 1 1 0 mul 5",
    "S1=2x3 ; k 2 S 1 k 3 mul 3 k 1/6 mul 2",
    "S1=2x2 ; S 1 S 1 add 2",
    "; M 2 2 1/2 2 3 4 k 2/3 M 2 2 1 1 0 1 mul 3",
    "; I 0",
    "; Z 0 0 I 0 add 2",
    "S1=2x3 ; S 1 Z 3 4 mul 2",
    "S1=2x3 ; Z 4 2 S 1 mul 2",
    "S1=2x2 ; S 1 conj tr conj",
    "n30=3 ; M 1 2 2 0 M 2 4 0 3 3 0 0 -3/2 0 0 I n30 k 1 M 3 1 0 2 -1 mul 5",
    "n30=3 ; M 1 2 1 2 I n30 M 3 1 1 2 3 mul 3",
    "n30=3 ; D 2 1 2 I n30 D 3 1 2 3 mul 3",
]


def nontrivial(case):
    """a case is non-trivial when an n-ary operation combines at least two operands"""
    return bool(re.search(r"\b(add|mul|had) [2-9]", case))


# ------------------------------------------------------------------ classification
def classify(case, impl, model):
    """-> list of (key, what) for a library output line (with oracle part)"""
    canon, _, oracle = impl.partition("\t#ORACLE:")
    out = []
    for item in [x.strip() for x in oracle.split(";") if x.strip()]:
        m = re.match(r"(\w[\w-]*)(?:\((\w+)\))?:", item)
        cls, arg = (m.group(1), m.group(2)) if m else ("other", None)
        if cls == "value" and arg == "mul" and re.search(r"but the result Z\(", item):
            key = "C26/matrix_mul:zero-factor-shape"
        elif cls == "value" and arg == "mul" and re.search(r"but the result I\(", item):
            key = "C26/matrix_mul:scalar-dropped-identity"
        elif cls == "pred" and arg == "is_symmetric" and "answered F" in item and "H{" in canon:
            key = "C26/is_symmetric:hadamard-false"
        elif cls == "noncanonical":
            key = "C26/noncanonical-result"
        elif cls == "size" and canon.startswith("Z("):
            key = "C26/matrix_mul:zero-factor-shape"
        elif cls == "trace" and canon.startswith("Z("):
            key = "C26/matrix_mul:zero-factor-shape"
        elif arg:
            key = "C26/%s:%s" % (cls, arg)
        else:
            key = "C26/%s" % cls
        out.append((key, "case `%s`: %s" % (case, item)))
    if "CRASH" in canon or "HANG" in canon or "UNCAUGHT" in canon or "DIED" in canon:
        if canon == "CRASH:11" and model == canon:
            key = "C26/check_matching_sizes:null-size-deref"
        elif canon.endswith("CRASH:6") and " | tr=" in canon and model == canon:
            key = "C26/is_toeplitz:oob-wide-dense"
        elif " | " not in canon:
            key = "C26/crash:construction"
        else:
            key = "C26/crash:query"
        out.append((key, "case `%s` ends with %s on the library (model: %s)" % (case, canon[-60:], model[-60:])))
    return out


def explore(ctx, drv, model, cases, search=False):
    if drv is None or model is None:
        return 0
    impl = ctx.run_lines(drv, cases, timeout=3000)
    mod = ctx.run_lines(model, cases, timeout=3000)
    ctx.cov["evaluations"] += len(cases)
    ctx.cov["distinct_nontrivial"] += len(set(c for c in cases if nontrivial(c)))
    ctx.cov["traces_validated_against_impl"] += len(cases)
    if not search:
        ctx.cov["samples"] += [{"case": c, "model": m, "impl": i} for c, m, i in list(zip(cases, mod, impl))[:6]]
    ndis = 0
    for c, m, i in zip(cases, mod, impl):
        canon = i.partition("\t#ORACLE:")[0]
        for key, what in classify(c, i, m):
            ctx.violation(key, what, {"family": "C26", "case": c, "impl": i, "model": m})
        if canon != m:
            ndis += 1
            if ndis <= 3:
                ctx.broken.append({"kind": "correspondence", "name": "C26 matrix expression",
                                   "detail": "case `%s`\n model: %s\n impl:  %s" % (c, m, canon)})
    return ndis


def run(ctx):
    ctx.gate(["Base", "C26"])
    ctx.prove(PROOF_MODULES, OBLIGATIONS)
    drv = ctx.build_driver("c26_driver")
    model = ctx.build_model("C26", "C26/Extract.v", "c26_main.ml", "mat_model")
    ncases = 2500 if ctx.tier == "quick" else 40000
    cases = list(CORPUS) + [gen_case(ctx.rng, ctx.tier) for _ in range(ncases)]
    explore(ctx, drv, model, cases)
    if ctx.broken and not [v for v in ctx.violations if v["key"] not in vlib.load_known("C26")]:
        # a proof or the tie broke: search harder for a concrete failing input
        extra = [gen_case(ctx.rng, "thorough") for _ in range(12000)]
        explore(ctx, drv, model, extra, search=True)
    ctx.cov["rule"] = ("stack programs of identity_matrix / zero_matrix / matrix_symbol / diagonal_matrix / immutable_dense_matrix "
                       "leaves (integer and symbolic dimensions, Gaussian-rational entries aimed at zero / identity / diagonal / "
                       "symmetric / triangular / Toeplitz patterns and at sums that cancel) combined by matrix_add, matrix_mul (with "
                       "scalars), hadamard_product, transpose, conjugate_matrix; a case is non-trivial when an n-ary operation "
                       "combines at least two operands; distinct = distinct program strings")
    ctx.assumptions += [
        "entries of concrete leaves are exact numbers (Integer, Rational, Complex with rational parts); symbolic entries are outside the model",
        "dimensions of IdentityMatrix / ZeroMatrix are non-negative Integers or plain Symbols (is_zero(n - m) is exact on integers, true for "
        "the same symbol, indeterminate otherwise); composite dimension expressions are outside the model",
        "predicates are called without assumptions (assumptions = nullptr)",
        "the theorems assume every symbolic dimension denotes a positive integer where stated (is_zero(IdentityMatrix(0)) = false is not "
        "claimed sound for the empty matrix)",
        "scalars passed to matrix_mul are numbers (a Trace(...) passed as a scalar is classified as a matrix factor by is_a_MatrixExpr: not modelled)",
    ]


def replay(ctx, rep):
    drv = ctx.build_driver("c26_driver")
    model = ctx.build_model("C26", "C26/Extract.v", "c26_main.ml", "mat_model")
    c = rep["replay"]["case"]
    print("case :", c)
    print("impl :", ctx.run_lines(drv, [c])[0])
    print("model:", ctx.run_lines(model, [c])[0])
