"""Shared machinery of the number-tower checks C05, C06, C29.

One model (coq/Num/NumModel.v, extracted to OCaml) and one driver (harness/num_driver.cpp)
serve the three properties.  A case is the line `<op> <num> <num>`; both sides print the
canonical dump of the result; the driver appends `\\t#ORACLE:<tags>` when a property oracle
fails on the library's own outputs."""
import struct

import vlib


def hexd(x):
    return "%016x" % struct.unpack("<Q", struct.pack("<d", x))[0]


BIG = 2 ** 70 + 3                      # two limbs
BIG2 = 2 ** 130 - 5                    # three limbs
TRUNC = 2 ** 53 + 1                    # not representable as a double

EXACT_REAL = [
    "I:0", "I:1", "I:-1", "I:2", "I:-2", "I:%d" % BIG, "I:%d" % -BIG, "I:%d" % TRUNC,
    "R:1/2", "R:-1/2", "R:3/7", "R:-3/7", "R:%d/%d" % (BIG2, BIG),
]
EXACT_CPLX = ["C:1,2", "C:1,-2", "C:0,1", "C:0,-1", "C:1/2,-3/4", "C:0,3/2"]
DBL = [
    "D:" + hexd(0.0), "D:" + hexd(-0.0), "D:" + hexd(1.0), "D:" + hexd(-1.0), "D:" + hexd(2.0),
    "D:" + hexd(-2.0), "D:" + hexd(0.5), "D:" + hexd(0.1), "D:" + hexd(1e300), "D:0000000000000001",
    "D:7ff0000000000000", "D:fff0000000000000", "D:7ff8000000000000",
]
CDBL = [
    "CD:%s,%s" % (hexd(0.0), hexd(0.0)), "CD:%s,%s" % (hexd(-0.0), hexd(0.0)),
    "CD:%s,%s" % (hexd(1.0), hexd(2.0)), "CD:%s,%s" % (hexd(1.0), hexd(-2.0)),
    "CD:%s,%s" % (hexd(0.0), hexd(1.0)), "CD:%s,%s" % (hexd(0.5), hexd(-0.75)),
    "CD:7ff0000000000000,%s" % hexd(1.0),
]
SPECIAL = ["INF:1", "INF:-1", "INF:0", "NAN"]

PALETTE = EXACT_REAL + EXACT_CPLX + DBL + CDBL + SPECIAL            # 43 values
EXACT = EXACT_REAL + EXACT_CPLX
# real numbers of every kind (C29): exact reals, non-NaN doubles, +-oo
REAL_PALETTE = EXACT_REAL + [d for d in DBL if d != "D:7ff8000000000000"] + [
    "D:" + hexd(3.0), "D:" + hexd(float(2 ** 53)), "D:" + hexd(float(2 ** 70)), "D:" + hexd(3.0 / 7.0),
    "D:" + hexd(-0.5), "INF:1", "INF:-1"]
# operands on which the relational constructors must throw / are not real
NONREAL = ["C:1,2", "CD:%s,%s" % (hexd(1.0), hexd(2.0)), "INF:0", "NAN", "D:7ff8000000000000"]


def kind(s):
    """refined kind of a canonical number text"""
    if s == "NAN":
        return "NAN"
    tag, body = s.split(":", 1)
    if tag == "D":
        v = int(body, 16)
        e = (v >> 52) & 0x7ff
        if e == 0x7ff:
            return "Dnan" if v & ((1 << 52) - 1) else "Dinf"
        return "D"
    if tag == "CD":
        parts = [int(x, 16) for x in body.split(",")]
        if any(((v >> 52) & 0x7ff) == 0x7ff for v in parts):
            return "CDnonfinite"
        return "CD"
    if tag == "INF":
        return "ZOO" if body == "0" else "INF"
    return tag


def is_exact(s):
    return s[0] in "IRC" and not s.startswith("CD") and not s.startswith("INF")


def build(ctx):
    drv = ctx.build_driver("num_driver")
    model = ctx.build_model("NUM", "Num/Extract.v", "num_main.ml", "num_model")
    return drv, model


def run_both(ctx, drv, model, cases):
    """-> list of (case, model_line, impl_canon, oracle_tags)"""
    if drv is None or model is None or not cases:
        return []
    impl = ctx.run_lines(drv, cases, timeout=1800, shards=14)
    mod = ctx.run_lines(model, cases, timeout=1800, shards=14)
    out = []
    for c, m, i in zip(cases, mod, impl):
        canon, _, oracle = i.partition("\t#ORACLE:")
        out.append((c, m, canon, oracle.split()))
    return out


def guards_of(ctx, model, cases):
    """names of the defect-class guards (coq/Num/NumModel.v: guard_names) a case falls in"""
    if model is None or not cases:
        return [[] for _ in cases]
    lines = ctx.run_lines(model, ["guards " + c for c in cases], timeout=600, shards=4)
    return [[g for g in l.split(",") if g and g != "-"] for l in lines]


def correspondence(ctx, name, results, skip=("LIBM",)):
    """model vs implementation; returns (number compared, number skipped)"""
    ndis = 0
    ncmp = 0
    nskip = 0
    for c, m, canon, _ in results:
        if m in skip:
            nskip += 1
            continue
        ncmp += 1
        if "HANG" in canon or "NOOUTPUT" in canon or m.startswith("BAD") or canon.startswith("BAD"):
            ndis += 1
            if ndis <= 3:
                ctx.broken.append({"kind": "correspondence", "name": name,
                                   "detail": "case `%s`\n model: %s\n impl:  %s" % (c, m, canon)})
            continue
        if canon != m:
            ndis += 1
            if ndis <= 3:
                ctx.broken.append({"kind": "correspondence", "name": name,
                                   "detail": "case `%s`\n model: %s\n impl:  %s" % (c, m, canon)})
    return ncmp, nskip


def replay(ctx, rep):
    drv, model = build(ctx)
    c = rep["replay"]["case"]
    print("case :", c)
    print("impl :", ctx.run_lines(drv, [c])[0])
    print("model:", ctx.run_lines(model, [c])[0])
    print("guard:", ctx.run_lines(model, ["guards " + c])[0])


# ---------------------------------------------------------------------------- classification
# (oracle tag, op) -> guard names (coq/Num/NumModel.v) that explain a violation of that tag;
# a violating case that falls in none of them is a new class ("unguarded")
TAG_GUARDS = {
    "comm": {"badd": ["badd-zero-float"]},
    "inf-rules": {"mul": ["zoo-times-complex"], "bmul": ["zoo-times-complex"]},
    "float-exact": {"mul": ["dbl-times-int0"], "bmul": ["dbl-times-int0"],
                    "badd": ["badd-zero-float", "badd-zero-sum"]},
    "value": {"div": ["rat-div-cplx"]},
    "order": {o: ["inexact-conv", "dblinf-infty"] for o in ("lt", "le", "gt", "ge")},
    "dual": {o: ["inexact-conv", "dblinf-infty"] for o in ("lt", "le", "gt", "ge")},
}


def classify(ctx, pid, model, results, tags_of_interest, crash_filter=None):
    """turn oracle hits / crashes of `results` into ctx.violation calls with class keys"""
    hits = []
    for c, m, canon, tags in results:
        op, a, b = c.split()
        mine = [t for t in tags if t in tags_of_interest]
        if "CRASH" in canon or "HANG" in canon or "UNCAUGHT" in canon:
            if crash_filter is None or crash_filter(op, a, b):
                mine.append("crash")
        if mine:
            hits.append((c, m, canon, mine))
    if not hits:
        return 0
    gl = guards_of(ctx, model, [h[0] for h in hits])
    n = 0
    for (c, m, canon, mine), guards in zip(hits, gl):
        op, a, b = c.split()
        for t in mine:
            allowed = TAG_GUARDS.get(t, {}).get(op, [])
            g = next((x for x in allowed if x in guards), None)
            if t == "crash" and g is None and m == "LIBM":
                g = "libm"
            if g is None:
                cls = "unguarded:%s-%s" % (kind(a), kind(b))
            else:
                cls = g
            key = "%s/%s:%s:%s" % (pid, t, op, cls)
            if m not in ("LIBM",) and m != canon and t != "crash":
                key += ":differs-from-model"
            what = "case `%s` -> `%s` violates %s (model: %s; guards: %s)" % (c, canon, t, m, ",".join(guards) or "-")
            ctx.violation(key, what, {"family": "NUM", "case": c, "impl": canon, "model": m, "oracle": t})
            n += 1
    return n


def pow_ok(op, a, b):
    """exclude powers whose result does not fit in memory (exact base beyond the units with a huge exponent)"""
    if op in ("pow", "rpow"):
        base, e = (a, b) if op == "pow" else (b, a)
        if e.startswith("I:") and abs(int(e[2:])) > 4096 and is_exact(base) and base not in (
                "I:0", "I:1", "I:-1", "C:0,1", "C:0,-1"):
            return False
    return True


def add_cov(ctx, results, nontrivial, rule):
    ctx.cov["evaluations"] += len(results)
    ctx.cov["distinct_nontrivial"] += len(set(r[0] for r in results if nontrivial(r)))
    ctx.cov["rule"] = rule
    if len(ctx.cov["samples"]) < 8:
        step = max(1, len(results) // 8)
        ctx.cov["samples"] += [{"case": c, "model": m, "impl": i} for c, m, i, _ in results[::step][:8]]


COMMON_ASSUMPTIONS = [
    "GMP is the trusted external for integer/rational arithmetic: mpz/mpq operations on canonical operands return the canonical exact result (modelled by Z arithmetic and Qred), mpz_get_d/mpq_get_d truncate toward zero and overflow to infinity (checked against the library on every run)",
    "the hardware/GCC double arithmetic is IEEE-754 binary64 round-to-nearest-even without contraction (modelled by Flocq's Bplus/Bminus/Bmult/Bdiv); every NaN is identified with the canonical NaN",
    "std::pow (libm) and libgcc's complex division / NaN recovery of complex multiplication are not modelled: such cases are run on the library (oracles apply) but not compared with the model",
    "RealDouble/ComplexDouble __eq__ is modelled as a value comparison of two distinct objects (the pointer-identity shortcut of eq() matters only for a NaN compared with itself)",
]
