"""C37 -- common-subexpression elimination is a faithful factoring (symengine/cse.cpp).

Model: coq/C37/CseModel.v (tree_cse: find_repeated + RebuildVisitor over the TransformVisitor dispatch,
generic in the canonicalising constructors), coq/C37/CseLib.v (the constructors of the library: Expr/Arith.v
for add/mul/pow, transcriptions of Eq / piecewise / max), coq/C37/CseCheck.v (the checker check_cse).
Theorems: coq/C37/P_*.v.

Tie, per explored expression list es (recipes evaluated on the library):
  * the extracted CHECKER check_cse (proved sound: CseCheckProofs.v) runs on the outputs of the public cse() and of
    tree_cse() -- shape, faithfulness (the model of __eq__ on the dump of the library's own back-substitution
    reduced.subs(reps last-to-first)), freshness, acyclicity, closedness.  This is PER-INSTANCE validation of the
    outputs (it covers opt_cse / match_common_args, which are not modelled), not a universal statement;
  * the extracted MODEL recomputes (a) tree_cse(es) with empty opt_subs, (b) tree_cse(es) with the opt_subs the
    library's opt_cse returned, (c) opt_cse(es) itself (OptsCSEVisitor + match_common_args with its FuncArgTracker:
    coq/C37/CseOpt.v) and (d) the whole cse(es); all four are compared EXACTLY (replacement list, reduced expressions,
    the set of opt_subs entries; Add dictionaries sorted) with what the library returned -- including crashes;
  * the driver evaluates the property oracle directly on the library's outputs (eq both ways, symbol sets by its own
    get_args walk), independent of the model.
"""
import vlib

# proof modules built by `make` (coq/_CoqProject lists every C37 file); the P_*.v obligations need exactly these
PROOF_MODULES = ["C37/CseCheckProofs.vo", "C37/CseNames.vo", "C37/CseProofs.vo", "C37/CseFlow.vo", "C37/CseSem.vo",
                 "C37/CseLibProofs.vo", "C37/CseExcl.vo", "C37/CseOptProofs.vo", "C37/CseOptLib.vo", "C37/CseRefuted.vo"]
OBLIGATIONS = [
    "C37/P_check_cse_sound.v", "C37/P_sym_name_injective.v", "C37/P_tree_cse_fresh_names.v", "C37/P_cse_fresh_names.v",
    "C37/P_excluded_complete.v", "C37/P_tree_cse_fresh.v", "C37/P_tree_cse_acyclic.v", "C37/P_tree_cse_acyclic_wf.v",
    "C37/P_tree_cse_faithful_guarded.v", "C37/P_tree_cse_faithful_wf.v", "C37/P_funsym_name_clash_refuted.v",
    "C37/P_funsym_pow_arity_crash.v", "C37/P_piecewise_condition_fixed.v", "C37/P_nonvacuous.v",
]


# ---------------------------------------------------------------- generators
SYMS = ["x", "y", "z", "w", "a", "b"]
TRICKY = ["x0", "x1", "x2", "x3", "x10", "x00", "x"]
F1 = ["sin", "cos", "exp", "log", "abs", "gamma", "tan", "sinh", "erf", "sign", "floor", "conjugate"]
NUMS = ["(i 2)", "(i 3)", "(i -1)", "(i -2)", "(q 1 2)", "(q -3 7)", "(i 5)", "(d 3ff8000000000000)", "(c 1 1 2 1)", "(i 0)", "(i 1)"]

CORPUS = [
    "(mul (add x y) z) ;; (f1 sin (add x y))",
    "(addv x y z) ;; (addv x y w)",
    "(mulv x y z) ;; (mulv x y w)",
    "(addv x y z) ;; (addv x y w) ;; (addv x y z w a)",
    "(mulv x y z) ;; (mulv x y w) ;; (mulv x y z w a)",
    "(pow x (i -2)) ;; (add (pow x (i 2)) y)",
    "(add (mul x y) x0) ;; (f1 sin (mul x y))",
    "(addv x0 x1 x2 (mul x y)) ;; (f1 sin (mul x y)) ;; (pow (f1 sin (mul x y)) (i 2))",
    "(mulv (i -2) x y) ;; (mulv (i 2) x y)",
    "(sub (neg x) y) ;; (add x y)",
    "(f1 sin (sub z (pow (add x y) (i 2)))) ;; (pow (add x y) (i 2))",
    "(max (add x y) z) ;; (mul (add x y) w)",
    "(sqrt (mul x y)) ;; (f1 sin (mul x y))",
    "(mulv (i 2) (add x y) z) ;; (f1 sin (add x y))",
    "(pow (add x y) (i 2)) ;; (mul (pow (add x y) (i 2)) z)",
    "(fs f (dum u) (dum u))",
    "(fs f reals) ;; (fs g reals)",
    "(fs f pi pi) ;; (add pi x)",
    "x ;; x ;; (i 1) ;; true",
    "(i 1)",
    "(add x y) ;; (add x y)",
    "(diff (fs f x (add x y)) x) ;; (mul (add x y) z)",
    "(deriv (fs f x y) x) ;; (mul (deriv (fs f x y) x) z)",
    "(f2 atan2 (add x y) z) ;; (mul (add x y) w)",
    "(lt (add x y) z) ;; (mul (add x y) w)",
    "(pw (add x y) (lt x y) (mul (add x y) z) true)",
    "(div (i 1) (add x y)) ;; (div z (add x y)) ;; (pow (add x y) (i -2))",
    "(exp (neg (add x y))) ;; (exp (add x y))",
    "(pow (i 2) (neg x)) ;; (pow (i 2) x)",
    "(mul (pow x y) (pow x (neg y))) ;; (pow x y)",
    "(addv (mul (i 2) x) (mul (i 3) y) z) ;; (addv (mul (i 2) x) (mul (i 3) y) w)",
    # known finding: regrouping a sum / product changes its canonical form (b + z - (b + z) is a canonical Add, the regrouped sum
    # cancels; p*q*(p*q)**r is a canonical Mul, the regrouped product is (p*q)**(1 + r))
    "(addv (neg (addv b z)) y (addv b z)) ;; (f1 sin (addv b z))",
    "(mulv x y (pow (mulv x y) w)) ;; (add (mulv x y) z)",
    # known finding: the rebuild of tree_cse alone (no opt_subs) gives another canonical form: w**w * (w**w)**(w**w) is a canonical
    # Mul (dict {w: w, w**w: w**w}) but mul(x0, x0**x0) = x0**(1 + x0); an Add with the inexact coefficient 0.0 loses it
    # (get_args() omits a zero coefficient, add(args) starts from the exact 0)
    "(mul (pow w w) (pow (pow w w) (pow w w)))",
    "(addv (d bff8000000000000) y (addv b (d 3ff8000000000000)))",
    "(mul x (addv (d bff8000000000000) y (addv b (d 3ff8000000000000))))",
    # the same with a function around it: tan(...).create is outside the arithmetic model (T0=UNMODELLED, T0R=OK)
    "(pow x (i -2)) ;; (f1 tan (mul (pow x (i -2)) (pow (pow x (i -2)) b)))",
    # the same next to a Piecewise (outside the guard of the theorem): classified on the failing expression alone
    "(pw z (lt x w) y true) ;; (mulv (pow (pow (i 0) (addv y w I)) (q 1 2)) (pow (i 0) (addv y w I)) x)",
    # known finding: atan2(A, A) stays unevaluated for A = zoo*E**x or -3.0*b, atan2(x0, x0) evaluates to pi/4
    "(f2 atan2 (mul zoo (f1 exp x)) (mul zoo (f1 exp x))) ;; b",
    "(f2 atan2 (mul b (d c008000000000000)) (mul b (d c008000000000000))) ;; (f1 sin (mul b (d c008000000000000)))",
    # cse returns; the library's subs() crashes on the back-substitution (C10/crash:subs-recursion-after-nan-derivative)
    "(diff (fs f x (f2 beta b I)) x)",
    # known finding: in-band function names; regression cases of the fixed Piecewise-condition defect
    "(fs add x y) ;; (i 1)",
    "(fs mul x y) ;; (fs mul x y)",
    "(fs pow x y) ;; (f1 sin (fs pow x y))",
    "(fs pow x) ;; (i 1)",
    "(fs pow) ;; x",
    "(pw a (lt x y) b true) ;; (pw c (lt x y) d true)",
    "(fs f (pw a (lt x y) b true)) ;; (fs g (lt x y))",
]


def leaf(rng, tricky=0.1):
    r = rng.random()
    if r < tricky:
        return rng.choice(TRICKY)
    if r < 0.8:
        return rng.choice(SYMS)
    if r < 0.95:
        return rng.choice(NUMS)
    return rng.choice(["pi", "E", "(dum u)", "I"])


def gen_expr(rng, depth, pool):
    """an arithmetic/function tree; with some probability a member of the shared pool"""
    if pool and rng.random() < 0.35:
        return rng.choice(pool)
    if depth <= 0:
        return leaf(rng)
    r = rng.random()
    sub = lambda: gen_expr(rng, depth - 1, pool)
    if r < 0.22:
        return "(addv %s)" % " ".join(sub() for _ in range(rng.randint(2, 4)))
    if r < 0.44:
        return "(mulv %s)" % " ".join(sub() for _ in range(rng.randint(2, 4)))
    if r < 0.56:
        return "(pow %s %s)" % (sub(), rng.choice(["(i 2)", "(i -1)", "(i -2)", "(q 1 2)", "(i 3)", sub(), "(neg %s)" % sub()]))
    if r < 0.68:
        return "(f1 %s %s)" % (rng.choice(F1), sub())
    if r < 0.76:
        return "(fs %s %s)" % (rng.choice(["f", "g", "h"]), " ".join(sub() for _ in range(rng.randint(1, 3))))
    if r < 0.80:
        return "(neg %s)" % sub()
    if r < 0.84:
        return "(div %s %s)" % (sub(), sub())
    if r < 0.87:
        return "(%s %s %s)" % (rng.choice(["max", "min"]), sub(), sub())
    if r < 0.90:
        return "(f2 %s %s %s)" % (rng.choice(["atan2", "beta"]), sub(), sub())
    if r < 0.92:
        return "(diff (fs f x %s) x)" % sub()
    if r < 0.94:
        return "(subs (diff (fs f x %s) x) x %s)" % (sub(), sub())
    return leaf(rng)


def gen_shared_sum(rng):
    """sums / products with a common part and different remainders (match_common_args)"""
    op = rng.choice(["addv", "mulv"])
    base = [rng.choice(SYMS + ["(f1 sin x)", "(pow y (i 2))", "(mul (i 2) z)", "(fs f x)"]) for _ in range(rng.randint(2, 4))]
    n = rng.randint(2, 4)
    out = []
    for _ in range(n):
        extra = [leaf(rng, 0.05) for _ in range(rng.randint(0, 3))]
        items = base[:rng.randint(2, len(base))] + extra
        rng.shuffle(items)
        e = "(%s %s)" % (op, " ".join(items))
        if rng.random() < 0.3:
            e = "(f1 %s %s)" % (rng.choice(F1), e)
        if rng.random() < 0.2:
            e = "(neg %s)" % e
        out.append(e)
    return out


def gen_case(rng):
    r = rng.random()
    if r < 0.25:
        es = gen_shared_sum(rng)
        if rng.random() < 0.5:
            es += gen_shared_sum(rng)
        return " ;; ".join(es)
    pool = []
    for _ in range(rng.randint(1, 3)):
        pool.append(gen_expr(rng, rng.randint(1, 2), pool))
    n = rng.randint(1, 4)
    es = [gen_expr(rng, rng.randint(1, 3), pool) for _ in range(n)]
    if r > 0.93:
        # the boundary classes: reserved function names, Piecewise with repeated conditions, relationals
        k = rng.random()
        c = rng.choice(pool)
        if k < 0.3:
            es.append("(fs %s %s %s)" % (rng.choice(["add", "mul", "pow"]), c, leaf(rng)))
        elif k < 0.6:
            cond = "(lt %s %s)" % (c, leaf(rng))
            es.append("(pw %s %s %s true)" % (leaf(rng), cond, c))
            es.append("(pw %s %s %s true)" % (c, cond, leaf(rng)))
        else:
            es.append("(fs f (lt %s %s) (lt %s %s))" % (c, "z", c, "z"))
    return " ;; ".join(es)


# ---------------------------------------------------------------- run
CLASS_NAMES = ["shape", "unfaithful", "not-fresh", "cyclic", "not-closed"]


def classify(cls, hints, detail="", tag="C", t_faithful=True, certified=False):
    """violation key for an oracle class, using the driver's hints about the input"""
    if cls in ("unfaithful", "crash") and "reserved-funsym" in hints:
        return "C37/%s:funsym-named-add-mul-pow" % cls
    if cls == "unfaithful" and tag == "C" and t_faithful:
        # cse() is not faithful but tree_cse() alone on the same input is: the regrouping of sums / products by
        # opt_cse (match_common_args) produced another canonical form
        return "C37/unfaithful:regrouped-by-opt-cse-other-canonical-form"
    if cls == "unfaithful" and detail.startswith("expand-equal"):
        return "C37/unfaithful:rebuild-other-canonical-form"
    if cls == "unfaithful" and detail.startswith("differs") and certified:
        # tree_cse() alone is not faithful up to eq, but ON THIS INSTANCE the extracted model returned exactly the
        # library's replacements and reduced expressions, the inputs are well-formed and inside the guard of
        # C37_tree_cse_faithful_wf and excl_complete holds: by that theorem the outputs are a faithful factoring under
        # every compositional semantics, so back-substitution and input differ only in their canonical form (the
        # constructors add / mul / pow are not injective up to eq on the rebuilt arguments)
        return "C37/unfaithful:rebuild-other-canonical-form"
    if cls == "unfaithful" and detail.startswith("differs") and "create-evaluates-on-symbols" in hints:
        # the inputs contain a function node that its own create() left unevaluated on the original arguments but evaluates
        # once the arguments are Symbols: atan2(A, A) with A = -3.0*b or zoo*E**x (A/A is the float 1.0 / is not 1) is an ATan2
        # node, atan2(x0, x0) = pi/4
        return "C37/unfaithful:function-evaluates-on-replacement-symbols"
    return "C37/" + cls


def certified_alone(ctx, drv, model, singles):
    """for each single-expression case: is tree_cse on it eq-unfaithful ('differs') AND certified other-canonical-form
    (model = library exactly, hypotheses of C37_tree_cse_faithful_wf hold)?"""
    out = []
    impl = ctx.run_lines(drv, singles, timeout=600, shards=4)
    ok = [l if l.startswith("E\t") else "" for l in impl]
    mod = ctx.run_lines(model, [l for l in ok if l], timeout=600, shards=4)
    k = 0
    for l in ok:
        if not l:
            out.append(False)
            continue
        m = mod[k]
        k += 1
        f = dict(p.split("=", 1) for p in m.split("\t")) if m.startswith("CHKC=") else {}
        parts = l.split("\t")
        unf = any(p.startswith("#ORACLE:T:unfaithful:differs") or p.startswith("#ORACLE:T:unfaithful:expand-equal") for p in parts)
        other = any(p.startswith("#ORACLE:") and not p.startswith(("#ORACLE:T:unfaithful:", "#ORACLE:C:unfaithful:")) for p in parts)
        hints = [p[6:] for p in parts if p.startswith("#HINT:")]
        out.append(unf and not other and "reserved-funsym" not in hints
                   and (f.get("T0") == "OK" or f.get("T0R") == "OK") and f.get("GUARD") == "0" and f.get("XC") == "1" and f.get("WF") == "1")
    return out


def explore(ctx, drv, model, cases, stats, search=False):
    if drv is None or model is None:
        return
    deferred = []
    impl = ctx.run_lines(drv, cases, timeout=1800, shards=16)
    keep, lines = [], []
    for i, line in enumerate(impl):
        if line.startswith("SKIP"):
            stats["skipped"] = stats.get("skipped", 0) + 1
            continue
        if not line.startswith("E\t"):
            ctx.broken.append({"kind": "correspondence", "name": "C37 driver output", "detail": cases[i] + "\n" + line[-300:]})
            continue
        keep.append(i)
        lines.append(line)
    mod = ctx.run_lines(model, lines, timeout=1800, shards=16)
    nbroken = 0
    for k, i in enumerate(keep):
        line = lines[k]
        parts = line.split("\t")
        hints = [p[6:] for p in parts if p.startswith("#HINT:")]
        oracles = [p[8:] for p in parts if p.startswith("#ORACLE:")]
        sec = {}
        for j in range(len(parts) - 1):
            if parts[j] in ("E", "C", "T", "O"):
                sec[parts[j]] = parts[j + 1]
        rep = {"family": "C37", "case": cases[i]}
        ctx.cov["traces_validated_against_impl"] += 1
        m = mod[k]
        f = dict(p.split("=", 1) for p in m.split("\t")) if m.startswith("CHKC=") else None
        # the faithfulness theorem applies to this very instance and the model reproduces tree_cse exactly
        # (T0R: with the plain node for function create() calls outside the arithmetic model -- the theorems are generic in the constructors)
        certified = bool(f) and (f.get("T0") == "OK" or f.get("T0R") == "OK") and f.get("GUARD") == "0" and f.get("XC") == "1" and f.get("WF") == "1"
        # ---- oracle on the library's outputs
        t_faithful = not any(o.startswith(("T:unfaithful", "T:crash", "T:exception", "T:hang", "T:backsubst")) for o in oracles)
        for o in oracles:
            tag, _, rest = o.partition(":")
            cls, _, detail = rest.partition(":")
            if cls == "backsubst-crash" and "subs-node" in hints and "nan" in hints:
                # cse() / tree_cse() returned; the library's subs() died substituting into a Subs / Derivative node next
                # to a nan "derivative" of a constant: unbounded DiffVisitor::bvisit(Subs) <-> SubsVisitor::bvisit(Derivative)
                # recursion, known finding C10/crash:subs-recursion-after-nan-derivative -- a defect of subs()/diff(), not of
                # cse: faithfulness cannot be observed through the library's subs() on this input
                stats["backsubst_crashes_in_library_subs(C10/crash:subs-recursion-after-nan-derivative)"] = \
                    stats.get("backsubst_crashes_in_library_subs(C10/crash:subs-recursion-after-nan-derivative)", 0) + 1
                continue
            key = classify(cls, hints, detail, tag, t_faithful, certified)
            what = "%s(es) with es = [%s]: %s %s; outputs: %s" % ("cse" if tag == "C" else "tree_cse", cases[i], cls, detail, sec.get(tag, "")[:400])
            idx = detail.partition(":")[2]
            if key == "C37/unfaithful" and detail.startswith("differs:") and idx.isdigit() and " ;; " in cases[i] and deferred is not None:
                # not certified on the whole list (e.g. another expression of the list is outside the guard of the theorem, or a
                # create() is outside the model): look at the failing expression on its own before choosing the key
                deferred.append((cases[i].split(" ;; ")[int(idx)], what, rep))
                continue
            ctx.violation(key, what, rep)
        if f is None:
            nbroken += 1
            if nbroken <= 3:
                ctx.broken.append({"kind": "correspondence", "name": "C37 model reader", "detail": m[:300] + "\n" + cases[i]})
            continue
        # ---- the proved checker on the library's outputs
        for tag, fld in (("C", "CHKC"), ("T", "CHKT")):
            bits = f[fld]
            if bits == "NA":
                continue
            ctx.cov["evaluations"] += 1
            stats["checked_" + tag] = stats.get("checked_" + tag, 0) + 1
            orc_classes = set(o.partition(":")[2].partition(":")[0] for o in oracles if o.startswith(tag + ":"))
            for b, cls in zip(bits, CLASS_NAMES):
                if b == "1":
                    continue
                if cls == "not-fresh" and "duplicate-symbol" in orc_classes:
                    continue
                if cls in orc_classes or (cls == "cyclic" and "not-fresh" in orc_classes):
                    continue   # already reported through the oracle
                if cls == "unfaithful" and any(c.startswith("backsubst-") for c in orc_classes):
                    continue   # no back-substituted trees to judge (the library's subs() died; handled above)
                if cls == "unfaithful":
                    # model of eq and library eq disagree on a back-substituted tree: a broken tie (C01), unless wf fails
                    nbroken += 1
                    if nbroken <= 3:
                        ctx.broken.append({"kind": "correspondence", "name": "C37 checker faithful bit vs library eq",
                                           "detail": cases[i] + "\n" + sec.get(tag, "")[:600]})
                    continue
                ctx.violation(classify(cls, hints) + ":checker",
                              "the proved checker rejects the outputs of %s on es = [%s]: %s; outputs: %s" % (
                                  "cse" if tag == "C" else "tree_cse", cases[i], cls, sec.get(tag, "")[:400]), rep)
        # ---- exact correspondence of the tree_cse model
        for fld, what in (("T0", "tree_cse with empty opt_subs"), ("T1", "tree_cse with the library's opt_subs (= cse)"),
                          ("OP", "opt_cse (OptsCSEVisitor + match_common_args)"), ("CS", "cse = opt_cse ; tree_cse")):
            st = f[fld]
            if st == "OK":
                ctx.cov["evaluations"] += 1
                stats[fld + "_ok"] = stats.get(fld + "_ok", 0) + 1
            elif st in ("UNMODELLED", "NA"):
                stats[fld + "_outside_model"] = stats.get(fld + "_outside_model", 0) + 1
            else:
                nbroken += 1
                if nbroken <= 3:
                    ctx.broken.append({"kind": "correspondence", "name": "C37 " + what,
                                       "detail": "case `%s`\nmodel: %s\nlibrary: %s" % (cases[i], st[:600], sec.get({"T0": "T", "OP": "O"}.get(fld, "C"), "")[:600])})
                ctx.violation("C37/model-mismatch:" + fld,
                              "library and proved model of %s disagree on es = [%s]: model %s | library %s" % (
                                  what, cases[i], st[:300], sec.get({"T0": "T", "OP": "O"}.get(fld, "C"), "")[:300]), rep)
        st = f.get("BS", "NA")
        stats["backsubst_" + ("agrees" if st == "OK" else "outside_model" if st in ("UNMODELLED", "NA", "FUEL") else "differs")] = \
            stats.get("backsubst_" + ("agrees" if st == "OK" else "outside_model" if st in ("UNMODELLED", "NA", "FUEL") else "differs"), 0) + 1
        stats["wf_inputs" if f.get("WF") == "1" else "non_wf_inputs"] = stats.get("wf_inputs" if f.get("WF") == "1" else "non_wf_inputs", 0) + 1
        # the per-instance hypothesis of the acyclicity / faithfulness theorems
        xc = f.get("XC", "?")
        stats["excl_complete_" + {"1": "holds", "0": "FAILS"}.get(xc, "not_evaluated")] = stats.get("excl_complete_" + {"1": "holds", "0": "FAILS"}.get(xc, "not_evaluated"), 0) + 1
        if xc == "0":
            ctx.violation("C37/excluded-symbols-incomplete",
                          "find_repeated (model) misses a Symbol of the inputs es = [%s]: the hypothesis excl_complete of the acyclicity / "
                          "faithfulness theorems fails on this input" % cases[i], rep)
        stats["inputs_" + ("outside_guard" if f.get("GUARD") == "1" else "inside_guard(faithfulness theorem applies)")] = \
            stats.get("inputs_" + ("outside_guard" if f.get("GUARD") == "1" else "inside_guard(faithfulness theorem applies)"), 0) + 1
        csec = sec.get("C", "")
        if " => " in csec:
            stats.setdefault("nontrivial", set()).add(sec.get("E", ""))
        if sec.get("O", "").strip():
            stats["with_opt_subs"] = stats.get("with_opt_subs", 0) + 1
        if not search and len(ctx.cov["samples"]) < 8 and " => " in csec:
            ctx.cov["samples"].append({"case": cases[i], "cse": csec[:300], "model": m[:200]})

    if deferred:
        res = certified_alone(ctx, drv, model, [d[0] for d in deferred])
        for (single, what, rep), cert in zip(deferred, res):
            if cert:
                stats["unfaithful_classified_on_the_failing_expression_alone"] = stats.get("unfaithful_classified_on_the_failing_expression_alone", 0) + 1
                ctx.violation("C37/unfaithful:rebuild-other-canonical-form",
                              what + " -- the failing expression on its own, es = [%s], is eq-unfaithful in the same way and certified" % single, rep)
            else:
                ctx.violation("C37/unfaithful", what, rep)


def run(ctx):
    ctx.gate(["C37"])
    ctx.prove(PROOF_MODULES, OBLIGATIONS)
    drv = ctx.build_driver("c37_driver")
    model = ctx.build_model("C37", "C37/Extract.v", "c37_main.ml", "semodel", extra_ml=["expr_io.ml"])
    q = ctx.tier == "quick"
    ncases = 1000 if q else 30000
    cases = list(CORPUS) + [gen_case(ctx.rng) for _ in range(ncases)]
    stats = {}
    explore(ctx, drv, model, cases, stats)
    if ctx.broken and not ctx.violations:
        explore(ctx, drv, model, [gen_case(ctx.rng) for _ in range(8000)], stats, search=True)
    ctx.cov["distinct_nontrivial"] = len(stats.get("nontrivial", ()))
    if stats.get("backsubst_differs"):
        ctx.notes.append("the model's homomorphic back-substitution (CseCheck.backsubst over the library constructors) differs from the "
                         "library's subs() on %d cases (informational: subs() is a different code path, e.g. Derivative/Subs nodes)" % stats["backsubst_differs"])
    kb = "backsubst_crashes_in_library_subs(C10/crash:subs-recursion-after-nan-derivative)"
    if stats.get(kb):
        ctx.notes.append("on %d cases cse()/tree_cse() returned but the library's subs() crashed while substituting the replacements back "
                         "(inputs with a Subs/Derivative node and a nan coefficient: known finding C10/crash:subs-recursion-after-nan-derivative); "
                         "faithfulness is not observable through subs() there -- shape, freshness, acyclicity, closedness and the exact "
                         "model correspondence were still checked" % stats[kb])
    for k, v in sorted(stats.items()):
        if k != "nontrivial":
            ctx.cov[k] = v
    ctx.cov["rule"] = ("expression lists (1-8 expressions) from recipes of public API calls: a shared pool of subexpressions reused in sums, "
                       "products, powers (negative / rational / symbolic exponents), functions, FunctionSymbols, max/min, atan2, Derivative, Subs; "
                       "sums and products with a common part and different remainders (match_common_args), negated sums/products, symbols named "
                       "x0, x1, x2, x3, x10, x00 in the inputs (name avoidance), numbers, constants, Dummies, boolean atoms and repeated atoms; the "
                       "boundary classes FunctionSymbol named add/mul/pow and Piecewise with repeated conditions.  evaluations = checker runs on "
                       "library outputs + exact model/library comparisons that were inside the model; a case is non-trivial when cse() returned "
                       "at least one replacement; distinct = distinct input dump lists")
    ctx.assumptions += [
        "the checker validates the outputs of cse()/tree_cse() PER INSTANCE (every explored input); the universal theorems are about tree_cse "
        "with empty opt_subs; opt_cse / match_common_args are modelled and compared exactly with the library (OP, CS) but have no theorems of their own",
        "std::sort in match_common_args is modelled as the stable insertion sort libstdc++ runs for at most 16 elements; more than 16 collected "
        "Adds or Muls are outside the model",
        "faithfulness is judged on the library's own back-substitution reduced.subs(reps last-to-first): by the library's eq in the driver's "
        "oracle and by the model of __eq__ (C01) on the dumps in the extracted checker",
        "std::set<RCPBasicKeyLess> used only through find(): modelled as 'some stored key is equivalent' (valid for a strict weak order, C02); "
        "unordered_map::find as 'same hash and eq(query, stored)'",
        "the iteration order of the unordered_map of a NEWLY built Add is not modelled (results compared with Add dictionaries sorted); the "
        "order of the input Adds is read from the dumps and drives the traversal, hence the numbering of the symbols",
        "constructors outside the arithmetic model (function create() on a non-Symbol argument, LeviCivita, max/min with several numbers) make "
        "the exact comparison skip the case (counted as *_outside_model); the checker and the oracle still apply",
        "next_symbol_index is a 32-bit counter: the model stops instead of wrapping after 2^32 symbols",
        "guard of the faithfulness oracle: when cse() returned and the library's subs() crashes on the back-substitution of an input that "
        "contains a Subs/Derivative node and a NaN (C10/crash:subs-recursion-after-nan-derivative), faithfulness is not judged on that input "
        "(counted in backsubst_crashes_in_library_subs); any other crash / hang of the back-substitution is reported as a violation",
        "key C37/unfaithful:rebuild-other-canonical-form is given to an eq-unfaithful result only when the difference expands to 0 or when, on "
        "that very instance, the model reproduces tree_cse exactly (T0=OK, or T0R=OK: the generic model run with the plain node for the function "
        "create() calls that the arithmetic model does not know) and the hypotheses of C37_tree_cse_faithful_wf hold (WF, XC, guard), "
        "i.e. the factoring is proved faithful under every compositional semantics; when the whole list is not certified (another "
        "expression of the list is outside the guard, e.g. a Piecewise) the failing expression is run on its own and must be unfaithful "
        "and certified there, otherwise the generic key C37/unfaithful is reported",
    ]


def replay(ctx, rep):
    drv = ctx.build_driver("c37_driver")
    model = ctx.build_model("C37", "C37/Extract.v", "c37_main.ml", "semodel", extra_ml=["expr_io.ml"])
    c = rep["replay"]["case"]
    line = ctx.run_lines(drv, [c])[0]
    print("case   :", c)
    for p in line.split("\t"):
        if p.startswith("#"):
            print("oracle :", p)
    parts = line.split("\t")
    for j in range(len(parts) - 1):
        if parts[j] in ("E", "C", "T", "O"):
            print({"E": "inputs ", "C": "cse    ", "T": "tree   ", "O": "opt    "}[parts[j]] + ":", parts[j + 1])
    if line.startswith("E\t") and model:
        print("model  :", ctx.run_lines(model, [line])[0])
