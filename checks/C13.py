"""C13 -- lambda double callbacks compute the expression's value.
Model: coq/Eval/LambdaModel.v (LambdaDoubleVisitor::init / call as a state machine, closures
as data) over coq/Eval/Gen_LambdaRules.v (regenerated from lambda_double.h).  Theorems: coq/C13/P_*.v.
Tie: histories of init (cse on/off, failing inits) and call on ONE visitor object, run on the library
and on the extracted model (which receives the dumped inputs/outputs and the dumped result of
SymEngine::cse), compared bit for bit.  The driver's oracles (fresh object, cse on/off, long double
reference) are testing."""
import hashlib

import vlib
from checks import evalcommon as ec

CORPUS = [
    # DESIGN row 18: a CSE init that throws leaves cse_intermediate_fns_map populated
    "H I 1 :: x ;; y ;; z :: (mul (add x y) z) ;; (f1 sin (add x y)) ;; u || I 0 :: y :: (add x0 y) || C 4000000000000000",
    "H I 1 :: x ;; y :: (mul (add x y) (f1 cos (add x y))) ;; (f1 sin (mul x y)) ;; (pow (mul x y) (i 2)) ;; (f2 zeta x (i 2)) "
    "|| I 1 :: x :: (add (f1 sin x) (pow (f1 sin x) (i 2))) ;; (add x1 x) || C 3ff0000000000000",
    "H I 1 :: x ;; y :: (mul (add x y) (f1 cos (add x y))) ;; (f1 sin (mul x y)) ;; (pow (mul x y) (i 2)) ;; u "
    "|| I 1 :: x :: (f1 sin x) ;; (add x1 x) || C 3ff0000000000000",
    # Piecewise without a final True branch
    "H I 0 :: x :: (pw x (gt x (i 0))) || C 3ff0000000000000 || C bff0000000000000",
    "H I 0 :: x :: (pw x (gt x (i 0)) (neg x) true) || C 3ff0000000000000 || C bff0000000000000 || C 7ff8000000000000",
    # cse on / off, several outputs, re-initialisation
    "H I 1 :: x ;; y :: (mul (add x y) x) ;; (f1 sin (add x y)) || C 3ff8000000000000 4000000000000000 "
    "|| I 0 :: x ;; y :: (mul (add x y) x) ;; (f1 sin (add x y)) || C 3ff8000000000000 4000000000000000",
    "H I 0 :: x :: (mul (i 2) (pow E x)) || C 4024000000000000",
    "H I 0 :: x ;; y :: (addv (mul (i 2) x y) (mul (q 1 3) x) (i 5)) ;; (mulv (pow x (i 2)) (pow y (q 1 2)) (i 3)) || C 3ff8000000000000 4000000000000000",
    "H I 0 :: x :: (f1 sign x) ;; (f1 floor x) ;; (f1 ceiling x) ;; (f1 truncate x) ;; (f1 abs x) || C c004000000000000 || C 8000000000000000 || C 7ff8000000000000",
    "H I 0 :: x ;; y :: (max x y (i 1)) ;; (min x y (i 1)) ;; (and (lt x y) (le y (i 2))) ;; (or (eq x y) (ne x (i 1))) ;; (xor (lt x y) (lt y x)) ;; (not (lt x y)) "
    "|| C 3ff0000000000000 4000000000000000 || C 7ff8000000000000 3ff0000000000000",
    "H I 0 :: x :: (contains x (interval (i 0) (i 1) 0 1)) ;; (contains x (interval -oo (i 1) 1 0)) ;; (contains x (interval (i 0) oo 1 1)) "
    "|| C 0000000000000000 || C 3ff0000000000000 || C 7ff8000000000000 || C fff0000000000000",
    "H I 0 :: x :: oo ;; -oo ;; nan ;; pi ;; (d 3fb999999999999a) ;; (q 1 10) || C 0000000000000000",
    # a CSE replacement symbol (x0) with the name of an input symbol the outputs do not use
    "H I 1 :: x0 ;; x1 :: (add (f1 sin x1) (i 1)) ;; (mul (f1 sin x1) (i 2)) || C 4059000000000000 3fe0000000000000",
    "H I 0 :: x :: zoo", "H I 0 :: x :: (contains x (fset (i 1) (i 2)))", "H I 0 :: x :: y", "H C 3ff0000000000000",
    "H I 0 :: (add x y) ;; x :: (mul (add x y) x) || C 4000000000000000 4008000000000000",
]


def explore(ctx, drv, model, cases, search=False):
    if drv is None or model is None:
        return 0
    impl = ctx.run_lines(drv, cases, timeout=1800)
    parsed = [ec.split_history(l) for l in impl]
    usable = [i for i, (ins, outs, orc) in enumerate(parsed)
              if ins and all(x.startswith("I ::") or x.startswith("C") for x in ins) and "Opaque" not in impl[i]]
    mod = ctx.run_lines(model, ["H " + " || ".join(parsed[i][0]) for i in usable], timeout=1800)
    mrow = dict(zip(usable, mod))
    ctx.cov["evaluations"] += len(cases)
    seen = ctx.cov.setdefault("_seen", set())
    ndis = 0
    for i, c in enumerate(cases):
        ins, outs, orc = parsed[i]
        line = impl[i]
        if "HANG" in line or "UNCAUGHT" in line or "PIPEFAIL" in line:
            ctx.violation("C13/hang", "history `%s` ends with %s" % (c, line[-30:]), {"family": "C13", "case": c, "impl": line})
            continue
        if i not in mrow:
            continue
        m = mrow[i]
        body, _, g = m.partition("\tG=")
        guards = set(filter(None, g.split(",")))
        mouts = body.split(" || ")
        ncalls = sum(1 for x in ins if x.startswith("C"))
        ninits_ok = sum(1 for x, o in zip(ins, outs) if x.startswith("I") and o == "OK")
        if ncalls and ninits_ok and c not in seen:
            seen.add(c)
            ctx.cov["distinct_nontrivial"] += 1
        if m.startswith("UNSUPPORTED") or m.startswith("FAIL"):
            continue
        if "NOMODEL" not in m:
            ctx.cov["traces_validated_against_impl"] += 1
            if mouts[:len(outs)] != outs or (len(mouts) > len(outs) and not ("CRASH" in line or "HANG" in line)):
                ndis += 1
                if ndis <= 3:
                    ctx.broken.append({"kind": "correspondence", "name": "C13 lambda history",
                                       "detail": "history `%s`\n model: %s\n impl:  %s" % (c, " || ".join(mouts), " || ".join(outs))})
        # ---- the property on the library's outputs
        if outs and outs[-1] == "CRASH":
            if "pwopen" in guards:
                key = "C13/piecewise-no-true-branch-oob"
            elif "stalemap" in guards:
                key = "C13/stale-cse-slot-oob"
            else:
                key = "C13/crash-unclassified-" + hashlib.md5(c.encode()).hexdigest()[:8]
            ctx.violation(key, "history `%s`: the process dies (%s) during op %d" % (c, line[-8:], len(outs)),
                          {"family": "C13", "case": c, "impl": line, "model": m})
        for item in split_items(orc):
            if item.startswith("reinit"):
                key = "C13/reinit-after-failed-cse-init" if "stalemap" in guards else \
                    "C13/reinit-unclassified-" + hashlib.md5(c.encode()).hexdigest()[:8]
            elif item.startswith("cse-shadow") or ((item.startswith("cse") or item.startswith("value")) and "cseshadow" in guards):
                key = "C13/cse-symbol-shadowed-by-input"
            elif item.startswith("cse"):
                key = "C13/cse-changes-result"
            elif item.startswith("value"):
                key = "C13/value-wrong"
            else:
                key = "C13/" + item.split("(")[0]
            ctx.violation(key, "history `%s`: %s" % (c, item), {"family": "C13", "case": c, "impl": line, "model": m})
    if not search:
        ctx.cov["samples"] += [{"history": cases[i][:300], "impl": " || ".join(parsed[i][1])[:200], "model": mrow[i][:200]} for i in usable[:5]]
    return ndis


def split_items(s):
    items, cur, depth = [], "", 0
    for ch in s:
        if ch == "(":
            depth += 1
        elif ch == ")":
            depth -= 1
        if ch == " " and depth == 0:
            if cur:
                items.append(cur)
            cur = ""
        else:
            cur += ch
    if cur:
        items.append(cur)
    return items


def run(ctx):
    drv, model = ec.prepare(ctx, ec.C13_PROOF_MODULES, ec.C13_OBLIGATIONS)
    n = 500 if ctx.tier == "quick" else 12000
    cases = list(CORPUS) + [ec.gen_history(ctx.rng, ctx.tier) for _ in range(n)]
    # histories aimed at the optimisation pass of cse (negated powers/products, shared factors): cse on, then off, same points
    cases += [ec.gen_cse_history(ctx.rng) for _ in range(n // 2)]
    explore(ctx, drv, model, cases)
    if ctx.broken and not ctx.violations:
        extra = [ec.gen_history(ctx.rng, "thorough") for _ in range(1500)] + [ec.gen_cse_history(ctx.rng) for _ in range(500)]
        explore(ctx, drv, model, extra, search=True)
    ctx.cov.pop("_seen", None)
    ctx.cov["rule"] = ("histories on one LambdaRealDoubleVisitor: 1-4 init calls (1-4 input symbols, 1-4 outputs over arithmetic, 35 elementary/special "
                       "function classes, relationals, And/Or/Xor/Not, Piecewise with and without a final True, Contains(Interval), Max/Min, sign, floor, "
                       "ceiling, truncate; cse on/off; shared subexpressions; ~22% of the inits throw: unknown symbol, unsupported class; later inits "
                       "mention x0/x1/x2) each followed by 0-3 calls on input vectors from a 30-value boundary palette (+-0, +-1, 1+-ulp, inf, nan, "
                       "2^53+2, denormal limit) or random; plus n/2 cse-stress histories (2-4 algebraic outputs sharing factors/addends, negated and negative powers, cse on then off on the same generic points); a history is non-trivial when it has a successful init and a call; distinct = distinct history strings")
    ctx.assumptions += [
        "the result of SymEngine::cse (replacements, reduced expressions) is an input of the model: the driver calls cse itself with the same outputs "
        "just before init (cse is deterministic); faithfulness of cse is property C37",
        "closures are pure: calling the std::function objects has no effect besides the writes to cse_intermediate_results modelled in `call`",
        "rounding error of libm is outside the theorems (see C12); libm symbols are interpreted by the same glibc on both sides of the correspondence",
        "call(outs, inps) is given exactly symbols.size() inputs (shorter vectors are out-of-bounds reads in C++; the model reports ErrOOB)",
    ]
    ctx.cov["trusted_base"].append("translators/tr_evalrules.py (lambda_double.h bvisit bodies -> rules; init/call bodies pinned textually, "
                                   "the flag init_clears_map_first is regenerated from the source)")
    ctx.cov["trusted_base"].append("Flocq 4.1 (IEEE-754 binary64 operations used by the extracted model)")


def replay(ctx, rep):
    drv, model = ec.prepare(ctx, [], [])
    c = rep["replay"]["case"]
    line = ctx.run_lines(drv, [c])[0]
    print("case :", c)
    print("impl :", line)
    ins, outs, orc = ec.split_history(line)
    print("model:", ctx.run_lines(model, ["H " + " || ".join(ins)])[0])
