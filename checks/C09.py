"""C09 -- expand is value-preserving, complete, idempotent and decides polynomial identity.
Model: coq/C09/ExpandModel.v (ExpandVisitor of expand.cpp and multinomial_coefficients_mpz of pow.cpp transcribed on
top of the arithmetic model coq/Expr/Arith.v).  Theorems: coq/C09/P_*.v.
Tie: every expand call of generated recipes is recomputed by the extracted model from the dump of its operand
(result tree and hash compared); the multinomial table is compared entry by entry on an exhaustive small universe.
Oracles on the library's outputs (driver, independent of the model): expand(expand(e)) eq expand(e); no product /
positive integer power of a sum outside function arguments (own walker) -- and the extracted Coq predicate `expanded`
on the dump; exact evaluation of e and expand(e) at rational points; for polynomials, eq(expand(p), expand(q)) against
equality of coefficient dictionaries computed by the driver's own polynomial arithmetic from the INPUT trees, and the
dictionary of expand(p) against that of p."""
import vlib
from checks import arithcommon as A
from checks import expsubscommon as E

OBLIGATIONS = [
    "C09/P_expand_sound.v",
    "C09/P_expand_decides.v",
    "C09/P_guarded_refines.v",
    "C09/P_fuel_mono.v",
    "C09/P_multinomial.v",
    "C09/P_nonvacuous.v",
]
REFUTATIONS = ["C09/P_refuted.v"]
PROOF_MODULES = ["C09/ExpandSound3.vo", "C09/MultinomialProofs.vo", "C09/Examples.vo"]

BIG = 6000


def idem_class(rdump, edump=None):
    """class of a non-idempotent result, from the first expansion (and the operand)"""
    try:
        t = A.parse_sexp(rdump)
    except ValueError:
        return "other"
    found = []

    def walk(u, under_add):
        if isinstance(u, str):
            return
        if u and u[0] == "Pow" and isinstance(u[1], list) and u[1] and u[1][0] == "Add" and isinstance(u[2], list) and u[2][0] == "I":
            if int(u[2][1]) <= -2:
                found.append("neg")
        if u and u[0] == "Mul":      # a factor (sum)**(-k), k >= 2, of a product
            for ent in u[2:]:
                if (isinstance(ent, list) and len(ent) == 2 and isinstance(ent[0], list) and ent[0] and ent[0][0] == "Add"
                        and isinstance(ent[1], list) and ent[1] and ent[1][0] == "I" and int(ent[1][1]) <= -2):
                    found.append("neg")
        for k in (u if (u and isinstance(u[0], list)) else u[1:]):
            walk(k, under_add or (u and u[0] == "Add"))
    walk(t, False)
    if found:
        return "negative-power-of-sum-kept-unexpanded"
    return FRAC if frac_power_class(edump, rdump) else "other"


FRAC = "integer-power-of-sum-from-fractional-power"


def frac_power_class(edump, rdump):
    """Known finding (same root cause as DESIGN row 38: pow_expand / square_expand / mul_expand_two multiply already
    expanded terms with pow() / mul() and do not expand the product): is EVERY product with a sum / positive integer
    power of a sum S that is left in expand(e) (outside function arguments, the driver's own walker) a power S**k of
    a sum S of which a NON-INTEGER rational power S**(p/q) occurs in expand(e) or in e itself (so S**k is
    (S**(p/q))**j produced inside the multinomial / binomial product), and is there at least one?  Any other
    unexpanded product keeps the generic key."""
    offenders, fracs = [], set()

    def walk(u, off):
        if isinstance(u, str) or not u or not isinstance(u[0], str):
            return
        ents = []
        if u[0] == "Add":
            for ent in u[2:]:
                if isinstance(ent, list) and len(ent) == 2:
                    walk(ent[0], off)
            return
        if u[0] == "Mul":
            ents = [ent for ent in u[2:] if isinstance(ent, list) and len(ent) == 2]
        elif u[0] == "Pow" and len(u) == 3:
            ents = [u[1:3]]
        for base, ex in ents:
            if isinstance(base, list) and base and base[0] == "Add" and isinstance(ex, list) and ex:
                if ex[0] == "I" and int(ex[1]) >= 1:
                    if off:
                        offenders.append(A.show_sexp(A.canon_sexp(base)))
                elif ex[0] == "Q":
                    fracs.add(A.show_sexp(A.canon_sexp(base)))
            walk(base, off)
    try:
        walk(A.parse_sexp(rdump), True)
        if edump:
            walk(A.parse_sexp(edump), False)
    except (ValueError, IndexError):
        return False
    return bool(offenders) and all(o in fracs for o in offenders)


def run(ctx):
    ctx.gate(["ExpSubs", "C09"])
    E.prove(ctx, PROOF_MODULES, OBLIGATIONS, REFUTATIONS)
    drv, model = E.build(ctx)
    q = ctx.tier == "quick"
    rng = ctx.rng
    xs = [("1", r) for r in E.XCORPUS] + [("0", r) for r in E.XCORPUS[:40]]
    xs += [("1", E.gen_poly(rng, rng.randint(2, 4))) for _ in range(350 if q else 8000)]
    xs += [("1", E.gen_xexpr(rng, rng.randint(2, 4))) for _ in range(450 if q else 12000)]
    xs += [("1", E.gen_product_of_sums(rng)) for _ in range(200 if q else 5000)]
    xs += [("1", "(pow %s (i %d))" % (E.gen_sum(rng, rng.randint(2, 5), E.SYMS + ["(i 1)", "(q 1 2)", "(f1 sin x)", "(pow x (i -1))", "(mul x y)", "w"]),
                                      rng.choice([2, 3, 4, 5, 6, 7, -2, -3]))) for _ in range(150 if q else 3000)]
    xs += [("0", E.gen_xexpr(rng, 3)) for _ in range(80 if q else 2000)]
    ds = [E.gen_decides_pair(rng, rng.randint(2, 3)) for _ in range(300 if q else 8000)]
    ms = [(m, n) for m in range(0, 7 if q else 8) for n in range(0, 9 if q else 11)]
    stats = {}
    explore(ctx, drv, model, xs, ds, ms, stats)
    if ctx.broken and not ctx.violations:
        xs2 = [("1", E.gen_xexpr(rng, 4)) for _ in range(3000)] + [("1", E.gen_product_of_sums(rng)) for _ in range(2000)]
        explore(ctx, drv, model, xs2, [E.gen_decides_pair(rng, 3) for _ in range(1500)], [], stats, search=True)
    ctx.cov["distinct_nontrivial"] = len(stats.get("nontrivial", ()))
    ctx.cov["inputs_in_polynomial_fragment"] = stats.get("poly_inputs", 0)
    ctx.cov["inputs_satisfying_expand_guard"] = stats.get("guard_inputs", 0)
    ctx.cov["results_validated_by_extracted_expanded"] = stats.get("expanded_checked", 0)
    ctx.cov["decides_pairs"] = stats.get("dpairs", 0)
    ctx.cov["decides_pairs_equal"] = stats.get("dequal", 0)
    ctx.cov["multinomial_tables"] = stats.get("mtables", 0)
    ctx.cov["value_points_evaluated"] = stats.get("points", 0)
    ctx.cov["calls_outside_model_skipped"] = stats.get("skipped", 0)
    ctx.cov["rule"] = ("recipes of public API calls: a fixed corpus (every branch of ExpandVisitor: Add / Mul as_two_terms / mul_expand_two in its three shapes / "
                       "square_expand / pow_expand with integer, symbol and composite bases / negative exponents / non-integer exponents / deep = false, "
                       "the repaired defects), random polynomial expressions over Q in x, y, z, random expressions of the quantifier (sums, products, integer "
                       "powers incl. negative, nested sums, opaque function applications, symbolic and rational exponents), products of powers of sums, "
                       "powers 2..7 of sums with 2..5 terms; pairs (p, q) of polynomials where q is an algebraic rewriting of p (commuted, distributed, "
                       "binomial formula) or a perturbation; multinomial tables for all m < 7, n < 9 (thorough: m < 8, n < 11); evaluations = expand "
                       "calls compared with the model + pairs + tables; an expand call is non-trivial when its result differs from its argument; "
                       "distinct = distinct argument dumps")
    ctx.assumptions += [
        "Add's unordered_map iteration order is not modelled (results compared after sorting Add dictionaries); with exact coefficients the result of expand does not depend on it",
        "GMP is exact integer arithmetic: modelled by Z; unsigned loop variables of multinomial_coefficients_mpz by N with explicit wrap",
        "function applications are opaque atoms (ExpandVisitor::bvisit(const Basic &) does not look inside them)",
        "UExprPoly / UIntPoly bases and inexact (double) coefficients are outside the model: such calls are counted and skipped",
        "the arithmetic model of add / mul / pow (coq/Expr/Arith.v) is the one validated by C03 / C04 / C07",
    ]


def explore(ctx, drv, model, xs, ds, ms, stats, search=False):
    if drv is None or model is None:
        return
    xlines = ["X %s ;; %s" % (d, r) for d, r in xs]
    dlines = ["D %s ;; %s" % (p, q) for p, q in ds]
    mlines = ["M %d ;; %d" % (m, n) for m, n in ms]
    outs = ctx.run_lines(drv, xlines + dlines + mlines, timeout=2400, shards=16)
    xo, do, mo = outs[:len(xlines)], outs[len(xlines):len(xlines) + len(dlines)], outs[len(xlines) + len(dlines):]
    # ---- expand calls
    mq = []
    recs = []
    for (deep, rec), line, out in zip(xs, xlines, xo):
        rp = {"family": "expsubs", "case": line}
        bad = E.bad_line(out)
        if bad:
            if bad == "HANG":
                ctx.notes.append("expand did not finish within 30 s (skipped): " + rec[:200])
            else:
                ctx.violation("C09/crash", "expand ends with %s on recipe %s" % (out[-60:], rec), rp)
            continue
        if out.startswith("RECIPE-"):
            continue       # the recipe itself threw (e.g. division by zero while building the operand)
        main, oracles = E.split_oracle(out)
        if len(main) < 2:
            ctx.broken.append({"kind": "correspondence", "name": "expsubs_driver", "detail": "unparsable output for %s: %s" % (line, out[:300])})
            continue
        edump = main[0]
        rdump = main[1]
        rhash = main[2] if len(main) > 2 else None
        for o in oracles:
            kind = o.split(" ;; ")[0].strip()
            if kind == "idem":
                ctx.violation("C09/not-idempotent:" + idem_class(rdump, edump),
                              "expand(expand(e)) != expand(e) for recipe %s: expand(e) = %s, again = %s" % (rec, rdump[:300], o[8:][:300]), rp)
            elif kind == "complete":
                ctx.violation("C09/incomplete" + (":" + FRAC if frac_power_class(edump, rdump) else ""), "expand(e) still contains a product or positive integer power of a sum: recipe %s, result %s" % (rec, rdump[:400]), rp)
            elif kind == "value":
                ctx.violation("C09/value-changed", "expand changed the value of recipe %s (%s): result %s" % (rec, o[9:], rdump[:300]), rp)
        if len(main) > 5 and main[5].isdigit():
            stats["points"] = stats.get("points", 0) + int(main[5])
        if "Opaque" in edump or len(edump) > BIG or len(rdump) > BIG or "(D " in edump or "(CD " in edump:
            stats["skipped"] = stats.get("skipped", 0) + 1
            continue
        mq.append("expand ;; %s ;; %s" % (deep, edump))
        recs.append((deep, rec, line, edump, rdump, rhash))
    mouts = ctx.run_lines(model, mq, timeout=2400, shards=16)
    seen = set()
    flagq = []
    for (deep, rec, line, edump, rdump, rhash), mout in zip(recs, mouts):
        key = deep + edump
        if key in seen:
            continue
        seen.add(key)
        ctx.cov["evaluations"] += 1
        v = E.compare_result(rdump, rhash, mout)
        if v == "skip":
            stats["skipped"] = stats.get("skipped", 0) + 1
            continue
        ctx.cov["traces_validated_against_impl"] += 1
        if v != "ok":
            stats["ndis"] = stats.get("ndis", 0) + 1
            if stats["ndis"] <= 4:
                ctx.broken.append({"kind": "correspondence", "name": "C09 model vs library",
                                   "detail": "recipe %s\nexpand(%s, deep=%s)\n%s" % (rec, edump[:500], deep, v[:900]), "recipe": rec})
        else:
            if not E.is_exn(rdump) and E.canon_dump(rdump) != E.canon_dump(edump):
                stats.setdefault("nontrivial", set()).add(key)
            if not search and len(ctx.cov["samples"]) < 6 and len(rdump) < 400:
                ctx.cov["samples"].append({"recipe": rec, "deep": deep, "result": rdump, "model": mout[:400]})
        if not E.is_exn(rdump):
            flagq.append((deep, rec, line, edump, rdump))
    # the extracted specification predicates on the library's dumps
    fouts = ctx.run_lines(model, ["xflags ;; " + r[4] for r in flagq] + ["xflags ;; " + r[3] for r in flagq]
                          + ["xguard ;; %s ;; %s" % (r[0], r[3]) for r in flagq], timeout=2400, shards=16)
    n = len(flagq)
    for i, (deep, rec, line, edump, rdump) in enumerate(flagq):
        fr, fe, fg = fouts[i], fouts[n + i], fouts[2 * n + i]
        if len(fe) == 4 and fe[1] == "1":
            stats["poly_inputs"] = stats.get("poly_inputs", 0) + 1
        if fg.strip() == "1":
            stats["guard_inputs"] = stats.get("guard_inputs", 0) + 1
        if len(fr) != 4 or fr[0] not in "01":
            ctx.broken.append({"kind": "correspondence", "name": "C09 xflags", "detail": "%s on %s" % (fr, rdump[:300])})
            continue
        if deep == "1":
            stats["expanded_checked"] = stats.get("expanded_checked", 0) + 1
            if fr[0] == "0":
                ctx.violation("C09/incomplete" + (":" + FRAC if frac_power_class(edump, rdump) else ""), "the extracted predicate `expanded` rejects expand(e): recipe %s, result %s" % (rec, rdump[:400]),
                              {"family": "expsubs", "case": line})
    # ---- decides
    for (p, qq), line, out in zip(ds, dlines, do):
        rp = {"family": "expsubs", "case": line}
        bad = E.bad_line(out)
        if bad:
            if bad != "HANG":
                ctx.violation("C09/crash", "expand ends with %s on pair %s" % (out[-60:], line), rp)
            continue
        if out.startswith("RECIPE-"):
            continue
        main, oracles = E.split_oracle(out)
        if len(main) < 6 or main[5] == "NOTPOLY" or E.is_exn(main[2]):
            stats["skipped"] = stats.get("skipped", 0) + 1
            continue
        ctx.cov["evaluations"] += 1
        stats["dpairs"] = stats.get("dpairs", 0) + 1
        if main[5] == "1":
            stats["dequal"] = stats.get("dequal", 0) + 1
        for o in oracles:
            if o.startswith("decides"):
                ctx.violation("C09/decides-wrong", "eq(expand(p), expand(q)) = %s but the polynomials are %s: p = %s, q = %s" % (
                    main[4], "equal" if main[5] == "1" else "different", p, qq), rp)
            elif o.startswith("polyvalue"):
                ctx.violation("C09/value-changed", "the coefficient dictionary of expand(p) differs from that of p: p = %s (or q = %s)" % (p, qq), rp)
    # ---- multinomial tables
    if ms:
        mm = ctx.run_lines(model, ["multinomial ;; %d ;; %d" % (m, n) for m, n in ms], timeout=1800, shards=8)
        for (m, n), line, out, mout in zip(ms, mlines, mo, mm):
            rp = {"family": "expsubs", "case": line}
            ctx.cov["evaluations"] += 1
            stats["mtables"] = stats.get("mtables", 0) + 1
            if "#ORACLE:multinomial" in out:
                ctx.violation("C09/multinomial-table-wrong", "multinomial_coefficients_mpz(%d, %d) is not the table of n!/prod k_i!: %s" % (m, n, out[:300]), rp)
            impl = out.split("\t")[0].strip()
            if impl != mout.strip():
                ctx.broken.append({"kind": "correspondence", "name": "C09 multinomial model vs library",
                                   "detail": "m=%d n=%d\nmodel %s\nimpl  %s" % (m, n, mout[:400], impl[:400])})
            else:
                ctx.cov["traces_validated_against_impl"] += 1


def replay(ctx, rep):
    drv, model = E.build(ctx)
    line = rep["replay"]["case"]
    out = ctx.run_lines(drv, [line])[0]
    print("case  :", line)
    print("impl  :", out)
    main, oracles = E.split_oracle(out)
    if line.startswith("X "):
        deep = line[2]
        print("model :", ctx.run_lines(model, ["expand ;; %s ;; %s" % (deep, main[0])])[0])
        if len(main) > 1 and not E.is_exn(main[1]):
            print("flags (expanded poly_frag xpoly_frag canonical) of the result:", ctx.run_lines(model, ["xflags ;; " + main[1]])[0])
    elif line.startswith("M "):
        f = line[2:].split(" ;; ")
        print("model :", ctx.run_lines(model, ["multinomial ;; %s ;; %s" % (f[0].strip(), f[1].strip())])[0])
    for o in oracles:
        print("oracle:", o)
