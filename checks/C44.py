"""C44 -- alternative printers are total and well-formed (MathML, LaTeX, Unicode/StringBox, Julia, SBML).
Model: coq/C44/MathMLModel.v (MathMLPrinter, XML token stream), coq/C44/StrModel.v (StrPrinter with the
Julia / SBML / LaTeX overrides, TeX token stream), coq/C44/BoxModel.v (StringBox operations and
UnicodePrinter), coq/C44/Names.v (function-name tables), coq/C44/Coverage.v (per-class rule table).
Theorems: coq/C44/P_*.v.
Tie: recipes of public API calls -> driver prints the dump of the expression and the text of every printer
(hex) -> the extracted model reads the dump and prints the same five texts; they must be identical byte
for byte.  StringBox operation histories (BOX lines) are compared the same way (width_, line count, text).
The name tables of the model are compared with the assignments read from the C++ sources.
Oracles in the driver, on the library's own output: XML well-formedness, TeX group / \\left-\\right nesting and
delimiters, equal display width of all lines of a Unicode rendering (and of every StringBox), order of the
exponent lines after add_power, no printer dies; parse_sbml(sbml(e)) == e whenever the model classifies e
as inside the SBML fragment (coq/C44/Sbml.v: sbml_fragment)."""
import os
import re
import vlib

PROOF_MODULES = ["C44/TotalBox.vo", "C44/TotalStr.vo", "C44/TotalFuel.vo", "C44/TotalProofs.vo", "C44/UnicodeProofs.vo", "C44/BoxProofs.vo", "C44/LatexProofs.vo", "C44/MathMLProofs.vo"]
OBLIGATIONS = [
    "C44/P_mathml_wellformed.v", "C44/P_mathml_total.v",
    "C44/P_latex_balanced_guarded.v", "C44/P_latex_balanced_refuted.v", "C44/P_latex_checker.v",
    "C44/P_stringbox_rect.v", "C44/P_stringbox_ops_rect.v",
    "C44/P_unicode_rect_guarded.v", "C44/P_unicode_rect_refuted.v", "C44/P_add_power_order_refuted.v",
    "C44/P_printers_total.v", "C44/P_unicode_total.v",
    "C44/P_coverage.v", "C44/P_throws_by_design.v",
    "C44/P_nonvacuous.v",
]
# C44's own Coq files in dependency order (until they are listed in coq/_CoqProject they are compiled
# here, directly with coqc, whenever a source or a shared library they load has changed)
OWN_FILES = ["C44/PrintBase.v", "C44/Names.v", "C44/NestSpec.v", "C44/MathMLModel.v", "C44/StrModel.v",
             "C44/BoxModel.v", "C44/Sbml.v", "C44/Coverage.v", "C44/C44Spec.v", "C44/NestProofs.v",
             "C44/TextProofs.v", "C44/MathMLProofs.v", "C44/LatexProofs.v", "C44/BoxProofs.v",
             "C44/UnicodeProofs.v", "C44/TotalProofs.v", "C44/TotalFuel.v", "C44/TotalStr.v", "C44/TotalBox.v"]
SHARED_DEPS = ["Base/Prelude.vo", "Base/Word64.vo", "Num/NumDefs.vo", "Gen/TypeCodes.vo", "Expr/ExprDefs.vo",
               "Expr/Hash.vo", "Expr/Cmp.vo", "Expr/Guards.vo", "Expr/Wf.vo", "Expr/IO.vo", "C39/QueryModel.vo"]


def build_own(ctx):
    """compile coq/C44/*.v (model, spec, proofs) when stale; a file that no longer compiles is a broken proof"""
    coq = vlib.COQ
    if vlib.in_project(OWN_FILES[0]):
        return True   # built by `make` through ctx.prove(PROOF_MODULES, ...)
    with vlib.Lock(os.path.join(vlib.WORK, "c44-coq.lock")):
        newest = max((os.path.getmtime(os.path.join(coq, d)) for d in SHARED_DEPS if os.path.exists(os.path.join(coq, d))), default=0)
        for f in OWN_FILES:
            src = os.path.join(coq, f)
            if not os.path.exists(src):
                continue
            vo = src + "o"
            newest = max(newest, os.path.getmtime(src))
            if os.path.exists(vo) and os.path.getmtime(vo) >= newest:
                newest = max(newest, os.path.getmtime(vo))
                continue
            rc, out = vlib.sh(["timeout", "1800", "coqc", "-Q", ".", "SE", "-w", "-notation-overridden", f], cwd=coq, timeout=1830)
            if rc != 0:
                ctx.broken.append({"kind": "proof", "name": f, "detail": out[-2500:]})
                return False
            newest = max(newest, os.path.getmtime(vo))
    return True


# ------------------------------------------------------------------------------------------ generators
SYMS = ["x", "y", "z", "w", "ab", "alpha", "x_1", "x_12", "theta_0", "_t", "a_b_c", "x_", "Gamma", "t__2"]
ODD_SYMS = ["(hexs ceb1)", "(hexs 78ceb1)", "(hexs 613c62)", "(hexs 612662)", "(hexs 7b78)", "(hexs 787d)", "(hexs 5c78)",
            "(hexs 785f7b317d)", "(hexs 5c616c7068615f7b317d)", "(hexs 6120 62)".replace(" ", ""), "(hexs )", "(hexs 5f)",
            "(hexs 785f5f)", "(hexs 457870)", "(hexs 70 69)".replace(" ", ""), "(hexs 696e66)", "(hexs 54727565)",
            # several XML special characters in one name, adjacent and apart: n<<2  x<&y  k>&m  f><g  <<<<  &&  a<b<c  >  &lt;  ><&
            "(hexs 6e3c3c32)", "(hexs 783c2679)", "(hexs 6b3e266d)", "(hexs 663e3c67)", "(hexs 3c3c3c3c)", "(hexs 2626)",
            "(hexs 613c623c63)", "(hexs 3e)", "(hexs 266c743b)", "(hexs 3e3c26)"]
INTS = ["(i 0)", "(i 1)", "(i -1)", "(i 2)", "(i -2)", "(i 3)", "(i 7)", "(i 10)", "(i -13)", "(i 123456789012345678901234567890)"]
RATS = ["(q 1 2)", "(q -1 2)", "(q 1 3)", "(q 2 3)", "(q -2 3)", "(q 3 7)", "(q 1 123)", "(q -22 7)", "(q 1 10)"]
CPLX = ["I", "(c 0 1 -1 1)", "(c 0 1 2 1)", "(c 0 1 -2 1)", "(c 1 1 1 1)", "(c 1 1 -1 1)", "(c 1 1 2 1)", "(c -5 1 6 1)",
        "(c 1 2 1 3)", "(c 0 1 2 3)", "(c -1 2 -3 4)", "(c 3 1 -1 2)"]
DBLS = ["(d 3ff0000000000000)", "(d 4000000000000000)", "(d bff8000000000000)", "(d 0000000000000000)", "(d 8000000000000000)",
        "(d 3fb999999999999a)", "(d 3fd3333333333334)", "(d 4202a05f20000000)", "(d 7e37e43c8800759c)", "(d 3e45798ee2308c3a)",
        "(d 40c3880000000000)", "(d 430c6bf526340000)", "(d 7ff0000000000000)", "(d fff0000000000000)", "(d 7ff8000000000000)",
        "(d 4002000000000000)", "(d c037000000000000)", "(d 3ff3c0ca428c59fb)"]
CDBLS = ["(cd 3ff0000000000000 4000000000000000)", "(cd 3ff0000000000000 c000000000000000)", "(cd 0000000000000000 8000000000000000)",
         "(cd 4002000000000000 c037000000000000)", "(cd bff8000000000000 3fb999999999999a)", "(cd 3ff0000000000000 7ff8000000000000)"]
SPECIAL = ["oo", "-oo", "zoo", "nan"]
CONSTS = ["pi", "E", "EulerGamma", "Catalan", "GoldenRatio"]
NUMS = INTS + RATS + CPLX + DBLS + CDBLS + SPECIAL
F1 = ["sin", "cos", "tan", "cot", "sec", "csc", "asin", "acos", "atan", "acot", "asec", "acsc", "sinh", "cosh", "tanh", "coth",
      "sech", "csch", "asinh", "acosh", "atanh", "acoth", "asech", "acsch", "log", "exp", "abs", "sign", "floor", "ceiling",
      "truncate", "conjugate", "gamma", "loggamma", "erf", "erfc", "lambertw", "zeta", "dirichlet_eta", "digamma", "trigamma",
      "sqrt", "cbrt"]
F2 = ["atan2", "log", "zeta", "beta", "polygamma", "lowergamma", "uppergamma", "kronecker_delta"]
ATOMSETS = ["emptyset", "universalset", "reals", "rationals", "integers", "naturals", "naturals0", "complexes"]


def sym(rng):
    return rng.choice(SYMS) if rng.random() < 0.93 else rng.choice(ODD_SYMS)


def num(rng):
    r = rng.random()
    if r < 0.35:
        return rng.choice(INTS)
    if r < 0.55:
        return rng.choice(RATS)
    if r < 0.70:
        return rng.choice(CPLX)
    if r < 0.85:
        return rng.choice(DBLS)
    if r < 0.92:
        return rng.choice(CDBLS)
    return rng.choice(SPECIAL)


def leaf(rng):
    r = rng.random()
    if r < 0.55:
        return sym(rng)
    if r < 0.62:
        return rng.choice(CONSTS)
    if r < 0.65:
        return "(dum %s)" % rng.choice(["u", "x", "t_1"])
    return num(rng)


def gen_e(rng, depth):
    """arithmetic expressions aimed at the case splits of the Add / Mul / Pow printers"""
    if depth <= 0 or rng.random() < 0.18:
        return leaf(rng)
    r = rng.random()
    a = gen_e(rng, depth - 1)
    if r < 0.16:
        return "(add %s %s)" % (a, gen_e(rng, depth - 1))
    if r < 0.24:
        return "(sub %s %s)" % (a, gen_e(rng, depth - 1))
    if r < 0.30:   # a term with an explicit (negative / rational / complex / float) coefficient
        return "(add (mul %s %s) %s)" % (num(rng), a, gen_e(rng, depth - 1))
    if r < 0.42:
        return "(mul %s %s)" % (a, gen_e(rng, depth - 1))
    if r < 0.50:
        return "(div %s %s)" % (a, gen_e(rng, depth - 1))
    if r < 0.55:
        return "(mul %s %s)" % (num(rng), a)
    if r < 0.60:   # several denominator factors, numerator 1 or -1
        return "(div %s (mul %s %s))" % (rng.choice(["(i 1)", "(i -1)", "(q 1 2)", a]), gen_e(rng, depth - 1), sym(rng))
    if r < 0.72:
        ex = rng.choice(["(i 2)", "(i 3)", "(i -1)", "(i -2)", "(i 10)", "(q 1 2)", "(q -1 2)", "(q 1 3)", "(q 2 3)", "(q -3 2)",
                         "x", "(neg x)", "(div y z)", "(add x (i 1))", gen_e(rng, depth - 1)])
        return "(pow %s %s)" % (a, ex)
    if r < 0.76:
        return "(pow E %s)" % a
    if r < 0.88:
        return "(f1 %s %s)" % (rng.choice(F1), a)
    if r < 0.92:
        return "(f2 %s %s %s)" % (rng.choice(F2), a, gen_e(rng, depth - 1))
    if r < 0.94:
        return "(%s %s %s %s)" % (rng.choice(["max", "min"]), a, gen_e(rng, depth - 1), sym(rng))
    if r < 0.97:
        k = rng.randint(0, 3)
        return "(fs %s%s)" % (rng.choice(["f", "g", "F_1", "sin"]), "".join(" " + gen_e(rng, depth - 1) for _ in range(k)))
    if r < 0.98:
        return "(levi %s %s %s)" % (sym(rng), sym(rng), a)
    return rng.choice(["(uneval %s)" % a, "(primepi %s)" % a, "(primorial %s)" % a])


def gen_rel(rng, depth):
    op = rng.choice(["eq", "ne", "lt", "le", "gt", "ge"])
    return "(%s %s %s)" % (op, gen_e(rng, depth), gen_e(rng, depth))


def gen_bool(rng, depth):
    if depth <= 0 or rng.random() < 0.35:
        r = rng.random()
        if r < 0.8:
            return gen_rel(rng, 1)
        if r < 0.9:
            return "(contains %s %s)" % (gen_e(rng, 1), gen_set(rng, 1))
        return rng.choice(["true", "false"])
    r = rng.random()
    k = rng.randint(2, 3)
    if r < 0.32:
        return "(and %s)" % " ".join(gen_bool(rng, depth - 1) for _ in range(k))
    if r < 0.64:
        return "(or %s)" % " ".join(gen_bool(rng, depth - 1) for _ in range(k))
    if r < 0.82:
        return "(xor %s)" % " ".join(gen_bool(rng, depth - 1) for _ in range(k))
    return "(not %s)" % gen_bool(rng, depth - 1)


def gen_set(rng, depth):
    if depth <= 0 or rng.random() < 0.45:
        r = rng.random()
        if r < 0.4:
            ends = [rng.choice(INTS[:8] + RATS + ["(d 3ff8000000000000)"]) for _ in range(2)]
            lo = rng.choice(ends + ["-oo"])
            hi = rng.choice(ends + ["oo"])
            return "(interval %s %s %d %d)" % (lo, hi, rng.randint(0, 1), rng.randint(0, 1))
        if r < 0.7:
            return "(fset %s)" % " ".join(gen_e(rng, 1) for _ in range(rng.randint(1, 3)))
        return rng.choice(ATOMSETS)
    r = rng.random()
    if r < 0.3:
        return "(union %s %s)" % (gen_set(rng, depth - 1), gen_set(rng, depth - 1))
    if r < 0.5:
        return "(isect %s %s)" % (gen_set(rng, depth - 1), gen_set(rng, depth - 1))
    if r < 0.7:
        return "(compl %s %s)" % (gen_set(rng, depth - 1), gen_set(rng, depth - 1))
    v = rng.choice(SYMS[:4])
    if r < 0.85:
        return "(imageset %s %s %s)" % (v, rng.choice(["(pow %s (i 2))" % v, "(div %s y)" % v, gen_e(rng, 1)]), gen_set(rng, depth - 1))
    return "(condset %s %s)" % (v, rng.choice(["(gt %s (i 0))" % v, "(and (lt %s y) (gt %s (q 1 2)))" % (v, v), gen_bool(rng, 1)]))


def gen_pw(rng, depth):
    k = rng.randint(1, 3)
    items = []
    for j in range(k):
        last = j == k - 1
        cond = "true" if (last and rng.random() < 0.5) else gen_bool(rng, 1)
        items.append("%s %s" % (gen_e(rng, depth - 1), cond))
    return "(pw %s)" % " ".join(items)


def gen_deriv(rng):
    r = rng.random()
    v, v2, v3 = rng.sample(SYMS[:5], 3)
    if r < 0.25:
        return "(deriv (fs f %s) %s)" % (v, v)
    if r < 0.45:
        return "(deriv (fs f %s %s) %s)" % (v, v2, rng.choice([v, v2]))
    if r < 0.75:
        xs = " ".join(rng.choice([v, v2, v3]) for _ in range(rng.randint(2, 4)))
        return "(deriv (fs f %s %s %s) %s)" % (v, v2, v3, xs)
    if r < 0.85:
        return "(diff (fs f (fs g %s %s) %s) %s)" % (v, v2, v3, v)
    if r < 0.95:
        return "(Subs (deriv (fs f %s %s) %s) %s %s)" % (v, v2, v, v, rng.choice([v3, "(i 0)", "(add %s (i 1))" % v]))
    return "(Subs (deriv (fs f %s %s) %s %s) %s %s %s %s)" % (v, v2, v, v2, v, gen_e(rng, 1), v2, "(q 1 2)")


def gen_case(rng):
    r = rng.random()
    if r < 0.52:
        return gen_e(rng, rng.randint(1, 4))
    if r < 0.64:
        return gen_bool(rng, rng.randint(0, 3))
    if r < 0.76:
        return gen_set(rng, rng.randint(0, 3))
    if r < 0.84:
        return gen_pw(rng, 2)
    if r < 0.92:
        d = gen_deriv(rng)
        return d if rng.random() < 0.6 else "(add %s %s)" % (d, gen_e(rng, 1))
    if r < 0.96:
        return "(mul %s %s)" % (gen_pw(rng, 1), gen_e(rng, 1))
    return "(f1 %s %s)" % (rng.choice(["abs", "floor", "ceiling", "sin", "gamma"]), gen_e(rng, 3))


# expressions inside the SBML fragment (round trip expected)
SB_SYMS = ["x", "y", "z", "k_1", "Vmax", "ab"]
SB_F1 = ["sin", "cos", "tan", "cot", "sec", "csc", "asin", "acos", "atan", "acot", "asec", "acsc", "sinh", "cosh", "tanh", "coth",
         "sech", "csch", "asinh", "acosh", "atanh", "acoth", "asech", "acsch", "log", "exp", "abs", "floor", "ceiling", "gamma", "sqrt"]


def gen_sbml(rng, depth):
    if depth <= 0 or rng.random() < 0.22:
        r = rng.random()
        if r < 0.6:
            return rng.choice(SB_SYMS)
        if r < 0.85:
            return rng.choice(INTS + RATS)
        return rng.choice(["pi", "E", "oo", "-oo", "nan"])
    r = rng.random()
    a = gen_sbml(rng, depth - 1)
    b = gen_sbml(rng, depth - 1)
    if r < 0.2:
        return "(add %s %s)" % (a, b)
    if r < 0.3:
        return "(sub %s %s)" % (a, b)
    if r < 0.48:
        return "(mul %s %s)" % (a, b)
    if r < 0.58:
        return "(div %s %s)" % (a, b)
    if r < 0.70:
        return "(pow %s %s)" % (a, rng.choice(["(i 2)", "(i -1)", "(q 1 2)", "(q -1 3)", "(i 3)", b]))
    if r < 0.88:
        return "(f1 %s %s)" % (rng.choice(SB_F1), a)
    if r < 0.92:
        return "(%s %s %s)" % (rng.choice(["max", "min"]), a, b)
    if r < 0.96:
        return "(fs %s %s %s)" % (rng.choice(["f", "rate"]), a, b)
    return "(pw %s (lt %s %s) %s %s)" % (a, rng.choice(SB_SYMS), b, gen_sbml(rng, depth - 1), rng.choice(["true", "(ge x (i 0))"]))


def gen_sbml_bool(rng):
    r = rng.random()
    rel = lambda: "(%s %s %s)" % (rng.choice(["eq", "ne", "lt", "le", "gt", "ge"]), gen_sbml(rng, 1), gen_sbml(rng, 1))
    if r < 0.4:
        return rel()
    if r < 0.6:
        return "(and %s %s)" % (rel(), rel())
    if r < 0.8:
        return "(or %s (and %s %s))" % (rel(), rel(), rel())
    return "(xor %s %s)" % (rel(), rel())


# StringBox histories
BOX_STR = ["78", "313233", "2d", "", "20", "612b62", "e28895", "f09d9196", "78ceb1", "e288927a"]


def gen_box(rng):
    toks = []
    depth = 0
    n = rng.randint(2, 9)
    for _ in range(n):
        r = rng.random()
        if depth == 0 or (r < 0.35 and depth < 4):
            q = rng.random()
            if q < 0.75:
                toks.append("s" + rng.choice(BOX_STR[:6]))
            elif q < 0.9:
                h = rng.choice(BOX_STR[6:])
                toks.append("w%s:%d" % (h, len(bytes.fromhex(h).decode("utf-8"))))
            elif q < 0.92:
                toks.append("s" + rng.choice(BOX_STR[6:]))          # byte width != display width
            else:
                toks.append("e")
            depth += 1
        elif depth >= 2 and r < 0.7:
            toks.append(rng.choice(["below", "line", "right", "right", "power"]))
            depth -= 1
        else:
            toks.append(rng.choice(["abs", "parens", "sq", "curly", "floor", "ceil", "sqrt", "lparen", "rparen", "lsq", "rsq",
                                    "lcurly", "rcurly"]))
    while depth > 1:
        toks.append(rng.choice(["below", "line", "right", "power"]))
        depth -= 1
    return "BOX " + " ".join(toks)


def every_function_class():
    out = []
    for f in F1:
        out.append("(f1 %s x)" % f)
        out.append("(f1 %s (div x y))" % f)
    for f in F2:
        out.append("(f2 %s x y)" % f)
    out += ["(max x y)", "(min x y z)", "(levi x y z)", "(primepi x)", "(primorial x)", "(uneval (add x y))", "(uneval x)"]
    return out


CORPUS = [
    # witnesses of the refutation theorems / reported defects
    "(div (c 0 1 2 1) x)", "(add (c 1 1 2 1) (div x y))", "(fs f)", "(add (fs f) (div x y))", "(fset (i 1) (i 2))",
    "(union (fset x) (interval (i 0) (i 1) 0 0))", "-oo", "(mul -oo x)", "(hexs 613c62)", "(hexs 612662)",
    "(hexfs 663c x)", "(hexfs 663e3c67 y)", "(hexs 6e3c3c32)", "(add (i 1) (hexs 783c2679))", "(f1 sin (hexs 6b3e266d))", "(hexs 3c3c3c3c)", "(pow x (div y z))", "BOX s78 s79 s7a line power", "(div (i 1) (mul x y))", "(sub y x)",
    "(sub z (mul (i 2) x))", "(add (mul (q -2 3) x) y)", "(interval (q 1 2) (i 3) 0 0)", "(interval (q 1 2) oo 0 1)",
    "(hexs ceb1)", "(div (hexs ceb1) y)", "(hexs 7b)", "(hexs 787d)", "(hexs 785f7d)",
    # numbers of every kind, alone and as coefficient / exponent / denominator
] + NUMS + CONSTS + ["(mul %s x)" % n for n in NUMS] + ["(add %s x)" % n for n in NUMS] + ["(pow x %s)" % n for n in INTS + RATS + CPLX[:4]] \
  + ["(pow %s x)" % n for n in INTS[1:] + RATS + CPLX[:3] + DBLS[:3] + CONSTS] + ["(div x %s)" % n for n in INTS[1:] + RATS + CPLX[:4]] \
  + ["(add (mul %s x) y)" % n for n in INTS + RATS + CPLX[:5] + DBLS[:4]] + ["(add y (mul %s (pow x (i 2))))" % n for n in INTS + RATS] \
  + SYMS + ODD_SYMS + ["(dum x)", "(dum t_1)"] + ATOMSETS + every_function_class() + [
    "(fs f x)", "(fs f x y)", "(fs g (div x y) (pow x (i 2)))", "(hexfs 616c706861 x)",
    "(eq x y)", "(ne x y)", "(lt x y)", "(le x y)", "(lt (eq x y) z)", "(eq x (lt y z))", "true", "false",
    "(and (lt x (i 1)) (lt y (i 1)))", "(or (lt x (i 1)) (lt y (i 1)))", "(xor (lt x (i 1)) (lt y (i 1)))",
    "(and (lt x (i 1)) (or (lt y (i 1)) (lt z (i 2))))", "(or (lt x (i 1)) (and (lt y (i 1)) (lt z (i 2))))",
    "(xor (lt x (i 1)) (and (lt y (i 1)) (lt z (i 2))))", "(and (xor (lt x (i 1)) (lt y (i 2))) (lt z (i 3)))",
    "(not (contains x reals))", "(contains x (interval (i 0) (i 1) 1 1))", "(contains (div x y) (fset (i 1) (q 1 2)))",
    "(pw x (lt x (i 0)) (i 1) true)", "(pw x (lt x (i 0)) (i 1) (lt x (i 5)))", "(pw (div x y) (lt x (i 0)) (q 1 123) true)",
    "(pw x (lt x (i 0)))", "(pw x (contains x reals))", "(add (pw x (lt x (i 0)) y true) z)",
    "(interval (i 0) (i 1) 0 0)", "(interval (i 0) (i 1) 1 0)", "(interval (i 0) (i 1) 0 1)", "(interval (i 0) (i 1) 1 1)",
    "(interval -oo oo 1 1)", "(interval (q -1 2) (q 3 7) 0 1)", "(fset x)", "(fset (div x y) (i 1))", "(fset (i 1) (i 2) (i 3))",
    "(union (interval (i 0) (i 1) 0 0) (fset (i 5)))", "(union integers (fset (q 1 2)))", "(isect reals (fset x))",
    "(compl reals (fset (i 5)))", "(compl reals rationals)", "(imageset x (pow x (i 2)) reals)", "(imageset x (div x y) (interval (i 0) (i 1) 0 0))",
    "(condset x (gt x (i 0)))", "(condset x (and (gt x (i 0)) (lt x (div y z))))", "(union (imageset x (mul (i 2) x) integers) (fset (i 1)))",
    "(deriv (fs f x) x)", "(deriv (fs f x y) x)", "(deriv (fs f x y) x x)", "(deriv (fs f x y) x y)", "(deriv (fs f x y z) x x y z z z)",
    "(deriv (fs f (add x (i 1))) x)", "(diff (fs f (fs g x y) z) x)", "(Subs (deriv (fs f x y) x) x z)",
    "(Subs (deriv (fs f x y) x y) x (i 0) y (div z w))", "(add (deriv (fs f x) x) (i 1))", "(mul (i 2) (Subs (deriv (fs f x y) x) x z))",
    "(f1 abs (div x y))", "(f1 floor (div x y))", "(f1 ceiling (div x y))", "(sqrt (div x y))", "(sqrt x)", "(pow (sqrt (div x y)) (i 3))",
    "(exp x)", "(mul (i 2) (exp x))", "(exp (div x y))", "(div (i 1) (exp x))", "(pow (add x (i 1)) (i 2))", "(pow (add x (i 1)) (div y z))",
    "(pow x (pow y z))", "(pow (pow x y) z)", "(pow (neg x) (i 2))", "(pow (i -2) x)", "(pow (q 1 2) x)", "(div y (pow x (i 2)))",
    "(div (mul x y) (mul z w))", "(mul (q 1 2) (pow x (i -1)))", "(mul (i -1) (pow x (i -1)))", "(mul (c 1 2 1 3) x)",
    "(mul (i -1) (add x y))", "(add x (mul (i -1) (add y z)))", "(mul (add x y) (add z w))", "(div (add x y) (add z w))",
    "(mul x (pow y (q -1 2)))", "(mul x (pow E (neg y)))", "(mul (pow x (q 1 3)) (pow y (q -1 3)))",
    "(f1 gamma (add x y))", "(f1 gamma (mul (i 2) x))", "(f1 log (add x y))", "(f1 sin (f1 cos (div x y)))",
    "BOX s78 s79 line", "BOX s313233 s78 line parens", "BOX s78 s79 s7a line right", "BOX s78 s79 s7a line s77 right sqrt",
    "BOX s78 s79 line curly", "BOX s78 s79 s7a line s31 below curly", "BOX s78 s79 below lcurly", "BOX s78 s79 below rcurly",
    "BOX s78 s79 line floor", "BOX s78 s79 line ceil", "BOX s78 s79 line abs", "BOX s78 s79 line sq", "BOX s78 s79 s7a line s74 below sq",
    "BOX e s78 right", "BOX e s78 below", "BOX s e right", "BOX s78 s79 s7a line below power", "BOX s78 s79 s7a s77 line line sqrt",
    "BOX e parens", "BOX e curly", "BOX e floor", "BOX e ceil", "BOX e sqrt", "BOX e abs", "BOX sceb1 s78 line", "BOX wceb1:1 s78 line",
]

FIELDS = [("M", "mathml"), ("L", "latex"), ("U", "unicode"), ("J", "julia"), ("S", "sbml")]


def fields_of(text):
    out = {}
    for part in text.split("\t"):
        k, sep, v = part.partition("=")
        if sep and len(k) == 1:
            out[k] = v
    return out


def show(v):
    if v is None:
        return "(missing)"
    if re.fullmatch(r"(?:[0-9a-f]{2})*", v):
        try:
            return repr(bytes.fromhex(v).decode("utf-8", "replace"))[:300]
        except ValueError:
            return v[:300]
    return v[:300]


DUMP_CLASS = {"I": "Integer", "Q": "Rational", "C": "Complex", "D": "RealDouble", "CD": "ComplexDouble", "Inf": "Infty",
              "NaN": "NaN", "Sym": "Symbol", "Dummy": "Dummy", "Const": "Constant", "Add": "Add", "Mul": "Mul", "Pow": "Pow",
              "FunSym": "FunctionSymbol", "Deriv": "Derivative", "Subs": "Subs", "Pw": "Piecewise", "Bool": "BooleanAtom",
              "Interval": "Interval"}


def class_of_dump(d):
    """class names of all nodes of a dump"""
    out = set()
    for m in re.finditer(r"\((\w+)(?: (\w+))?", d):
        tag, nxt = m.group(1), m.group(2)
        if tag in DUMP_CLASS:
            out.add(DUMP_CLASS[tag])
        elif tag in ("F1", "F2", "FN", "Lex", "Atom") and nxt:
            out.add(nxt)
    return out


def split_out(line):
    head, sep, rest = line.partition("\t=>\t")
    if not sep:
        return None, line, []
    parts = rest.split("\t#ORACLE:")
    return head, parts[0], parts[1:]


# ------------------------------------------------------------------------------------------ table tie
TABLE_SOURCES = {
    "str": ("symengine/printers/strprinter.cpp", "init_str_printer_names"),
    "mathml": ("symengine/printers/mathml.cpp", "init_mathml_printer_names"),
    "sbml": ("symengine/printers/sbml.cpp", "init_sbml_printer_names"),
    "latex": ("symengine/printers/latex.cpp", "init_latex_printer_names"),
    "unicode": ("symengine/printers/unicode.cpp", "init_unicode_printer_names"),
    "unicode_len": ("symengine/printers/unicode.cpp", "init_unicode_printer_lengths"),
}


def c_unescape(s):
    out = bytearray()
    i = 0
    while i < len(s):
        c = s[i]
        if c == "\\" and i + 1 < len(s):
            d = s[i + 1]
            if d == "u":
                out += chr(int(s[i + 2:i + 6], 16)).encode("utf-8")
                i += 6
                continue
            if d == "U":
                out += chr(int(s[i + 2:i + 10], 16)).encode("utf-8")
                i += 10
                continue
            out += {"n": b"\n", "t": b"\t", "\\": b"\\", '"': b'"'}.get(d, d.encode())
            i += 2
            continue
        out += c.encode("utf-8")
        i += 1
    return bytes(out)


def class_names():
    """SYMENGINE_X -> class name, from type_codes.inc"""
    txt = open(os.path.join(vlib.REPO, "symengine/type_codes.inc")).read()
    return {m.group(1): m.group(2) for m in re.finditer(r"SYMENGINE_ENUM\(SYMENGINE_(\w+),\s*(\w+)\)", txt)}


def source_tables():
    """name tables read from the C++ sources: {table: {class name: bytes or int}}"""
    cn = class_names()
    tabs = {}
    for key, (path, fn) in TABLE_SOURCES.items():
        txt = open(os.path.join(vlib.REPO, path), encoding="utf-8").read()
        m = re.search(re.escape(fn) + r"\s*\([^)]*\)\s*\{(.*?)\n\}", txt, re.S)
        if not m:
            tabs[key] = None
            continue
        body = m.group(1)
        t = {}
        if key == "unicode_len":
            for a in re.finditer(r"lengths\[SYMENGINE_(\w+)\]\s*=\s*(\d+)\s*;", body):
                t[cn.get(a.group(1), a.group(1))] = int(a.group(2))
        else:
            for a in re.finditer(r"names\[SYMENGINE_(\w+)\]\s*=\s*(?:U8\()?\s*\"((?:[^\"\\]|\\.)*)\"\s*\)?\s*;", body):
                t[cn.get(a.group(1), a.group(1))] = c_unescape(a.group(2))
        tabs[key] = t
    return tabs


def check_tables(ctx, model):
    """the tables of coq/C44/Names.v (printed by the extracted model) against the C++ sources"""
    out = ctx.run_lines(model, ["TABLES"])
    if not out or not out[0].startswith("TABLES"):
        ctx.broken.append({"kind": "correspondence", "name": "C44 tables", "detail": "model printed no tables: %r" % (out[:1],)})
        return
    mt = {}
    for part in out[0].split("\t")[1:]:
        name, _, rest = part.partition(":")
        d = {}
        for item in rest.split(","):
            if not item:
                continue
            k, _, v = item.partition("=")
            d[k] = v
        mt[name] = d
    src = source_tables()
    n = 0
    for key in TABLE_SOURCES:
        if src.get(key) is None:
            ctx.broken.append({"kind": "translator", "name": "C44 table " + key, "detail": "cannot find %s in %s" % TABLE_SOURCES[key][::-1]})
            continue
        want = {}
        for k, v in src[key].items():
            if key == "unicode_len":
                want[k] = str(v)
            else:
                want[k] = v.hex()
        got = mt.get(key, {})
        # entries with the empty string are the default and are not listed by the model
        want = {k: v for k, v in want.items() if v != ""}
        n += len(want)
        if want != got:
            diff = sorted(set(want.items()) ^ set(got.items()))[:6]
            ctx.violation("C44/table:" + key,
                          "the %s name table of the source (%s) differs from the modelled table: %s" % (
                              key, TABLE_SOURCES[key][0], ", ".join("%s=%s" % (k, show(v)) for k, v in diff)),
                          {"family": "C44", "case": "TABLES", "table": key, "source": want, "model": got})
            ctx.broken.append({"kind": "correspondence", "name": "C44 table " + key, "detail": str(diff)})
    ctx.cov["evaluations"] += n
    ctx.cov["table_entries_compared"] = n
    ctx.modelled_classes = [c for c in mt.get("classes", {}).keys()]


# ------------------------------------------------------------------------------------------ run
def run(ctx):
    ctx.gate(["Base", "Gen", "Num", "Expr", "C44"])
    build_own(ctx)
    ctx.prove(PROOF_MODULES, [o for o in OBLIGATIONS if os.path.exists(os.path.join(vlib.COQ, o))])
    missing = [o for o in OBLIGATIONS if not os.path.exists(os.path.join(vlib.COQ, o))]
    if missing:
        ctx.broken.append({"kind": "proof", "name": "missing obligation files", "detail": " ".join(missing)})
    drv = ctx.build_driver("c44_driver")
    model = ctx.build_model("C44", "C44/Extract.v", "c44_main.ml", "semodel", extra_ml=["expr_io.ml"])
    quick = ctx.tier == "quick"
    n_expr, n_sbml, n_box = (1500, 400, 500) if quick else (30000, 8000, 12000)
    cases = list(CORPUS)
    cases += [gen_case(ctx.rng) for _ in range(n_expr)]
    cases += [gen_sbml(ctx.rng, ctx.rng.randint(1, 4)) for _ in range(n_sbml)]
    cases += [gen_sbml_bool(ctx.rng) for _ in range(n_sbml // 5)]
    cases += [gen_box(ctx.rng) for _ in range(n_box)]
    if model is not None:
        check_tables(ctx, model)
    explore(ctx, drv, model, cases)
    # every modelled class of type_codes.inc must have been printed at least once
    seen = getattr(ctx, "seen_classes", set())
    missing_cls = [c for c in getattr(ctx, "modelled_classes", []) if c not in seen]
    ctx.cov["classes_exercised"] = "%d of %d modelled classes" % (len(getattr(ctx, "modelled_classes", [])) - len(missing_cls),
                                                                  len(getattr(ctx, "modelled_classes", [])))
    if missing_cls and drv is not None and model is not None:
        ctx.broken.append({"kind": "correspondence", "name": "C44 class coverage",
                           "detail": "no generated expression contains a node of class: " + " ".join(missing_cls)})
    if ctx.broken and not ctx.violations:
        explore(ctx, drv, model, [gen_case(ctx.rng) for _ in range(4000)] + [gen_box(ctx.rng) for _ in range(2000)], search=True)
    ctx.cov["rule"] = ("recipes of public API calls (numbers of every class as atoms / coefficients / exponents / denominators, sums with "
                       "positive, negative, rational, complex and float coefficients, products with numerators and several denominator "
                       "factors, powers incl. E**x, sqrt, n-th roots, one-character and long exponents, every Function class of the "
                       "name tables, FunctionSymbols with 0..3 arguments, relationals nested in relationals, And/Or/Xor nested in each "
                       "other, Not, Contains, Piecewise with and without default, intervals, finite sets, unions, intersections, "
                       "complements, ImageSet, ConditionSet, Derivative (one / several / repeated symbols), Subs, symbols with greek "
                       "names, underscores, UTF-8 and XML/TeX special characters, Dummies) and histories of StringBox operations; "
                       "evaluations = printer texts (5 per expression) / box states compared byte for byte, plus table entries; "
                       "non-trivial = the expression is not an atom and at least one printer produced text; distinct = distinct dumps")
    ctx.notes += [
        "rendering defects outside the statement of C44 (text well formed, content wrong), transcribed by the model and "
        "reproduced on the library: unicode(1/(x*y)) has a dangling product sign after the numerator 1 (recipe `(div (i 1) (mul x y))`); "
        "unicode(y - x) prints `x - y` and unicode(-2*x + z) prints `-2*x - z` (the minus flag of an Add is consumed by the wrong term; "
        "recipes `(sub y x)`, `(sub z (mul (i 2) x))`); add_right_sqbracket puts the extension piece U+23A5 on the last line and the corner "
        "U+23A6 on the middle lines (recipe `(interval (q 1 2) (i 3) 0 0)`); latex(Interval) prints the end points with str(), e.g. `\\left[1/2, oo\\right)`",
    ]
    ctx.assumptions += [
        "display width of a Unicode line = number of code points (every glyph one column); the theorems and the oracle use the same definition",
        "ostream << double with precision 15 is glibc's \"%.15g\" (model: exact decimal arithmetic, validated bit-for-bit by the tie)",
        "std::map / std::set ordered by PrinterBasicCmp / RCPBasicKeyLess is a list sorted by the modelled comparator (C02)",
        "ImageSet / ConditionSet are represented as EFN nodes with their own type codes; classes outside the AST (polynomials, series, "
        "matrices, Tuple, NumberWrapper, RealMPFR, ComplexMPC) are dumped Opaque and skipped",
        "free_symbols (LaTeX Derivative: d vs \\partial) is the C39 model of FreeSymbolsVisitor",
        "SBML round trip: evaluated on the library (parse_sbml(sbml(e)) == e) for expressions the model classifies as inside the fragment; "
        "not proved in Coq (it needs the canonicalising constructors add/mul/pow)",
        "PROOF_MODULES is empty until coq/C44/*.v are listed in coq/_CoqProject: the check compiles them itself with coqc when stale",
    ]


def box_inputs_rect(script):
    """do all boxes pushed by a BOX script satisfy 'display width of the line = width_'?"""
    for t in script.split()[1:]:
        if t[0] == "s" and t not in ("sq", "sqrt"):
            if any(b >= 128 for b in bytes.fromhex(t[1:])):
                return False
        elif t[0] == "w":
            h, _, n = t[1:].partition(":")
            if sum(1 for b in bytes.fromhex(h) if (b & 0xC0) != 0x80) != int(n):
                return False
    return True


def oracle_key(cls, text, head, g):
    """class of an oracle failure, or None when the failure is outside every theorem's hypothesis by design.
    g = guard flags of the model: mathml, latex, unicode, sbml fragment, latex names."""
    g = (g + "00000")[:5]
    if cls == "mathml-malformed":
        return "C44/mathml-malformed"
    if cls in ("latex-unbalanced", "latex-bad-delimiter"):
        if g[1] == "1":
            return "C44/" + cls
        if g[4] == "0":
            return None          # a name containing \ { } is passed through verbatim by design
        return "C44/latex-finiteset-delimiter"
    if cls in ("unicode-not-rect", "unicode-width-field"):
        return "C44/" + cls if g[2] == "1" else "C44/unicode:non-ascii-name"
    if cls in ("stringbox-not-rect", "stringbox-width-field"):
        return "C44/" + cls if box_inputs_rect(head) else None
    if cls.startswith("crash-"):
        return "C44/crash:" + {"M": "mathml", "L": "latex", "U": "unicode", "J": "julia", "S": "sbml"}.get(cls[6:], cls[6:])
    return "C44/" + cls


def explore(ctx, drv, model, cases, search=False):
    if drv is None or model is None:
        return
    impl = ctx.run_lines(drv, cases, timeout=3000, shards=16)
    heads, results, oracles, idx = [], [], [], []
    for i, line in enumerate(impl):
        if line.startswith("SKIP"):
            continue
        head, res, orc = split_out(line)
        if head is None:
            if line.startswith("DIED") or "CRASH" in line or "HANG" in line or "NOOUTPUT" in line:
                ctx.violation("C44/crash", "case `%s` ends with %s on the library" % (cases[i], line[-80:]),
                              {"family": "C44", "case": cases[i], "impl": line[-300:]})
            else:
                ctx.broken.append({"kind": "correspondence", "name": "C44 driver output", "detail": cases[i] + "\n" + line[-300:]})
            continue
        heads.append(head)
        results.append(res)
        oracles.append(orc)
        idx.append(i)
    mod = ctx.run_lines(model, heads, timeout=3000, shards=16)
    ndis = 0
    nontriv = set()
    frag = ctx.cov.setdefault("cases_by_hypothesis", {"sbml_fragment": 0, "sbml_fragment_roundtrip_ok": 0, "mathml_guard": 0,
                                                     "latex_guard": 0, "unicode_guard": 0, "expressions": 0, "box_histories": 0})
    for k, i in enumerate(idx):
        m, _, g = mod[k].partition("\t#G:")
        ctx.cov["traces_validated_against_impl"] += 1
        is_box = heads[k].startswith("BOX ")
        for o in oracles[k]:
            cls, _, text = o.partition(":")
            key = oracle_key(cls, text, heads[k], g)
            if cls == "stringbox-power-order":
                # outside the statement of C44 (the box stays rectangular): reported as a note
                note = "add_power stacks the lines of a multi-line exponent in reverse order (e.g. `%s`): rendering defect outside the property statement" % cases[i]
                if not any(n.startswith("add_power stacks") for n in ctx.notes):
                    ctx.notes.append(note)
                continue
            if key is None:
                frag["oracle_failures_outside_hypotheses_by_design"] = frag.get("oracle_failures_outside_hypotheses_by_design", 0) + 1
                continue
            ctx.violation(key, "case `%s`: %s" % (cases[i], text.strip()[:400]),
                          {"family": "C44", "case": cases[i], "impl": results[k][:2000], "model": m[:2000]})
        if m.startswith("UNSUPPORTED") or m.startswith("FAIL") or m.startswith("NOOUTPUT"):
            ndis += 1
            if ndis <= 3:
                ctx.broken.append({"kind": "correspondence", "name": "C44 model reader", "detail": m + "\n" + cases[i] + "\n" + heads[k]})
            continue
        if is_box:
            frag["box_histories"] += 1
            ctx.cov["evaluations"] += 1
            lib = results[k]
            if "H=" in lib and " H=1 " not in lib:
                nontriv.add(heads[k])
            if m != lib and not (m == "OOB" and "CRASH" in lib):
                ndis += 1
                if ndis <= 3:
                    ctx.broken.append({"kind": "correspondence", "name": "C44 StringBox history",
                                       "detail": "case `%s`\nmodel   %s\nlibrary %s" % (cases[i], m[:300], lib[:300])})
                ctx.violation("C44/model-mismatch:stringbox", "library and proved model disagree on `%s`: model %s | library %s" % (
                    cases[i], m[:200], lib[:200]), {"family": "C44", "case": cases[i], "impl": lib, "model": m})
            continue
        frag["expressions"] += 1
        lf, mf = fields_of(results[k]), fields_of(m)
        if not hasattr(ctx, "seen_classes"):
            ctx.seen_classes = set()
        ctx.seen_classes.update(class_of_dump(heads[k]))
        if heads[k].count("(") > 1 and any(re.fullmatch(r"(?:[0-9a-f]{2})+", lf.get(f, "")) for f, _ in FIELDS):
            nontriv.add(heads[k])
        for f, name in FIELDS:
            ctx.cov["evaluations"] += 1
            lv, mv = lf.get(f), mf.get(f)
            if mv == "OOB" and lv is not None and lv.startswith("CRASH"):
                continue                     # the model predicts the out-of-range access the library aborts on
            if lv != mv:
                ndis += 1
                if ndis <= 3:
                    ctx.broken.append({"kind": "correspondence", "name": "C44 %s text" % name,
                                       "detail": "case `%s`\nmodel   %s\nlibrary %s" % (cases[i], show(mv), show(lv))})
                ctx.violation("C44/model-mismatch:" + name,
                              "library and proved model disagree on %s(`%s`): model %s | library %s" % (name, cases[i], show(mv), show(lv)),
                              {"family": "C44", "case": cases[i], "impl": results[k][:2000], "model": m[:2000]})
        # guard flags of the model: #G:<mathml><latex><unicode><sbml fragment>
        if len(g) >= 4:
            frag["mathml_guard"] += g[0] == "1"
            frag["latex_guard"] += g[1] == "1"
            frag["unicode_guard"] += g[2] == "1"
            if g[3] == "1":
                frag["sbml_fragment"] += 1
                r = lf.get("R", "-")
                if r == "1":
                    frag["sbml_fragment_roundtrip_ok"] += 1
                else:
                    back = r[2:] if r.startswith("0:") else r
                    ctx.violation("C44/sbml-roundtrip" + (":neg-infinity-base" if "(Pow (Inf -1)" in heads[k] else ""),
                                  "parse_sbml(sbml(e)) != e for `%s` inside the SBML fragment: sbml = %s, parsed back = %s" % (
                                      cases[i], show(lf.get("S")), show(back)),
                                  {"family": "C44", "case": cases[i], "impl": results[k][:2000], "model": m[:2000]})
    ctx.cov["distinct_nontrivial"] += len(nontriv)
    if not search:
        for k in range(min(8, len(idx))):
            ctx.cov["samples"].append({"case": cases[idx[k]], "impl": results[k][:300], "model": mod[k][:300]})


def replay(ctx, rep):
    build_own(ctx)
    drv = ctx.build_driver("c44_driver")
    model = ctx.build_model("C44", "C44/Extract.v", "c44_main.ml", "semodel", extra_ml=["expr_io.ml"])
    c = rep["replay"]["case"]
    if c == "TABLES":
        print("table  :", rep["replay"].get("table"))
        check_tables(ctx, model)
        for v in ctx.violations:
            print("differs:", v["what"])
        return
    line = ctx.run_lines(drv, [c])[0]
    head, res, orc = split_out(line)
    print("case   :", c)
    if head is None:
        print("library:", line)
        return
    m = ctx.run_lines(model, [head])[0]
    if head.startswith("BOX"):
        print("library:", res)
        for o in orc:
            print("oracle :", o)
        print("model  :", m)
        return
    lf = fields_of(res)
    for f, name in FIELDS:
        print("library %-8s: %s" % (name, show(lf.get(f))))
    if "R" in lf:
        print("library sbml round trip:", "eq" if lf["R"] == "1" else show(lf["R"][2:]) if lf["R"].startswith("0:") else lf["R"])
    for o in orc:
        print("oracle :", o)
    mf = fields_of(m.partition("\t#G:")[0])
    for f, name in FIELDS:
        if f in mf:
            print("model   %-8s: %s" % (name, show(mf.get(f))))
