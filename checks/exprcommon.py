"""Shared by C01 and C02: pools of expressions built through the public API along different
construction paths; the driver reports dumps, hashes, the eq matrix and the __cmp__ matrix; the
extracted model recomputes all three from the dumps alone."""
import itertools

SYMS = ["x", "y", "z", "w", "ab"]
NUMS = ["(i 0)", "(i 1)", "(i -1)", "(i 2)", "(i -3)", "(i 7)", "(q 1 2)", "(q -1 2)", "(q 2 4)", "(q 3 7)",
        "(q 6 3)", "(c 1 1 2 1)", "(c 0 1 1 1)", "(c 1 2 -3 4)", "(i 18446744073709551616)",
        "(i -18446744073709551617)", "(i 9223372036854775808)", "(q 1 18446744073709551629)",
        "(d 3ff0000000000000)", "(d 4000000000000000)", "(d 0000000000000000)", "(d 8000000000000000)",
        "(d 7ff0000000000000)", "(d fff0000000000000)", "(d 3fb999999999999a)",
        "(cd 3ff0000000000000 4000000000000000)", "(cd 0000000000000000 8000000000000000)",
        "oo", "-oo", "zoo", "nan", "pi", "E", "I", "EulerGamma"]
# NaN doubles with different sign / payload bits, also produced by arithmetic (inf + -inf)
NAN_DOUBLES = ["(d 7ff8000000000000)", "(d fff8000000000000)", "(d 7ff0000000000001)",
               "(add (d 7ff0000000000000) (d fff0000000000000))",
               "(cd 7ff8000000000000 3ff0000000000000)", "(cd 3ff0000000000000 fff8000000000000)"]
F1 = ["sin", "cos", "tan", "log", "exp", "abs", "gamma", "asin", "sinh", "erf", "floor", "sign", "conjugate", "atan"]
F2 = ["atan2", "beta", "polygamma", "kronecker_delta"]


def leaf(rng, allow_nan=False):
    r = rng.random()
    if r < 0.45:
        return rng.choice(SYMS)
    if allow_nan and r < 0.48:
        return rng.choice(NAN_DOUBLES)
    return rng.choice(NUMS)


def gen_arith(rng, depth, allow_nan=False):
    if depth <= 0 or rng.random() < 0.25:
        return leaf(rng, allow_nan)
    r = rng.random()
    a = gen_arith(rng, depth - 1, allow_nan)
    b = gen_arith(rng, depth - 1, allow_nan)
    if r < 0.30:
        return "(add %s %s)" % (a, b)
    if r < 0.55:
        return "(mul %s %s)" % (a, b)
    if r < 0.70:
        return "(pow %s %s)" % (a, rng.choice(["(i 2)", "(i 3)", "(i -1)", "(q 1 2)", "(q -1 3)", b]))
    if r < 0.78:
        return "(sub %s %s)" % (a, b)
    if r < 0.84:
        return "(div %s %s)" % (a, b)
    if r < 0.94:
        return "(f1 %s %s)" % (rng.choice(F1), a)
    if r < 0.97:
        return "(f2 %s %s %s)" % (rng.choice(F2), a, b)
    return "(fs %s %s %s)" % (rng.choice(["f", "g", "fab"]), a, b)


def gen_bool(rng, depth):
    if depth <= 0 or rng.random() < 0.4:
        op = rng.choice(["eq", "ne", "lt", "le", "gt", "ge"])
        return "(%s %s %s)" % (op, gen_arith(rng, 1), gen_arith(rng, 1))
    r = rng.random()
    if r < 0.35:
        return "(and %s %s)" % (gen_bool(rng, depth - 1), gen_bool(rng, depth - 1))
    if r < 0.7:
        return "(or %s %s)" % (gen_bool(rng, depth - 1), gen_bool(rng, depth - 1))
    if r < 0.85:
        return "(not %s)" % gen_bool(rng, depth - 1)
    return "(xor %s %s)" % (gen_bool(rng, depth - 1), gen_bool(rng, depth - 1))


def gen_set(rng, depth):
    if depth <= 0 or rng.random() < 0.5:
        r = rng.random()
        if r < 0.5:
            a, b = sorted(rng.sample(range(-4, 6), 2))
            return "(interval (i %d) (i %d) %d %d)" % (a, b, rng.randint(0, 1), rng.randint(0, 1))
        if r < 0.8:
            return "(fset %s)" % " ".join(gen_arith(rng, 1) for _ in range(rng.randint(1, 3)))
        return rng.choice(["reals", "integers", "emptyset", "universalset", "rationals", "naturals"])
    r = rng.random()
    if r < 0.4:
        return "(union %s %s)" % (gen_set(rng, depth - 1), gen_set(rng, depth - 1))
    if r < 0.7:
        return "(isect %s %s)" % (gen_set(rng, depth - 1), gen_set(rng, depth - 1))
    return "(compl %s %s)" % (gen_set(rng, depth - 1), gen_set(rng, depth - 1))


def twins(rng, r):
    """alternative construction paths expected to give an eq result"""
    out = []
    terms = [gen_arith(rng, 1) for _ in range(rng.randint(2, 4))]
    perms = list(itertools.permutations(terms))
    rng.shuffle(perms)
    for op in ("add", "mul"):
        for p in perms[:2]:
            acc = p[0]
            for t in p[1:]:
                acc = "(%s %s %s)" % (op, acc, t)
            out.append(acc)
        p = perms[0]
        acc = p[-1]
        for t in reversed(p[:-1]):
            acc = "(%s %s %s)" % (op, t, acc)
        out.append(acc)
        out.append("(%sv %s)" % (op, " ".join(perms[-1])))
    x = rng.choice(SYMS)
    out += ["(add %s %s)" % (x, x), "(mul (i 2) %s)" % x, "(mul %s %s)" % (x, x), "(pow %s (i 2))" % x,
            "(sub %s %s)" % (x, x), "(i 0)", "(div %s %s)" % (x, x), "(i 1)"]
    return out


def gen_pool(rng, n=30, allow_nan=False):
    pool = []
    pool += rng.sample(NUMS, 8)
    if allow_nan:
        pool += NAN_DOUBLES
    pool += rng.sample(SYMS, 2)
    pool += twins(rng, None)
    while len(pool) < n:
        r = rng.random()
        if r < 0.6:
            pool.append(gen_arith(rng, rng.randint(1, 3), allow_nan))
        elif r < 0.75:
            pool.append(gen_bool(rng, 2))
        elif r < 0.9:
            pool.append(gen_set(rng, 2))
        elif r < 0.95:
            pool.append("(contains %s %s)" % (rng.choice(SYMS), gen_set(rng, 1)))
        else:
            pool.append("(pw %s %s %s true)" % (gen_arith(rng, 1), gen_bool(rng, 0), gen_arith(rng, 1)))
    rng.shuffle(pool)
    return " ;; ".join(pool)


CORPUS = [
    "(d 0000000000000000) ;; (d 8000000000000000) ;; (add x (d 0000000000000000)) ;; (add x (d 8000000000000000))",
    "(add (add x y) z) ;; (add z (add y x)) ;; (addv y z x) ;; (mul (mul x y) z) ;; (mulv z y x) ;; (add x x) ;; (mul (i 2) x)",
    "(q 2 4) ;; (q 1 2) ;; (c 1 2 0 1) ;; (q 6 3) ;; (i 2) ;; (pow (i 4) (q 1 2))",
    "(interval (i 1) (i 2) 0 0) ;; (interval (i 1) (i 2) 1 0) ;; (interval (i 1) (i 2) 0 1) ;; (interval (i 1) (i 2) 1 1) ;; (interval (i 0) (i 2) 1 0) ;; (interval (i 1) (i 3) 0 1)",
    "(fs f x y) ;; (fs f y x) ;; (fs g x y) ;; (fs f x) ;; (f2 atan2 x y) ;; (f2 atan2 y x) ;; (max x y) ;; (max y x) ;; (min x y z)",
    "(and (lt x y) (gt z (i 0))) ;; (and (gt z (i 0)) (lt x y)) ;; (or (lt x y) (eq z w)) ;; (not (lt x y)) ;; (le y x) ;; true ;; false",
    "(i 18446744073709551616) ;; (i 0) ;; (i 36893488147419103232) ;; (i -18446744073709551616) ;; (q 1 18446744073709551617) ;; (q 1 36893488147419103233)",
]


def run_pools(ctx, drv, model, pools):
    """returns list of dicts: recipes (kept), dumps, impl (hashes, eq, cmp), model (same) or None"""
    impl = ctx.run_lines(drv, pools, timeout=1800)
    dumps_lines = []
    parsed = []
    for pool, line in zip(pools, impl):
        parts = line.split("\t")
        if len(parts) == 4 and parts[3].startswith("#CRASHED:"):
            ctx.notes.append("recipe evaluation crashed (skipped here; belongs to the property of that operation): " + parts[3][9:][:300])
            parts = parts[:3]
        if len(parts) != 3:
            parsed.append({"pool": pool, "bad": line[-200:]})
            dumps_lines.append("")
            continue
        kept = [int(k) for k in parts[0].split()]
        recipes = pool.split(" ;; ")
        parsed.append({"pool": pool, "recipes": [recipes[k] for k in kept], "dumps": parts[1].split(" ;; "), "impl": parts[2]})
        dumps_lines.append(parts[1])
    mod = ctx.run_lines(model, dumps_lines, timeout=1800)
    for p, m in zip(parsed, mod):
        p["model"] = m
    return parsed


def split_matrix(s):
    parts = s.split(" || ")
    hs, eqm, cm = parts[0], parts[1], parts[2]
    return hs.split(), eqm.split(), cm.split()


def wf_flags(s):
    parts = s.split(" || ")
    return parts[3].strip() if len(parts) > 3 else ""
