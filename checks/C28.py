"""C28 -- boolean simplification preserves truth value.
Model: coq/C28/LogicModel.v (logic.cpp: and_or with flattening / complementary literals / the
Contains(sym, FiniteSet) domain simplification, logical_not, logical_xor, nand/nor/xnor, piecewise,
contains, Eq/Ne/Lt/Le, and the subs visitor on boolean trees) over the shared expression syntax with
std::set modelled as RCPBasicKeyLess-sorted lists.  Theorems: coq/C28/P_*.v.
Tie: every case is a recipe whose top-level operation is the operation under test; the driver dumps
the evaluated arguments and the library's result, the extracted model recomputes the result tree
from the argument dumps (exact tree comparison, container order included).
Oracle (driver, independent of the model): complete truth table of the unsimplified recipe against
the result tree and against the library's own subs-evaluation of the result."""
import vlib

PROOF_MODULES = ["C28/LogicTheorems.vo"]   # C28 files are not in coq/_CoqProject yet: the .vo files are used as compiled
OBLIGATIONS = [
    "C28/P_keyless_equiv_eq.v", "C28/P_not_sound.v", "C28/P_and_sound.v", "C28/P_or_sound.v",
    "C28/P_nand_sound.v", "C28/P_nor_sound.v", "C28/P_xor_sound.v", "C28/P_xnor_sound.v",
    "C28/P_and_or_any_fuel.v", "C28/P_subs_sound.v", "C28/P_piecewise_sound.v",
    "C28/P_contains_simplify_sound.v", "C28/P_relational_sound.v", "C28/P_total.v", "C28/P_nonvacuous.v",
]

SYMS = ["x", "y", "z"]
BOOL_OPS = ["and", "or", "nand", "nor", "xor", "xnor"]


# ------------------------------------------------------------------ generators
class Gen:
    """one generator per case: a small palette of symbols and constants so that duplicates,
    complementary literals and equal keys collide often, and the truth table stays complete"""

    def __init__(self, rng):
        self.rng = rng
        self.syms = rng.sample(SYMS, rng.choice([1, 2, 2, 2, 3]))
        pool = ["0", "1", "2", "(i 3)", "(q 1 2)", "(q 3 2)", "(i -1)", "(q -1 2)", "(i 5)"]
        self.consts = rng.sample(pool, rng.choice([1, 2, 2, 3]))
        self.atoms = []

    def sym(self):
        return self.rng.choice(self.syms)

    def const(self):
        return self.rng.choice(self.consts)

    def term(self):
        return self.sym() if self.rng.random() < 0.6 else self.const()

    def rel(self):
        op = self.rng.choice(["eq", "ne", "lt", "le", "gt", "ge"])
        a = self.sym()
        b = self.term()
        if self.rng.random() < 0.3:
            a, b = b, a
        return "(%s %s %s)" % (op, a, b)

    def fset(self, need_number=None):
        k = self.rng.randint(1, 3)
        els = [self.term() for _ in range(k)]
        if need_number is True and not any(e in self.consts for e in els):
            els[self.rng.randrange(k)] = self.const()
        if need_number is False:
            els = [self.sym() for _ in range(k)]
        return "(fset %s)" % " ".join(els)

    def interval(self):
        a, b = self.const(), self.const()
        return "(interval %s %s %d %d)" % (a, b, self.rng.randint(0, 1), self.rng.randint(0, 1))

    def member(self):
        r = self.rng.random()
        e = self.sym() if self.rng.random() < 0.85 else self.const()
        if r < 0.55:
            return "(contains %s %s)" % (e, self.fset())
        if r < 0.95:
            return "(contains %s %s)" % (e, self.interval())
        return "(contains %s %s)" % (e, self.rng.choice(["emptyset", "universalset"]))

    def atom(self):
        # reuse an earlier atom (or its complement) with high probability
        r = self.rng.random()
        if self.atoms and r < 0.30:
            return self.rng.choice(self.atoms)
        if self.atoms and r < 0.45:
            return "(not %s)" % self.rng.choice(self.atoms)
        if r < 0.50:
            return self.rng.choice(["true", "false"])
        a = self.rel() if self.rng.random() < 0.65 else self.member()
        self.atoms.append(a)
        return a

    def formula(self, depth):
        if depth <= 0 or self.rng.random() < 0.3:
            return self.atom()
        r = self.rng.random()
        if r < 0.12:
            return "(not %s)" % self.formula(depth - 1)
        op = self.rng.choice(["and", "and", "or", "or", "xor", "nand", "nor", "xnor"])
        k = self.rng.choice([1, 2, 2, 3, 3, 4])
        return "(%s %s)" % (op, " ".join(self.formula(depth - 1) for _ in range(k)))


def gen_bool_case(rng, tier):
    g = Gen(rng)
    op = rng.choice(BOOL_OPS + ["and", "xor", "not"])
    depth = rng.choice([0, 1, 1, 2]) if tier == "quick" else rng.choice([0, 1, 2, 2, 3])
    if op == "not":
        return "(not %s)" % g.formula(depth + 1)
    k = rng.choice([0, 1, 2, 2, 3, 3, 4, 5])
    return "(%s %s)" % (op, " ".join(g.formula(depth) for _ in range(k)))


def gen_domain_case(rng, tier):
    """and_or<And> with a Contains(sym, FiniteSet) member: the domain simplification"""
    g = Gen(rng)
    x = g.sym()
    parts = ["(contains %s %s)" % (x, g.fset(need_number=rng.choice([True, True, True, None, False])))]
    for _ in range(rng.choice([1, 1, 2, 2, 3])):
        r = rng.random()
        if r < 0.45:
            op = rng.choice(["eq", "ne", "lt", "le", "gt", "ge"])
            a, b = x, g.term()
            if rng.random() < 0.3:
                a, b = b, a
            parts.append("(%s %s %s)" % (op, a, b))
        elif r < 0.60:
            parts.append("(contains %s %s)" % (rng.choice([x, g.sym()]), rng.choice([g.fset(True), g.interval()])))
        elif r < 0.70:
            parts.append("(not (contains %s %s))" % (x, rng.choice([g.fset(), g.interval()])))
        else:
            parts.append(g.formula(rng.choice([1, 2])))
    rng.shuffle(parts)
    op = rng.choice(["and", "and", "and", "nand"])
    return "(%s %s)" % (op, " ".join(parts))


def gen_xor_case(rng, tier):
    g = Gen(rng)
    parts = []
    for _ in range(rng.choice([2, 3, 4, 5, 6])):
        r = rng.random()
        if r < 0.25:
            parts.append("(xor %s)" % " ".join(g.formula(0) for _ in range(rng.choice([2, 3]))))
        elif r < 0.4:
            parts.append("(not %s)" % g.formula(0))
        else:
            parts.append(g.formula(rng.choice([0, 0, 1])))
    return "(%s %s)" % (rng.choice(["xor", "xor", "xnor"]), " ".join(parts))


def gen_pw_case(rng, tier):
    g = Gen(rng)
    conds = [g.formula(rng.choice([0, 0, 1])) for _ in range(rng.choice([1, 2, 3]))]
    parts = []
    for _ in range(rng.choice([1, 2, 3, 4, 5])):
        r = rng.random()
        c = rng.choice(conds) if r < 0.6 else ("true" if r < 0.75 else "false" if r < 0.85 else g.formula(1))
        parts.append("%s %s" % (g.term(), c))
    return "(pw %s)" % " ".join(parts)


def gen_contains_case(rng, tier):
    g = Gen(rng)
    e = g.const() if rng.random() < 0.7 else g.sym()
    r = rng.random()
    s = g.interval() if r < 0.5 else g.fset() if r < 0.92 else rng.choice(["emptyset", "universalset"])
    return "(contains %s %s)" % (e, s)


def gen_rel_case(rng, tier):
    g = Gen(rng)
    op = rng.choice(["eq", "ne", "lt", "le", "gt", "ge"])
    a, b = g.term(), g.term()
    if rng.random() < 0.15:
        b = a
    return "(%s %s %s)" % (op, a, b)


def gen_subs_case(rng, tier):
    g = Gen(rng)
    f = g.formula(rng.choice([1, 2]))
    return "(subs %s %s %s)" % (f, g.sym(), g.term())


GENS = [(gen_bool_case, 0.34), (gen_domain_case, 0.22), (gen_xor_case, 0.14), (gen_pw_case, 0.08),
        (gen_contains_case, 0.06), (gen_rel_case, 0.06), (gen_subs_case, 0.10)]


def gen_case(rng, tier):
    r = rng.random()
    acc = 0.0
    for g, w in GENS:
        acc += w
        if r < acc:
            return g(rng, tier)
    return gen_bool_case(rng, tier)


CORPUS = [
    # complementary literals, duplicates, constants, flattening
    "(and (lt x 1) (ge x 1))", "(or (lt x 1) (ge x 1))", "(and (lt x 1) (lt x 1) (le y x))",
    "(and true (lt x 1))", "(and false (lt x 1))", "(or true (lt x 1))", "(or false (lt x 1))", "(and)", "(or)",
    "(and (and (lt x 1) (lt y 2)) (lt z 0))", "(or (or (lt x 1) (lt y 2)) (and (lt z 0) (eq x y)))",
    "(and (or (lt x 1) (eq x y)) (and (ne x y) (ge x 1)))", "(nand (lt x 1) (eq x y))", "(nor (lt x 1) (eq x y))",
    "(and (eq x y) (ne x y))", "(and (not (contains x (interval 0 2 0 1))) (contains x (interval 0 2 0 1)))",
    # logical_not: De Morgan, relational negations
    "(not (and (lt x 1) (le y x) (eq x y)))", "(not (or (ne x 1) (contains x (fset 0 1))))", "(not (not (contains x (fset 0 1))))",
    "(not (xor (lt x 1) (eq x y)))", "(not true)", "(not (le x y))", "(not (and (or (lt x 1) (eq x y)) (ne x 2)))",
    # xor: parity, nested Xor, negated arguments, cancelled pairs
    "(xor (lt x 1) (ge x 1))", "(xor (lt x 1) (lt x 1))", "(xor (lt x 1) (ge x 1) (eq x y))", "(xor (lt x 1) (ge x 1) (eq x y) (ne x y))",
    "(xor (lt x 1) (eq x y) (xor (eq x y) (lt y 0)))", "(xor (lt x 1) (xor (ge x 1) (lt y 0)))", "(xor true (lt x 1))", "(xor true true (lt x 1) (eq x y))",
    "(xor (not (contains x (fset 0 1))) (contains x (fset 0 1)) (lt x 1))", "(xnor (lt x 1) (eq x y))", "(xnor (lt x 1) (ge x 1))", "(xor)", "(xor (lt x 1))",
    "(xor (and (lt x 1) (eq x y)) (or (ge x 1) (ne x y)) (lt y 0))",
    # the Contains(sym, FiniteSet) domain simplification
    "(and (lt x 3) (contains x (fset 1 2 5)))", "(and (lt x y) (contains x (fset 1 2 5)))", "(and (lt x y) (contains x (fset 1 y 5)))",
    "(and (lt x 3) (contains x (fset 1 y 5)))", "(and (lt x 3) (contains x (fset z y)))", "(and (contains x (fset x 1)) (lt x 1))",
    "(and (contains x (fset 0 1 2)) (contains x (interval 1 2 0 0)))", "(and (contains x (fset 0 1 2)) (contains y (fset 1 x)) (lt y 2))",
    "(and (contains x (fset 0 1 2)) (or (lt x 1) (eq x y)))", "(and (contains x (fset 0 1 2)) (not (contains x (fset 1 2))))",
    "(and (contains x (fset 0 1 2)) (xor (lt x 1) (eq x 2)))", "(and (contains x (fset 0 1)) (gt x 5))", "(and (contains x (fset 0 y)) (lt x y) (lt y 0))",
    "(nand (contains x (fset 0 1 2)) (lt x 2))", "(and (contains x (fset 0 1 2)) (contains y (fset 0 1 2)) (lt x y))",
    # the first qualifying Contains decides (break without a number in the set); nested simplifications
    "(and (contains x (fset y z)) (contains x (fset 1 2)) (lt x 2))", "(and (contains y (fset x z)) (contains y (fset 1 2)) (lt y 2))",
    "(and (contains z (fset x y)) (contains z (fset 1 2)) (lt z 2))", "(and (contains x (fset y)) (contains y (fset 1 2)) (lt y 2))",
    "(and (contains x (fset 0 1 2)) (contains y (fset 0 1 2)) (lt x y) (ne x 1))", "(and (contains x (fset 0 1 2 y)) (contains y (fset 0 1)) (lt x y))",
    "(and (contains x (fset 0 1 2)) (or (contains y (fset 0 x)) (lt x 1)))",
    "(and (contains x (fset 0 1 2)) (or (and (contains y (fset 0 x)) (lt y 1)) (lt x 1)))",
    "(and (contains x (fset 0 1 2)) (xor (contains y (fset 0 x)) (lt x 1) (eq x y)))",
    "(and (contains x (fset 0 1 2)) (not (and (contains y (fset 0 x)) (lt y 1))))",
    # piecewise pruning
    "(pw x (lt x 0) y (lt x 0) 3 true 4 true)", "(pw x false y false)", "(pw x true)", "(pw x (lt x 0) y (ge x 0))", "(pw 1 false 2 (lt x y) 3 (lt x y) 4 (eq x y))",
    # contains()
    "(contains 2 (interval 1 2 0 1))", "(contains 1 (interval 1 2 1 0))", "(contains (q 3 2) (interval 1 2 1 1))", "(contains 0 (interval 1 2 0 0))",
    "(contains 1 (fset 0 1 x))", "(contains 3 (fset 0 1 x y))", "(contains 3 (fset 0 1))", "(contains x (fset x 1))", "(contains x (interval 1 2 0 1))", "(contains 1 emptyset)",
    # relational constructors, subs
    "(eq x x)", "(eq y x)", "(ne y x)", "(lt x x)", "(le x x)", "(ge 1 2)", "(lt (q 1 2) 1)", "(eq 1 x)",
    "(lt I 1)", "(le nan x)", "(lt true x)", "(ge zoo x)", "(gt x (c 1 2 1 3))",
    "(subs (and (lt x 3) (contains x (interval 1 2 0 1))) x (q 3 2))", "(subs (or (lt x y) (eq x 1)) x y)", "(subs (xor (lt x y) (eq x 1) (contains y (fset x 0))) x 1)",
]


PALETTE = [
    "(lt x 1)", "(ge x 1)", "(le x 1)", "(gt x 1)", "(eq x 1)", "(ne x 1)", "(eq x y)", "(ne x y)", "(lt x y)",
    "(contains x (fset 0 1 2))", "(contains x (fset 1 y))", "(not (contains x (fset 0 1 2)))",
    "(contains x (interval 0 1 0 1))", "true", "false", "(and (lt x 1) (lt y 1))", "(or (lt x 1) (eq x y))",
    "(xor (lt x 1) (eq x y))",
]


def exhaustive_small(tier):
    """every pair (quick: and/xor; thorough: all six operations) and, in the thorough tier, every
    triple (and/or/xor) over a fixed palette that contains complementary literals, equal keys,
    nested same-operation containers, constants and FiniteSet domains"""
    out = []
    ops2 = ["and", "xor"] if tier == "quick" else BOOL_OPS
    for op in ops2:
        for a in PALETTE:
            for b in PALETTE:
                out.append("(%s %s %s)" % (op, a, b))
    if tier != "quick":
        for op in ("and", "or", "xor"):
            for a in PALETTE:
                for b in PALETTE:
                    for c in PALETTE:
                        out.append("(%s %s %s %s)" % (op, a, b, c))
        for a in PALETTE:
            out.append("(not %s)" % a)
            for v in ("0", "1", "2", "y", "(q 1 2)"):
                out.append("(subs %s x %s)" % (a, v))
    return out


# ------------------------------------------------------------------ running
def parse_impl(line):
    """-> dict(op, args, result, rows, oracle) or dict(skip=...)"""
    if line.startswith("SKIP"):
        return {"skip": line}
    parts = line.split("\t")
    if len(parts) < 3:
        return {"bad": line[-200:]}
    d = {"op": parts[0], "args": parts[1], "result": parts[2], "rows": 0, "oracle": ""}
    for t in parts[3:]:
        if t.startswith("#ROWS:"):
            try:
                d["rows"] = int(t[6:])
            except ValueError:
                pass
        elif t.startswith("#ORACLE:"):
            d["oracle"] = t[8:]
    if any(w in parts[2] for w in ("CRASH", "HANG", "UNCAUGHT", "PIPEFAIL")):
        d["bad"] = parts[2][-80:]
    return d


def natoms(dump):
    return dump.count("(F2 ") + dump.count("(Lex ")


def explore(ctx, drv, model, cases, search=False):
    if drv is None or model is None:
        return
    impl = ctx.run_lines(drv, cases, timeout=3000, shards=16)
    parsed = [parse_impl(l) for l in impl]
    mlines, midx = [], []
    for i, p in enumerate(parsed):
        if "skip" in p or "bad" in p:
            continue
        midx.append(i)
        mlines.append(p["op"] + "\t" + p["args"])
    mod = ctx.run_lines(model, mlines, timeout=3000, shards=16)
    for i, m in zip(midx, mod):
        parsed[i]["model"] = m
    ndis = 0
    nontriv = set()
    for c, line, p in zip(cases, impl, parsed):
        if "skip" in p:
            ctx.cov["skipped_cases"] = ctx.cov.get("skipped_cases", 0) + 1
            continue
        if "bad" in p:
            ctx.violation("C28/crash", "recipe `%s` ends with %s on the library" % (c, p["bad"]),
                          {"family": "C28", "case": c, "impl": line[-300:]})
            continue
        ctx.cov["evaluations"] += 1
        ctx.cov["truth_table_rows"] = ctx.cov.get("truth_table_rows", 0) + p["rows"]
        if p["oracle"]:
            kind = p["oracle"].split(" ")[0]
            if kind == "unsupported":
                ctx.broken.append({"kind": "correspondence", "name": "C28 oracle cannot evaluate",
                                   "detail": "recipe `%s`: %s" % (c, p["oracle"])})
            else:
                key = "C28/%s:%s" % ("truth-table" if kind == "truth" else "subs-eval", p["op"])
                ctx.violation(key, "recipe `%s`: %s" % (c, p["oracle"]),
                              {"family": "C28", "case": c, "impl": p["result"], "model": p.get("model", "")})
        m = p.get("model", "")
        mres, _, hyp = m.partition("\thyp=")
        if mres == "EXN:99":
            ctx.cov["outside_modelled_fragment"] = ctx.cov.get("outside_modelled_fragment", 0) + 1
            continue
        ctx.cov["traces_validated_against_impl"] += 1
        if hyp == "1":
            ctx.cov["cases_satisfying_theorem_hypotheses"] = ctx.cov.get("cases_satisfying_theorem_hypotheses", 0) + 1
        if mres != p["result"]:
            ndis += 1
            if ndis <= 3:
                ctx.broken.append({"kind": "correspondence", "name": "C28 " + p["op"],
                                   "detail": "recipe `%s`\n args:  %s\n model: %s\n impl:  %s" % (c, p["args"], mres, p["result"])})
        # non-trivial: the operation did simplify (fewer atoms than the arguments, or a constant)
        if p["result"].startswith("(Bool") or natoms(p["result"]) < natoms(p["args"]) or p["op"] in ("not", "nand", "nor", "xnor"):
            if natoms(p["args"]) >= 2:
                nontriv.add(c)
        if not search and len(ctx.cov["samples"]) < 10 and natoms(p["args"]) >= 2:
            ctx.cov["samples"].append({"recipe": c, "impl": p["result"], "model": mres, "rows": p["rows"]})
    ctx.cov["distinct_nontrivial"] += len(nontriv)
    return ndis


def builds(ctx):
    drv = ctx.build_driver("c28_driver")
    model = ctx.build_model("C28", "C28/Extract.v", "c28_main.ml", "semodel", extra_ml=["expr_io.ml"])
    return drv, model


def run(ctx):
    ctx.gate(["Base", "Gen", "C28"])
    ctx.prove(PROOF_MODULES, OBLIGATIONS)
    drv, model = builds(ctx)
    ncases = 2000 if ctx.tier == "quick" else 60000
    cases = list(CORPUS) + exhaustive_small(ctx.tier) + [gen_case(ctx.rng, ctx.tier) for _ in range(ncases)]
    explore(ctx, drv, model, cases)
    if ctx.broken and not ctx.violations:
        # a proof or the tie broke: search harder for a concrete failing formula
        explore(ctx, drv, model, [gen_case(ctx.rng, "thorough") for _ in range(12000)], search=True)
    ctx.cov["rule"] = (
        "one case = one recipe whose top-level operation (and/or/nand/nor/xor/xnor/not/contains/piecewise/"
        "Eq..Ge/subs) is applied to arguments built through the public API from a per-case palette of <= 3 "
        "symbols and <= 3 exact constants (so duplicates, complementary literals, nested same-operation "
        "containers and FiniteSet domains collide); evaluations = cases; truth_table_rows = assignments "
        "evaluated by the oracle (complete up to order type); a case is non-trivial when the operation "
        "really simplified (result has fewer atoms than its arguments, is a constant, or went through "
        "logical_not) and the arguments have >= 2 atoms; distinct = distinct recipe strings; besides the "
        "generated cases, every pair (thorough: also every triple) over a fixed 18-formula palette is run")
    ctx.assumptions += [
        "std::set<RCP<const Basic>, RCPBasicKeyLess> (red-black tree) is modelled as a list kept sorted by the modelled comparator; find/insert/erase walk it linearly (same result whenever the comparator is a strict weak order on the keys present; P_keyless_equiv_eq shows that on the fragment incomparable keys are identical)",
        "the memo table `visited` of XReplaceVisitor is outside the model (apply is a function of the subtree); its pointer-identity test `a == x.get_arg1()` is modelled as eq of the subtrees (create is idempotent on library-built relationals/Contains)",
        "(a - b)->is_negative() and the min/max of Interval::contains are modelled by exact rational comparison; numbers other than Integer/Rational in order comparisons, and set classes other than Interval/FiniteSet/EmptySet/UniversalSet, are outside the model (ErrExn 99, excluded from the tie and from the theorems' fragment)",
        "theorems are partial-correctness statements for every fuel value (and_or/subs return ErrFuel when the recursion budget is exhausted); the wrappers give 4*size+16, never exhausted on any explored case",
        "`int nots` of logical_xor is modelled without wrap-around (2^31 true constants are not representable inputs)",
    ]


def replay(ctx, rep):
    drv, model = builds(ctx)
    c = rep["replay"]["case"]
    line = ctx.run_lines(drv, [c])[0]
    p = parse_impl(line)
    print("case :", c)
    print("impl :", line)
    if "op" in p:
        print("model:", ctx.run_lines(model, [p["op"] + "\t" + p["args"]])[0])
