"""C06 -- mixed-kind number arithmetic is commutative and obeys the oo/nan rules.
Model: coq/Num/NumModel.v (double dispatch of Number::add/sub/mul/div/pow over the 7 classes,
Basic-level add/mul on two numbers).  Theorems: coq/C06/P_*.v.
Tie: EXHAUSTIVE ordered pairs of the palette x {add, sub, mul, div, pow, badd, bmul} on the
extracted model and on the library; oracles (commutativity, nan absorbs, infinity rules,
float never exact) evaluated by the driver on the library's own results."""
import vlib
from checks import numcommon as nc

PROOF_MODULES = ["Num/NumC06.vo"]
OBLIGATIONS = [
    "C06/P_addnum_comm.v", "C06/P_mulnum_comm.v", "C06/P_nan_absorbs.v", "C06/P_inf_rules.v",
    "C06/P_float_never_exact.v", "C06/P_basic_comm.v", "C06/P_nonvacuous.v",
]
OPS = ["add", "sub", "mul", "div", "pow", "badd", "bmul"]
TAGS = ("comm", "nan-absorbs", "inf-rules", "float-exact")

CORPUS = [
    "add INF:1 NAN", "add NAN INF:1", "mul D:4000000000000000 I:0", "mul C:1,2 INF:0", "badd I:1 D:0000000000000000",
    "badd D:0000000000000000 I:1", "div INF:1 NAN", "pow INF:-1 NAN", "mul INF:1 INF:-1", "add INF:1 INF:-1",
    "mul I:0 INF:1", "div I:5 INF:1", "div D:4000000000000000 INF:-1", "sub INF:1 INF:1",
]
# conversions of exact operands at the edges of the double range (mpz_get_d / mpq_get_d: truncation,
# overflow to infinity, underflow to +0.0 for either sign, subnormals)
EDGE_EXACT = ["I:%d" % (2 ** 1024), "I:%d" % (2 ** 1024 - 1), "I:%d" % -(2 ** 1100), "I:%d" % (2 ** 1023 + 2 ** 970),
              "R:1/%d" % (2 ** 1074), "R:-1/%d" % (2 ** 1075), "R:-3/%d" % (2 ** 1080), "R:%d/3" % (2 ** 1025),
              "R:-%d/7" % (2 ** 1030), "R:-1/10", "R:%d/%d" % (2 ** 600 + 1, 2 ** 600 - 1)]
EDGE_DBL = ["D:8000000000000000", "D:0000000000000000", "D:0000000000000001", "D:800fffffffffffff", "D:7fefffffffffffff",
            "D:3ff0000000000000", "D:fff0000000000000", "CD:8000000000000000,7fd0000000000001"]
CORPUS += ["%s %s %s" % (o, a, b) for o in ("add", "sub", "mul", "div", "badd") for x in EDGE_EXACT for y in EDGE_DBL
           for (a, b) in ((x, y), (y, x))]


def extra_values(rng, n):
    """values beyond the fixed palette: random doubles (incl. subnormal, huge), rationals, complex"""
    out = []
    for _ in range(n):
        r = rng.random()
        if r < 0.3:
            e = rng.choice([0, 1, 1022, 1023, 1024, 1075, 2046, 2047, rng.randint(900, 1150)])
            m = rng.choice([0, 1, (1 << 52) - 1, rng.getrandbits(52)])
            out.append("D:%016x" % ((rng.getrandbits(1) << 63) | (e << 52) | m))
        elif r < 0.45:
            out.append("CD:%s,%s" % (nc.hexd(rng.choice([0.0, -0.0, 1.5, -2.25, 1e10])), nc.hexd(rng.choice([0.0, -0.0, 3.0, -0.125]))))
        elif r < 0.65:
            out.append("I:%d" % rng.choice([rng.randint(-9, 9), rng.getrandbits(rng.choice([60, 64, 65, 200])) * rng.choice([1, -1])]))
        elif r < 0.85:
            import math
            d = rng.choice([2, 3, 7, 10, rng.getrandbits(70) | 1])
            n_ = rng.choice([1, -1, 5, rng.getrandbits(80) | 1]) * rng.choice([1, -1])
            g = math.gcd(n_, d)
            n_, d = n_ // g, d // g
            out.append("R:%d/%d" % (n_, d) if d != 1 else "I:%d" % n_)
        else:
            out.append(rng.choice(nc.EXACT_CPLX + nc.SPECIAL))
    return out


def nontrivial(r):
    op, a, b = r[0].split()
    ka, kb = nc.kind(a), nc.kind(b)
    return ka != kb or ka in ("INF", "ZOO", "NAN", "Dinf", "Dnan")


def crash_filter(op, a, b):
    # exact x exact cases belong to C05
    return not (nc.is_exact(a) and nc.is_exact(b))


def explore(ctx, drv, model, cases):
    res = nc.run_both(ctx, drv, model, cases)
    ncmp, nskip = nc.correspondence(ctx, "C06 number dispatch", res)
    ctx.cov["traces_validated_against_impl"] += ncmp
    nc.add_cov(ctx, res, nontrivial,
               "every ordered pair of a 43-value palette (zeros of every kind incl. +-0.0, +-1, +-2, +-1/2, +-3/7, multi-limb "
               "integers/rationals, 2^53+1, exact and double complex values, +-inf/nan/subnormal/huge doubles, oo, -oo, zoo, nan) x "
               "{add,sub,mul,div,pow} through Number methods and {add,mul} through the Basic API, plus random pairs of values outside "
               "the palette; a case is non-trivial when the operands are of different kinds or one is infinite/NaN; "
               "distinct = distinct case lines; traces_validated = cases compared model-vs-library (results needing libm excluded)")
    nc.classify(ctx, "C06", model, res, TAGS, crash_filter)
    return res


def run(ctx):
    ctx.gate(["Base", "Num", "C06"])
    ctx.prove(PROOF_MODULES, OBLIGATIONS)
    drv, model = nc.build(ctx)
    pal = list(nc.PALETTE)
    if ctx.tier == "thorough":
        pal += extra_values(ctx.rng, 50)
    cases = list(CORPUS)
    cases += ["%s %s %s" % (o, a, b) for o in OPS for a in pal for b in pal if nc.pow_ok(o, a, b)]
    xs = extra_values(ctx.rng, 40 if ctx.tier == "quick" else 200)
    for _ in range(600 if ctx.tier == "quick" else 6000):
        a = ctx.rng.choice(xs)
        b = ctx.rng.choice(xs + nc.PALETTE)
        if ctx.rng.random() < 0.5:
            a, b = b, a
        o = ctx.rng.choice(OPS)
        if nc.pow_ok(o, a, b):
            cases.append("%s %s %s" % (o, a, b))
    explore(ctx, drv, model, cases)
    if ctx.broken and not [v for v in ctx.violations if v["key"] not in vlib.load_known("C06")]:
        xs = extra_values(ctx.rng, 300)
        more = []
        for _ in range(8000):
            a, b = ctx.rng.choice(xs + nc.PALETTE), ctx.rng.choice(xs + nc.PALETTE)
            o = ctx.rng.choice(OPS)
            if nc.pow_ok(o, a, b):
                more.append("%s %s %s" % (o, a, b))
        explore(ctx, drv, model, more)
    ctx.assumptions += nc.COMMON_ASSUMPTIONS + [
        "commutativity and the other statements compare canonical dumps (bit patterns of doubles, all NaN doubles identified), which is finer than eq()",
    ]


def replay(ctx, rep):
    nc.replay(ctx, rep)
