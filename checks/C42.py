"""C42 -- the C API (cwrapper.cpp) and the Expression wrapper agree with the core C++ API.

Model: coq/C42/CWrapModel.v -- the wrapper layer as a state machine over handles, interpreted from the table that
translators/tr_cwrapper.py reads out of cwrapper.cpp / expression.h on every run (coq/C42/Gen_CWrap.v); the C++ core is
an oracle.  Theorems: coq/C42/P_*.v.
Tie: (1) the translator re-reads the anchored files; (2) sequences of C API calls run on the library (C side) and, in
lock step, on a hand-written C++-API mirror (harness/c42_driver.cpp): the driver's oracle compares the two (return
codes, basic_str, tree dumps, container contents, escaping exceptions); (3) the extracted model, given the mirror's
answers as oracle, must print the same outcomes and states as the C side; (4) Expression operators against the core
functions on parsed expression pairs."""
import os
import re

import vlib

COQ_STAGES = [
    ["C42/CWrapDefs.v"],
    ["C42/Gen_CWrap.v", "C42/CWrapModel.v"],
    ["C42/CContainers.v", "C42/CWrapSpec.v"],
    ["C42/CWrapProofs.v"],
    ["C42/CWrapTable.v"],
]
# built with `make` by ctx.prove once the C42 files are listed in coq/_CoqProject (dependencies, incl. the regenerated
# Gen_CWrap.v, are then make's business); until then build_coq below compiles the stale files itself
PROOF_MODULES = ["C42/CWrapTable.vo"]
OBLIGATIONS = [
    "C42/P_no_escape.v", "C42/P_run_no_escape.v", "C42/P_cwrap_total_guarded.v", "C42/P_cwrap_total_refuted.v",
    "C42/P_table_no_escape.v", "C42/P_cwrap_agrees.v", "C42/P_cwrap_agrees_sem.v",
    "C42/P_wrapped_outcome.v", "C42/P_error_atomic.v", "C42/P_vec_laws.v", "C42/P_vec_out_of_range_error.v",
    "C42/P_set_laws.v", "C42/P_set_get_refuted.v", "C42/P_map_laws.v", "C42/P_state_inv.v", "C42/P_expression_ops.v",
    "C42/P_hand_model_current.v", "C42/P_nonvacuous.v",
]
# functions exercised by the driver's oracle only (their bodies are not a single forwarded expression and the model does
# not transcribe them)
DRIVER_ONLY = {"basic_dumps"}


def hx(s):
    return "x" + s.encode().hex()


def T(s):
    return "t:" + hx(s)


# ---------------------------------------------------------------------------------------- translator / coq
def translate(ctx):
    env = dict(os.environ)
    env["VERIF_REPO"] = vlib.REPO
    rc, out = vlib.sh(["python3", os.path.join(vlib.ROOT, "translators", "tr_cwrapper.py")], env=env)
    if rc != 0:
        ctx.broken.append({"kind": "translator", "name": "tr_cwrapper", "detail": out[-2000:]})
    return rc == 0


def listed_in_coqproject():
    try:
        txt = open(os.path.join(vlib.COQ, "_CoqProject")).read()
    except OSError:
        return False
    return all(v in txt for stage in COQ_STAGES for v in stage)


def build_coq(ctx):
    """compile the stale C42 modules stage by stage (until they are listed in coq/_CoqProject)"""
    from concurrent.futures import ThreadPoolExecutor
    ok = True

    def compile_one(v):
        rc, out = vlib.sh(["timeout", "1500", "coqc", "-Q", ".", "SE", "-w", "-notation-overridden", v],
                          cwd=vlib.COQ, timeout=1530)
        return v, rc, out

    shared = ["Expr/CmpProofs.vo", "Expr/Cmp.vo", "Base/Prelude.vo"]
    with vlib.Lock(os.path.join(vlib.WORK, "coq-c42.lock")):
        newest = max([os.path.getmtime(os.path.join(vlib.COQ, d)) for d in shared
                      if os.path.exists(os.path.join(vlib.COQ, d))] or [0.0])
        for stage in COQ_STAGES:
            stale = []
            for v in stage:
                src = os.path.join(vlib.COQ, v)
                if not os.path.exists(src):
                    continue
                vo = src + "o"
                if (not os.path.exists(vo)) or os.path.getmtime(vo) < os.path.getmtime(src) or os.path.getmtime(vo) < newest:
                    stale.append(v)
            if stale:
                with ThreadPoolExecutor(max_workers=4) as ex:
                    for v, rc, out in ex.map(compile_one, stale):
                        vo = os.path.join(vlib.COQ, v) + "o"
                        if rc != 0:
                            ok = False
                            if os.path.exists(vo):
                                os.remove(vo)
                            ctx.broken.append({"kind": "proof", "name": v, "detail": out[-2500:]})
            for v in stage:
                vo = os.path.join(vlib.COQ, v) + "o"
                if os.path.exists(vo):
                    newest = max(newest, os.path.getmtime(vo))
    return ok


# ---------------------------------------------------------------------------------------- generators
ONE_ARG = ["expand", "neg", "abs", "erf", "erfc", "sin", "cos", "tan", "csc", "sec", "cot", "asin", "acos", "asec", "acsc",
           "atan", "acot", "sinh", "cosh", "tanh", "csch", "sech", "coth", "asinh", "acosh", "asech", "acsch", "atanh",
           "acoth", "lambertw", "zeta", "dirichlet_eta", "gamma", "loggamma", "sqrt", "cbrt", "exp", "log", "floor",
           "ceiling", "sign"]
TWO_ARG = ["add", "sub", "mul", "pow", "div", "atan2", "kronecker_delta", "lowergamma", "uppergamma", "beta", "polygamma"]
CONSTS = ["basic_const_zero", "basic_const_one", "basic_const_minus_one", "basic_const_I", "basic_const_pi",
          "basic_const_E", "basic_const_EulerGamma", "basic_const_Catalan", "basic_const_GoldenRatio",
          "basic_const_infinity", "basic_const_neginfinity", "basic_const_complex_infinity", "basic_const_nan"]
CONST_TYPE = {"basic_const_zero": "Z", "basic_const_one": "Z", "basic_const_minus_one": "Z", "basic_const_I": "C",
              "basic_const_infinity": "N", "basic_const_neginfinity": "N", "basic_const_complex_infinity": "N",
              "basic_const_nan": "N"}
SETS = ["basic_set_emptyset", "basic_set_universalset", "basic_set_complexes", "basic_set_reals", "basic_set_rationals",
        "basic_set_integers"]
PARSE_OK = ["x", "y", "x + y", "x*y", "x**2 + 2*x + 1", "(x + 1)**3", "sin(x)*cos(y)", "1/x", "2/3", "x/0", "1.5*x",
            "f(x, y)", "exp(x) - 1", "sqrt(2)", "I*x + 3", "pi/2", "x**y", "-x", "log(x)/log(2)", "zoo", "oo", "nan",
            "3", "0", "1/3 + 1/6", "abs(x)", "x - x", "2**100", "max(x, y)", "g(f(x))", "1e10", "x < y", "(x, y)"[1:-1]]
PARSE_BAD = ["x+", "(", "x**", "1/", "sin(", ")", "x y", "2 3", "f(,)", "*", "x +* y"]
INTS = [0, 1, -1, 2, 3, 5, 7, -4, 10, 12, 100, 2 ** 31, -(2 ** 31), 2 ** 62, -(2 ** 63), 2 ** 63 - 1]
DBL = ["0000000000000000", "8000000000000000", "3ff8000000000000", "bff0000000000000", "400921fb54442d18",
       "7ff0000000000000", "7ff8000000000000", "3ff0000000000000"]
NB, NV, NS, NM = 6, 2, 2, 2


class Gen:
    """call sequences with the slot types tracked conservatively (a failing call leaves the old value: the type after
    a call that may fail is the join of old and new), so that the type preconditions of the API hold by construction"""

    def __init__(self, rng, tier):
        self.rng = rng
        self.tier = tier
        self.ty = ["Z"] * NB          # Z integer, Q rational, D real double, C complex, N any number, Y symbol, S set, A anything
        self.ival = [0] * NB          # known integer value or None
        self.vlen = [0] * NV
        self.slen = [0] * NS          # upper bounds only for sets
        self.smin = [0] * NS          # lower bound of the set size
        self.big = [False] * NB       # taint, see emit
        self.cbig = {}
        self.calls = []

    def b(self):
        return self.rng.randrange(NB)

    def pick(self, pred):
        c = [i for i in range(NB) if pred(self.ty[i])]
        return self.rng.choice(c) if c else None

    def setty(self, i, t, may_fail=False, ival=None):
        if may_fail and self.ty[i] != t:
            isnum = lambda x: x in "ZQDCN"
            self.ty[i] = "N" if isnum(self.ty[i]) and isnum(t) else "A"
            self.ival[i] = None
        else:
            self.ty[i] = t
            self.ival[i] = ival if not may_fail else (ival if self.ival[i] == ival else None)

    # ---- taint: values whose magnitude makes the C++ core itself run out of time or memory (gamma(2^63), 2^(2^62), ...)
    #      are kept away from the functions that compute with the magnitude; the wrapper layer is exercised all the same
    DANGER = {"basic_gamma", "basic_loggamma", "basic_lowergamma", "basic_uppergamma", "basic_polygamma", "basic_beta",
              "basic_zeta", "basic_dirichlet_eta", "basic_pow", "basic_expand", "basic_lambertw", "ntheory_nextprime",
              "ntheory_binomial", "basic_evalf", "basic_subs", "basic_subs2", "basic_mul_vec", "basic_erf", "basic_erfc"}
    NO_OUT = {"basic_eq", "basic_neq", "basic_has_symbol", "basic_get_type", "basic_hash", "basic_dumps", "integer_get_si",
              "integer_get_ui", "real_double_get_d", "basic_get_args", "basic_free_symbols"}

    def emit(self, s):
        toks = s.split()
        fn = toks[0]
        bs = [int(t[1:]) for t in toks[1:] if re.match(r"^b\d+$", t)]
        cs = [t for t in toks[1:] if re.match(r"^[vsm]\d+$", t)]
        lit_big = any((t.startswith("i:") and abs(int(t[2:])) > 2 ** 20) for t in toks[1:]) and fn in (
            "integer_set_si", "integer_set_ui")
        lit_big = lit_big or (fn == "integer_set_str" and len(toks[2]) > 3 + 2 * 7)
        lit_big = lit_big or (fn == "basic_parse" and any(h in toks[2] for h in (hx("2**100")[1:], hx("1e10")[1:])))
        lit_big = lit_big or (fn == "real_double_set_d" and toks[2] in ("d:7ff0000000000000", "d:7ff8000000000000"))
        no_out = (fn in self.NO_OUT or fn.startswith("is_a_") or fn.startswith("number_is_") or fn.startswith("basic_str")
                  or fn.startswith("basic_set_is_") or fn.startswith("setbasic_") or fn.startswith("mapbasicbasic_")
                  or fn.startswith("vecbasic_") or fn.startswith("lambda_"))
        if fn in ("vecbasic_get", "setbasic_get", "mapbasicbasic_get"):
            ins, out = bs[:-1], bs[-1:]
        elif no_out or not bs:
            ins, out = bs, []
        else:
            ins, out = bs[1:], bs[:1]
        tainted = any(self.big[i] for i in ins) or any(self.cbig.get(c, False) for c in cs)
        if fn in self.DANGER and tainted:
            return False
        self.calls.append(s)
        grows = fn in ("basic_pow", "ntheory_factorial", "ntheory_fibonacci", "ntheory_lucas", "ntheory_binomial", "basic_gamma",
                       "basic_exp", "basic_mul_vec")
        for o in out:
            self.big[o] = tainted or lit_big or grows
        if fn in ("vecbasic_push_back", "vecbasic_set", "setbasic_insert", "mapbasicbasic_insert", "basic_get_args",
                  "basic_free_symbols", "basic_function_symbols"):
            for c in cs:
                self.cbig[c] = self.cbig.get(c, False) or tainted
        return True

    def gen_leaf(self, i=None):
        rng = self.rng
        i = self.b() if i is None else i
        r = rng.random()
        if r < 0.25:
            v = rng.choice(INTS)
            v = max(min(v, 2 ** 63 - 1), -(2 ** 63))
            self.emit("integer_set_si b%d i:%d" % (i, v))
            self.setty(i, "Z", ival=v)
        elif r < 0.30:
            v = rng.choice([0, 1, 7, 2 ** 64 - 1, 2 ** 63])
            self.emit("integer_set_ui b%d i:%d" % (i, v))
            self.setty(i, "Z", ival=v)
        elif r < 0.34:
            s = rng.choice(["123456789012345678901234567890", "-5", "0", "42", "abc", "", "12x", "+7"])
            self.emit("integer_set_str b%d %s" % (i, T(s)))
            self.setty(i, "Z", ival=None)
        elif r < 0.52:
            self.emit("symbol_set b%d %s" % (i, T(rng.choice(["x", "y", "z", "x", "t1", ""]))))
            self.setty(i, "Y")
        elif r < 0.58:
            self.emit("real_double_set_d b%d d:%s" % (i, rng.choice(DBL)))
            self.setty(i, "D")
        elif r < 0.64:
            a, b = rng.choice(INTS[:12]), rng.choice([1, 2, 3, -3, 7, 12, 100, -1])
            self.emit("rational_set_si b%d i:%d i:%d" % (i, a, b))
            self.setty(i, "N")
        elif r < 0.72:
            c = rng.choice(CONSTS)
            self.emit("%s b%d" % (c, i))
            self.setty(i, CONST_TYPE.get(c, "A"), ival={"basic_const_zero": 0, "basic_const_one": 1,
                                                         "basic_const_minus_one": -1}.get(c))
        elif r < 0.76:
            self.emit("basic_const_set b%d %s" % (i, T(rng.choice(["pi", "E", "foo", "Catalan"]))))
            self.setty(i, "A")
        elif r < 0.80:
            self.emit("%s b%d" % (rng.choice(["bool_set_true", "bool_set_false"]), i))
            self.setty(i, "A")
        elif r < 0.86:
            self.emit("%s b%d" % (rng.choice(SETS), i))
            self.setty(i, "S")
        else:
            bad = rng.random() < 0.2
            s = rng.choice(PARSE_BAD if bad else PARSE_OK)
            self.emit("basic_parse b%d %s" % (i, T(s)))
            self.setty(i, "A", may_fail=True)

    def gen_op(self):
        rng = self.rng
        r = rng.random()
        o = self.b()
        if r < 0.16:
            f = rng.choice(ONE_ARG)
            self.emit("basic_%s b%d b%d" % (f, o, self.b()))
            self.setty(o, "A", may_fail=True)
        elif r < 0.34:
            f = rng.choice(TWO_ARG if rng.random() < 0.4 else TWO_ARG[:5])
            self.emit("basic_%s b%d b%d b%d" % (f, o, self.b(), self.b()))
            self.setty(o, "A", may_fail=True)
        elif r < 0.38:
            self.emit("basic_diff b%d b%d b%d" % (o, self.b(), self.b() if rng.random() < 0.3 else (self.pick(lambda t: t == "Y") or self.b())))
            self.setty(o, "A", may_fail=True)
        elif r < 0.41:
            self.emit("basic_assign b%d b%d" % (o, self.b()))
            src = int(self.calls[-1].split()[-1][1:])
            self.ty[o], self.ival[o] = self.ty[src], self.ival[src]
        elif r < 0.47:
            f = rng.choice(["basic_eq", "basic_neq", "basic_has_symbol"])
            self.emit("%s b%d b%d" % (f, self.b(), self.b()))
        elif r < 0.53:
            f = rng.choice(["is_a_Number", "is_a_Integer", "is_a_Rational", "is_a_Symbol", "is_a_Complex", "is_a_RealDouble",
                            "is_a_ComplexDouble", "is_a_Set", "basic_get_type", "basic_hash"])
            self.emit("%s b%d" % (f, self.b()))
        elif r < 0.60:
            f = rng.choice(["basic_str"] * 4 + ["basic_str_julia", "basic_str_latex", "basic_str_ccode", "basic_str_jscode",
                                                 "basic_str_mathml"])
            self.emit("%s b%d" % (f, self.b()))
        elif r < 0.63:
            i = self.pick(lambda t: t in "ZQDCN")
            if i is not None:
                self.emit("%s b%d" % (rng.choice(["number_is_zero", "number_is_negative", "number_is_positive", "number_is_complex"]), i))
        elif r < 0.65:
            i = self.pick(lambda t: t == "Z")
            if i is not None:
                self.emit("%s b%d" % (rng.choice(["integer_get_si", "integer_get_ui"]), i))
            i = self.pick(lambda t: t == "D")
            if i is not None and rng.random() < 0.5:
                self.emit("real_double_get_d b%d" % i)
        elif r < 0.68:
            a, b = self.b(), self.b()
            self.emit("rational_set b%d b%d b%d" % (o, a, b))
            self.setty(o, "N", may_fail=True)
        elif r < 0.70:
            a, b = self.pick(lambda t: t in "ZQDCN"), self.pick(lambda t: t in "ZQDCN")
            if a is not None:
                self.emit("complex_set b%d b%d b%d" % (o, a, b))
                self.setty(o, "N", may_fail=True)
        elif r < 0.72:
            i = self.pick(lambda t: t == "C")
            if i is not None:
                self.emit("%s b%d b%d" % (rng.choice(["complex_base_real_part", "complex_base_imaginary_part"]), o, i))
                self.setty(o, "N", may_fail=True)
        elif r < 0.75:
            self.emit("basic_evalf b%d b%d i:%d i:%d" % (o, self.b(), rng.choice([53, 53, 10, 100]), rng.choice([0, 1])))
            self.setty(o, "N", may_fail=True)
        elif r < 0.78:
            self.emit("basic_subs2 b%d b%d b%d b%d" % (o, self.b(), self.b(), self.b()))
            self.setty(o, "A", may_fail=True)
        elif r < 0.80:
            self.emit("basic_coeff b%d b%d b%d b%d" % (o, self.b(), self.b(), self.b()))
            self.setty(o, "A", may_fail=True)
        elif r < 0.86:
            self.gen_ntheory(o)
        else:
            self.gen_setalg(o)

    def gen_ntheory(self, o):
        rng = self.rng
        a = self.pick(lambda t: t == "Z")
        if a is None:
            return
        r = rng.random()
        if r < 0.35:
            nz = [i for i in range(NB) if self.ty[i] == "Z" and self.ival[i] not in (None, 0)]
            if nz:
                self.emit("ntheory_%s b%d b%d b%d" % (rng.choice(["mod", "quotient", "mod_f", "quotient_f"]), o, a, rng.choice(nz)))
                self.setty(o, "Z", may_fail=True)
        elif r < 0.6:
            b = self.pick(lambda t: t == "Z")
            self.emit("ntheory_%s b%d b%d b%d" % (rng.choice(["gcd", "lcm"]), o, a, b))
            self.setty(o, "Z", may_fail=True)
        elif r < 0.7:
            if self.ival[a] is not None and abs(self.ival[a]) < 2 ** 40:
                self.emit("ntheory_nextprime b%d b%d" % (o, a))
                self.setty(o, "Z", may_fail=True)
        elif r < 0.8:
            self.emit("ntheory_binomial b%d b%d i:%d" % (o, a, rng.choice([0, 1, 2, 5, 10])))
            self.setty(o, "Z", may_fail=True)
        else:
            self.emit("ntheory_%s b%d i:%d" % (rng.choice(["fibonacci", "lucas", "factorial"]), o, rng.choice([0, 1, 2, 10, 30])))
            self.setty(o, "Z", may_fail=True)

    def gen_setalg(self, o):
        rng = self.rng
        r = rng.random()
        if r < 0.25:
            a, b = self.pick(lambda t: t in "ZQDCN"), self.pick(lambda t: t in "ZQDCN")
            if a is not None:
                self.emit("basic_set_interval b%d b%d b%d i:%d i:%d" % (o, a, b, rng.randint(0, 1), rng.randint(0, 1)))
                self.setty(o, "S" if self.ty[o] == "S" else "A", may_fail=True)
                return
        s1, s2 = self.pick(lambda t: t == "S"), self.pick(lambda t: t == "S")
        if s1 is None:
            self.emit("%s b%d" % (rng.choice(SETS), o))
            self.setty(o, "S")
            return
        if r < 0.55:
            self.emit("basic_set_%s b%d b%d b%d" % (rng.choice(["union", "intersection", "complement"]), o, s1, s2))
            self.setty(o, "S" if self.ty[o] == "S" else "A", may_fail=True)
        elif r < 0.65:
            self.emit("basic_set_contains b%d b%d b%d" % (o, s1, self.b()))
            self.setty(o, "A", may_fail=True)
        elif r < 0.8:
            self.emit("basic_set_%s b%d b%d" % (rng.choice(["is_subset", "is_proper_subset", "is_superset", "is_proper_superset"]), s1, s2))
        elif r < 0.9:
            self.emit("basic_set_%s b%d b%d" % (rng.choice(["inf", "sup"]), o, s1))
            self.setty(o, "A", may_fail=True)
        else:
            self.emit("basic_set_%s b%d b%d" % (rng.choice(["boundary", "interior", "closure"]), o, s1))
            self.setty(o, "S" if self.ty[o] == "S" else "A", may_fail=True)

    def gen_container(self):
        rng = self.rng
        r = rng.random()
        v, s, m = rng.randrange(NV), rng.randrange(NS), rng.randrange(NM)
        if r < 0.2:
            self.emit("vecbasic_push_back v%d b%d" % (v, self.b()))
            self.vlen[v] += 1
        elif r < 0.3:
            if self.vlen[v] > 0:
                n = rng.randrange(self.vlen[v])
                o = self.b()
                self.emit("vecbasic_get v%d i:%d b%d" % (v, n, o))
                self.setty(o, "A")
        elif r < 0.36:
            if self.vlen[v] > 0:
                self.emit("vecbasic_set v%d i:%d b%d" % (v, rng.randrange(self.vlen[v]), self.b()))
        elif r < 0.40:
            if self.vlen[v] > 0:
                self.emit("vecbasic_erase v%d i:%d" % (v, rng.randrange(self.vlen[v])))
                self.vlen[v] -= 1
        elif r < 0.44:
            self.emit("vecbasic_size v%d" % v)
        elif r < 0.50:
            o = self.b()
            self.emit("%s b%d v%d" % (rng.choice(["basic_max", "basic_min", "basic_add_vec", "basic_mul_vec"]), o, v))
            self.setty(o, "A", may_fail=True)
        elif r < 0.54:
            self.emit("basic_get_args b%d v%d" % (self.b(), v))
            self.vlen[v] = 0     # unknown: no indexed access until pushes are counted again
        elif r < 0.58:
            o = self.b()
            self.emit("function_symbol_set b%d %s v%d" % (o, T(rng.choice(["f", "g", "f"])), v))
            self.setty(o, "A", may_fail=True)
        elif r < 0.70:
            self.emit("setbasic_insert s%d b%d" % (s, self.b()))
            self.smin[s] = max(self.smin[s], 1)
        elif r < 0.75:
            if self.smin[s] > 0:
                o = self.b()
                self.emit("setbasic_get s%d i:0 b%d" % (s, o))
                self.setty(o, "A")
        elif r < 0.79:
            self.emit("setbasic_find s%d b%d" % (s, self.b()))
        elif r < 0.82:
            self.emit("setbasic_erase s%d b%d" % (s, self.b()))
            self.smin[s] = 0
        elif r < 0.84:
            self.emit("setbasic_size s%d" % s)
        elif r < 0.87:
            self.emit("%s b%d s%d" % ("basic_free_symbols", self.b(), s))
            self.smin[s] = 0
        elif r < 0.89:
            self.emit("basic_function_symbols s%d b%d" % (s, self.b()))
            self.smin[s] = 0
        elif r < 0.91:
            o = self.b()
            self.emit("basic_set_finiteset b%d s%d" % (o, s))
            self.setty(o, "S" if self.ty[o] == "S" else "A", may_fail=True)
        elif r < 0.96:
            self.emit("mapbasicbasic_insert m%d b%d b%d" % (m, self.b(), self.b()))
        elif r < 0.98:
            o = self.b()
            self.emit("mapbasicbasic_get m%d b%d b%d" % (m, self.b(), o))
            self.setty(o, "A", may_fail=True)
        elif r < 0.99:
            self.emit("mapbasicbasic_size m%d" % m)
        else:
            o = self.b()
            self.emit("basic_subs b%d b%d m%d" % (o, self.b(), m))
            self.setty(o, "A", may_fail=True)

    def sequence(self):
        rng = self.rng
        n = rng.randint(5, 14) if self.tier == "quick" else rng.randint(5, 22)
        for i in range(rng.randint(2, 4)):
            self.gen_leaf(i)
        while len(self.calls) < n:
            r = rng.random()
            if r < 0.22:
                self.gen_leaf()
            elif r < 0.70:
                self.gen_op()
            elif r < 0.985:
                self.gen_container()
            else:
                self.emit("lambda_real_double_visitor_init L v%d v%d i:%d" % (rng.randrange(NV), rng.randrange(NV), rng.randint(0, 1)))
        return " ; ".join(self.calls)


def J(*calls):
    return " ; ".join(calls)


CORPUS = [
    # argument plumbing: non-commutative functions, every output slot distinct from the inputs
    J("integer_set_si b0 i:7", "symbol_set b1 " + T("x"), "basic_sub b2 b0 b1", "basic_sub b3 b1 b0", "basic_div b4 b0 b1",
      "basic_pow b5 b1 b0", "basic_str b2", "basic_str b3", "basic_str b4", "basic_str b5"),
    J("integer_set_si b0 i:2", "integer_set_si b1 i:10", "basic_pow b2 b0 b1", "basic_pow b3 b1 b0", "basic_atan2 b4 b0 b1",
      "basic_atan2 b5 b1 b0", "ntheory_mod b2 b1 b0", "ntheory_quotient b3 b1 b0", "ntheory_binomial b4 b1 i:3"),
    J("basic_parse b0 " + T("x**2*y + f(x)"), "symbol_set b1 " + T("x"), "symbol_set b2 " + T("y"), "basic_diff b3 b0 b1",
      "basic_diff b4 b0 b2", "basic_subs2 b5 b0 b1 b2", "basic_coeff b4 b0 b1 b2", "basic_has_symbol b0 b1", "basic_has_symbol b1 b0"),
    # exceptions on the C++ side: every error code
    J("basic_parse b0 " + T("x+"), "basic_str b0", "symbol_set b1 " + T("x"), "basic_evalf b2 b1 i:53 i:1", "basic_str b2",
      "integer_set_si b3 i:5", "basic_diff b4 b1 b3", "basic_max b4 v0", "basic_min b4 v0", "basic_const_I b5",
      "basic_set_interval b4 b5 b3 i:0 i:0", "basic_evalf b2 b3 i:100 i:1"),
    J("basic_set_emptyset b0", "basic_set_sup b1 b0", "basic_set_inf b1 b0", "basic_set_reals b2", "basic_set_sup b1 b2",
      "basic_set_boundary b3 b2", "basic_set_universalset b4", "basic_str b4", "basic_set_union b5 b0 b4", "basic_str b5"),
    J("integer_set_si b0 i:0", "integer_set_si b1 i:5", "rational_set b2 b1 b0", "rational_set b3 b0 b0", "symbol_set b4 " + T("x"),
      "rational_set b5 b4 b1", "basic_div b5 b1 b0", "basic_pow b5 b0 b1", "basic_log b5 b0", "basic_zeta b5 b1"),
    # containers: vector laws, set order and idempotence, map overwrite
    J("integer_set_si b0 i:3", "symbol_set b1 " + T("x"), "vecbasic_push_back v0 b0", "vecbasic_push_back v0 b1", "vecbasic_size v0",
      "vecbasic_get v0 i:1 b2", "vecbasic_set v0 i:0 b1", "vecbasic_get v0 i:0 b3", "vecbasic_erase v0 i:0", "vecbasic_size v0",
      "basic_add_vec b4 v0", "basic_mul_vec b5 v0", "basic_max b4 v1"),
    J("symbol_set b0 " + T("y"), "symbol_set b1 " + T("x"), "integer_set_si b2 i:3", "setbasic_insert s0 b0", "setbasic_insert s0 b1",
      "setbasic_insert s0 b2", "setbasic_insert s0 b0", "setbasic_size s0", "setbasic_get s0 i:0 b3", "setbasic_get s0 i:1 b4",
      "setbasic_get s0 i:2 b5", "setbasic_find s0 b1", "setbasic_erase s0 b1", "setbasic_find s0 b1", "setbasic_erase s0 b1",
      "basic_set_finiteset b3 s0"),
    J("symbol_set b0 " + T("x"), "symbol_set b1 " + T("y"), "integer_set_si b2 i:3", "mapbasicbasic_insert m0 b0 b1",
      "mapbasicbasic_insert m0 b0 b2", "mapbasicbasic_size m0", "mapbasicbasic_get m0 b0 b3", "mapbasicbasic_get m0 b1 b4",
      "basic_parse b5 " + T("x + y"), "basic_subs b4 b5 m0", "mapbasicbasic_insert m0 b1 b0", "basic_subs b4 b5 m0"),
    J("basic_parse b0 " + T("f(x, y) + g(z)*x"), "basic_free_symbols b0 s0", "basic_function_symbols s1 b0", "basic_get_args b0 v0",
      "setbasic_size s0", "setbasic_size s1", "vecbasic_size v0", "symbol_set b1 " + T("x"), "vecbasic_push_back v1 b1",
      "function_symbol_set b2 " + T("h") + " v1", "basic_str b2"),
    # the defects found while building this check (known findings / fixed)
    J("basic_set_universalset b0", "basic_str b0"),
    J("integer_set_si b0 i:3", "vecbasic_push_back v0 b0", "vecbasic_get v0 i:1 b1"),
    J("integer_set_si b0 i:3", "vecbasic_push_back v0 b0", "vecbasic_set v0 i:1 b0"),
    J("integer_set_si b0 i:3", "vecbasic_push_back v0 b0", "vecbasic_erase v0 i:1", "vecbasic_size v0"),
    J("integer_set_si b0 i:3", "setbasic_insert s0 b0", "setbasic_get s0 i:1 b1"),
    J("symbol_set b0 " + T("x"), "symbol_set b1 " + T("y"), "vecbasic_push_back v0 b0", "vecbasic_push_back v1 b1",
      "lambda_real_double_visitor_init L v0 v0 i:0", "lambda_real_double_visitor_init L v0 v1 i:0"),
    J("basic_set_complexes b0", "basic_dumps b0"),
    J("symbol_set b0 " + T("x"), "basic_dumps b0", "basic_set_reals b1", "basic_dumps b1", "basic_parse b2 " + T("f(x) + 1/2"), "basic_dumps b2"),
] + [
    J("integer_set_si b0 i:1", "integer_set_si b1 i:2", "basic_set_interval b2 b0 b1 i:0 i:1", "symbol_set b3 " + T("x"),
      "setbasic_insert s0 b3", "basic_set_finiteset b4 s0", "basic_set_union b5 b2 b4", "symbol_set b3 " + T("y"),
      "setbasic_insert s1 b3", "basic_set_finiteset b4 s1", call)
    for call in ["basic_set_is_subset b4 b5", "basic_set_is_proper_subset b4 b5", "basic_set_is_superset b5 b4",
                 "basic_set_is_proper_superset b5 b4", "basic_set_is_subset b4 b2", "basic_set_is_superset b2 b4"]
] + [
    J("integer_set_si b0 i:1", "integer_set_si b1 i:2", "basic_set_interval b2 b0 b1 i:0 i:1", "symbol_set b3 " + T("x"),
      "setbasic_insert s0 b3", "basic_set_finiteset b4 s0", "basic_set_union b5 b2 b4", "basic_set_reals b0",
      "basic_set_is_subset b0 b5"),
    J("rational_set_si b0 i:1 i:0"),
    J("rational_set_ui b0 i:1 i:0"),
    J("integer_set_si b0 i:5", "integer_set_si b1 i:0", "ntheory_mod b2 b0 b1"),
    J("integer_set_si b0 i:5", "integer_set_si b1 i:0", "ntheory_quotient b2 b0 b1"),
    J("integer_set_si b0 i:5", "integer_set_si b1 i:0", "ntheory_mod_f b2 b0 b1"),
    J("integer_set_si b0 i:5", "integer_set_si b1 i:0", "ntheory_quotient_f b2 b0 b1"),
]

XCORPUS = [("x + 1", "y/2"), ("0", "0"), ("x", "x"), ("2", "3"), ("1/2", "-1/2"), ("x**2", "2"), ("0", "-1"), ("I", "I"),
           ("1.5", "x"), ("zoo", "0"), ("oo", "-oo"), ("sin(x)", "cos(x)"), ("(x+1)**2", "x+1"), ("x", "0")]
XATOMS = ["x", "y", "0", "1", "-1", "2", "1/2", "-3/7", "1.5", "I", "pi", "E", "oo", "zoo", "nan", "x + 1", "x*y", "x**2",
          "sin(x)", "exp(y)", "(x + y)**2", "sqrt(2)", "2**x", "x/y", "1 + I", "f(x)", "x - y", "3*x", "log(x)"]


def gen_x(rng):
    def e():
        a = rng.choice(XATOMS)
        if rng.random() < 0.3:
            a = "(%s)%s(%s)" % (a, rng.choice(["+", "*", "-", "/", "**"]), rng.choice(XATOMS))
        return a
    return (e(), e())


# ---------------------------------------------------------------------------------------- running
def build(ctx):
    drv = ctx.build_driver("c42_driver")
    model = ctx.build_model("C42", "C42/Extract.v", "c42_main.ml", "c42model")
    return drv, model


def strip_records(line):
    """the driver line without the mirror / start records, oracle verdict split off"""
    canon, _, oracle = line.partition("\t#ORACLE:")
    recs = [r for r in canon.split(" ## ")]
    keep = [r for r in recs if not (r.startswith("M @") or r.startswith("MS @") or r.startswith("CS @"))]
    return " ## ".join(keep).strip(), oracle.strip(), recs


def classify_death(recs):
    """(kind, fname, call index) for a line that ends with CRASH / HANG / EXIT"""
    last = recs[-1]
    m = re.search(r"(CRASH:\d+|HANG|EXIT:\d+)$", last)
    if not m:
        return None
    how = m.group(1)
    prev = [r for r in recs[:-1] if r.strip()]
    # the last start record tells which side died
    for r in reversed(prev):
        f = r.split(" @ ")
        if f[0] == "CS":
            return ("crash", f[2].strip(), int(f[1]), how)
        if f[0] == "MS":
            return ("core-crash", f[2].strip(), int(f[1]), how)
    return ("crash", "?", -1, how)


def explore(ctx, drv, model, cases, search=False, stats=None):
    if drv is None:
        return
    impl = ctx.run_lines(drv, cases, timeout=3000)
    seq_idx = [i for i, c in enumerate(cases) if not c.startswith("X ")]
    mod = {}
    if model is not None:
        min_in = ["%s\t%s" % (cases[i], impl[i].split("\t#ORACLE:")[0]) for i in seq_idx]
        outs = ctx.run_lines(model, min_in, timeout=3000)
        for i, o in zip(seq_idx, outs):
            mod[i] = o
    ctx.cov["evaluations"] += len(cases)
    ndis = 0
    for i, c in enumerate(cases):
        line = impl[i]
        canon, oracle, recs = strip_records(line)
        rep = {"family": "C42", "case": c, "impl": line[-3000:]}
        if c.startswith("X "):
            if oracle:
                parts = oracle.split(":", 2)
                ctx.violation("C42/%s:%s" % (parts[0], parts[1] if len(parts) > 1 else "?"),
                              "Expression operands %s: %s" % (c, oracle), rep)
            elif not canon.startswith("X @"):
                ctx.violation("C42/expr-op:crash", "Expression operators on %s: %s" % (c, canon[-80:]), rep)
            else:
                ctx.cov["traces_validated_against_impl"] += 1
            continue
        death = classify_death(recs)
        m = mod.get(i)
        rep["model"] = (m or "")[-3000:]
        if stats is not None:
            for r in recs:
                f = r.split(" @ ")
                if f[0] == "C" and len(f) > 2:
                    k = int(f[1])
                    fn = c.split(" ; ")[k].split()[0] if k < len(c.split(" ; ")) else "?"
                    stats.add((fn, f[2].split("=")[0] + ("=" + f[2].split("=")[1] if f[2].startswith("rc=") else "")))
        if death:
            kind, fn, k, how = death
            call = c.split(" ; ")[k] if 0 <= k < len(c.split(" ; ")) else "?"
            if kind == "core-crash":
                # the C++ API call itself died (resource exhaustion or a defect of the core): there is no C++ result the C
                # function could agree with -- outside this property; recorded, not a violation
                ctx.core_deaths = getattr(ctx, "core_deaths", 0) + 1
                if len(ctx.notes) < 8:
                    ctx.notes.append("C++ core died (%s) behind `%s` in `%s`" % (how, call, c[:300]))
            else:
                ctx.violation("C42/crash:%s" % fn,
                              "C call `%s` kills the process (%s) instead of returning an error code (sequence `%s`; model: %s)" % (call, how, c, (m or "")[-80:]), rep)
                # the model must have predicted a memory error at exactly this call
                if m is not None and not re.search(r"MEMERR @ %d @ %s\b" % (k, re.escape(fn)), m):
                    ndis += 1
                    if ndis <= 3:
                        ctx.broken.append({"kind": "correspondence", "name": "C42 crash not predicted by the model",
                                           "detail": "sequence `%s`\n model: %s\n impl:  %s" % (c, (m or "")[-400:], canon[-400:])})
            continue
        if oracle:
            parts = oracle.split(":", 2)
            ctx.violation("C42/%s:%s" % (parts[0], parts[1] if len(parts) > 1 else "?"), "sequence `%s`: %s" % (c, oracle), rep)
            if parts[0] == "result" or parts[0] == "code":
                continue   # the code deviates from the expected plumbing: the model (which follows the code) has no oracle answer
        if canon.startswith("BAD") or "NOMIRROR" in canon or "NOCFUN" in canon or "BADCALL" in canon:
            ctx.broken.append({"kind": "correspondence", "name": "C42 driver rejects a case", "detail": c + "\n" + canon[-300:]})
            continue
        if m is None:
            continue
        if any(call.split()[0] in DRIVER_ONLY for call in c.split(" ; ")):
            ctx.cov["traces_validated_against_impl"] += 1     # by the driver's oracle only
            continue
        if m.startswith("UNSUPPORTED"):
            ctx.notes.append("model cannot read a dump: " + m) if len(ctx.notes) < 5 else None
            continue
        if "PRECOND @" in m:
            # a type precondition was violated by the generated sequence: outside the domain (generator bug)
            ctx.notes.append("generated sequence violates a precondition: %s" % m[-60:]) if len(ctx.notes) < 5 else None
            ndis += 1
            if ndis <= 3:
                ctx.broken.append({"kind": "correspondence", "name": "C42 precondition violated by a generated sequence",
                                   "detail": "sequence `%s`\n model: %s" % (c, m[-300:])})
            continue
        if m.strip() != canon:
            ndis += 1
            if ndis <= 3:
                # first differing record
                a, b = m.strip().split(" ## "), canon.split(" ## ")
                j = 0
                while j < min(len(a), len(b)) and a[j] == b[j]:
                    j += 1
                ctx.broken.append({"kind": "correspondence", "name": "C42 call sequence",
                                   "detail": "sequence `%s`\n first difference at record %d\n model: %s\n impl:  %s" % (
                                       c, j, (a[j] if j < len(a) else "<end>")[:400], (b[j] if j < len(b) else "<end>")[:400])})
        else:
            ctx.cov["traces_validated_against_impl"] += 1
    return ndis


def run(ctx):
    ctx.gate(["Base", "C42"])
    translate(ctx)
    if listed_in_coqproject():
        ctx.prove(PROOF_MODULES, OBLIGATIONS)
    else:
        build_coq(ctx)
        ctx.prove([], OBLIGATIONS)
    drv, model = build(ctx)
    nseq = 220 if ctx.tier == "quick" else 4000
    nx = 60 if ctx.tier == "quick" else 1500
    cases = list(CORPUS) + ["X %s %s" % (hx(a), hx(b)) for a, b in XCORPUS]
    cases += [Gen(ctx.rng, ctx.tier).sequence() for _ in range(nseq)]
    cases += ["X %s %s" % tuple(hx(s) for s in gen_x(ctx.rng)) for _ in range(nx)]
    stats = set()
    explore(ctx, drv, model, cases, stats=stats)
    if ctx.broken and not ctx.violations:
        extra = [Gen(ctx.rng, "thorough").sequence() for _ in range(600)]
        extra += ["X %s %s" % tuple(hx(s) for s in gen_x(ctx.rng)) for _ in range(300)]
        explore(ctx, drv, model, extra, search=True, stats=stats)
    ctx.cov["distinct_nontrivial"] = len(stats)
    ctx.cov["rule"] = ("sequences of C API calls (constructors from C scalars, parse, ~60 forwarding functions, predicates, printers, "
                       "vecbasic / setbasic / mapbasicbasic operations, set algebra, ntheory, evalf, lambda visitor init) on 6 basic, "
                       "2 vector, 2 set and 2 map handles, slot types tracked so that the type preconditions hold; inputs aimed at the "
                       "error paths (unparsable strings, non-symbol differentiation variables, empty vectors, complex interval ends, "
                       "evalf of symbols, zero denominators) and at the container boundaries (equal keys, first/last index, erase then "
                       "find); distinct_nontrivial = distinct (C function, outcome kind or error code) pairs observed on the library")
    ctx.cov["samples"] += [{"sequence": c} for c in cases[:3]]
    ctx.assumptions += [
        "the C++ core is an oracle of the model: theorems hold for every core behaviour (value or exception); termination and "
        "memory safety of the core itself are outside this property (a C++ API call that kills the process before the C "
        "function is even called is recorded in the notes, not reported as a violation)",
        "std::vector / std::set / std::map behave as lists / sorted lists under RCPBasicKeyLess (the comparator is the model of C02)",
        "out-of-memory (std::bad_alloc from push_back / new) is not modelled",
        "type preconditions implied by unchecked casts (rcp_static_cast / down_cast of an argument) are part of the domain: a call "
        "violating one is undefined behaviour in release builds and is never executed by the check",
        "matrix, MPFR/MPC, LLVM and serialisation functions are covered by the static table theorems only",
    ]


def replay(ctx, rep):
    drv, model = build(ctx)
    c = rep["replay"]["case"]
    line = ctx.run_lines(drv, [c])[0]
    print("case :", c)
    print("impl :", line)
    if model is not None and not c.startswith("X "):
        print("model:", ctx.run_lines(model, ["%s\t%s" % (c, line.split("\t#ORACLE:")[0])])[0])
