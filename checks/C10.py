"""C10 -- differentiation is correct (symengine/derivative.cpp).

Model: coq/C10/DiffModel.v (DiffVisitor transcribed; regular rule bodies regenerated from the C++ by
translators/tr_diffrules.py into coq/C10/Gen_DiffRules.v).  Theorems: coq/C10/P_*.v.
Tie: (1) the translator re-reads derivative.cpp on every run; (2) for every case the driver prints the
dumps of x, e and diff(e, x); the extracted model reads the dumps and returns the construction term
(which library constructors the visitor calls on which sub-trees); the driver evaluates that term
with the library's own constructors and compares the tree with diff(e, x).
Oracle (on the library alone): x not in e => exactly 0; cache on/off agree; exact dual numbers over Q on
rational functions; central finite differences at real and at complex points."""
import os
import re
import vlib

# top-level proof modules (make builds their dependencies: RuleSpec, the 25 RS_<Class> files, RulesAll ...)
PROOF_MODULES = ["C10/DiffSound.vo", "C10/DiffAbsent.vo", "C10/DiffCache.vo", "C10/DiffFresh.vo", "C10/DiffPolyProofs.vo"]

RULE_CLASSES = ["Sin", "Cos", "Tan", "Cot", "Sec", "Csc", "ASin", "ACos", "ATan", "ACot", "ASec", "ACsc",
                "Sinh", "Cosh", "Tanh", "Coth", "Sech", "Csch", "ASinh", "ACosh", "ATanh", "ACoth", "ASech", "ACsch", "Log"]
# my Coq files in dependency order, as stages (the files of one stage do not depend on each other)
STAGES = [["C10/DiffRuleAst.v", "C10/DiffPoly.v"], ["C10/Gen_DiffRules.v"], ["C10/DiffModel.v"], ["C10/DiffInd.v", "C10/DiffSem.v"],
          ["C10/DiffAbsent.v", "C10/DiffCache.v", "C10/DiffReal.v", "C10/DiffFresh.v"], ["C10/RuleSpec.v"],
          ["C10/RS_%s.v" % c for c in RULE_CLASSES], ["C10/RulesAll.v", "C10/DiffPolyProofs.v"], ["C10/DiffSound.v"]]
OBLIGATIONS = (["C10/P_rule_%s.v" % c for c in RULE_CLASSES] +
               ["C10/P_diff_sound.v", "C10/P_diff_absent.v", "C10/P_diff_cache_irrelevant.v",
                "C10/P_diff_cache_invariant.v", "C10/P_transcription_current.v", "C10/P_poly_uint_sound.v",
                "C10/P_poly_urat_sound.v", "C10/P_get_dummy_fresh.v", "C10/P_funsym_chain_rule.v", "C10/P_nonvacuous.v"])

F1_RULE = ["sin", "cos", "tan", "cot", "sec", "csc", "asin", "acos", "atan", "acot", "asec", "acsc",
           "sinh", "cosh", "tanh", "coth", "sech", "csch", "asinh", "acosh", "atanh", "acoth", "asech", "acsch",
           "log", "exp", "erf", "erfc", "gamma", "loggamma", "lambertw", "sqrt", "cbrt"]
F1_OTHER = ["abs", "sign", "floor", "ceiling", "conjugate", "zeta", "dirichlet_eta", "digamma", "trigamma", "truncate"]
F2_ALL = ["atan2", "beta", "zeta", "polygamma", "lowergamma", "uppergamma", "kronecker_delta", "log"]
SYMS = ["x", "y", "z"]
NUMS = ["(i 2)", "(i 3)", "(i -1)", "(i -2)", "(q 1 2)", "(q -3 2)", "(q 2 3)", "(i 5)", "(i 1)", "(i 0)", "pi", "E",
        "(q 7 4)", "(i -5)"]
RARE_NUMS = ["I", "(d 3ff8000000000000)", "(c 1 2 1 3)", "EulerGamma", "(q 22 7)"]


def translate(ctx):
    env = dict(os.environ)
    env["VERIF_REPO"] = vlib.REPO
    rc, out = vlib.sh(["python3", os.path.join(vlib.ROOT, "translators", "tr_diffrules.py")], env=env)
    if rc != 0:
        ctx.broken.append({"kind": "translator", "name": "tr_diffrules", "detail": out[-2000:]})
    return rc == 0


def listed_in_coqproject():
    try:
        return "C10/DiffModel.v" in open(os.path.join(vlib.COQ, "_CoqProject")).read()
    except OSError:
        return False


def build_coq(ctx):
    """fallback while the C10 files are not listed in coq/_CoqProject: compile the stale modules stage by
    stage; a module that no longer compiles is a broken proof, and its dependents fail with it"""
    from concurrent.futures import ThreadPoolExecutor
    ok = True
    shared = ["Expr/Guards.vo", "Expr/NumProofs.vo", "Gen/TypeCodes.vo"]

    def compile_one(v):
        rc, out = vlib.sh(["timeout", "900", "coqc", "-Q", ".", "SE", "-w", "-notation-overridden", v],
                          cwd=vlib.COQ, timeout=930)
        return v, rc, out

    with vlib.Lock(os.path.join(vlib.WORK, "coq-c10.lock")):
        newest = max([os.path.getmtime(os.path.join(vlib.COQ, d)) for d in shared if os.path.exists(os.path.join(vlib.COQ, d))] or [0.0])
        for stage in STAGES:
            stale = []
            for v in stage:
                src = os.path.join(vlib.COQ, v)
                vo = src + "o"
                if (not os.path.exists(vo)) or os.path.getmtime(vo) < os.path.getmtime(src) or os.path.getmtime(vo) < newest:
                    stale.append(v)
            if stale:
                with ThreadPoolExecutor(max_workers=12) as ex:
                    for v, rc, out in ex.map(compile_one, stale):
                        vo = os.path.join(vlib.COQ, v) + "o"
                        if rc != 0:
                            ok = False
                            if os.path.exists(vo):
                                os.remove(vo)
                            ctx.broken.append({"kind": "proof", "name": v, "detail": out[-2500:]})
            for v in stage:
                vo = os.path.join(vlib.COQ, v) + "o"
                if os.path.exists(vo):
                    newest = max(newest, os.path.getmtime(vo))
    return ok


# ---------------------------------------------------------------------------------------- generators
def leaf(rng, var_p=0.5):
    r = rng.random()
    if r < var_p:
        return "__X"
    if r < var_p + 0.25:
        return rng.choice(SYMS)
    if r < 0.97:
        return rng.choice(NUMS)
    return rng.choice(RARE_NUMS)


def gen_expr(rng, depth, funs=True):
    if depth <= 0 or rng.random() < 0.2:
        return leaf(rng)
    r = rng.random()
    a = gen_expr(rng, depth - 1, funs)
    if r < 0.22:
        return "(add %s %s)" % (a, gen_expr(rng, depth - 1, funs))
    if r < 0.44:
        return "(mul %s %s)" % (a, gen_expr(rng, depth - 1, funs))
    if r < 0.58:
        return "(pow %s %s)" % (a, rng.choice(["(i 2)", "(i 3)", "(i -1)", "(i -2)", "(q 1 2)", "(q -1 2)", "(q 3 2)", "(i 4)"]))
    if r < 0.64:
        return "(pow %s %s)" % (a, gen_expr(rng, depth - 1, funs))
    if r < 0.70:
        return "(sub %s %s)" % (a, gen_expr(rng, depth - 1, funs))
    if r < 0.76:
        return "(div %s %s)" % (a, gen_expr(rng, depth - 1, funs))
    if not funs:
        return "(mul %s %s)" % (a, gen_expr(rng, depth - 1, funs))
    if r < 0.93:
        return "(f1 %s %s)" % (rng.choice(F1_RULE), a)
    if r < 0.95:
        return "(f1 %s %s)" % (rng.choice(F1_OTHER), a)
    if r < 0.975:
        return "(f2 %s %s %s)" % (rng.choice(F2_ALL), a, gen_expr(rng, depth - 1, funs))
    if r < 0.99:
        return "(fs %s %s)" % (rng.choice(["f", "g"]), " ".join([a] + [gen_expr(rng, 1, funs) for _ in range(rng.randint(0, 2))]))
    return "(%s %s %s)" % (rng.choice(["max", "min"]), a, gen_expr(rng, 1, funs))


def case(x, e):
    # __X stands for the differentiation variable; only a Dummy needs the driver's substitution
    if "dum" not in x:
        e = e.replace("__X", x)
    return "D\t%s\t%s" % (x, e)


def class_cases(tier="thorough"):
    out = []
    shapes = ["__X", "(mul (i 2) __X)", "(add (pow __X (i 2)) y)", "y", "(mul y __X)", "(q 1 3)"]
    if tier == "quick":
        shapes = shapes[:4]
    for f in F1_RULE + F1_OTHER:
        for arg in shapes:
            out.append(case("x", "(f1 %s %s)" % (f, arg)))
        out.append(case("x", "(pow (f1 %s __X) (i 2))" % f))
        out.append(case("x", "(mul y (f1 %s (f1 sin __X)))" % f))
    for f in F2_ALL:
        for a, b in [("__X", "y"), ("y", "__X"), ("__X", "__X"), ("(mul (i 2) __X)", "(pow __X (i 2))"), ("y", "z"),
                     ("(i 2)", "__X"), ("__X", "(i 3)")]:
            out.append(case("x", "(f2 %s %s %s)" % (f, a, b)))
    return out


CORPUS = [
    # the variable is recognised by name only (DESIGN.md section 11 row 19)
    case("(s x)", "(dum x)"),
    case("(dum x)", "(s x)"),
    case("(dum x)", "(add __X (dum x))"),
    case("(dum x)", "(mul __X (f1 sin __X))"),
    case("(s x)", "(fs f (dum x))"),
    # arithmetic
    case("x", "(i 5)"), case("x", "pi"), case("x", "y"), case("x", "__X"),
    case("x", "(add (mul (i 3) __X) (mul y (pow __X (i 2))) (i 7))"),
    case("x", "(mul __X y z)"), case("x", "(mul (pow __X (i 2)) (pow y (i -1)))"),
    case("x", "(pow __X __X)"), case("x", "(pow (i 2) __X)"), case("x", "(pow E (mul __X y))"), case("x", "(pow __X y)"),
    case("x", "(pow y __X)"), case("x", "(pow (add __X (i 1)) (q 1 2))"), case("x", "(pow (pow __X y) (i 2))"),
    case("x", "(mul (pow (i 2) (q 1 2)) __X)"), case("x", "(div (add __X y) (sub __X y))"),
    case("x", "(sub (pow (f1 sin __X) (i 2)) (sub (i 1) (pow (f1 cos __X) (i 2))))"),
    case("x", "(add (pow (f1 sin __X) (i 2)) (pow (f1 cos __X) (i 2)))"),
    case("w", "(mul __X (f1 sin x))"), case("w", "(fs f x y)"), case("w", "(f1 abs x)"),
    # undefined functions, Derivative, Subs
    case("x", "(fs f __X)"), case("x", "(fs f __X y)"), case("x", "(fs f y __X)"), case("x", "(fs f __X __X)"),
    case("x", "(fs f (mul (i 2) __X))"), case("x", "(fs f (pow __X (i 2)) (f1 sin __X))"), case("x", "(fs f (fs g __X))"),
    case("x", "(fs f _xi_1 (mul __X _xi_1))"), case("x", "(fs f __xi_1 _xi_1 (mul __X _xi_1))"),
    case("x", "(deriv (fs f __X y) y)"), case("x", "(deriv (fs f __X y) __X)"), case("y", "(deriv (fs f x __X) x x)"),
    case("x", "(deriv (fs f (mul (i 2) __X)) y)"), case("x", "(deriv (f1 abs __X) __X)"), case("x", "(deriv (fs f y) y)"),
    case("x", "(diff (fs f (pow __X (i 2))) __X)"), case("x", "(diff (fs f (pow __X (i 2)) y) y)"),
    case("y", "(diff (fs f (pow x (i 2)) __X) x)"), case("x", "(diff (diff (fs f (f1 sin __X)) __X) __X)"),
    case("x", "(diff (fs f (mul __X y) (add __X y)) y)"), case("x", "(mul __X (diff (fs g (mul (i 3) __X)) __X))"),
    case("x", "(f1 abs (fs f __X))"), case("x", "(f1 abs (sub __X __X))"), case("x", "(f1 abs y)"),
    case("x", "(f1 sign (mul (i 2) __X))"), case("x", "(f1 floor __X)"), case("x", "(max __X y)"), case("x", "(min (pow __X (i 2)) (i 3))"),
    case("x", "(levi __X y z)"),
    # piecewise and the classes that throw
    case("x", "(pw (f1 sin __X) (lt __X (i 0)) (pow __X (i 2)) true)"),
    case("x", "(lt __X y)"), case("x", "(and (lt __X y) (gt __X (i 0)))"), case("x", "(interval (i 1) (i 2) 0 0)"),
    case("x", "(fset __X y)"), case("x", "true"), case("x", "(contains __X (interval (i 1) (i 2) 0 0))"), case("x", "reals"),
    case("x", "(f1 sin (lt __X y))"),
    # numbers of other kinds
    case("x", "(mul I __X)"), case("x", "(mul (d 3ff8000000000000) (pow __X (i 2)))"), case("x", "(add oo __X)"),
    case("x", "(mul (c 1 2 1 3) (f1 sin __X))"), case("x", "(pow __X (d 4004000000000000))"),
    # complex branch: acosh' = 1/sqrt(x^2-1) is wrong in the left half plane
    case("x", "(f1 acosh (sub (i 0) __X))"),
    # exact oracle with multi-limb coefficients
    case("x", "(mul (i 18446744073709551617) (pow __X (i 3)))"),
    case("x", "(div (add (pow __X (i 5)) (i 36893488147419103232)) (add (mul (q 1 18446744073709551629) __X) y))"),
    # constants whose rule factor is singular: mul(zoo, 0) = nan, polygamma(0, 2^64+1) throws
    case("x", "(f1 asec (i 0))"), case("x", "(f1 loggamma (i 18446744073709551617))"), case("y", "(f2 beta I x)"),
    case("x", "(add __X (f1 loggamma (i 18446744073709551617)))"), case("y", "(diff (fs f (f1 tanh (f2 beta I x)) __X) __X)"),
    # Max/Min independent of x
    case("x", "(max y z)"), case("y", "(diff (fs f (max (i 0) z) __X) __X)"),
]


def gen_cases(rng, tier, n):
    out = []
    for _ in range(n):
        r = rng.random()
        if r < 0.55:
            out.append(case("x", gen_expr(rng, rng.randint(1, 4))))
        elif r < 0.75:
            out.append(case("x", gen_expr(rng, rng.randint(1, 4), funs=False)))
        elif r < 0.82:
            # x does not occur
            out.append(case("w", gen_expr(rng, rng.randint(1, 3)).replace("__X", "x")))
        elif r < 0.90:
            # second derivatives / derivatives of library-made Derivative and Subs objects
            inner = gen_expr(rng, 2)
            f = "(fs f %s %s)" % (inner, rng.choice(["y", "__X", "(mul y __X)", gen_expr(rng, 1)]))
            e = rng.choice(["(diff %s __X)", "(diff %s y)", "(deriv %s y)", "(mul __X (diff %s __X))", "(f1 sin (diff %s __X))"]) % f
            out.append(case(rng.choice(["x", "y"]), e))
        elif r < 0.94:
            out.append(case("(dum x)", gen_expr(rng, rng.randint(1, 3))))
        else:
            out.append(case("y", gen_expr(rng, rng.randint(1, 3))))
    return out


def gen_poly(rng, tier):
    kind = rng.choice(["uint", "uint", "urat", "mint", "mint", "uexpr"])
    big = [0, 1, 2, 3, 5, 10, 64, 1000, 65535, 4294967295]
    if kind in ("uint", "urat", "uexpr"):
        var = rng.choice(["x", "y"])
        wrt = rng.choice([var, var, var, "z"])
        ks = sorted(set(rng.choice(big) if rng.random() < 0.3 else rng.randint(0, 12) for _ in range(rng.randint(0, 6))))
        if kind == "uexpr":
            ks = sorted(set(k - rng.choice([0, 0, 3, 20]) for k in ks if k < 100000))
        ts = []
        for k in ks:
            if kind == "uint":
                c = rng.choice([1, -1, 2, -7, 18446744073709551617, rng.randint(-50, 50) or 3])
                ts.append("%d:%d" % (k, c))
            elif kind == "urat":
                n = rng.choice([1, -3, 5, 36893488147419103232, rng.randint(-30, 30) or 1])
                d = rng.choice([1, 2, 3, 6, 12, 7, 4294967296])
                ts.append("%d:%d/%d" % (k, n, d))
            else:
                ts.append("%d:%s" % (k, rng.choice(["(s a)", "(i 3)", "(add (s a) (i 1))", "(mul (s a) (s b))", "(q 1 2)", "(f1 sin (s a))"])))
        return "P\t%s\t%s\t%s\t%s" % (kind, var, wrt, ",".join(ts) or "-")
    names = rng.sample(["x", "y", "z", "w"], rng.randint(1, 3))
    wrt = rng.choice(names + ["q"])
    ms = set()
    for _ in range(rng.randint(0, 6)):
        ms.add(tuple(rng.choice([0, 0, 1, 2, 3, 7, 4294967295]) for _ in names))
    ts = ["%s:%d" % (".".join(str(k) for k in m), rng.choice([1, -1, 5, -12, 18446744073709551617])) for m in sorted(ms)]
    return "P\tmint\t%s\t%s\t%s" % (",".join(names), wrt, ";".join(ts) or "-")


POLY_CORPUS = [
    "P\tuint\tx\tx\t0:3,2:5,7:-2", "P\tuint\tx\ty\t0:3,2:5", "P\tuint\tx\tx\t-", "P\tuint\tx\tx\t0:7",
    "P\tuint\tx\tx\t4294967295:1,1:1", "P\turat\tx\tx\t1:3/4,4:1/6,0:2", "P\turat\tx\tx\t6:1/6,12:5/12",
    "P\tmint\tx,y\ty\t2.1:3;0.2:5;1.0:7", "P\tmint\ty,x\tx\t2.1:3;0.2:5;1.0:7", "P\tmint\tx,y\tz\t2.1:3",
    "P\tuexpr\tx\tx\t-1:(s a),2:(add (s a) (i 1)),0:(i 4)", "P\tuexpr\tx\ty\t1:(s y)",
]


def explore_poly(ctx, drv, model, cases):
    if drv is None or model is None:
        return
    impl = ctx.run_lines(drv, cases, timeout=1800, shards=16)
    mod = ctx.run_lines(model, cases, timeout=1800, shards=4)
    ctx.cov["evaluations"] += len(cases)
    ctx.cov["poly_cases"] = ctx.cov.get("poly_cases", 0) + len(cases)
    nd = 0
    for c, i, m in zip(cases, impl, mod):
        canon, _, rest = i.partition("\t")
        if "#ORACLE:" in rest:
            ctx.violation("C10/poly-wrong-derivative:" + c.split("\t")[1], "case `%s`: %s" % (c, rest[rest.index("#ORACLE:") + 8:]),
                          {"family": "C10", "case": c, "impl": i})
        elif "CRASH" in i or "HANG" in i or i.startswith("NOOUTPUT"):
            ctx.violation("C10/poly-crash:" + c.split("\t")[1], "case `%s` ends with %s" % (c, i[-40:]), {"family": "C10", "case": c, "impl": i})
        elif m.startswith("UNSUPPORTED"):
            ctx.cov["poly_oracle_only"] = ctx.cov.get("poly_oracle_only", 0) + 1
        elif canon != m:
            nd += 1
            if nd <= 3:
                ctx.broken.append({"kind": "correspondence", "name": "C10 polynomial diff",
                                   "detail": "case `%s`\n model: %s\n impl:  %s" % (c, m, i)})
        else:
            ctx.cov["traces_validated_against_impl"] += 1
            if canon.split(" ")[-1] != "-":
                ctx.cov["distinct_nontrivial"] += 0  # counted through the set below
    ctx.cov["distinct_nontrivial"] += len(set(c for c, i in zip(cases, impl) if i.split("\t")[0].split(" ")[-1] != "-"))


# ---------------------------------------------------------------------------------------- exploration
NOT_ARITH = re.compile(r"\((Bool|Lex|Interval|Atom|F1 Not|F2 (Equality|Unequality|LessThan|StrictLessThan)|FN (And|Or|Xor|FiniteSet|Union|Intersection)|Opaque)\b")
SYM_LEAF = re.compile(r"\((Sym|Dummy) (x[0-9a-f]*)( \d+)?\)")


def name_clash(dx, de):
    """x and some different symbol of e have the same name"""
    m = SYM_LEAF.match(dx)
    if not m:
        return False
    for k in SYM_LEAF.finditer(de):
        if k.group(2) == m.group(2) and k.group(0) != dx:
            return True
    return False


def oracle_key(kind, dx, de, res=""):
    if name_clash(dx, de):
        return "C10/symbol-compared-by-name"
    if kind == "numeric-complex" and ("ACosh" in de):
        return "C10/acosh-rule-branch"
    if kind == "cache":
        return "C10/cache-dependence"
    if kind == "absent":
        if "(NaN)" in res:
            return "C10/absent:nan-from-singular-constant"
        if res.startswith("EXN"):
            return "C10/absent:exception-from-singular-constant"
        if "(G Derivative (G Max" in res or "(G Derivative (G Min" in res or "(G Derivative (G UnevaluatedExpr" in res:
            return "C10/absent:unevaluated-derivative-of-Max-Min"
        return "C10/absent-but-nonzero"
    m = re.match(r"^\((?:F1|F2|FN) (\w+)", de)
    return "C10/wrong-derivative:%s:%s" % (kind, m.group(1) if m else de[1:4].strip())


def explore(ctx, drv, model, cases, search=False):
    if drv is None or model is None:
        return
    impl = ctx.run_lines(drv, cases, timeout=1800, shards=16)
    ctx.cov["evaluations"] += len(cases)
    mod_in = []
    parsed = []
    for c, line in zip(cases, impl):
        f = line.split("\t")
        if "CRASH" in line or "HANG" in line or "UNCAUGHT" in line or line.startswith("NOOUTPUT"):
            key = "C10/crash"
            if len(f) >= 2 and "(Subs " in f[1] and "(NaN)" in f[1]:
                key = "C10/crash:subs-recursion-after-nan-derivative"
            elif len(f) >= 2 and "(Subs " in f[1] and ("(Deriv (FN Max" in f[1] or "(Deriv (FN Min" in f[1]):
                key = "C10/crash:subs-recursion-after-Max-Min-derivative"
            ctx.violation(key, "case `%s` ends with %s on the library (e = %s)" % (c, line[-60:].split("\t")[-1], f[1][:300] if len(f) > 1 else "?"),
                          {"family": "C10", "case": c, "impl": line})
            parsed.append(None)
            mod_in.append("")
            continue
        if len(f) < 3:
            parsed.append(None)
            mod_in.append("")
            if line != "BADCASE":
                ctx.broken.append({"kind": "correspondence", "name": "C10 driver output", "detail": c + "\n" + line[-300:]})
            continue
        dx, de, res = f[0], f[1], f[2]
        info = {}
        for t in f[3:]:
            if t.startswith("#ORACLE:"):
                kind = t[8:].split(":")[0]
                if kind == "absent" and res.startswith("EXN") and NOT_ARITH.search(de):
                    continue   # booleans and sets have no derivative: the exception is the specified result
                ctx.violation(oracle_key(kind, dx, de, res), "case `%s`: %s" % (c, t[8:]),
                              {"family": "C10", "case": c, "x": dx, "e": de, "impl": res})
            elif t.startswith("#INFO:"):
                k, _, v = t[6:].partition("=")
                info[k] = int(v)
        ctx.cov["oracle_exact_points"] = ctx.cov.get("oracle_exact_points", 0) + info.get("exact_points", 0)
        ctx.cov["oracle_numeric_real_points"] = ctx.cov.get("oracle_numeric_real_points", 0) + info.get("numeric_points", 0)
        ctx.cov["oracle_numeric_complex_points"] = ctx.cov.get("oracle_numeric_complex_points", 0) + info.get("complex_points", 0)
        if info.get("exact_points", 0) + info.get("numeric_points", 0) + info.get("complex_points", 0) > 0:
            ctx.cov["cases_with_numeric_or_exact_oracle"] = ctx.cov.get("cases_with_numeric_or_exact_oracle", 0) + 1
        parsed.append({"case": c, "x": dx, "e": de, "res": res, "info": info})
        mod_in.append(dx + "\t" + de)
    mod = ctx.run_lines(model, mod_in, timeout=1800, shards=16)
    pass2 = []
    idx2 = []
    for i, (p, m) in enumerate(zip(parsed, mod)):
        if p is None:
            continue
        if m.startswith("UNSUPPORTED"):
            ctx.cov["outside_model_dump"] = ctx.cov.get("outside_model_dump", 0) + 1
            continue
        mf = m.split("\t")
        if len(mf) != 3 or m.startswith("FAIL") or m.startswith("NOOUTPUT") or m == "BADLINE":
            ctx.broken.append({"kind": "correspondence", "name": "C10 model output", "detail": p["case"] + "\n" + m[-300:]})
            continue
        p["prog"] = mf[0]
        occ_model = mf[2] == "occurs=1"
        if "occurs" in p["info"] and occ_model != (p["info"]["occurs"] == 1):
            ctx.broken.append({"kind": "correspondence", "name": "C10 has_symbol",
                               "detail": "%s: model occurs=%s, library has_symbol=%s" % (p["case"], occ_model, p["info"]["occurs"])})
        f = p["case"].split("\t")
        pass2.append("E\t%s\t%s\t%s" % (f[1], f[2], mf[0]))
        idx2.append(i)
        if mf[1] != "cache=same":
            # the cached visitor returned a syntactically different term (eq sub-trees with different
            # dictionary orders share a cache entry): it must evaluate to the same tree
            ctx.cov["cached_program_differs"] = ctx.cov.get("cached_program_differs", 0) + 1
            pass2.append("E\t%s\t%s\t%s" % (f[1], f[2], mf[1][6:]))
            idx2.append(i)
    verdicts = ctx.run_lines(drv, pass2, timeout=1800, shards=16)
    nontriv = set()
    ndis = 0
    for i, v in zip(idx2, verdicts):
        p = parsed[i]
        tag = v.split(" ")[0]
        if tag in ("EXACT", "EXPAND", "NUMERIC") or (tag.startswith("EXN:") and " " not in v):
            ctx.cov["traces_validated_against_impl"] += 1
            key = "tie_" + (tag.lower() if not tag.startswith("EXN") else "exception")
            ctx.cov[key] = ctx.cov.get(key, 0) + 1
            if p["info"].get("occurs") == 1 and p["res"] not in ("R:(I 0)",):
                nontriv.add(p["e"] + "|" + p["x"])
        elif v.startswith("EXNDIFF impl=EXN") and " model=(" in v and not NOT_ARITH.search(p["e"]):
            # the library throws while differentiating an arithmetic expression (the model multiplies the
            # throwing outer factor by a literal 0 and drops it): reported as a finding
            if p["info"].get("occurs", 1) == 1:
                ctx.violation("C10/exception-from-singular-constant",
                              "case `%s`: diff(e, x) throws %s although e is an arithmetic expression (e = %s)" % (
                                  p["case"], v.split(" ")[1][5:], p["e"][:300]),
                              {"family": "C10", "case": p["case"], "x": p["x"], "e": p["e"], "impl": p["res"]})
            ctx.cov["tie_skipped_singular_constant"] = ctx.cov.get("tie_skipped_singular_constant", 0) + 1
        elif "(NaN)" in v or "(Inf " in v:
            # a singular constant sub-expression (asec(0), log(0), ...): mul(zoo, 0) = nan on the library,
            # 0 in the model; where x does not occur the absent oracle has reported the case
            ctx.cov["tie_skipped_singular_constant"] = ctx.cov.get("tie_skipped_singular_constant", 0) + 1
        elif "(err 100)" in p.get("prog", ""):
            ctx.cov["outside_model_rule"] = ctx.cov.get("outside_model_rule", 0) + 1
        else:
            ndis += 1
            if ndis <= 4:
                ctx.notes.append("model/implementation mismatch: case `%s` verdict %s" % (p["case"], v[:700]))
                ctx.broken.append({"kind": "correspondence", "name": "C10 diff tree",
                                   "detail": "case `%s`\n x = %s\n e = %s\n program = %s\n verdict: %s" % (
                                       p["case"], p["x"], p["e"], p.get("prog", "")[:600], v[:900])})
    ctx.cov["distinct_nontrivial"] += len(nontriv)
    if not search:
        for i in idx2[:8]:
            p = parsed[i]
            ctx.cov["samples"].append({"case": p["case"], "diff": p["res"][:200], "model_program": p.get("prog", "")[:300]})
    return ndis


def build(ctx):
    drv = ctx.build_driver("c10_driver")
    model = ctx.build_model("C10", "C10/Extract.v", "c10_main.ml", "semodel", extra_ml=["expr_io.ml"])
    return drv, model


def run(ctx):
    translate(ctx)
    ctx.gate(["C10"])
    if listed_in_coqproject():
        ctx.prove(PROOF_MODULES, OBLIGATIONS)
    else:
        build_coq(ctx)
        ctx.prove([], OBLIGATIONS)
    drv, model = build(ctx)
    n = 320 if ctx.tier == "quick" else 6000
    cases = list(CORPUS) + class_cases(ctx.tier) + gen_cases(ctx.rng, ctx.tier, n)
    explore(ctx, drv, model, cases)
    npoly = 120 if ctx.tier == "quick" else 2000
    explore_poly(ctx, drv, model, list(POLY_CORPUS) + [gen_poly(ctx.rng, ctx.tier) for _ in range(npoly)])
    if ctx.broken and not ctx.violations:
        # a proof or the tie broke: search harder for a concrete failing input
        extra = class_cases() + gen_cases(ctx.rng, "thorough", 3000)
        explore(ctx, drv, model, extra, search=True)
    ctx.cov["rule"] = ("cases = (variable, expression) pairs: every differentiable function class on 8 argument shapes, a fixed corpus "
                       "(name clashes between Symbol and Dummy, x**x, undefined functions, Derivative and Subs objects made by the library, "
                       "Abs/sign/floor, Piecewise, classes that throw), and random expressions of depth <= 4 over +,*,/,-,**,33 function classes, "
                       "undefined functions, x/y/z, integers, rationals, pi, E and rarely I/doubles/complex; a case is non-trivial when x occurs in e "
                       "and the derivative is not 0; distinct = distinct (dump of e, dump of x) among the cases whose model term evaluated to the "
                       "library's tree")
    ctx.assumptions += [
        "the canonicalising constructors add/mul/pow/div/sub/neg/sin/.../subs are not modelled: the model returns the construction term and the "
        "library evaluates it (tie tiers: EXACT = eq trees, EXPAND = equal after expand(a-b), NUMERIC = equal at 3+ sample points; counts in coverage)",
        "apply() on values the visitor constructs itself (pow(base, exp) of a Mul entry, mul(exp, log(base)), div(num, den)) is modelled by the "
        "Pow rule / product rule / Log rule on the construction term; the `visited` cache is modelled for sub-trees of the input only",
        "mul(0, a) = 0 and add(0, a) = a for the literal Integer 0 (a not an infinity/NaN number: see the known findings on singular constants)",
        "C10_diff_sound is over the reals (Coquelicot is_derive; acot/asec/acsc/acoth/asech/acsch as eval_double evaluates them, through the "
        "reciprocal argument; atan2 for a positive second argument); complex points are covered by the numeric oracle only; "
        "erf/erfc/gamma/loggamma/lambertw/zeta/polygamma/beta rules have no real function in the libraries: their rule shape is tied by the translator "
        "and checked by the numeric oracle where eval_double can evaluate them",
        "C10_diff_cache_irrelevant assumes that eq sub-trees of the input are identical (the model's result lists Add entries in tree order); "
        "on the library the oracle compares diff(e, x, true) with diff(e, x, false) on every case",
        "polynomial classes: UIntPoly / URatPoly / MIntPoly are modelled on their dictionaries (own case family P; theorems for UIntPoly and URatPoly); "
        "UExprPoly by the oracle only (diff of the object against diff of its symbolic form); MExprPoly, GaloisField, FunctionWrapper, matrices, "
        "series: not covered",
    ]


def replay(ctx, rep):
    drv, model = build(ctx)
    c = rep["replay"]["case"]
    if c.startswith("P\t"):
        print("case :", c)
        print("impl :", ctx.run_lines(drv, [c])[0])
        print("model:", ctx.run_lines(model, [c])[0])
        return
    line = ctx.run_lines(drv, [c])[0]
    print("case :", c)
    print("impl :", line)
    f = line.split("\t")
    if len(f) >= 3:
        m = ctx.run_lines(model, [f[0] + "\t" + f[1]])[0]
        print("model:", m)
        cf = c.split("\t")
        if "\t" in m and not m.startswith("UNSUPPORTED"):
            print("tie  :", ctx.run_lines(drv, ["E\t%s\t%s\t%s" % (cf[1], cf[2], m.split("\t")[0])])[0])
