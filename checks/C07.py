"""C07 -- arithmetic construction preserves mathematical value.
Model: coq/Expr/Arith.v; semantics coq/Expr/Denote.v.  Theorems: coq/C07/P_*.v.  Tie: every arithmetic API call of the
generated recipes is recomputed by the extracted model (tree and hash).  Oracle (independent of the model): the recipe is
evaluated by this file's own evaluator -- exactly in Q(i) for the rational-function fragment, numerically with principal
branches (cmath) for radicals / symbolic exponents -- at random rational points, and compared with the library's result
after substituting the same point (exact number, or eval_complex_double within 1e-9 relative)."""
import cmath
from fractions import Fraction
import vlib
from checks import arithcommon as A

OBLIGATIONS = [
    "C07/P_add_sound.v",
    "C07/P_mul_sound.v",
    "C07/P_neg_sound.v",
    "C07/P_pow_int_sound.v",
    "C07/P_div_sound.v",
    "C07/P_denote_respects_eq.v",
    "C07/P_nonvacuous.v",
]
REFUTATIONS = []
PROOF_MODULES = A.PROOF_MODULES

POINTS = [Fraction(3, 2), Fraction(-5, 3), Fraction(7, 4), Fraction(2, 7), Fraction(-1, 3), Fraction(11, 5), Fraction(-9, 4), Fraction(5, 7)]


def gen_ratfun(rng, depth):
    """rational-function fragment: exact numbers, symbols, add sub mul div neg, integer powers"""
    if depth <= 0 or rng.random() < 0.2:
        r = rng.random()
        if r < 0.5:
            return rng.choice(A.SYMS)
        if r < 0.75:
            return rng.choice(A.INTS[:12])
        if r < 0.93:
            return rng.choice(A.RATS)
        return rng.choice(A.CPLX)
    r = rng.random()
    a = gen_ratfun(rng, depth - 1)
    if r < 0.25:
        return "(add %s %s)" % (a, gen_ratfun(rng, depth - 1))
    if r < 0.5:
        return "(mul %s %s)" % (a, gen_ratfun(rng, depth - 1))
    if r < 0.68:
        return "(pow %s %s)" % (a, rng.choice(["(i 2)", "(i 3)", "(i -1)", "(i -2)", "(i 0)", "(i 1)", "(i 4)", "(i -3)"]))
    if r < 0.78:
        return "(sub %s %s)" % (a, gen_ratfun(rng, depth - 1))
    if r < 0.88:
        return "(div %s %s)" % (a, gen_ratfun(rng, depth - 1))
    if r < 0.93:
        return "(neg %s)" % a
    if r < 0.97:
        return "(addv %s)" % " ".join([a] + [gen_ratfun(rng, depth - 1) for _ in range(rng.randint(0, 2))])
    return "(mulv %s)" % " ".join([a] + [gen_ratfun(rng, depth - 1) for _ in range(rng.randint(0, 2))])


def symbols_of(t, acc):
    if isinstance(t, str):
        if t in A.SYMS:
            acc.add(t)
        return
    for k in t[1:]:
        symbols_of(k, acc)


def has_float_or_special(recipe):
    return "(d " in recipe or "(cd " in recipe or "oo" in recipe or "nan" in recipe


def points_for(rng, syms, k):
    """assignments of the symbols: alternately real rational points and Gaussian-rational (complex) points"""
    out = []
    for j in range(k):
        env = {}
        for s in syms:
            re = rng.choice(POINTS) + Fraction(rng.randint(0, 3), 11)
            im = Fraction(0) if j % 2 == 0 else rng.choice(POINTS) / 2
            env[s] = A.QI(re, im)
        out.append(env)
    return out


def show_point(env):
    return ", ".join("%s=%s%s" % (s, v.re, "" if v.im == 0 else "%+s*I" % v.im) for s, v in sorted(env.items()))


def vline(recipe, env):
    def num(v):
        if v.im == 0:
            return "(q %d %d)" % (v.re.numerator, v.re.denominator)
        return "(c %d %d %d %d)" % (v.re.numerator, v.re.denominator, v.im.numerator, v.im.denominator)
    return "V %s%s" % (recipe, "".join(" ;; %s=%s" % (s, num(v)) for s, v in sorted(env.items())))


def shape_class(recipe):
    """class of a value-changing rewrite, from the recipe"""
    if "sqrt" in recipe or "cbrt" in recipe or "(q " in recipe:
        if "(pow (pow" in recipe or "(sqrt (pow" in recipe or "(cbrt (pow" in recipe:
            return "nested-power"
        if "(pow (mul" in recipe or "(sqrt (mul" in recipe or "(pow (neg" in recipe or "(sqrt (neg" in recipe:
            return "power-of-product"
        return "radical"
    return "rational-function"


def run(ctx):
    ctx.gate(["Expr", "C07"])
    A.prove(ctx, OBLIGATIONS, REFUTATIONS)
    drv, model = A.build(ctx)
    q = ctx.tier == "quick"
    rng = ctx.rng
    stats = {}
    # 1. correspondence (model = the object of the theorems)
    recipes = list(A.CORPUS_T) + list(A.CORPUS_FLOAT)
    recipes += [gen_ratfun(rng, rng.randint(1, 4)) for _ in range(900 if q else 15000)]
    recipes += [A.gen_tree(rng, rng.randint(1, 3), "exact") for _ in range(700 if q else 12000)]
    recipes += [A.gen_cancel(rng, "exact") for _ in range(600 if q else 10000)]
    recipes += [A.gen_tree(rng, rng.randint(1, 3), "float") for _ in range(250 if q else 4000)]
    calls = A.correspondence_phase(ctx, "C07", drv, model, recipes, stats)
    for c in calls:
        if c.res and c.res.startswith("CRASH"):
            ctx.violation("C07/crash:" + A.crash_class(c), "%s ends with %s (recipe %s)" % (A.call_text(c)[:300], c.res, c.recipe),
                          {"family": "arith", "mode": "T", "case": c.recipe})
    # 2. value oracle
    value_phase(ctx, drv, [r for r in recipes if not has_float_or_special(r)], stats, 2 if q else 4)
    if ctx.broken and not ctx.violations:
        extra = [gen_ratfun(rng, 4) for _ in range(3000)] + [A.gen_cancel(rng, "exact") for _ in range(3000)]
        A.correspondence_phase(ctx, "C07", drv, model, extra, stats, search=True)
        value_phase(ctx, drv, extra, stats, 3)
    ctx.cov["distinct_nontrivial"] = len(stats.get("nontrivial", ()))
    ctx.cov["value_points_exact"] = stats.get("exact_points", 0)
    ctx.cov["value_points_numeric"] = stats.get("numeric_points", 0)
    ctx.cov["value_points_skipped_undefined_or_near_cut"] = stats.get("skipped_points", 0)
    ctx.cov["calls_outside_model_skipped"] = stats.get("skipped_outside_model", 0)
    ctx.cov["rule"] = ("recipes: the corpus of C03, random rational-function trees (depth <= 4: exact numbers incl. Gaussian rationals, symbols, "
                       "add sub mul div neg, integer powers, n-ary forms), random arithmetic trees with rational / symbolic exponents, sqrt, cbrt, "
                       "`cancel` shapes (exponents that merge, cancel, sum to integers; powers of products with numeric coefficients; nested powers); "
                       "evaluations = distinct calls compared with the model; each recipe without floats is also evaluated by an independent evaluator at "
                       "random rational points (exactly in Q(i) when only integer powers occur -- the library's substituted result must be the same "
                       "number --, else numerically with principal branches, away from cuts and poles, 1e-9 relative); non-trivial as in C03")
    ctx.assumptions += [
        "the theorems: value preservation in an arbitrary field for the rational-function fragment (exact real rationals, symbols, Add, Mul, integer "
        "Pow); radicals and symbolic exponents (principal branch) are covered by the numeric oracle only -- testing, not proof",
        "the numeric oracle uses python's cmath (IEEE doubles) and the library's eval_complex_double; tolerance 1e-9 relative",
        "points at which the recipe divides by zero, raises 0 to a negative power, or has a non-integer power whose base is within 1e-6 of the "
        "branch cut or of 0 are skipped",
    ] + ["see C03 for the modelling assumptions on containers, GMP and libm"]


def value_phase(ctx, drv, recipes, stats, npoints):
    if drv is None:
        return
    rng = ctx.rng
    lines = []
    meta = []
    for r in recipes:
        try:
            t = A.tokenize(r)
        except ValueError:
            continue
        syms = set()
        symbols_of(t, syms)
        for env in points_for(rng, sorted(syms), npoints if syms else 1):
            lines.append(vline(r, env))
            meta.append((r, t, env))
    outs = ctx.run_lines(drv, lines, timeout=3000, shards=16)
    for (r, t, env), line, out in zip(meta, lines, outs):
        rep = {"family": "arith", "mode": "V", "case": line}
        f = [x.strip() for x in out.split(" ;; ")]
        if len(f) < 3:
            if out.startswith("EXN") or "CRASH" in out or "HANG" in out:
                stats["skipped_points"] = stats.get("skipped_points", 0) + 1   # construction failures are reported by the trace phase
            continue
        sub, bits = f[1], f[2]
        qenv = env
        try:
            want = A.eval_exact(t, qenv)
            exact = True
        except A.NotExact:
            exact = False
        except (A.Undefined, ZeroDivisionError):
            stats["skipped_points"] = stats.get("skipped_points", 0) + 1
            continue
        if exact:
            stats["exact_points"] = stats.get("exact_points", 0) + 1
            if sub != want.dump():
                ctx.violation("C07/value:" + shape_class(r),
                              "recipe %s at %s: exact value %s but the library's result %s evaluates to %s" % (
                                  r, show_point(env), want.dump(), f[0][:200], sub[:120]), rep)
            continue
        # numeric
        fenv = {s: complex(float(v.re), float(v.im)) for s, v in env.items()}
        try:
            if A.near_cut(t, fenv):
                raise A.Undefined()
            w = A.eval_numeric(t, fenv)
        except (A.Undefined, A.NotExact, ZeroDivisionError, OverflowError, ValueError):
            stats["skipped_points"] = stats.get("skipped_points", 0) + 1
            continue
        if bits == "-" or len(bits.split()) != 2:
            stats["skipped_points"] = stats.get("skipped_points", 0) + 1
            continue
        try:
            g = complex(A.bits_to_float(bits.split()[0]), A.bits_to_float(bits.split()[1]))
        except (ValueError, IndexError):
            continue
        if cmath.isnan(g) or cmath.isinf(g) or cmath.isnan(w) or cmath.isinf(w) or abs(w) > 1e100:
            stats["skipped_points"] = stats.get("skipped_points", 0) + 1
            continue
        stats["numeric_points"] = stats.get("numeric_points", 0) + 1
        if abs(g - w) > 1e-9 * max(1.0, abs(w)):
            ctx.violation("C07/value:" + shape_class(r),
                          "recipe %s at %s: principal-branch value %r but the library's result %s evaluates to %r" % (
                              r, show_point(env), w, f[0][:200], g), rep)


def replay(ctx, rep):
    drv, model = A.build(ctx)
    case = rep["replay"]["case"]
    if rep["replay"].get("mode") == "V":
        print("case :", case)
        print("impl : result ;; substituted ;; eval_complex_double bits =", ctx.run_lines(drv, [case])[0])
        recipe = case[2:].split(" ;; ")[0]
    else:
        recipe = case
    for _, line, cs in A.run_traces(ctx, drv, [recipe]):
        mo = A.model_calls(ctx, model, cs)
        for c in cs:
            print("call   :", A.call_text(c))
            print("  impl :", c.res, "| hash", c.hash)
            print("  model:", mo.get(c.key))
