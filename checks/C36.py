"""C36 -- algebraic rewriting transformations preserve value (as_numer_denom, as_real_imag, rewrite_as_exp /
rewrite_as_sin / rewrite_as_cos, expand_as_exp, trig_to_sqrt, conjugate).
Model: coq/C36/RewriteModel.v (NumerDenomVisitor, handle_minus / could_extract_minus, RealImagVisitor on its
arithmetic fragment with pow_number -- computed as TREES through the arithmetic model Expr/Arith.v; the rule
tables of rewrite.cpp on TransformVisitor, trig_to_sqrt and conjugate -- computed as RECIPES of constructor
calls over sub-objects of the input; expand_as_exp = NotImplementedError for every class).
Theorems (coq/C36/P_*.v): numer_denom_sound_partial (any field, rule by rule, premises = nd_semantics),
numer_denom_int_powers (power laws for integer exponents in any field, Complex rule exact in Q), numer_denom_refuted
(sqrt(x/(y-2))), rewrite_rules_sound (22 rules at every complex point), conjugate_rules, real_imag_rules (tan / cot /
tanh / coth identities, refutation of the code's cot rule), pow_number_sound (binary powering, all n < 2^64),
trig_to_sqrt_rules (24 rules on the principal real domains), complex_functions_real, nonvacuous.
Tie: recipes of public API calls -> harness/c36_driver.cpp (mode A) prints the dump of e and the library's
numerator/denominator, real/imaginary parts and expand_as_exp answer -> the extracted model reads the dump and
prints its trees (compared as text, Add dictionaries sorted) and its recipes -> the driver (mode V) evaluates
the model's recipes through the library on the sub-objects of e and compares them with the library's own
rewrite_as_* / trig_to_sqrt / conjugate results by eq.  The driver also evaluates the property oracles
(numeric values at fixed sample points, exact rational values for numer/denom) on the library's outputs."""
import os
import vlib
from checks import arithcommon as A

PROOF_MODULES = []
OBLIGATIONS = [
    "C36/P_numer_denom_sound_partial.v", "C36/P_numer_denom_int_powers.v", "C36/P_numer_denom_refuted.v",
    "C36/P_rewrite_rules_sound.v", "C36/P_complex_functions_real.v",
    "C36/P_conjugate_rules.v", "C36/P_real_imag_rules.v", "C36/P_pow_number_sound.v", "C36/P_trig_to_sqrt_rules.v",
    "C36/P_nonvacuous.v",
]
# C36's own Coq files in dependency order (until they are listed in coq/_CoqProject they are compiled here)
OWN_FILES = ["C36/RewriteModel.v", "C36/RewriteSpec.v", "C36/NumerDenomSpec.v", "C36/NumerDenomProofs.v",
             "C36/RewriteProofs.v", "C36/ConjProofs.v", "C36/RealImagProofs.v", "C36/TrigSqrtProofs.v", "C36/PowNumberProofs.v"]
SHARED_DEPS = ["Base/Prelude.vo", "Base/Word64.vo", "Num/NumDefs.vo", "Num/NumModel.vo", "Gen/TypeCodes.vo",
               "Expr/ExprDefs.vo", "Expr/Hash.vo", "Expr/Cmp.vo", "Expr/Arith.vo", "Expr/IO.vo"]


def build_own(ctx):
    """compile coq/C36/*.v when stale (until they are listed in coq/_CoqProject); a file that no longer compiles
    is a broken proof"""
    coq = vlib.COQ
    with vlib.Lock(os.path.join(vlib.WORK, "c36-coq.lock")):
        newest = max((os.path.getmtime(os.path.join(coq, d)) for d in SHARED_DEPS if os.path.exists(os.path.join(coq, d))), default=0)
        for f in OWN_FILES:
            src = os.path.join(coq, f)
            if not os.path.exists(src):
                continue
            vo = src + "o"
            newest = max(newest, os.path.getmtime(src))
            if os.path.exists(vo) and os.path.getmtime(vo) >= newest:
                newest = max(newest, os.path.getmtime(vo))
                continue
            rc, out = vlib.sh(["timeout", "1500", "coqc", "-Q", ".", "SE", "-w", "-notation-overridden", f], cwd=coq, timeout=1530)
            if rc != 0:
                ctx.broken.append({"kind": "proof", "name": f, "detail": out[-2500:]})
                return False
            newest = max(newest, os.path.getmtime(vo))
    return True


# ----------------------------------------------------------------------------- generators
SYMS = ["x", "y", "z"]
INTS = ["(i 1)", "(i 2)", "(i 3)", "(i -1)", "(i -2)", "(i 5)", "(i 0)", "(i 7)", "(i -3)", "(i 12)"]
RATS = ["(q 1 2)", "(q -1 2)", "(q 2 3)", "(q 3 4)", "(q -5 3)", "(q 7 6)", "(q 1 3)"]
CPLX = ["I", "(c 1 1 1 1)", "(c 1 2 3 4)", "(c 0 1 -2 3)", "(c -1 2 1 3)", "(c 2 1 -1 1)", "(c -3 4 5 6)"]
IEXP = ["(i 2)", "(i 3)", "(i -1)", "(i -2)", "(i -3)", "(i 4)", "(i -1)", "(i 2)"]
TRIG = ["sin", "cos", "tan", "cot", "sec", "csc"]
HYP = ["sinh", "cosh", "tanh", "coth", "sech", "csch"]
ITRIG = ["asin", "acos", "atan", "acot", "asec", "acsc"]
OTHERF = ["log", "exp", "abs", "atan", "asin", "sqrt", "gamma", "sign", "erf", "asinh"]


def ratfun(rng, depth):
    """rational functions with the shapes NumerDenomVisitor distinguishes: sums of fractions whose denominators
    divide one another / are coprime / cancel, products that collapse, negative and `negative-looking' symbolic
    exponents, rational and Gaussian rational coefficients"""
    if depth <= 0 or rng.random() < 0.15:
        r = rng.random()
        if r < 0.55:
            return rng.choice(SYMS)
        if r < 0.75:
            return rng.choice(INTS)
        if r < 0.88:
            return rng.choice(RATS)
        return rng.choice(CPLX)
    r = rng.random()
    a = ratfun(rng, depth - 1)
    if r < 0.26:
        return "(add %s %s)" % (a, ratfun(rng, depth - 1))
    if r < 0.44:
        return "(mul %s %s)" % (a, ratfun(rng, depth - 1))
    if r < 0.62:
        return "(div %s %s)" % (a, ratfun(rng, depth - 1))
    if r < 0.76:
        return "(pow %s %s)" % (a, rng.choice(IEXP))
    if r < 0.82:
        return "(sub %s %s)" % (a, ratfun(rng, depth - 1))
    if r < 0.86:
        return "(neg %s)" % a
    if r < 0.93:
        # symbolic exponents: handle_minus on Mul / Add / Symbol exponents
        e = rng.choice(["y", "(neg y)", "(sub y (i 1))", "(sub (i 1) y)", "(mul (i -2) z)", "(sub y z)", "(sub z y)",
                        "(neg (add y z))", "(mul (q -1 2) y)", "(mul I y)", "(mul (c 0 1 -1 1) y)", "(add (neg y) (q 1 2))"])
        return "(pow %s %s)" % ("x" if a == "(i 0)" else a, e)
    # shapes with structure: common denominators
    d = rng.choice(SYMS)
    d2 = rng.choice(SYMS)
    forms = ["(add (div %s %s) (div %s (mul %s %s)))" % (a, d, ratfun(rng, depth - 1), d, d2),
             "(add (div %s (pow %s (i 2))) (div %s %s))" % (a, d, ratfun(rng, depth - 1), d),
             "(mul %s (add (div (i 1) %s) (div %s %s)))" % (d, d, d2, d),
             "(add (div %s (add %s (i 1))) (div %s (add %s (i 1))))" % (a, d, d2, d),
             "(mul (q 2 3) (add (div (i 1) %s) (q 1 2)))" % d]
    return rng.choice(forms)


def ndpow(rng):
    """powers with non-integer exponents (the class of the known finding): base a quotient"""
    b = ratfun(rng, 2)
    e = rng.choice(RATS + ["(q 1 2)", "(q -1 2)", "(q 3 2)", "y", "(neg y)", "pi", "(mul (q 1 2) y)"])
    return "(pow %s %s)" % (b, e)


def trigtree(rng, depth, funs):
    if depth <= 0 or rng.random() < 0.2:
        r = rng.random()
        if r < 0.6:
            return rng.choice(SYMS)
        if r < 0.75:
            return rng.choice(INTS[:6])
        if r < 0.85:
            return rng.choice(RATS)
        if r < 0.92:
            return rng.choice(["pi", "E", "(div pi (i 3))", "(mul (i 2) pi)"])
        return rng.choice(CPLX)
    r = rng.random()
    a = trigtree(rng, depth - 1, funs)
    if r < 0.42:
        return "(f1 %s %s)" % (rng.choice(funs), a)
    if r < 0.56:
        return "(add %s %s)" % (a, trigtree(rng, depth - 1, funs))
    if r < 0.68:
        return "(mul %s %s)" % (a, trigtree(rng, depth - 1, funs))
    if r < 0.76:
        return "(pow %s %s)" % (a, rng.choice(IEXP + ["(q 1 2)", "y"]))
    if r < 0.82:
        return "(div %s %s)" % (a, trigtree(rng, depth - 1, funs))
    if r < 0.90:
        return "(f1 %s %s)" % (rng.choice(OTHERF), a)
    if r < 0.93:
        return "(f2 atan2 %s %s)" % (a, trigtree(rng, depth - 1, funs))
    if r < 0.96:
        return "(fs g %s %s)" % (a, rng.choice(SYMS))
    if r < 0.98:
        return "(max %s %s)" % (a, rng.choice(SYMS))
    return "(f1 conjugate %s)" % a


def t2s_case(rng):
    arg = rng.choice(SYMS + ["(mul (i 2) x)", "(add x (i 1))", "(div x y)", "(pow x (i 2))", "(f1 sin x)", "(mul I y)"])
    return "(f1 %s (f1 %s %s))" % (rng.choice(TRIG), rng.choice(ITRIG + ["asinh", "log"]), arg)


def cnum(rng, depth):
    """symbol-free expressions (as_real_imag throws on symbols): Gaussian rationals, constants, roots, sums,
    products, integer powers (pow_number: exponents around the bit patterns 1, 2, 3, 4, 5, 7, 8, 15, 16, 17),
    rational powers and trigonometric / hyperbolic functions of those"""
    if depth <= 0 or rng.random() < 0.2:
        r = rng.random()
        if r < 0.3:
            return rng.choice(CPLX)
        if r < 0.5:
            return rng.choice(INTS + RATS)
        if r < 0.8:
            return rng.choice(["pi", "E", "EulerGamma", "(sqrt (i 2))", "(sqrt (i 3))", "(cbrt (i 5))", "(f1 abs x)"])
        return "(add %s %s)" % (rng.choice(["pi", "E", "(sqrt (i 2))", "(i 1)"]), rng.choice(["I", "(mul (i 2) I)", "(mul pi I)", "(mul (q -1 2) I)"]))
    r = rng.random()
    a = cnum(rng, depth - 1)
    if r < 0.25:
        return "(add %s %s)" % (a, cnum(rng, depth - 1))
    if r < 0.50:
        return "(mul %s %s)" % (a, cnum(rng, depth - 1))
    if r < 0.72:
        return "(pow %s %s)" % (a, rng.choice(["(i 2)", "(i 3)", "(i -1)", "(i -2)", "(i 4)", "(i 5)", "(i 7)", "(i 8)", "(i -3)",
                                               "(i 15)", "(i 16)", "(i 17)", "(i -5)", "(i 0)", "(i 1)"]))
    if r < 0.78:
        return "(pow %s %s)" % (a, rng.choice(["(q 1 2)", "(q -1 2)", "(q 1 3)", "(q 2 3)", "(q 3 2)"]))
    if r < 0.84:
        return "(div %s %s)" % (a, cnum(rng, depth - 1))
    if r < 0.96:
        return "(f1 %s %s)" % (rng.choice(TRIG + HYP), a)
    return "(f1 %s %s)" % (rng.choice(["log", "abs", "exp", "gamma"]), a)


CORPUS = [
    # numer/denom: every rule
    "(q 3 7)", "(c 1 2 3 4)", "(c 0 1 -2 3)", "(i 5)", "x", "(d 3fe0000000000000)",
    "(add (div x y) (div (i 1) z))", "(add (div x y) (div z (mul y z)))", "(add (div x (pow y (i 2))) (div z y))",
    "(add (div x y) (div z y))", "(add (add (div x y) (div (i 1) (mul y z))) (div x z))",
    "(mul x (add (div (i 1) x) (div y x)))", "(mul (q 2 3) (add (div (i 1) x) (q 1 2)))",
    "(pow x (i -2))", "(pow x (neg y))", "(pow x (sub y (i 1)))", "(pow x (sub (i 1) y))", "(pow x (sub y z))", "(pow x (sub z y))",
    "(pow (div x y) (i -3))", "(pow (div x y) (neg z))", "(pow (i 2) (neg x))", "(pow x (mul I y))", "(pow x (mul (c 0 1 -1 1) y))",
    "(pow (add (div (i 1) x) (div (i 1) y)) (i -1))", "(mul (c 1 2 3 4) (div x y))", "(div (add x (i 1)) (mul (i 2) (add y (i 1))))",
    "(pow (i 2) I)", "(mul (pow x (q 1 2)) (pow y (q -1 2)))", "(pow (add x (q 1 2)) (i -1))",
    # the known findings (non-integer power of a quotient; real-based power with non-real value)
    "(sqrt (div x (sub y (i 2))))", "(pow (div x (sub y (i 3))) (q 1 3))",
    "(pow (i -1) (q 1 3))", "(exp (mul I (div pi (i 3))))", "(pow pi I)", "(pow (add (neg pi) (mul pi I)) (q 1 2))",
    "(f1 cot (add (i 2) I))",
    # as_real_imag: arithmetic fragment
    "(mul (add (add pi E) I) (c 2 1 1 1))", "(add (mul (add (add pi E) I) (c 2 1 1 1)) (sqrt (i 2)))",
    "(pow (add pi I) (i 5))", "(pow (add pi I) (i -3))", "(pow (add (sqrt (i 2)) (mul (i 2) I)) (i 17))", "(pow (add E (mul pi I)) (i 0))",
    "(pow (add pi I) (q 1 2))", "(div (add pi I) (sub E I))", "zoo", "oo", "nan", "(f1 abs (add x I))", "(fs f x)", "(f1 log (add pi I))",
    "(f1 sin (add pi I))", "(f1 tan (add (i 1) I))", "(f1 coth (add (i 1) I))", "(f1 sec (add (i 2) I))", "(f1 tanh (i 2))",
    # rewrite rules: each class, nested, inside sums / products / powers / other functions
    "(f1 sin x)", "(f1 cos x)", "(f1 tan x)", "(f1 cot x)", "(f1 sec x)", "(f1 csc x)",
    "(f1 sinh x)", "(f1 cosh x)", "(f1 tanh x)", "(f1 coth x)", "(f1 sech x)", "(f1 csch x)",
    "(f1 tan (f1 tan x))", "(add (f1 sin x) (mul (i 2) (f1 cos y)))", "(mul (i 2) (pow (f1 cos x) y))", "(pow (f1 tan x) (i 2))",
    "(f1 log (f1 sec (add x y)))", "(f1 asin (f1 sin x))", "(pow x (f1 cos y))", "(f2 atan2 (f1 sin x) y)", "(fs g (f1 sin x) y)",
    "(max (f1 sin x) y)", "(f1 sin (add x (div pi (i 2))))", "(f1 cos (mul (i 2) x))", "(f1 tan (div pi (i 24)))", "(f1 sin (sub x y))",
    "(add x (pow y (i 2)))", "(f1 abs (f1 cos x))", "(f1 sin (f1 asin x))",
    # conjugate: every branch
    "(mul (c 1 2 3 4) (pow x (i 2)))", "(mul (i 2) (pow x (q 1 2)))", "(mul (mul x (pow y (i -2))) (pow z (q 1 3)))",
    "(pow (add x I) (i 3))", "(pow x y)", "(f1 conjugate x)", "(f1 sign x)", "(f1 gamma (add x I))", "(f1 loggamma x)", "(f1 erf x)",
    "(f1 erfc x)", "(f2 atan2 x y)", "(f2 beta x y)", "(f2 lowergamma x y)", "(f2 uppergamma x y)", "(f2 kronecker_delta x y)",
    "(levi x y z)", "(f1 abs x)", "pi", "(add x I)", "(f1 log x)", "(f1 asin x)", "(cd 3ff0000000000000 4000000000000000)",
    "(mul zoo pi)", "(mul (mul zoo x) (pow y (i 2)))", "(f1 sin (add pi I))",
] + ["(f1 %s (f1 %s x))" % (t, it) for t in TRIG for it in ITRIG]


def gen_case(rng):
    r = rng.random()
    if r < 0.34:
        return ratfun(rng, rng.choice([2, 3, 3, 4]))
    if r < 0.40:
        return ndpow(rng)
    if r < 0.60:
        return trigtree(rng, rng.choice([2, 3, 3]), TRIG + HYP)
    if r < 0.68:
        return trigtree(rng, 3, TRIG)
    if r < 0.74:
        return t2s_case(rng)
    if r < 0.94:
        return cnum(rng, rng.choice([2, 3, 3]))
    return "(f1 %s %s)" % (rng.choice(TRIG + HYP + ["conjugate"]), ratfun(rng, 2))


# ----------------------------------------------------------------------------- comparison
TREE_OPS = ["ND", "RI", "XE"]
RECIPE_OPS = ["EXP", "SIN", "COS", "T2S", "CONJ"]
NOT_MODELLED = ("UNMODELLED", "LIBM")


def canon_pair(s):
    return " ;; ".join(A.canon_dump(p.strip()) for p in s.split(" ;; "))


def parse_fields(line):
    """tab separated `TAG:text` / `TAG=text` fields and #ORACLE items"""
    fields, oracles = {}, []
    for part in line.split("\t"):
        if part.startswith("#ORACLE:"):
            oracles.append(part[len("#ORACLE:"):])
            continue
        for sep in (":", "="):
            tag, s, rest = part.partition(sep)
            if s and tag.isalnum() and tag.isupper() and len(tag) <= 4:
                fields[tag] = rest
                break
    return fields, oracles


def explore(ctx, drv, model, cases, search=False):
    if drv is None or model is None:
        return
    impl = ctx.run_lines(drv, ["A " + c for c in cases], timeout=3000, shards=16)
    heads, idx, parsed = [], [], []
    for i, line in enumerate(impl):
        if line.startswith("SKIP"):
            continue
        if "\tND:" not in line:
            if "CRASH" in line or "HANG" in line or "UNCAUGHT" in line:
                ctx.violation("C36/crash", "case `%s` ends with %s on the library" % (cases[i], line[-60:]),
                              {"family": "C36", "case": cases[i], "impl": line[-300:]})
            else:
                ctx.broken.append({"kind": "correspondence", "name": "C36 driver output", "detail": cases[i] + "\n" + line[-300:]})
            continue
        head, _, rest = line.partition("\t")
        heads.append(head)
        idx.append(i)
        parsed.append(parse_fields(rest))
    mod = ctx.run_lines(model, heads, timeout=3000, shards=16)
    vlines, vidx = [], []
    nmis = 0
    stats = ctx.cov.setdefault("per_operation", {op: {"compared": 0, "not_modelled": 0, "changed": 0} for op in TREE_OPS + RECIPE_OPS})
    nontriv = set()

    def mismatch(op, i, detail, impl_s, model_s):
        nonlocal nmis
        nmis += 1
        if nmis <= 3:
            ctx.broken.append({"kind": "correspondence", "name": "C36 " + op, "detail": "case `%s`\n%s" % (cases[i], detail[:1500])})
        ctx.violation("C36/model-mismatch:" + op,
                      "library and proved model disagree on `%s`: %s" % (cases[i], detail[:400]),
                      {"family": "C36", "case": cases[i], "impl": impl_s[:2000], "model": model_s[:2000]})

    for k, i in enumerate(idx):
        lf, orcs = parsed[k]
        m = mod[k]
        ctx.cov["traces_validated_against_impl"] += 1
        for o in orcs:
            cls, _, text = o.partition(":")
            sub, _, text = text.partition(":")
            ctx.violation("C36/%s:%s" % (cls, sub) if sub else "C36/" + cls,
                          "e = %s : %s" % (cases[i], text.strip()), {"family": "C36", "case": cases[i], "impl": impl[i][-1500:]})
        ch = lf.get("CH", "0000000")
        if "1" in ch:
            nontriv.add(heads[k])
        for j, op in enumerate(["ND", "RI"] + RECIPE_OPS):
            if ch[j:j + 1] == "1":
                stats[op]["changed"] += 1
        if m.startswith("UNSUPPORTED"):
            continue
        if m.startswith("FAIL") or m.startswith("NOOUTPUT") or "\tCONJ=" not in m:
            mismatch("reader", i, m[:300], impl[i], m)
            continue
        mf, _ = parse_fields(m)
        for op in TREE_OPS:
            lv, mv = lf.get(op, "?"), mf.get(op, "?")
            if mv in NOT_MODELLED:
                stats[op]["not_modelled"] += 1
                continue
            stats[op]["compared"] += 1
            ctx.cov["evaluations"] += 1
            if canon_pair(lv) != canon_pair(mv):
                if op == "ND" and any(t in lv + mv for t in ("(Pow (I 1) ", "((I 1) (")):
                    # pow(1, z) stays the unevaluated 1**z for a Complex z; such factors are never eq to one, so the
                    # branch taken by bvisit(Add) on an Add BUILT by arithmetic depends on its (unmodelled) hash order
                    stats[op]["skipped_one_pow_z"] = stats[op].get("skipped_one_pow_z", 0) + 1
                    continue
                mismatch(op, i, "%s library: %s\n%s model:   %s" % (op, lv, op, mv), impl[i], m)
        if lf.get("ND", "").startswith("(") and mf.get("NNE") == "0":
            # the model's own no_neg_exp_top on its (equal) trees must agree with the driver's oracle
            if not any(o.startswith("nd-negexp") for o in orcs):
                mismatch("NNE", i, "no_neg_exp_top: model 0, library oracle silent", impl[i], m)
        rec = [op + "=" + mf[op] for op in RECIPE_OPS if op in mf and mf[op] not in NOT_MODELLED and not mf[op].startswith("CRASH")]
        for op in RECIPE_OPS:
            if mf.get(op) in NOT_MODELLED:
                stats[op]["not_modelled"] += 1
        if rec:
            vlines.append("V " + cases[i] + "\t" + "\t".join(rec))
            vidx.append((i, k))
    ver = ctx.run_lines(drv, vlines, timeout=3000, shards=16)
    for (i, k), line in zip(vidx, ver):
        for part in line.split("\t"):
            op = part[:4].rstrip("=!")
            if op not in RECIPE_OPS:
                if part.strip():
                    mismatch("verify", i, part[:300], line, mod[k])
                continue
            stats[op]["compared"] += 1
            ctx.cov["evaluations"] += 1
            if part != op + "==":
                mismatch(op, i, part, line, mod[k])
    ctx.cov["distinct_nontrivial"] += len(nontriv)
    if not search:
        for k in range(min(6, len(idx))):
            ctx.cov["samples"].append({"case": cases[idx[k]], "impl": impl[idx[k]][:400], "model": mod[k][:400]})


def listed_in_coqproject():
    """once coq/_CoqProject lists C36's files the framework builds them with make (ctx.prove); until then they are
    compiled here (build_own)"""
    try:
        txt = open(os.path.join(vlib.COQ, "_CoqProject")).read().split()
    except OSError:
        return False
    return all(f in txt for f in OWN_FILES)


def run(ctx):
    ctx.gate(["C36"])
    if listed_in_coqproject():
        proof_modules = [f + "o" for f in OWN_FILES]
    else:
        build_own(ctx)
        proof_modules = PROOF_MODULES
    ctx.prove(proof_modules, OBLIGATIONS)
    drv = ctx.build_driver("c36_driver")
    model = ctx.build_model("C36", "C36/Extract.v", "c36_main.ml", "semodel", extra_ml=["expr_io.ml"])
    ncases = 3000 if ctx.tier == "quick" else 60000
    cases = list(CORPUS) + [gen_case(ctx.rng) for _ in range(ncases)]
    explore(ctx, drv, model, cases)
    if ctx.broken and not ctx.violations:
        explore(ctx, drv, model, [gen_case(ctx.rng) for _ in range(5000)], search=True)
    ctx.cov["rule"] = ("recipes of public API calls: a fixed corpus (every rule of NumerDenomVisitor / RealImagVisitor / the three "
                       "rewrite visitors / trig_to_sqrt (all 36 trig-of-inverse-trig pairs) / conjugate, the known findings), random "
                       "rational functions (sums of fractions with dividing / coprime / cancelling denominators, negative, "
                       "negative-looking symbolic and rational exponents, Gaussian rational coefficients), trees over the 12 "
                       "trigonometric / hyperbolic functions nested in sums, products, powers and other functions, symbol-free "
                       "complex expressions (integer powers 0..17 for pow_number); per case 8 operations; evaluations = operation "
                       "results compared model vs library; a case is non-trivial when at least one operation changes the expression "
                       "(denominator not 1, imaginary part not 0, output not eq input); distinct = distinct input dumps")
    ctx.assumptions += [
        "add / mul / pow / div / sub / neg are the model Expr/Arith.v (tied to the library by C03/C04/C07); results outside its "
        "fragment (EXN 97/98) are skipped and counted per operation as not_modelled; in the theorems their soundness on defined "
        "operands is a PREMISE (nd_semantics, the hypotheses of C36_pow_number_sound), not proved here",
        "C36_numer_denom_sound_partial also takes the power laws (u/v)^x = u^x'/v^x' resp. v^x'/u^x' (x', orientation from "
        "handle_minus) as a premise: proved for integer exponents in every field (C36_numer_denom_int_powers), false for "
        "non-integer exponents and negative denominators (C36_numer_denom_refuted = known finding C36/nd-value:nonint-pow)",
        "the iteration order of an Add built by intermediate arithmetic (unordered_map) is not modelled: Add dictionaries are compared "
        "sorted; NumerDenomVisitor::bvisit(Add) on such an intermediate Add follows the model's insertion order",
        "function constructors (sin(), cos(), x.create(..), unevaluated_expr, Mul::dict_add_term_new) inside the rewrite_as_* / "
        "trig_to_sqrt / conjugate results are not modelled: the model emits the sequence of constructor calls, the driver runs it on "
        "the library and compares by eq; the rule theorems interpret each constructor call by the mathematical operation (the content "
        "of C07/C08) and cover the RULES, not the traversal of TransformVisitor around them",
        "complex functions in the specification are given by their real and imaginary parts (RewriteSpec.v) and coincide with the "
        "standard library's real functions on the real axis (C36_complex_functions_real)",
        "the trigonometric rules of RealImagVisitor and its rational-exponent rule are outside the executable model (proved as identities, "
        "checked numerically by the oracle); its Add / Mul rules are tied by exact trees but have no value theorem",
        "numeric oracle: eval_complex_double after substituting doubles at 2 positive real points (numer/denom, real/imag) and 2 non-real "
        "complex points (rewriting family, conjugate; inputs with symbols only, and not where a function with a branch cut is applied to a "
        "rewritten subterm), relative tolerance 1e-7, points where either side is not finite or above 1e6 are skipped",
    ]


def replay(ctx, rep):
    r = rep.get("replay", rep)
    case = r["case"]
    drv = ctx.build_driver("c36_driver")
    model = ctx.build_model("C36", "C36/Extract.v", "c36_main.ml", "semodel", extra_ml=["expr_io.ml"])
    out = ctx.run_lines(drv, ["A " + case])[0]
    print("case     : " + case)
    print("library  : " + out)
    if model and "\t" in out:
        m = ctx.run_lines(model, [out.split("\t")[0]])[0]
        print("model    : " + m)
        mf, _ = parse_fields(m)
        rec = [op + "=" + mf[op] for op in RECIPE_OPS if op in mf and mf[op] not in NOT_MODELLED]
        if rec:
            print("verify   : " + ctx.run_lines(drv, ["V " + case + "\t" + "\t".join(rec)])[0])
    bad = "#ORACLE" in out or "CRASH" in out or "HANG" in out
    print("REPRODUCED" if bad else "oracle silent on this case (a model-mismatch replay shows library vs model above)")
