"""C35 -- refine and simplify preserve value under their assumptions.
Model: coq/Assume/RefineModel.v (the decision each rule of RefineVisitor / simplify_pow takes, as a function of
the already refined arguments and of the assumptions, on top of the query model of C34).  Theorems:
coq/Assume/{RefineProofs,RefinePow,RefineMaxMin}.v, obligations coq/C35/P_*.v (rule by rule).
Tie: for every rule node of generated expressions the driver prints the refined arguments, every candidate result
(built with the library's constructors) and the actual result of refine; the extracted model chooses a candidate;
the check verifies the actual result IS that candidate (Max/Min: a second driver call rebuilds max/min of the
arguments the model keeps).  Oracle: value of e, refine(e), simplify(e) at sampled valuations satisfying the
statements (exact where the library's substitution gives numbers, double precision otherwise)."""
import os
import re
import vlib
from checks import C34 as Q

PROOF_MODULES = ["Assume/RefineProofs.vo", "Assume/RefinePow.vo", "Assume/RefineMaxMin.vo"]
OBLIGATIONS = ["C35/P_abs_rule_sound.v", "C35/P_sign_rule_sound.v", "C35/P_floor_ceiling_rule_sound.v",
               "C35/P_conjugate_rule_sound.v", "C35/P_pow_rule_sound_partial.v", "C35/P_max_rule_sound.v",
               "C35/P_min_rule_sound.v", "C35/P_nonvacuous.v"]

SYMS = Q.SYMS
F1R = ["abs", "sign", "floor", "ceiling", "conjugate", "log"]
TRIGR = ["csc", "sec", "cot", "sin", "cos", "tan"]
EXPQ = ["(q 1 2)", "(q 1 3)", "(q 3 2)", "(q -1 2)", "(q 2 3)", "(d 3fe0000000000000)", "(q 5 2)"]
EXPI = ["(i 2)", "(i 3)", "(i 4)", "(i 6)", "(i -1)", "(i -2)", "(q 1 2)", "(q 2 3)"]


def S(rng):
    return "(s %s)" % rng.choice(SYMS)


def inner(rng, depth):
    """arguments of the rule nodes: things the queries can decide"""
    r = rng.random()
    if depth <= 0 or r < 0.35:
        return rng.choice([S(rng), S(rng), "(mul (i 2) %s)" % S(rng), "(mul (i -1) %s)" % S(rng), "(i 3)", "(q -7 2)", "(i -2)", "pi",
                           "(mul I %s)" % S(rng), "(add %s (i 1))" % S(rng), "(mul %s %s)" % (S(rng), S(rng))])
    if r < 0.55:
        return "(addv %s %s %s)" % ("(mul %s %s)" % (rng.choice(Q.COEFS), S(rng)), "(mul %s %s)" % (rng.choice(Q.COEFS), S(rng)), rng.choice(Q.NUMS))
    if r < 0.75:
        return "(f1 %s %s)" % (rng.choice(F1R), inner(rng, depth - 1))
    if r < 0.9:
        return "(pow %s %s)" % (inner(rng, depth - 1), rng.choice(EXPI))
    return "(mulv %s %s)" % (inner(rng, depth - 1), inner(rng, depth - 1))


def gen_refine(rng):
    r = rng.randint(0, 9)
    if r <= 2:      # one-argument rules
        return "(f1 %s %s)" % (rng.choice(F1R), inner(rng, 2))
    if r == 3:      # pow of pow
        return "(pow (pow %s %s) %s)" % (rng.choice([S(rng), "(add %s (i 1))" % S(rng), "(f1 abs %s)" % S(rng), "(mul (i 2) %s)" % S(rng)]),
                                         rng.choice(EXPI + ["(q 1 2)", "(d 4000000000000000)", "(c 0 1 1 1)", S(rng)]), rng.choice(EXPQ + [S(rng)]))
    if r == 4:      # max / min
        n = rng.randint(2, 4)
        return "(%s %s)" % (rng.choice(["max", "min"]), " ".join(rng.choice([S(rng), inner(rng, 1), "(i 0)", "(i -1)", "(q 1 2)"]) for _ in range(n)))
    if r == 5:      # log
        return "(f1 log %s)" % rng.choice(["(pow %s %s)" % (S(rng), S(rng)), "(pow %s (q 1 2))" % S(rng), "(pow (i 2) %s)" % S(rng), "(i 8)", "(i 9)", "(i 10)",
                                           "(i 1)", "(i 64)", "(i -8)", "(pow %s (mul I %s))" % (S(rng), S(rng)), "(pow pi %s)" % S(rng)])
    if r == 6:      # simplify_pow
        t = rng.choice(TRIGR)
        e = rng.choice(["(i -1)", "(i -1)", "(i -2)", "(i 1)", "(q -1 2)"])
        base = "(pow (f1 %s %s) %s)" % (t, inner(rng, 1), e)
        return rng.choice([base, "(mul (i 2) %s)" % base, "(mul %s %s)" % (base, S(rng)), "(f1 abs %s)" % base])
    if r == 7:      # nested rules inside arithmetic
        return "(addv %s %s)" % ("(f1 %s %s)" % (rng.choice(F1R), inner(rng, 1)), "(mul (i 2) (f1 %s %s))" % (rng.choice(F1R), inner(rng, 1)))
    if r == 8:
        return "(f1 %s (f1 %s %s))" % (rng.choice(F1R), rng.choice(F1R), inner(rng, 1))
    return Q.gen_expr(rng, 3)


CORPUS = [
    ("(sqrt (pow (s x) (i 3)))", "(contains (s x) reals)", {"x": "real"}),
    ("(pow (pow (s x) (i 3)) (q 1 3))", "(contains (s x) reals)", {"x": "real"}),
    ("(pow (pow (s x) (i 2)) (q 1 2))", "(contains (s x) reals)", {"x": "real"}),
    ("(pow (pow (s x) (i 2)) (q 1 2))", "(gt (s x) (i 0))", {"x": "pos"}),
    ("(pow (pow (s x) (i 6)) (q 1 2))", "(contains (s x) reals)", {"x": "real"}),
    ("(pow (pow (s x) (q 1 2)) (q 1 2))", "(contains (s x) reals)", {"x": "real"}),
    ("(f1 abs (s x))", "(le (s x) (i 0))", {"x": "nonpos"}), ("(f1 abs (s x))", "(ge (s x) (i 0))", {"x": "nonneg"}),
    ("(f1 abs (f1 conjugate (s x)))", "-", {}), ("(f1 abs (mul (i -2) (s x)))", "(gt (s x) (i 0))", {"x": "pos"}),
    ("(f1 sign (s x))", "(gt (s x) (i 0))", {"x": "pos"}), ("(f1 sign (s x))", "(lt (s x) (i 0))", {"x": "neg"}),
    ("(f1 sign (s x))", "(eq (s x) (i 0))", {"x": "zero"}), ("(f1 sign (add (s x) (i 1)))", "(gt (s x) (i 0))", {"x": "pos"}),
    ("(f1 floor (s x))", "(contains (s x) integers)", {"x": "integer"}), ("(f1 ceiling (mul (i 2) (s x)))", "(contains (s x) integers)", {"x": "integer"}),
    ("(f1 floor (mul (i -1) (s x)))", "(contains (s x) reals)", {"x": "real"}), ("(f1 ceiling (mul (q -1 2) (s x)))", "(contains (s x) reals)", {"x": "real"}),
    ("(f1 conjugate (s x))", "(contains (s x) reals)", {"x": "real"}), ("(f1 conjugate (mul I (s x)))", "(contains (s x) reals)", {"x": "real"}),
    ("(max (s x) (s y) (i 0))", "(gt (s x) (i 0)) ;; (lt (s y) (i 0))", {"x": "pos", "y": "neg"}),
    ("(min (s x) (s y) (i 0))", "(gt (s x) (i 0)) ;; (lt (s y) (i 0))", {"x": "pos", "y": "neg"}),
    ("(max (s x) (s y) (s z))", "(ge (s x) (i 0)) ;; (le (s y) (i 0)) ;; (lt (s z) (i 0))", {"x": "nonneg", "y": "nonpos", "z": "neg"}),
    ("(min (s x) (s y) (s z))", "(ge (s x) (i 0)) ;; (le (s y) (i 0)) ;; (gt (s z) (i 0))", {"x": "nonneg", "y": "nonpos", "z": "pos"}),
    ("(f1 log (pow (s x) (s y)))", "(gt (s x) (i 0)) ;; (contains (s y) reals)", {"x": "pos", "y": "real"}),
    ("(f1 log (i 8))", "-", {}), ("(f1 log (i 10))", "-", {}), ("(f1 log (pow (i 2) (s y)))", "(contains (s y) reals)", {"y": "real"}),
    ("(pow (f1 csc (s x)) (i -1))", "-", {}), ("(mul (i 2) (pow (f1 sec (s x)) (i -1)))", "-", {}), ("(pow (f1 cot (s x)) (i -1))", "-", {}),
    ("(pow (f1 csc (s x)) (i -2))", "-", {}),
]


def mk_case(rng, expr, afield, kinds, nval):
    k = {s: kinds.get(s, "none") for s in SYMS}
    return "R\t%s\t%s\t%s" % (expr, afield, Q.gen_valuations(rng, k, nval))


def all_cases(ctx, n, nval=6):
    cases = [mk_case(ctx.rng, e, a, k, 8) for (e, a, k) in CORPUS]
    for _ in range(n):
        afield, kinds = Q.gen_assumptions(ctx.rng)
        cases.append(mk_case(ctx.rng, gen_refine(ctx.rng), afield, kinds, nval))
    return cases


def build(ctx):
    return Q.build(ctx)


def new_stats():
    return {"cases": 0, "skipped": 0, "nodes": 0, "decl": 0, "mismatches": 0, "nontrivial": set(), "rules": {}}


def parse_nodes(field):
    out = []
    if field.strip() in ("-", "AEXN", ""):
        return out
    for rec in field.split(" @@ "):
        parts = [p.strip() for p in rec.split(" ## ")]
        if len(parts) < 5:
            out.append(None)
            continue
        cands = {}
        if parts[3] != "-":
            for c in parts[3].split(" %% "):
                lab, d = c.split("=", 1)
                cands[lab.strip()] = d.strip()
        out.append({"kind": parts[0], "inputs": parts[1], "flags": parts[2], "cands": cands, "result": parts[4]})
    return out


def rule_class(nodes, labels):
    fired = sorted({"%s-%s" % (n["kind"], l.split(":")[0]) for n, l in zip(nodes, labels)
                    if n is not None and l not in ("keep", "UNSUP", "EXN") and not (l.startswith("keep:"))})
    mm = sorted({n["kind"] for n, l in zip(nodes, labels) if n is not None and l.startswith("keep:")})
    # no rule of refine fires, but rebuilding Pow(Pow(b, -1), q) with pow() collapses it to b**(-q)
    # (the constructor's own rewriting, pow.cpp, outside the anchored code)
    collapse = [n for n, l in zip(nodes, labels) if n is not None and n["kind"] in ("Pow", "SPow") and l == "keep"
                and n["inputs"].startswith("(Pow ") and not n["cands"].get("keep", "").startswith("(Pow (Pow ")]
    if collapse:
        fired.append("Pow-collapse")
    # a rule with a known defect explains the difference whatever else fired in the same expression
    for known in ("Pow-collapse",):
        if known in fired:
            return known
    return "+".join(fired + mm) if (fired or mm) else "none"


def oracle_skipped(dump, oracle):
    """value comparisons that are not meaningful: infinities / nan / booleans inside arithmetic (C34.outside_domain);
    floating point numbers in the expression (refine reassociates sums and products, rounding differs and can cross
    a branch cut); max/min of non-real values"""
    if Q.outside_domain(dump) or "(D " in dump or "(CD " in dump:
        return True
    if ("(FN Max" in dump or "(FN Min" in dump) and ("(C " in oracle or "(CD " in oracle):
        return True
    return False


def explore(ctx, drv, model, cases, stats, search=False):
    if drv is None or model is None or not cases:
        return []
    impl = ctx.run_lines(drv, cases)
    mod = ctx.run_lines(model, ["R\t" + l for l in impl])
    suspects = []
    kreq = []      # second phase: Max/Min candidates
    for case, il, ml in zip(cases, impl, mod):
        f = il.split("\t")
        if len(f) < 4 or il.startswith("SETUP") or il.startswith("NOOUTPUT") or il.startswith("BAD"):
            stats["skipped"] += 1
            continue
        if "CRASH" in il or "HANG" in il:
            ctx.violation("C35/crash", "refine/simplify ended with %s on %s" % (il[-40:], case), {"family": "assume", "case": case})
            continue
        if f[2] == "AEXN":
            stats["skipped"] += 1
            continue
        stats["cases"] += 1
        ctx.cov["traces_validated_against_impl"] += 1
        nodes = parse_nodes(f[2])
        labels = ml.split() if ml.strip() != "-" else []
        if ml.startswith("FAIL") or ml.startswith("UNSUPPORTED") or ml.startswith("BAD") or len(labels) != len(nodes):
            if ml.startswith("UNSUPPORTED"):
                stats["skipped"] += 1
                continue
            ctx.broken.append({"kind": "correspondence", "name": "C35 model output", "detail": "case %s\nimpl %s\nmodel %s" % (case, il[:400], ml[:200])})
            continue
        bad = None
        mmidx = 0
        for n, lab in zip(nodes, labels):
            if n is None:
                continue
            ctx.cov["evaluations"] += 1
            stats["nodes"] += 1
            ismm = n["kind"] in ("Max", "Min")
            if lab == "UNSUP":
                stats["decl"] += 1
            elif lab == "EXN":
                pass
            elif ismm:
                if lab.startswith("keep:"):
                    kreq.append((case, n, mmidx, lab[5:]))
            else:
                stats["rules"]["%s-%s" % (n["kind"], lab)] = stats["rules"].get("%s-%s" % (n["kind"], lab), 0) + 1
                if lab not in n["cands"] or n["cands"][lab] != n["result"]:
                    bad = (n, lab)
            if ismm:
                mmidx += 1
        rc = rule_class(nodes, labels)
        if rc != "none":
            stats["nontrivial"].add((f[0], f[1]))
        if bad:
            suspects.append(case)
            if stats["mismatches"] < 4:
                n, lab = bad
                ctx.broken.append({"kind": "correspondence", "name": "C35 rule " + n["kind"],
                                   "detail": "case %s\nnode %s inputs %s\nmodel decides %s = %s\nrefine gives %s" % (
                                       case, n["kind"], n["inputs"], lab, n["cands"].get(lab, "<no such candidate>"), n["result"])})
            stats["mismatches"] += 1
        if len(f) > 4 and f[4].startswith("#ORACLE:") and not oracle_skipped(f[0], f[4]):
            which = "refine" if "refine@" in f[4] else "simplify"
            key = "C35/%s-value:%s" % (which, rc)
            ctx.violation(key, "%s(e) has another value than e at a valuation satisfying the assumptions: %s ; refine/simplify = %s ; case %s" % (
                which, f[4], f[3], case.replace("\t", " | ")), {"family": "assume", "case": case, "dump": f[0]})
        if not search and len(ctx.cov["samples"]) < 8 and rc != "none":
            ctx.cov["samples"].append({"case": case.replace("\t", " | ")[:300], "rules": rc, "refined": f[3][:200]})
    # second phase for Max/Min
    if kreq:
        klines = []
        for case, n, idx, keep in kreq:
            cf = case.split("\t")
            klines.append("K\t%s\t%s\t%s\t%d\t%s" % (n["kind"].lower(), cf[1], cf[2], idx, keep))
        kout = ctx.run_lines(drv, klines)
        for (case, n, idx, keep), ko in zip(kreq, kout):
            kf = ko.split("\t")
            if len(kf) != 2:
                stats["skipped"] += 1
                continue
            stats["rules"]["%s-keep" % n["kind"]] = stats["rules"].get("%s-keep" % n["kind"], 0) + 1
            if kf[0] != kf[1]:
                suspects.append(case)
                if stats["mismatches"] < 4:
                    ctx.broken.append({"kind": "correspondence", "name": "C35 rule " + n["kind"],
                                       "detail": "case %s\nrefined arguments %s\nmodel keeps %s -> %s\nrefine gives %s" % (case, n["inputs"], keep, kf[0], kf[1])})
                stats["mismatches"] += 1
    return suspects


def run(ctx):
    ctx.gate(["Assume", "C35"])
    Q.check_sources_compiled(ctx)
    ctx.prove(PROOF_MODULES, [o for o in OBLIGATIONS if os.path.exists(os.path.join(vlib.COQ, o))])
    for o in OBLIGATIONS:
        if not os.path.exists(os.path.join(vlib.COQ, o)):
            ctx.broken.append({"kind": "proof", "name": o, "detail": "obligation file missing"})
    drv, model = build(ctx)
    stats = new_stats()
    n = 1200 if ctx.tier == "quick" else 30000
    cases = all_cases(ctx, n, 6 if ctx.tier == "quick" else 10)
    suspects = explore(ctx, drv, model, cases, stats)
    if ctx.broken and not [v for v in ctx.violations if v["key"] not in vlib.load_known(ctx.pid)]:
        more = []
        for c in suspects[:200]:
            f = c.split("\t")
            for _ in range(3):
                more.append("\t".join(f[:3] + [Q.gen_valuations(ctx.rng, Q.guess_kinds(f[2]), 12)]))
        more += all_cases(ctx, 2500, 12)
        explore(ctx, drv, model, more, new_stats(), search=True)
    ctx.cov["distinct_nontrivial"] = len(stats["nontrivial"])
    ctx.cov["cases"] = stats["cases"]
    ctx.cov["cases_skipped"] = stats["skipped"]
    ctx.cov["rule_nodes"] = stats["nodes"]
    ctx.cov["decisions_declined_by_model"] = stats["decl"]
    ctx.cov["decisions_by_rule"] = stats["rules"]
    ctx.cov["rule"] = ("cases = (expression recipe, statement set, sampled valuations); evaluations = rule nodes (Abs, Sign, Floor, Ceiling, "
                       "Conjugate, Pow, Log, Max, Min of the expression; Pow nodes of refine(e) for simplify_pow) whose decision is compared; "
                       "non-trivial = distinct (expression, statements) pairs in which at least one rule fires (decision other than 'keep')")
    ctx.assumptions += [
        "the candidates of a rule are built by the library's constructors (neg, abs, pow, mul, log, max, min, ...), whose value preservation is "
        "not part of this property; could_extract_minus and mp_perfect_power_decomposition are inputs of the model",
        "theorems are per rule and on values in Q(i); Log and simplify_pow have no value theorem (values outside Q(i)), the Pow rule is proved for an even inner and a half-integer outer exponent: otherwise correspondence + oracle only",
        "SimplifyVisitor::bvisit(Mul) is only covered by the oracle (its result is rebuilt by Mul::from_dict)",
    ]


def replay(ctx, rep):
    drv, model = build(ctx)
    case = rep["replay"]["case"]
    impl = ctx.run_lines(drv, [case])
    mod = ctx.run_lines(model, ["R\t" + impl[0]])
    print("case :", case.replace("\t", " | "))
    f = impl[0].split("\t")
    print("dump :", f[0] if f else impl[0])
    print("stmts:", f[1] if len(f) > 1 else "")
    for n, lab in zip(parse_nodes(f[2]) if len(f) > 2 else [], mod[0].split()):
        if n:
            print("node :", n["kind"], "| refined args:", n["inputs"], "| model:", lab, "| result:", n["result"])
    print("refine ;; simplify:", f[3] if len(f) > 3 else "")
    if len(f) > 4:
        print("oracle:", f[4])
