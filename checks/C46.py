"""C46 -- homogeneous_lde returns exactly the minimal non-zero non-negative solutions of A x = 0.
Model: coq/C46/LdeModel.v (the Contejean-Devie stack loop of symengine/diophantine.cpp, checked
indices, fuelled while loop).  Theorems: coq/C46/P_*.v.  Tie: the same matrices run on the extracted
model and on the library; bases compared in the order returned; the property itself is evaluated on
the library's output by brute force (driver) and on the model's output by the extracted enumerator."""
import itertools
import vlib

# until the files are listed in coq/_CoqProject the proof modules are compiled by hand (see report)
PROOF_MODULES = ["C46/LdeProofs.vo"]
OBLIGATIONS = [
    "C46/P_lde_sound.v", "C46/P_lde_indices_in_bounds.v", "C46/P_lde_antichain.v",
    "C46/P_lde_complete.v", "C46/P_lde_exact.v", "C46/P_lde_fuel_mono.v",
    "C46/P_lde_terminates_small.v", "C46/P_hilbert_box_correct.v", "C46/P_is_minimal_sol_correct.v",
    "C46/P_lde_from_guarded.v", "C46/P_lde_from_refuted.v", "C46/P_order_correct.v", "C46/P_is_minimum_correct.v",
    "C46/P_nonvacuous.v",
]

BOX = {0: 1, 1: 12, 2: 12, 3: 9, 4: 6, 5: 4, 6: 3}


def case(rows, q, basis0=None, box=None):
    p = len(rows)
    b = BOX.get(q, 2) if box is None else box
    toks = [p, q, b, len(basis0 or [])]
    for r in rows:
        toks += list(r)
    for r in (basis0 or []):
        toks += [len(r)] + list(r)
    return " ".join(str(x) for x in toks)


# the witness of C46_lde_from_refuted (coq/C46/LdeProofs.v): `basis` = {(1,1), (2,2)} on entry
REFUTED_WITNESS = None   # set below
REFUTED_RESULT = "B:1,1|2,2|1,1"

CORPUS = [
    case([[1, -1]], 2),
    case([[2, -3, 1]], 3),
    case([[1, 1, -1, -1], [1, -1, 1, -1]], 4),
    case([[1, 2, -3], [0, 0, 0]], 3),                 # zero row
    case([[0, 1, -1]], 3),                            # zero column: e_0 is a solution
    case([[1, 1, 1]], 3),                             # no solution
    case([[3, -2, 0, 5], [-1, 0, 2, -3]], 4),
    case([[1, -2, 3, -1], [2, -4, 6, -2]], 4),        # rank 1
    case([[5, -3]], 2), case([[-7, 4, 1]], 3),
    case([[1, 0, -1], [0, 1, -1], [1, -1, 0]], 3),
    case([[2, 2, -3, -3]], 4),                        # needs the basis cut to stay finite
    case([[3, -3, 2, -2]], 4),
    case([[1, -1, 0, 0, 0], [0, 0, 1, -1, 0]], 5),
    case([[0]], 1), case([[2]], 1), case([], 2), case([[]], 0), case([], 0),
    case([[0, 0], [0, 0]], 2),
    case([[2 ** 40, -3 * 2 ** 40, 2 ** 40]], 3),        # huge entries (dot products beyond 64 bits)
    case([[10 ** 15, 10 ** 15, -10 ** 15, -10 ** 15], [10 ** 15, -10 ** 15, 10 ** 15, -10 ** 15]], 4),
    case([[2, -2, 1, 0, 1], [-1, 2, -1, 2, 2], [8, -4, 4, -8, 8]], 5),   # last row scaled by 4: 2461 iterations instead of 28
    # `basis` not empty on entry (not cleared by the function; equal vectors pass is_minimum)
    case([[1, -1]], 2, [[1, 1]]), case([[1, -1]], 2, [[2, 2]]), case([[1, -2]], 2, [[1, 0]]),
    case([[1, -1]], 2, [[5]]), case([[-1, 1]], 2, [[0]]), case([[-1, 1]], 2, [[]]),
    case([[1, -1, 2]], 3, [[0, 0, 0]]), case([[2, -3, 1]], 3, [[1, 1, 1, 7]]),
]


REFUTED_WITNESS = case([[1, -1]], 2, [[1, 1], [2, 2]])
CORPUS.append(REFUTED_WITNESS)


def rand_matrix(rng, tier):
    r = rng.random()
    if r < 0.08:
        p, q = 1, rng.choice([1, 2])
    elif r < 0.45:
        p, q = 1, rng.choice([3, 3, 4, 4, 5])
    elif r < 0.85:
        p, q = 2, rng.choice([3, 4, 4, 5])
    else:
        p, q = 3, rng.choice([3, 4, 5])
    big = rng.random() < 0.25
    m = rng.choice([4, 5, 7]) if big else rng.choice([1, 2, 3, 3])
    if q >= 5:
        m = min(m, 3)
    rows = [[rng.randint(-m, m) for _ in range(q)] for _ in range(p)]
    s = rng.random()
    if s < 0.10 and q >= 2:          # a column and its negation / a repeated column
        i, j = rng.sample(range(q), 2)
        sg = rng.choice([-1, 1])
        for r_ in rows:
            r_[j] = sg * r_[i]
    elif s < 0.18:                   # zero column
        j = rng.randrange(q)
        for r_ in rows:
            r_[j] = 0
    elif s < 0.26 and p >= 2:        # dependent rows
        k = rng.choice([-2, -1, 1, 2, 0])
        rows[1] = [k * a for a in rows[0]]
    elif s < 0.32:                   # one sign only: no solution unless zero columns
        rows[0] = [abs(a) for a in rows[0]]
    elif s < 0.40:                   # entries 0 / +-1 (totally-unimodular-like)
        rows = [[rng.choice([-1, 0, 1]) for _ in range(q)] for _ in range(p)]
    elif s < 0.46:                   # huge entries: the whole matrix scaled by 2^40 / 10^15: same solutions and the same
        # search tree (every dot product is scaled by k^2), multi-limb arithmetic.  Scaling ONE row of several
        # keeps the solutions but makes the search tree explode (see the report), so that is not generated.
        k = rng.choice([2 ** 40, 10 ** 15, -(2 ** 33)])
        rows = [[k * a for a in r_] for r_ in rows]
    return rows, q


def rand_case(rng, tier):
    rows, q = rand_matrix(rng, tier)
    if rng.random() < 0.10:
        n0 = rng.choice([1, 1, 2])
        b0 = []
        for _ in range(n0):
            w = q if rng.random() < 0.8 else rng.choice([0, max(0, q - 1), q + 1])
            b0.append([rng.choice([0, 0, 1, 1, 2, 3]) for _ in range(w)])
        return case(rows, q, b0)
    return case(rows, q)


def min_case(rng):
    """unit level: is_minimum / order on a vector and a small basis, entries 0..3 so that equal and
    comparable vectors are frequent"""
    q = rng.choice([1, 2, 2, 3, 3, 4])
    n = rng.choice([0, 1, 1, 2, 3, 4])
    hi = rng.choice([1, 2, 3])
    t = [rng.randint(0, hi) for _ in range(q)]
    basis = []
    for _ in range(n):
        r = rng.random()
        if r < 0.2:
            b = list(t)                                   # equal
        elif r < 0.45:
            b = [max(0, x - rng.randint(0, 1)) for x in t]  # below
        elif r < 0.6:
            b = [x + rng.randint(0, 1) for x in t]          # above
        else:
            b = [rng.randint(0, hi) for _ in range(q)]
        basis.append(b)
    toks = ["M", q, n] + t + [x for b in basis for x in b]
    return " ".join(str(x) for x in toks)


def exhaustive(p, q, m):
    for ent in itertools.product(range(-m, m + 1), repeat=p * q):
        yield case([list(ent[i * q:(i + 1) * q]) for i in range(p)], q)


def parse_basis(s):
    """'B:1,1|2,0,1' -> list of tuples; None for an error line"""
    if not s.startswith("B:") or "HANG" in s or "CRASH" in s:
        return None
    body = s[2:]
    if body == "":
        return []
    try:
        return [tuple(int(x) for x in v.split(",")) if v != "" else () for v in body.split("|")]
    except ValueError:
        return None


def run(ctx):
    ctx.gate(["Base", "C46"])
    ctx.prove(PROOF_MODULES, OBLIGATIONS)
    drv = ctx.build_driver("c46_driver")
    model = ctx.build_model("C46", "C46/Extract.v", "c46_main.ml", "lde_model")
    n = 1500 if ctx.tier == "quick" else 20000
    cases = list(CORPUS) + [rand_case(ctx.rng, ctx.tier) for _ in range(n)]
    cases += [min_case(ctx.rng) for _ in range(n // 3)]
    if ctx.tier == "quick":
        cases += list(exhaustive(1, 3, 2)) + list(exhaustive(1, 2, 4))
    else:
        cases += (list(exhaustive(1, 2, 6)) + list(exhaustive(1, 3, 3)) + list(exhaustive(1, 4, 3))
                  + list(exhaustive(2, 3, 2)) + list(exhaustive(2, 4, 1)) + list(exhaustive(3, 3, 1)))
    ctx.stats = {"nontrivial": set()}
    explore(ctx, drv, model, cases)
    if ctx.broken and not ctx.violations:
        # a proof or the tie broke: search harder for a concrete failing matrix
        extra = ([rand_case(ctx.rng, "thorough") for _ in range(6000)] + list(exhaustive(2, 3, 2))
                 + [min_case(ctx.rng) for _ in range(2000)])
        explore(ctx, drv, model, extra, search=True)
    ctx.cov["distinct_nontrivial"] = len(ctx.stats["nontrivial"])
    ctx.cov["rule"] = ("integer matrices p x q (p <= 3, q <= 5, entries mostly in [-3,3], a quarter up to +-7) from one PRNG, shaped "
                       "towards the case splits of the proofs (zero / repeated / negated columns, dependent or zero rows, one-signed rows, "
                       "0/+-1 matrices, matrices scaled by 2^40 or 10^15, empty shapes), a fixed corpus, complete small universes (quick: 1x3 in [-2,2], 1x2 in [-4,4]; thorough: "
                       "1x2 [-6,6], 1x3 [-3,3], 1x4 [-3,3], 2x3 [-2,2], 2x4 [-1,1], 3x3 [-1,1]), and 10% calls with a non-empty `basis` on entry; "
                       "plus unit-level cases for is_minimum/order (vectors with entries 0..3, basis elements equal / below / above / random); "
                       "a case is non-trivial when the library returns at least two vectors or a vector of 1-norm >= 3 (unit level: a non-empty basis); "
                       "distinct = distinct case lines")
    ctx.assumptions += [
        "termination of the while loop is NOT proved in general (Contejean-Devie's termination argument is analytic): all theorems are about "
        "runs that end (`= Ok basis`); lde_fuel_mono shows the result does not depend on the fuel; lde_terminates_small proves termination (within "
        "400 iterations) by complete kernel sweeps of the matrices up to 2x3 with entries in [-2,2], 1x4 in [-3,3], 3x3 and 2x4 in {-1,0,1}; "
        "on every explored case the model's fuel (400000 iterations) sufficed and the library returned within its 6 s limit",
        "Integer arithmetic (GMP) is exact: modelled by Z; DenseMatrix::mul_matrix / transpose / eq as their loops over m_",
        "the std::vector P used as a stack is modelled by a list whose head is back(); Frozen/F by lists of bools with checked indices",
        "the matrix entries are Integers (the function's SYMENGINE_ASSERTs; rcp_static_cast on other types is outside the model)",
        "the brute-force comparison is complete only inside the box [0,box]^q (box = 12..4 for q = 1..5); returned vectors outside the box are "
        "checked for soundness and minimality individually",
    ]


def explore(ctx, drv, model, cases, search=False):
    if drv is None or model is None:
        return
    impl = ctx.run_lines(drv, cases, timeout=3000, shards=16)
    mod = ctx.run_lines(model, cases, timeout=3000, shards=16)
    ctx.cov["evaluations"] += len(cases)
    ctx.cov["traces_validated_against_impl"] += len(cases)
    if not search:
        ctx.cov["samples"] += [{"case": c, "model": m, "impl": i} for c, m, i in list(zip(cases, mod, impl))[:8]]
    ndis = 0
    for c, m, i in zip(cases, mod, impl):
        canon, _, oracle = i.partition("\t#ORACLE:")
        mparts = m.split("\t")
        mcanon = mparts[0]
        rep = {"family": "C46", "case": c, "impl": i, "model": m}
        if c.startswith("M"):
            # unit level: is_minimum / order
            if oracle:
                kind = oracle.strip().split(":")[0]
                key = {"order": "C46/order-wrong", "is_minimum": "C46/is-minimum-wrong"}.get(kind, "C46/wrong-output")
                ctx.violation(key, "case `%s` (M q n, t, then the n basis vectors): library gives %s;%s" % (c, canon, oracle), rep)
            elif "CRASH" in canon or "HANG" in canon or "UNCAUGHT" in canon:
                ctx.violation("C46/crash", "case `%s`: is_minimum/order end with %s" % (c, canon[-40:]), rep)
            elif canon != mcanon:
                ndis += 1
                if ndis <= 3:
                    ctx.broken.append({"kind": "correspondence", "name": "C46 is_minimum/order",
                                       "detail": "case `%s`\n model: %s\n impl:  %s" % (c, mcanon, canon)})
            if int(c.split()[2]) > 0:
                ctx.stats["nontrivial"].add(c)
            continue
        n0 = int(c.split()[3])
        if c == REFUTED_WITNESS and not search:
            # replay of the refutation witness on the real library (an observation about the in/out
            # argument, outside the property's quantifier: reported as a note, never as a violation)
            if canon == REFUTED_RESULT:
                ctx.notes.append("C46_lde_from_refuted reproduces on the library: A = (1 -1) with basis = {(1,1),(2,2)} on entry returns (1,1),(2,2),(1,1)")
            else:
                ctx.notes.append("C46_lde_from_refuted no longer reproduces on the library (got %s)" % canon)
        got = parse_basis(canon)
        if got is not None and (len(got) >= 2 or any(sum(v) >= 3 for v in got)):
            ctx.stats["nontrivial"].add(c)
        if oracle:
            kind = oracle.strip().split(":")[0]
            key = {"unsound": "C46/unsound-vector", "not-minimal": "C46/non-minimal-vector",
                   "duplicate": "C46/duplicate-vector", "missing": "C46/missing-minimal-solution"}.get(kind, "C46/wrong-output")
            ctx.violation(key, "matrix case `%s` (p q box n0 entries): library returns %s;%s" % (c, canon, oracle), rep)
            continue
        if n0 == 0 and ("CRASH" in canon or "UNCAUGHT" in canon or canon.startswith("EXN")):
            ctx.violation("C46/crash", "matrix case `%s`: the library ends with %s (model: %s)" % (c, canon[-40:], mcanon[:80]), rep)
            continue
        if n0 == 0 and "HANG" in canon:
            ctx.violation("C46/hang", "matrix case `%s`: homogeneous_lde did not return within 6 s (model: %s)" % (c, mcanon[:80]), rep)
            continue
        # the tie: same basis in the same order; an out-of-range access of the model is an abort of the library
        same = (canon == mcanon) or (mcanon.startswith("OOB") and canon.startswith("CRASH:6")) \
            or (mcanon == "FUEL" and canon == "HANG")
        if not same:
            ndis += 1
            if ndis <= 3:
                ctx.broken.append({"kind": "correspondence", "name": "C46 homogeneous_lde",
                                   "detail": "case `%s`\n model: %s\n impl:  %s" % (c, mcanon, canon)})
            continue
        # the model's own output against the extracted brute-force enumerator
        if n0 == 0 and len(mparts) == 3 and mcanon.startswith("B:"):
            q = int(c.split()[1])
            box = int(c.split()[2])
            mb = parse_basis(mcanon)
            hb = parse_basis("B:" + mparts[1][2:])
            inbox = sorted(v for v in mb if all(x <= box for x in v))
            flags = mparts[2][2:]
            if q > 0 and (inbox != sorted(hb) or "0" in flags or len(set(mb)) != len(mb)):
                ctx.broken.append({"kind": "correspondence", "name": "C46 model vs enumerator",
                                   "detail": "case `%s`: model %s but enumerator %s flags %s" % (c, mcanon, mparts[1], flags)})
    return ndis


def replay(ctx, rep):
    drv = ctx.build_driver("c46_driver")
    model = ctx.build_model("C46", "C46/Extract.v", "c46_main.ml", "lde_model")
    c = rep["replay"]["case"]
    if c.startswith("M"):
        print("case :", c, "   (M q n, the vector t, then the n basis vectors; output m:<is_minimum>;o:<order per k>)")
    else:
        print("case :", c, "   (p q box n0, then the entries of A row by row, then the rows `basis` holds on entry)")
    print("impl :", ctx.run_lines(drv, [c])[0])
    print("model:", ctx.run_lines(model, [c])[0])
