"""C45 -- arbitrary-precision evaluation is accurate (MPFR half; MPC headers are not installed in this image, so
eval_mpc / ComplexMPC cannot be built: that half of the property is not reached, see the assumptions).

Model: coq/C45/MpfrModel.v -- a table-driven evaluator over the GENERATED tables of coq/C45/Gen_MpfrRules.v
(translators/tr_mpfrrules.py: EvalMPFRVisitor::bvisit bodies of eval_mpfr.cpp -> mpfr_rules; RealMPFR::<op>real of
real_mpfr.cpp -> mpfr_arith), with MPFR_RNDN rounding to p bits computed by Flocq's Fdiv/truncate/round_N.
Theorems: coq/C45/P_*.v (mpfr_rules_ideal, mpfr_rules_agree_eval, rounding = Flocq round, mpfr_arith_correctly_rounded,
the double rounding of Integer/Rational divided by RealMPFR refuted).
Tie (library configured WITH_MPFR, tools/buildlib.sh mpfr):
  E cases  eval_mpfr / evalf at several precisions on numeric trees vs the extracted model, digit for digit
           (arithmetic, leaves, folds, integer powers computed by the model; transcendental MPFR calls looked up in a list of
           candidate calls the driver evaluates with MPFR itself, so the formula table and the evaluation order are compared);
  A cases  Number::add/sub/mul/div/pow with a RealMPFR operand vs the model, digit for digit.
Oracles: exact rational arithmetic rounded once (driver, GMP) for A cases; a reference evaluator at 2p+64 bits from the
mathematical definitions for E cases (TESTING, labelled)."""
import os
import re
import struct
import sys

import vlib
from checks import evalcommon as ec

ROOT = vlib.ROOT
COQ = vlib.COQ

# shared modules (in coq/_CoqProject, built by make) the C45 files load
SHARED = ["Expr/IO.vo", "Eval/TableProofs.vo"]
PROOF_MODULES = []   # coq/C45/*.v are compiled directly with coqc (OWN_FILES, in dependency order) until listed in _CoqProject
OWN_FILES = ["C45/MpfrTerm.v", "C45/Gen_MpfrRules.v", "C45/MpfrModel.v", "C45/MpfrRun.v", "C45/MpfrSpec.v",
             "C45/MpfrRound.v", "C45/MpfrArith.v", "C45/MpfrTable.v"]
MODEL_FILES = ["C45/MpfrTerm.v", "C45/Gen_MpfrRules.v", "C45/MpfrModel.v", "C45/MpfrRun.v"]
OBLIGATIONS = ["C45/P_mpfr_rules_ideal.v", "C45/P_mpfr_table_covers_spec.v", "C45/P_mpfr_rules_agree_eval.v",
               "C45/P_mpfr_agree_classes.v", "C45/P_mpfr_agree_sem.v", "C45/P_rounding_is_flocq_round.v",
               "C45/P_mpfr_arith_correctly_rounded.v", "C45/P_arith_pairs.v", "C45/P_rdiv_correctly_rounded_refuted.v",
               "C45/P_arith_ref_correct.v", "C45/P_nonvacuous.v"]

PRECS_QUICK = [2, 5, 24, 53, 54, 64, 100, 200]
PRECS_THOROUGH = [1, 2, 3, 5, 11, 24, 53, 54, 64, 65, 100, 113, 128, 200, 256, 500, 1000]

E_CORPUS = [
    (100, "(f1 asec (q 7 3))"), (100, "(f1 acsc (q 7 3))"), (64, "(f1 asec (q -7 3))"), (200, "(f1 acsc (q -11 10))"),
    (100, "(add (uneval (q 1 3)) (uneval (q 1 7)))"), (64, "(add pi (q 1 3))"), (200, "(mul (uneval (q 1 3)) (pow (uneval (i 7)) (i -2)))"),
    (100, "(s x)"), (100, "(f1 sin (q 1 3))"), (100, "(f1 sec (add pi (q 1 3)))"), (120, "(f2 atan2 (q 1 3) (f1 coth (q 2 7)))"),
    (80, "(pow pi (q 1 2))"), (80, "(mul (q 1 3) (pow E (q 7 2)))"), (90, "(f2 lowergamma (q 5 2) (q 1 3))"),
    (90, "(f2 uppergamma (q 5 2) (q 1 3))"), (90, "(f1 loggamma (q 5 2))"), (90, "GoldenRatio"), (90, "EulerGamma"), (90, "Catalan"),
    (90, "(max pi E (q 22 7))"), (90, "(min pi E (q 22 7))"), (90, "(f2 beta (q 1 2) (q 1 3))"), (70, "(f1 acoth (q 7 2))"),
    (70, "(f1 asech (q 2 5))"), (70, "(f1 acsch (q -3 4))"), (70, "(f1 acot (q 1 3))"), (70, "(f1 cot (q 1 3))"), (70, "(f1 csc (i 7))"),
    (70, "(f1 coth (q 1 3))"), (70, "(f1 sech (i 2))"), (70, "(f1 csch (q 1 10))"),
    (60, "(add (uneval (i 9007199254740995)) (uneval (q 1 2)))"), (10, "(add (uneval (i 1023)) (uneval (q 1 2)))"),
    (3, "(add (uneval (i 9)) (uneval (i 0)))"), (3, "(mul (uneval (i 11)) (uneval (i 1)))"), (1, "(add (uneval (i 3)) (uneval (i 0)))"),
    (24, "(add (uneval (d 3fb999999999999a)) (uneval (q 1 10)))"), (100, "(lt pi (i 3))"), (100, "(eq (uneval (q 1 3)) (uneval (q 1 3)))"),
    (100, "(ne pi E)"), (100, "(le (uneval (i 2)) (uneval (i 2)))"), (100, "(uneval (add (i 1) (i 2)))"), (100, "(pw (i 1) (lt pi (i 3)) (i 2) true)"),
    (100, "true"), (100, "oo"), (100, "(c 1 2 3 4)"), (100, "(f1 floor (mul pi (i 100)))"), (100, "(f1 abs (sub E pi))"),
    (100, "(pow (uneval (q -2 3)) (i 3))"), (100, "(pow (uneval (q -2 3)) (i -3))"), (100, "(pow (uneval (i 0)) (i 0))"),
    (64, "(f1 gamma (q 1 3))"), (64, "(f1 erf (q 1 3))"), (64, "(f1 erfc pi)"), (100, "(mul (i 2) (pow E (i 10)))"),
]

A_CORPUS = [
    "add M:10:1:0 Q:1/3", "div I:7 M:10:3:0", "div I:3 M:4:13:0", "div Q:3/2 M:4:13:0", "pow D:4000000000000000 M:100:-1:0",
    "pow D:c000000000000000 M:100:1:-1", "pow M:53:1:1 Q:1/3", "add M:10:1:0 C", "mul M:10:1:0 CD", "mul M:10:1:0 I:0", "mul I:0 M:10:1:0",
    "add M:10:1023:0 M:5:31:-7", "add M:5:31:-7 M:10:1023:0", "sub M:10:1023:0 M:5:31:-7", "sub Q:1/3 M:10:1:0", "sub I:5 M:10:3:-1",
    "sub D:3fb999999999999a M:60:1:0", "mul M:24:16777215:0 M:24:16777215:0", "div M:24:1:0 M:24:3:0", "div M:24:1:0 M:53:3:0",
    "div D:3ff0000000000000 M:24:3:0", "pow M:20:-3:0 I:-3", "pow M:20:3:0 I:50", "pow M:20:3:-1 M:20:3:0", "pow M:20:-3:0 M:20:1:-1",
    "pow I:2 M:30:1:-1", "pow I:-2 M:30:1:-1", "pow Q:2/3 M:30:5:0", "pow M:30:5:0 D:4000000000000000", "add M:2:3:0 I:1", "add M:1:1:0 I:1",
    "add M:1:1:1 I:1", "sub M:100:1:0 M:100:1:0", "add I:100000000000000000000 M:10:1:0", "mul Q:100000000000000000000/3 M:10:3:0",
    "div M:10:3:0 I:0", "div I:0 M:10:3:0", "pow M:10:3:0 I:0", "pow M:40:7:0 Q:-1/2",
    "pow M:200:755285422153212130811088558886:20 Q:1/3", "pow M:2:2:0 D:c014000000000000",
]


def run_translator(ctx):
    env = dict(os.environ)
    env["VERIF_REPO"] = vlib.REPO
    rc, out = vlib.sh([sys.executable, os.path.join(ROOT, "translators", "tr_mpfrrules.py")], env=env, timeout=300)
    if rc != 0:
        ctx.broken.append({"kind": "translator", "name": "tr_mpfrrules",
                           "detail": "eval_mpfr.cpp / real_mpfr.cpp no longer have the recognised shape:\n" + out[-2500:]})
        return False
    for line in out.splitlines():
        if "regenerated" in line:
            ctx.notes.append(line.strip())
    return True


def build_own(ctx):
    """coqc every stale file of OWN_FILES, in order (only while coq/C45 is not part of the shared Makefile)"""
    if vlib.in_project(OWN_FILES[0]):
        # part of the shared Makefile: make builds the model and proof files (make -k: a broken proof file leaves the model usable)
        ok, log = ctx.coq_make(SHARED + [f[:-2] + ".vo" for f in OWN_FILES])
        if not ok:
            ctx.broken.append({"kind": "proof", "name": "C45 proof modules", "detail": log[-2500:]})
        return all(os.path.exists(os.path.join(COQ, f + "o")) for f in MODEL_FILES)
    ok, log = ctx.coq_make(SHARED)
    if not ok:
        ctx.broken.append({"kind": "proof", "name": "shared modules", "detail": log[-2500:]})
        return False
    with vlib.Lock(os.path.join(vlib.WORK, "c45-coq.lock")):
        newest = max((os.path.getmtime(os.path.join(COQ, d)) for d in SHARED + ["Eval/EvalModel.vo", "Eval/Gen_EvalRules.vo"]
                      if os.path.exists(os.path.join(COQ, d))), default=0)
        for f in OWN_FILES:
            src = os.path.join(COQ, f)
            vo = src + "o"
            newest = max(newest, os.path.getmtime(src))
            if os.path.exists(vo) and os.path.getmtime(vo) >= newest:
                newest = max(newest, os.path.getmtime(vo))
                continue
            rc, out = vlib.sh(["timeout", "1500", "coqc", "-Q", ".", "SE", "-w", "-notation-overridden", f], cwd=COQ, timeout=1530)
            if rc != 0:
                if os.path.exists(vo):
                    os.remove(vo)
                ctx.broken.append({"kind": "proof", "name": f, "detail": out[-2500:]})
                if f in MODEL_FILES:
                    return False
                continue            # a proof file: the model files are still usable
            newest = max(newest, os.path.getmtime(vo))
    return True


def prepare(ctx, obligations):
    import time
    t = [time.time()]

    def lap(name):
        t.append(time.time())
        ctx.notes.append("stage %s: %.1fs" % (name, t[-1] - t[-2]))
    run_translator(ctx)
    ctx.gate(["Base", "Eval", "C45"])
    built = build_own(ctx)
    lap("translate+coq")
    if obligations:
        ctx.prove(PROOF_MODULES, obligations)
        lap("obligations")
    drv = ctx.build_driver("c45_driver", cfg="mpfr")
    lap("library+driver")
    model = ctx.build_model("C45" + vlib.TAG, "C45/Extract.v", "c45_main.ml", "semodel", extra_ml=["expr_io.ml"]) if built else None
    lap("model")
    return drv, model


# ------------------------------------------------------------------ generators
def hexd(v):
    return "%016x" % struct.unpack("<Q", struct.pack("<d", v))[0]


def gen_leaf(rng):
    r = rng.random()
    if r < 0.25:
        return "(uneval %s)" % rng.choice(ec.INTS)
    if r < 0.6:
        return "(uneval %s)" % rng.choice(ec.RATS)
    if r < 0.7:
        return "(uneval (d %s))" % hexd(rng.choice([0.1, 1.5, -2.75, 1e-3, 3.0e10, rng.uniform(-4, 4), rng.gauss(0, 1)]))
    if r < 0.8:
        return "(uneval (q %d %d))" % (rng.randint(-10 ** 12, 10 ** 12), rng.randint(1, 10 ** 9))
    return rng.choice(ec.CONSTS)


def gen_arith(rng, depth):
    """arithmetic-only trees the model evaluates completely (leaves wrapped in UnevaluatedExpr do not collapse)"""
    if depth <= 0 or rng.random() < 0.2:
        return gen_leaf(rng)
    r = rng.random()
    if r < 0.35:
        return "(addv %s)" % " ".join(gen_arith(rng, depth - 1) for _ in range(rng.choice([2, 2, 3, 4])))
    if r < 0.7:
        return "(mulv %s)" % " ".join(gen_arith(rng, depth - 1) for _ in range(rng.choice([2, 2, 3, 4])))
    if r < 0.9:
        return "(pow %s (i %d))" % (gen_arith(rng, depth - 1), rng.choice([2, 3, -1, -2, 5, 10, -7, 33]))
    if r < 0.95:
        return "(%s %s)" % (rng.choice(["max", "min"]), " ".join(gen_arith(rng, depth - 1) for _ in range(rng.choice([2, 3]))))
    return "(%s %s %s)" % (rng.choice(["lt", "le", "eq", "ne"]), gen_arith(rng, depth - 1), gen_arith(rng, depth - 1))


def gen_extra(rng):
    a, b = rng.choice(ec.RATS[:12] + ["(i 2)", "(i 3)", "(q 5 2)"]), rng.choice(ec.RATS[:12] + ["(i 2)", "(q 7 2)"])
    return "(f2 %s %s %s)" % (rng.choice(["uppergamma", "lowergamma", "beta", "atan2"]), a, b)


def rand_mant(rng, prec):
    k = rng.choice([1, prec, prec, prec, max(1, prec // 2), max(1, prec - 1)])
    m = rng.getrandbits(k) | (1 << (k - 1))
    if rng.random() < 0.15:
        m = (1 << k) - 1
    if rng.random() < 0.1:
        m = 1 << (k - 1)
    return m if rng.random() < 0.75 else -m


def gen_opd(rng, kind):
    if kind == "M":
        p = rng.choice([1, 2, 4, 10, 24, 53, 53, 64, 100, 200])
        return "M:%d:%d:%d" % (p, rand_mant(rng, p), rng.choice([0, 0, -1, -3, 1, 5, -p, -p - 3, 20, -60]))
    if kind == "I":
        return "I:%d" % rng.choice([0, 1, -1, 2, 3, -3, 7, 10, 13, 100, 2 ** 53 + 1, -(2 ** 64) - 3, 10 ** 20, rng.randint(-1000, 1000)])
    if kind == "Q":
        from math import gcd
        while True:
            n, d = rng.choice([1, -1, 3, 2, -7, 22, 10 ** 20 + 1, rng.randint(-999, 999)]), rng.choice([2, 3, 7, 10, 3 ** 30, rng.randint(2, 999)])
            if n != 0 and gcd(abs(n), d) == 1 and d > 1:
                return "Q:%d/%d" % (n, d)
    if kind == "D":
        return "D:" + rng.choice(ec.DOUBLES[2:21] + [hexd(rng.uniform(-8, 8)), hexd(rng.gauss(0, 1)), hexd(0.1), hexd(float(rng.randint(-5, 5)))])
    return kind   # C / CD


def gen_arith_case(rng):
    op = rng.choice(["add", "sub", "mul", "div", "pow", "pow"])
    k = rng.choice(["M", "M", "I", "I", "Q", "Q", "D", "D", "C", "CD"] if rng.random() < 0.9 else ["C", "CD"])
    a, b = gen_opd(rng, "M"), gen_opd(rng, k)
    if op == "pow" and k == "I" and rng.random() < 0.7:
        b = "I:%d" % rng.choice([0, 1, -1, 2, 3, -2, -3, 5, 10, 50, -17, 200])
    if rng.random() < 0.5 and k != "M":
        a, b = b, a
    return "%s %s %s" % (op, a, b)


# ------------------------------------------------------------------ running
def fields(line):
    parts = line.split("\t")
    f = {}
    oracle = ""
    for p in parts[1:]:
        if p.startswith("#ORACLE:"):
            oracle = p[8:]
        elif "=" in p:
            k, v = p.split("=", 1)
            f[k] = v
    return parts[0], f, oracle


def died(line):
    return any(t in line for t in ("CRASH", "HANG", "UNCAUGHT", "DIED", "NOOUTPUT"))


def top_class(dump):
    m = re.match(r"\((F1|F2|FN) (\w+)", dump)
    if m:
        return m.group(2)
    m = re.match(r"\((\w+)", dump)
    return m.group(1) if m else "?"


def explore_eval(ctx, drv, model, cases, search=False):
    """cases: (prec, recipe)"""
    if drv is None or not cases:
        return
    impl = ctx.run_lines(drv, ["E %d %s" % c for c in cases], timeout=2400)
    rows = [(c, ) + fields(l) + (l,) for c, l in zip(cases, impl)]
    usable = [i for i, (c, dump, f, o, l) in enumerate(rows) if dump.startswith("(") and "Opaque" not in dump and "V" in f and not died(l)]
    mod = ctx.run_lines(model, ["E %d %s\t%s" % (rows[i][0][0], rows[i][1], rows[i][2].get("O", "")) for i in usable], timeout=2400) if model else []
    mrow = dict(zip(usable, mod))
    ctx.cov["evaluations"] += len(cases)
    seen = ctx.cov.setdefault("_seen", set())
    ulps = ctx.cov.setdefault("_ulps", [])
    for i, (c, dump, f, oracle, line) in enumerate(rows):
        case = "E %d %s" % c
        if died(line):
            if dump.startswith("("):
                ctx.violation("C45/crash:eval_mpfr", "`%s` ends with %s" % (case, line[-40:]), {"case": case, "impl": line[-300:]})
            continue
        v = f.get("V", "")
        if re.match(r"^-?\d+:-?\d+$", v) and any(t in dump for t in ("(F1 ", "(F2 ", "(FN ", "(Add ", "(Mul ", "(Pow ")):
            key = (c[0], dump)
            if key not in seen:
                seen.add(key)
                ctx.cov["distinct_nontrivial"] += 1
        if f.get("U", "-") not in ("-", "inf"):
            try:
                ulps.append(float(f["U"]))
            except ValueError:
                pass
        m = mrow.get(i)
        if m is not None and m.startswith("V=") and m[2:] not in ("NOMODEL",):
            ctx.cov["traces_validated_against_impl"] += 1
            ctx.cov["_modelled"] = ctx.cov.get("_modelled", 0) + 1
            if m[2:] != v:
                ctx.cov["_edis"] = ctx.cov.get("_edis", 0) + 1
                if ctx.cov["_edis"] <= 3:
                    ctx.broken.append({"kind": "correspondence", "name": "C45 eval_mpfr",
                                       "detail": "case `%s`\n tree %s\n model %s\n impl  V=%s" % (case, dump[:300], m, v)})
                # a digit-for-digit difference from the model of the (proved) formula table is a failing input of its own
                ctx.violation("C45/eval_mpfr-differs-from-model:" + top_class(dump),
                              "`%s` (tree %s): eval_mpfr = %s, the model of the verified formula table gives %s" % (case, dump[:200], v, m[2:]),
                              {"case": case, "impl": line[:300], "model": m})
        elif m is not None and (m.startswith("FAIL") or m.startswith("BADCASE")):
            ctx.broken.append({"kind": "correspondence", "name": "C45 model input", "detail": "case `%s`: %s" % (case, m)})
        for item in oracle.split():
            if item.startswith("inaccurate:"):
                key = "C45/inaccurate:" + item[len("inaccurate:"):].split("(")[0]
            else:
                key = "C45/" + item.split("(")[0]
            ctx.violation(key, "`%s` (tree %s): %s; eval_mpfr=%s evalf=%s" % (case, dump[:200], item, v, f.get("F")),
                          {"case": case, "impl": re.sub(r"\tO=[^\t]*", "", line)[:400], "model": m})
    if not search:
        ctx.cov["samples"] += [{"case": "E %d %s" % rows[i][0], "impl": re.sub(r"\tO=[^\t]*", "", rows[i][4])[:300], "model": mrow.get(i)}
                               for i in usable[:4]]


def explore_arith(ctx, drv, model, cases, search=False):
    if drv is None or not cases:
        return
    impl = ctx.run_lines(drv, ["A " + c for c in cases], timeout=2400)
    mod = ctx.run_lines(model, ["A " + c for c in cases], timeout=2400) if model else [None] * len(cases)
    ctx.cov["evaluations"] += len(cases)
    seen = ctx.cov.setdefault("_seen", set())
    for c, line, m in zip(cases, impl, mod):
        case = "A " + c
        if died(line):
            ctx.violation("C45/crash:arith", "`%s` ends with %s" % (case, line[-40:]), {"case": case, "impl": line[-300:]})
            continue
        res, _, oracle = line.partition("\t#ORACLE:")
        if res.startswith("M:") and c not in seen:
            seen.add(c)
            ctx.cov["distinct_nontrivial"] += 1
        if m is not None:
            mres, _, ref = m.partition("\tR=")
            if mres not in ("NOMODEL", "BADCASE") and not mres.startswith("FAIL"):
                ctx.cov["traces_validated_against_impl"] += 1
                if mres != res:
                    ctx.cov["_adis"] = ctx.cov.get("_adis", 0) + 1
                    if ctx.cov["_adis"] <= 3:
                        ctx.broken.append({"kind": "correspondence", "name": "C45 RealMPFR arithmetic",
                                           "detail": "case `%s`\n model %s\n impl  %s" % (case, mres, res)})
                    ctx.violation("C45/arith-differs-from-model:" + ":".join(kinds(c)),
                                  "`%s`: library %s, model of the generated dispatch table %s" % (case, res, mres), {"case": case, "impl": line, "model": m})
            # the model's own correctly rounded reference (independent of the driver's GMP oracle)
            if ref not in ("", "-") and res.startswith("M:") and res != ref and "misrounded" not in oracle and "precision" not in oracle:
                oracle = (oracle + " " if oracle else "") + "misrounded(%s)[model reference %s]" % (",".join(kinds(c)), ref)
        for item in oracle.split():
            nm = item.split("(")[0]
            inside = item[item.index("(") + 1:item.index(")")] if "(" in item else ""
            ks = inside.split(",")
            key = "C45/%s:%s" % (nm, inside.replace(",", ":"))
            if nm == "misrounded" and len(ks) == 3:
                if ks[0] == "div" and ks[1] in ("Integer", "Rational") and ks[2] == "RealMPFR":
                    key = "C45/rdiv-exact-dividend-double-rounding"
                elif ks[0] == "pow" and set(ks[1:]) != {"RealMPFR"} and ks[1:] != ["RealMPFR", "Integer"]:
                    key = "C45/pow-exact-operand-rounded-first"
            ctx.violation(key, "`%s`: %s; library result %s" % (case, item, res), {"case": case, "impl": line, "model": m})
    if not search:
        ctx.cov["samples"] += [{"case": "A " + c, "impl": l, "model": m} for c, l, m in list(zip(cases, impl, mod))[:4]]


KIND = {"I": "Integer", "Q": "Rational", "D": "RealDouble", "M": "RealMPFR", "C": "Complex"}


def kinds(c):
    op, a, b = c.split()
    return [op, "ComplexDouble" if a == "CD" else KIND[a[0]], "ComplexDouble" if b == "CD" else KIND[b[0]]]


def run(ctx):
    drv, model = prepare(ctx, OBLIGATIONS)
    quick = ctx.tier == "quick"
    precs = PRECS_QUICK if quick else PRECS_THOROUGH
    rng = ctx.rng
    ecases = list(E_CORPUS)
    sweep = ec.class_sweep()
    if quick:
        sweep = [sweep[i] for i in sorted(rng.sample(range(len(sweep)), 260))]
    ecases += [(rng.choice([p for p in precs if p >= 24]), s) for s in sweep]
    n_ar, n_num = (500, 350) if quick else (12000, 9000)
    ecases += [(rng.choice(precs), gen_arith(rng, rng.choice([1, 2, 2, 3]))) for _ in range(n_ar)]
    ecases += [(rng.choice([p for p in precs if p >= 24]), ec.gen_num(rng, rng.choice([1, 2, 2, 3]))) for _ in range(n_num)]
    ecases += [(rng.choice([64, 100, 200]), gen_extra(rng)) for _ in range(40 if quick else 600)]
    explore_eval(ctx, drv, model, ecases)
    acases = list(A_CORPUS) + [gen_arith_case(rng) for _ in range(1500 if quick else 40000)]
    explore_arith(ctx, drv, model, acases)
    known = vlib.load_known("C45")
    if ctx.broken and not [v for v in ctx.violations if v["key"] not in known]:
        # a proof or the tie no longer checks: search harder around the case splits
        extra = [(p, s) for s in ec.class_sweep() for p in (64, 113)]
        extra += [(rng.choice(PRECS_THOROUGH), gen_arith(rng, 3)) for _ in range(2000)]
        explore_eval(ctx, drv, model, extra, search=True)
        explore_arith(ctx, drv, model, [gen_arith_case(rng) for _ in range(6000)], search=True)
    ulps = sorted(ctx.cov.pop("_ulps", []))
    ctx.cov.pop("_seen", None)
    for k in ("_edis", "_adis"):
        ctx.cov.pop(k, None)
    modelled = ctx.cov.pop("_modelled", 0)
    if ulps:
        q = lambda t: ulps[min(len(ulps) - 1, int(t * len(ulps)))]
        ctx.cov["ulp_error_distribution"] = {"n": len(ulps), "median": q(0.5), "p90": q(0.9), "p99": q(0.99), "max": ulps[-1],
                                             "share_within_half_ulp": round(sum(1 for u in ulps if u <= 0.5) / len(ulps), 4),
                                             "share_within_1_ulp": round(sum(1 for u in ulps if u <= 1.0) / len(ulps), 4)}
    ctx.cov["rule"] = ("E cases: numeric expression trees (recipes of public API calls) evaluated by eval_mpfr at precisions %s (evalf for > 53 bits): "
                       "arithmetic-only trees over Integer/Rational/RealDouble leaves wrapped in UnevaluatedExpr and the five constants (sums, products, integer powers, "
                       "Max/Min, relationals), the 31 one-argument classes on a 38-argument palette aimed at the domain boundaries, atan2, upper/lower gamma, beta, random composites; "
                       "A cases: Number::add/sub/mul/div/pow with one RealMPFR operand (precisions 1..200, mantissas at the rounding boundaries) and an Integer, Rational, RealDouble, "
                       "RealMPFR, Complex or ComplexDouble operand, in both orders.  evaluations = cases; a case is non-trivial when the result is a finite number of a tree with "
                       "an operation node (E) / a RealMPFR (A); distinct = distinct (precision, tree) / operand triples.  %d E cases were completely computed by the model; "
                       "ulp_error_distribution = error of eval_mpfr in ulps of the requested precision against the 2p+64 bit reference (TESTING)" % (precs, modelled))
    ctx.assumptions += [
        "MPC half NOT REACHED: mpc.h is not installed in this image, the library cannot be configured WITH_MPC, so eval_mpc and ComplexMPC (complex_mpc.cpp, eval_mpc.cpp) "
        "are not built, not modelled and not tested; the Complex / ComplexDouble operand overloads of RealMPFR are only shown to throw SymEngineException in this configuration",
        "MPFR itself is trusted: every mpfr_* call returns the correctly rounded value of its exact operands (MPFR's documented contract); the model computes + - * / integer powers, "
        "conversions and comparisons itself (Flocq), and looks the transcendental calls up in a list of candidate calls the driver evaluates with the same MPFR",
        "'correct to the requested precision' is NOT what composing correctly rounded steps gives: mpfr_rules_ideal is about the formulas over ideal real functions, the model is about "
        "the rounded steps; the accuracy of the composed result is TESTED against a 2p+64 bit reference evaluator written from the mathematical definitions "
        "(tolerance 8 x observed conditioning spread + 4 ulp) and the observed ulp error distribution is reported",
        "exponent range: MPFR's default exponent range (2^62) is treated as unbounded (Flocq FLX format); the sign of zero is not modelled; NaN / infinite operands of RealMPFR "
        "arithmetic are outside the model",
        "rounding modes other than MPFR_RNDN (eval_mpfr takes the mode as a parameter; evalf always passes MPFR_RNDN) are not modelled",
    ]
    ctx.cov["trusted_base"].append("translators/tr_mpfrrules.py (bvisit bodies / <op>real bodies -> rule tables; fails on unrecognised shapes; every generated rule is exercised by the correspondence run)")
    ctx.cov["trusted_base"].append("Flocq 4.1 (Fdiv, truncate, round_N: the model's rounding; round, FLX_exp, ZnearestE: the specification), MPFR 4.2.0, GMP")


def replay(ctx, rep):
    drv, model = prepare(ctx, [])
    c = rep["replay"]["case"]
    line = ctx.run_lines(drv, [c])[0]
    print("case :", c)
    print("impl :", re.sub(r"\tO=[^\t]*", "", line))
    if model:
        if c.startswith("E "):
            dump, f, _ = fields(line)
            if dump.startswith("("):
                print("model:", ctx.run_lines(model, ["E %s %s\t%s" % (c.split()[1], dump, f.get("O", ""))])[0])
        else:
            print("model:", ctx.run_lines(model, [c])[0])
