"""C14 -- LLVM-compiled functions compute the expression's value (library configured WITH_LLVM against LLVM 14).

Model: coq/C14/LlvmModel.v -- [lower]: what LLVMVisitor::apply emits for a tree, as an operation tree, driven by the
GENERATED table coq/C14/Gen_LlvmRules.v (translators/tr_llvmrules.py: IRBuilder call sequences of llvm_double.cpp and the
rewrites of RewriteTrigVisitor); [flatten]: the emission order -> a straight-line SSA program; [exec]: an SSA interpreter
over an abstract float algebra (executable instance: Flocq binary64, libm through OCaml's Stdlib).
Theorems: coq/C14/P_*.v (compile_sound, flatten_correct, llvm_rules_agree_eval, the Pow case split, init is stateless).
Tie: histories (init / call sequences, opt levels 0-3, symbolic CSE on/off) on LLVMDoubleVisitor vs the extracted model,
bit for bit at optimisation level 0 (and compared, with a 16 ulp allowance, at levels 1-3: LLVM folds llvm.powi and libm
calls of constants with other algorithms than the run-time code).
Oracles in the driver (TESTING): the same init at all opt levels / CSE settings, dumps()/loads(), a fresh visitor, the
float and long double evaluators, LambdaRealDoubleVisitor as the value reference.
Not reached: LLVM's optimiser, instruction selection and JIT themselves (results only compared)."""
import os
import re
import sys

import vlib
from checks import evalcommon as ec

ROOT = vlib.ROOT
COQ = vlib.COQ

SHARED = ["Expr/IO.vo", "Eval/TableProofs.vo", "Eval/LambdaModel.vo", "Eval/EvalFloat.vo"]
PROOF_MODULES = []   # coq/C14/*.v are compiled directly with coqc (OWN_FILES, in dependency order) until listed in _CoqProject
MODEL_FILES = ["C14/LlvmTerm.v", "C14/Gen_LlvmRules.v", "C14/LlvmModel.v", "C14/LlvmRun.v"]
OWN_FILES = ["C14/LlvmTerm.v", "C14/Gen_LlvmRules.v", "C14/LlvmModel.v", "C14/LlvmRun.v", "C14/LlvmProofs.v", "C14/LlvmTable.v"]
OBLIGATIONS = ["C14/P_compile_sound.v", "C14/P_flatten_correct.v", "C14/P_llvm_rules_agree_eval.v", "C14/P_llvm_accepts.v",
               "C14/P_llvm_pow_ideal.v", "C14/P_init_stateless.v", "C14/P_cse_symbols_first.v", "C14/P_nonvacuous.v"]

CORPUS = [
    "I 0 0 :: (s x) ;; (s y) :: (add (mul (i 2) (s x)) (s y)) ;; (pow (s x) (i 3)) || C 4024000000000000 3ff0000000000000",
    "I 2 1 :: (s x) ;; (s y) :: (add (f1 sin (mul (s x) (s y))) (pow (mul (s x) (s y)) (i 2))) ;; (f1 cot (s x)) || C 3ff8000000000000 3fe0000000000000",
    # a visitor reused after an init that threw
    "I 0 0 :: (s x) ;; (s y) :: (add (s x) (s z)) || I 0 0 :: (s y) ;; (s x) :: (add (mul (i 2) (s x)) (s y)) || C 4024000000000000 3ff0000000000000",
    "I 3 0 :: (s x) :: (f2 zeta (s x) (i 2)) || I 3 1 :: (s x) :: (mul (s x) (s x)) ;; (f1 sin (mul (s x) (s x))) || C 4000000000000000",
    "I 0 0 :: (s x) :: (pw (s x) (lt (s x) (i 0)) (pow (s x) (q 1 2)) true) ;; (f1 sign (s x)) ;; (max (s x) (i 1) (q 1 2)) || C c000000000000000 || C 4010000000000000 || C 0000000000000000 || C 7ff8000000000000",
    # Pow: every case, operand order (non-commutative)
    "I 0 0 :: (s x) ;; (s y) :: (pow (s x) (s y)) ;; (pow (s y) (s x)) ;; (pow E (s x)) ;; (pow (i 2) (s x)) ;; (pow (s x) (i 2)) ;; (pow (s x) (i -3)) ;; (pow (s x) (q 1 2)) ;; (pow (q 1 2) (s x)) || C 4008000000000000 4000000000000000 || C 3fe0000000000000 c008000000000000",
    "I 1 0 :: (s x) ;; (s y) :: (pow (s x) (s y)) ;; (pow (s x) (i 7)) ;; (pow (s x) (i -1)) ;; (sub (s x) (s y)) ;; (div (s x) (s y)) || C 4008000000000000 4000000000000000",
    "I 2 0 :: (s x) ;; (s y) :: (sub (s x) (s y)) ;; (div (s x) (s y)) ;; (f2 atan2 (s x) (s y)) ;; (lt (s x) (s y)) ;; (le (s x) (s y)) || C 4008000000000000 4000000000000000 || C 4000000000000000 4008000000000000",
    # relationals / logic / contains
    "I 0 0 :: (s x) ;; (s y) :: (eq (s x) (s y)) ;; (ne (s x) (s y)) ;; (and (lt (s x) (s y)) (lt (i 0) (s x))) ;; (or (lt (s x) (s y)) (lt (i 0) (s x))) ;; (xor (lt (s x) (s y)) (lt (i 0) (s x))) ;; (not (lt (s x) (s y))) || C 3ff0000000000000 4000000000000000 || C 4000000000000000 3ff0000000000000 || C 7ff8000000000000 3ff0000000000000",
    "I 0 0 :: (s x) :: (contains (s x) (interval (i -1) (i 2) 0 1)) ;; (contains (s x) (interval -oo (i 2) 1 0)) || C 4000000000000000 || C bff0000000000000 || C 7ff8000000000000",
    "I 0 0 :: (s x) :: (f1 floor (s x)) ;; (f1 ceiling (s x)) ;; (f1 truncate (s x)) ;; (f1 abs (s x)) ;; (min (s x) (i 1) (q 1 2)) || C c004000000000000 || C 4004000000000000",
    # every rewritten class and every external function
    "I 0 0 :: (s x) :: (f1 cot (s x)) ;; (f1 sec (s x)) ;; (f1 csc (s x)) ;; (f1 acot (s x)) ;; (f1 coth (s x)) ;; (f1 sech (s x)) ;; (f1 csch (s x)) ;; (f1 acsch (s x)) || C 3ff8000000000000 || C bfe0000000000000",
    "I 0 0 :: (s x) :: (f1 asec (s x)) ;; (f1 acsc (s x)) ;; (f1 acoth (s x)) ;; (f1 acosh (s x)) ;; (f1 cot (f1 sec (s x))) || C 4004000000000000",
    "I 0 0 :: (s x) :: (f1 asech (s x)) ;; (f1 asin (s x)) ;; (f1 acos (s x)) ;; (f1 atanh (s x)) ;; (f1 atan (s x)) || C 3fd5555555555555",
    "I 0 0 :: (s x) :: (f1 tan (s x)) ;; (f1 sinh (s x)) ;; (f1 cosh (s x)) ;; (f1 tanh (s x)) ;; (f1 asinh (s x)) ;; (f1 erf (s x)) ;; (f1 erfc (s x)) ;; (f1 gamma (s x)) ;; (f1 loggamma (s x)) ;; (f1 log (s x)) ;; (f1 exp (s x)) || C 3ff8000000000000",
    # constants, infinities, no inputs, CSE with shared subexpressions
    "I 0 0 :: - :: (add pi (q 1 3)) ;; (mul E (i 2)) ;; oo ;; -oo ;; nan ;; true ;; (uneval (add (i 1) (i 2))) || C",
    "I 0 1 :: (s x) ;; (s y) :: (add (f1 sin (add (s x) (s y))) (pow (add (s x) (s y)) (i 2))) ;; (mul (f1 cos (add (s x) (s y))) (add (s x) (s y))) || C 3ff0000000000000 4000000000000000",
    "I 3 1 :: (s x) ;; (s y) :: (add (f1 sin (add (s x) (s y))) (pow (add (s x) (s y)) (i 2))) ;; (mul (f1 cos (add (s x) (s y))) (add (s x) (s y))) || C 3ff0000000000000 4000000000000000",
    # errors
    "I 0 0 :: (add (s x) (i 1)) :: (s x)", "I 0 0 :: (s x) :: zoo", "I 0 0 :: (s x) :: (pw (s x) (lt (s x) (i 0)) (i 1) (lt (i 0) (s x)))",
    "I 0 0 :: (s x) :: (contains (s x) (fset (i 1) (i 2)))", "I 0 0 :: (s x) :: (c 1 2 3 4)",
    "I 0 1 :: (s x) :: (add (s x0) (s x))",
]


def run_translator(ctx):
    env = dict(os.environ)
    env["VERIF_REPO"] = vlib.REPO
    ok = True
    for tr in ("tr_llvmrules.py",):
        rc, out = vlib.sh([sys.executable, os.path.join(ROOT, "translators", tr)], env=env, timeout=300)
        if rc != 0:
            ctx.broken.append({"kind": "translator", "name": tr[:-3],
                               "detail": "the source no longer has the recognised shape:\n" + out[-2500:]})
            ok = False
        for line in out.splitlines():
            if "regenerated" in line:
                ctx.notes.append(line.strip())
    return ok


def build_own(ctx):
    if vlib.in_project(OWN_FILES[0]):
        # part of the shared Makefile: make builds the model and proof files (make -k: a broken proof file leaves the model usable)
        ok, log = ctx.coq_make(SHARED + [f[:-2] + ".vo" for f in OWN_FILES])
        if not ok:
            ctx.broken.append({"kind": "proof", "name": "C14 proof modules", "detail": log[-2500:]})
        return all(os.path.exists(os.path.join(COQ, f + "o")) for f in MODEL_FILES)
    ok, log = ctx.coq_make(SHARED)
    if not ok:
        ctx.broken.append({"kind": "proof", "name": "shared modules", "detail": log[-2500:]})
        return False
    with vlib.Lock(os.path.join(vlib.WORK, "c14-coq.lock")):
        newest = max((os.path.getmtime(os.path.join(COQ, d)) for d in SHARED + ["Eval/EvalModel.vo", "Eval/Gen_EvalRules.vo", "Eval/Gen_LambdaRules.vo"]
                      if os.path.exists(os.path.join(COQ, d))), default=0)
        for f in OWN_FILES:
            src = os.path.join(COQ, f)
            vo = src + "o"
            newest = max(newest, os.path.getmtime(src))
            if os.path.exists(vo) and os.path.getmtime(vo) >= newest:
                newest = max(newest, os.path.getmtime(vo))
                continue
            rc, out = vlib.sh(["timeout", "1500", "coqc", "-Q", ".", "SE", "-w", "-notation-overridden", f], cwd=COQ, timeout=1530)
            if rc != 0:
                if os.path.exists(vo):
                    os.remove(vo)
                ctx.broken.append({"kind": "proof", "name": f, "detail": out[-2500:]})
                if f in ("C14/LlvmProofs.v", "C14/LlvmTable.v"):
                    continue        # the model files are still usable
                return False
            newest = max(newest, os.path.getmtime(vo))
    return True


def prepare(ctx, obligations):
    import time
    t = [time.time()]

    def lap(name):
        t.append(time.time())
        ctx.notes.append("stage %s: %.1fs" % (name, t[-1] - t[-2]))
    run_translator(ctx)
    ctx.gate(["Base", "Eval", "C14"])
    built = build_own(ctx)
    lap("translate+coq")
    if obligations:
        ctx.prove(PROOF_MODULES, obligations)
        lap("obligations")
    drv = ctx.build_driver("c14_driver", cfg="llvm")
    lap("library+driver")
    model = ctx.build_model("C14" + vlib.TAG, "C14/Extract.v", "c14_main.ml", "semodel", extra_ml=["expr_io.ml"]) if built else None
    lap("model")
    return drv, model


# ------------------------------------------------------------------ generators
BAD_OUTS = ["u", "(f2 zeta x (i 2))", "(fs f x)", "(contains x (fset (i 1) (i 2)))", "(add u (f1 sin u))", "zoo", "(c 1 2 3 4)",
            "(pw x (lt x (i 0)) (i 1) (lt (i 0) x))"]


def gen_history(rng, tier):
    ops = []
    for k in range(rng.choice([1, 1, 1, 2, 2, 3])):
        syms = rng.sample(ec.SYMS, rng.randint(1, 3))
        outs = ec.gen_outputs(rng, syms, rng.choice([1, 2, 2, 3]), rng.choice([1, 1, 2, 3]))
        opt = rng.choice([0, 0, 0, 1, 2, 3])
        cse = rng.randint(0, 1)
        r = rng.random()
        bad = False
        if r < 0.2:
            pos = rng.randint(0, len(outs))
            outs = outs[:pos] + [rng.choice(BAD_OUTS)] + outs[pos:]
            bad = True
        elif r < 0.3 and k > 0:
            outs.append("(add %s %s)" % (rng.choice(["x0", "x1", "x2"]), rng.choice(syms)))
        ops.append("I %d %d :: %s :: %s" % (opt, cse, " ;; ".join(syms), " ;; ".join(outs)))
        if not bad:
            for _ in range(rng.choice([1, 1, 2, 3])):
                ops.append("C " + " ".join(ec.dbl(rng) for _ in syms))
    return " || ".join(ops)


def gen_pow_history(rng):
    """Pow / Add / Mul shapes around the case splits of bvisit(const Pow &) and of the Add / Mul folds"""
    base = rng.choice(["x", "y", "(add x (i 1))", "E", "(i 2)", "(i 3)", "(q 1 2)", "(mul x y)", "pi", "(d 4000000000000000)"])
    ex = rng.choice(["(i 2)", "(i 3)", "(i -1)", "(i -2)", "(i 10)", "(i 0)", "(i 1)", "(q 1 2)", "(q -1 2)", "x", "y", "(add y (i 1))",
                     "(d 4000000000000000)", "(i 31)", "(i -17)", "pi"])
    outs = ["(pow %s %s)" % (base, ex),
            "(add (mul (i 3) (pow %s %s)) (mul (q -1 2) y) (i %d))" % (base, ex, rng.choice([0, 1, -5])),
            "(mul (pow %s %s) (pow y (i %d)) x)" % (base, ex, rng.choice([1, 2, -1]))]
    op = "I %d %d :: x ;; y :: %s" % (rng.choice([0, 0, 1, 2, 3]), rng.randint(0, 1), " ;; ".join(outs))
    return op + " || " + " || ".join("C %s %s" % (ec.dbl(rng), ec.dbl(rng)) for _ in range(2))


# ------------------------------------------------------------------ running
SIGN_OF_BOOLEAN = re.compile(r"\(F1 Sign \((Bool|F2 (Equality|Unequality|LessThan|StrictLessThan)|FN (And|Or|Xor)|F1 Not|Lex Contains)")


def split_ops(body):
    """driver line -> ([(op text, result)], died marker)"""
    died = re.search(r"(CRASH:\d+|HANG|DIED|UNCAUGHT)$", body)
    if died:
        body = body[:died.start()]
    res = []
    for op in body.split(" || "):
        if " => " in op:
            a, b = op.split(" => ", 1)
            res.append((a, b))
        elif op.strip():
            res.append((op, ""))
    return res, (died.group(1) if died else None)


def ulp_dist(a, b):
    if a == b:
        return 0
    if "NAN" in (a, b) or not re.match(r"^[0-9a-f]{16}$", a) or not re.match(r"^[0-9a-f]{16}$", b):
        return 1 << 62
    x, y = int(a, 16), int(b, 16)
    x = -(x & ~(1 << 63)) if x >> 63 else x
    y = -(y & ~(1 << 63)) if y >> 63 else y
    return abs(x - y)


def top_class(dump):
    m = re.match(r"\((F1|F2|FN) (\w+)", dump)
    if m:
        return m.group(2)
    m = re.match(r"\((\w+)", dump)
    return m.group(1) if m else "?"


def explore(ctx, drv, model, cases, search=False):
    if drv is None or not cases:
        return
    impl = ctx.run_lines(drv, cases, timeout=3000)
    usable = [i for i, l in enumerate(impl) if l.startswith("I ") and "RECIPE-" not in l]
    mod = ctx.run_lines(model, [impl[i] for i in usable], timeout=3000) if model else []
    mrow = dict(zip(usable, mod))
    ctx.cov["evaluations"] += len(cases)
    seen = ctx.cov.setdefault("_seen", set())
    for i, (case, line) in enumerate(zip(cases, impl)):
        body, _, oracle = line.partition("\t#ORACLE:")
        ops, dead = split_ops(body)
        results = [re.sub(r"~.*$", "", r) for _, r in ops]
        failed_init = any(o.startswith("I ") and r.startswith("EXN") for (o, _), r in zip(ops, results))
        if dead:
            last = ops[-1][1] if ops else ""
            if "~" in last and not last.rstrip().endswith("."):
                pass        # died during oracle work on other objects (reported through the oracle of other cases)
            key = "C14/reuse-after-failed-init" if failed_init else "C14/crash"
            ctx.violation(key, "history `%s` ends with %s after %d ops%s" % (case[:300], dead, len(ops),
                          " (an earlier init of the same visitor threw)" if failed_init else ""), {"case": case, "impl": line[-400:]})
        # ---- model
        m = mrow.get(i)
        if m is not None and m.startswith("R="):
            r_part, _, s_part = m.partition("\tS=")
            mres = r_part[2:].split(" || ")
            sres = s_part.split(" || ")
            if mres != sres:
                ctx.broken.append({"kind": "correspondence", "name": "C14 run_ssa vs trees_value",
                                   "detail": "history `%s`\n run_ssa %s\n trees   %s" % (case[:300], r_part, s_part)})
            opt = 0
            for k, ((optxt, _), res) in enumerate(zip(ops, results)):
                if k >= len(mres):
                    break
                if optxt.startswith("I "):
                    opt = int(optxt.split()[1])
                    outs_dump = optxt.split(" :: ")[2] if optxt.count(" :: ") >= 2 else ""
                if dead and k == len(ops) - 1:
                    break
                mv = mres[k]
                if mv in ("SKIP", "NOMODEL", "FUEL") or res in ("SKIP", ""):
                    continue
                if optxt.startswith("I "):
                    ctx.cov["traces_validated_against_impl"] += 1
                    if mv != res:
                        if res.startswith("EXN") and mv == "OK" and SIGN_OF_BOOLEAN.search(optxt):
                            continue    # Sign of a Boolean: the Eq / Lt constructors bvisit(const Sign &) calls reject it
                        note_dis(ctx, case, "init result", mv, res, failed_init)
                    continue
                iv, mvs = res.split(), mv.split()
                if len(iv) != len(mvs):
                    note_dis(ctx, case, "number of outputs", mv, res, failed_init)
                    continue
                full = True
                for a, b in zip(iv, mvs):
                    if b == "NOMODEL":
                        full = False
                        continue
                    d = ulp_dist(a, b)
                    if d == 0:
                        continue
                    if opt == 0 or d > 16:
                        note_dis(ctx, case, "call at opt level %d" % opt, mv, res, failed_init)
                        break
                    ctx.cov["_soft"] = ctx.cov.get("_soft", 0) + 1
                if full:
                    ctx.cov["traces_validated_against_impl"] += 1
                key = (opt, optxt)
                if key not in seen and any(re.match(r"^[0-9a-f]{16}$", a) for a in iv):
                    seen.add(key)
                    ctx.cov["distinct_nontrivial"] += 1
        elif m is not None and (m.startswith("FAIL") or m.startswith("BADCASE")):
            ctx.broken.append({"kind": "correspondence", "name": "C14 model input", "detail": "history `%s`: %s" % (case[:300], m)})
        # ---- the property on the library's outputs
        for item in vlib_split(oracle):
            nm = item.split("(")[0]
            if nm in ("float", "longdouble", "float-init"):
                # the float / long double evaluators are only compared loosely with the double one; without an independent
                # evaluator at those precisions a disagreement cannot be told from ill-conditioning (underflow in float,
                # asech(tanh(e^3)) = asech(1 - 7e-18), ...): counted, not judged
                ctx.cov["_variant_" + nm] = ctx.cov.get("_variant_" + nm, 0) + 1
                continue
            key = "C14/" + nm
            ctx.violation(key, "history `%s`: %s" % (case[:400], item[:300]), {"case": case, "impl": line[:600], "model": m})
    if not search:
        ctx.cov["samples"] += [{"case": cases[i][:300], "impl": impl[i][:400], "model": (mrow.get(i) or "")[:300]} for i in usable[:4]]


def note_dis(ctx, case, what, mv, res, failed_init):
    ctx.cov["_dis"] = ctx.cov.get("_dis", 0) + 1
    if ctx.cov["_dis"] <= 3:
        ctx.broken.append({"kind": "correspondence", "name": "C14 LLVMDoubleVisitor",
                           "detail": "history `%s`\n %s: model %s\n impl  %s" % (case[:400], what, mv, res)})
    key = "C14/reuse-after-failed-init" if failed_init else "C14/llvm-differs-from-model"
    ctx.violation(key, "history `%s`: %s: library %s, model of the generated rule table %s" % (case[:400], what, res, mv),
                  {"case": case, "impl": res, "model": mv})


def vlib_split(s):
    """oracle items separated by spaces, parentheses kept together"""
    items, cur, depth = [], "", 0
    for ch in s:
        if ch == "(":
            depth += 1
        elif ch == ")":
            depth -= 1
        if ch == " " and depth == 0:
            if cur:
                items.append(cur)
            cur = ""
        else:
            cur += ch
    if cur:
        items.append(cur)
    return items


def run(ctx):
    drv, model = prepare(ctx, OBLIGATIONS)
    quick = ctx.tier == "quick"
    rng = ctx.rng
    cases = list(CORPUS)
    cases += [gen_pow_history(rng) for _ in range(60 if quick else 1500)]
    cases += [gen_history(rng, ctx.tier) for _ in range(260 if quick else 6000)]
    explore(ctx, drv, model, cases)
    known = vlib.load_known("C14")
    if ctx.broken and not [v for v in ctx.violations if v["key"] not in known]:
        extra = [gen_pow_history(rng) for _ in range(600)] + [gen_history(rng, "thorough") for _ in range(900)]
        explore(ctx, drv, model, extra, search=True)
    soft = ctx.cov.pop("_soft", 0)
    ctx.cov["float_variant_disagreements_not_judged"] = ctx.cov.pop("_variant_float", 0) + ctx.cov.pop("_variant_float-init", 0)
    ctx.cov["longdouble_variant_disagreements_not_judged"] = ctx.cov.pop("_variant_longdouble", 0)
    ctx.cov.pop("_seen", None)
    ctx.cov.pop("_dis", None)
    ctx.cov["rule"] = ("histories on one LLVMDoubleVisitor: init(inputs, outputs, symbolic_cse, opt_level) with outputs over up to 3 input symbols "
                       "(sums/products/powers aimed at the case split of Pow -- base E, base 2, Integer exponents 2 / other / negative, general --, the 31 one-argument classes incl. "
                       "the 12 rewritten by RewriteTrigVisitor, atan2, Max/Min, Sign/Floor/Ceiling/Truncate, relationals, And/Or/Xor/Not, Piecewise, Contains(Interval), constants, "
                       "infinities), opt levels 0-3, CSE on/off, inits that throw (unknown symbol, unsupported class, ...) followed by a re-init, calls at input vectors from a "
                       "palette (0, -0, 1, 1/2, 1-ulp, huge, tiny, inf, nan, random).  evaluations = histories; non-trivial = a call returning at least one number; distinct = distinct "
                       "(opt level, input vector op).  %d outputs at opt levels 1-3 were within 16 ulp of the model but not bit-identical (libm calls folded or replaced by the optimiser)" % soft)
    ctx.cov["opt_gt0_within_16ulp_not_identical"] = soft
    ctx.assumptions += [
        "NOT REACHED: LLVM itself (IRBuilder, the optimisation pipelines of opt levels 1-3, instruction selection, MCJIT, the object file written by dumps() and read by loads()); "
        "their effect is only observed: results compared with the model (bit for bit at level 0) and across levels / CSE settings / dumps-loads by the driver (TESTING)",
        "Piecewise is emitted as cond-br / phi; the model computes both arms and selects (all emitted instructions are total and free of side effects)",
        "llvm.sin/cos/log/exp/exp2/pow are lowered to calls of the C library and llvm.maxnum/minnum to fmax/fmin, llvm.powi with a constant exponent to the "
        "square-and-multiply chain of compiler-rt's __powidf2 (x86-64, LLVM 14); the model interprets the libm symbols with the same glibc (OCaml Stdlib)",
        "the result of SymEngine::cse and the expressions RewriteTrigVisitor builds with div(), tan(), ... are inputs of the model (dumped by the driver, which rebuilds the "
        "rewritten expressions with the public constructors independently of visitor.h)",
        "LLVMFloatVisitor and LLVMLongDoubleVisitor are only compared loosely with the double evaluator by the driver and disagreements are COUNTED, not judged "
        "(no independent evaluator at those precisions: float underflow and cancellation look like disagreements); the long double variant needs MPFR for "
        "Rational / Constant leaves, which this configuration does not have",
        "value oracle: LambdaRealDoubleVisitor (C13) as reference, tolerance 64 x the spread observed when every input moves by one ulp + 1e-9 relative (TESTING)",
    ]
    ctx.cov["trusted_base"].append("translators/tr_llvmrules.py (IRBuilder call sequences -> rule table; fails on unrecognised shapes)")
    ctx.cov["trusted_base"].append("Flocq 4.1 (binary64 operations of the extracted model), LLVM 14 (not modelled), glibc libm")


def replay(ctx, rep):
    drv, model = prepare(ctx, [])
    c = rep["replay"]["case"]
    line = ctx.run_lines(drv, [c])[0]
    print("case :", c)
    print("impl :", line)
    if model and line.startswith("I "):
        print("model:", ctx.run_lines(model, [line])[0])
