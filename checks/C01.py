"""C01 -- equal expressions always have equal hashes.
Model: coq/Expr/{ExprDefs,Hash,Cmp}.v (exact 64-bit hashes; eq as the containers compute it).
Theorems: coq/C01/P_*.v.  Tie: type codes regenerated from type_codes.inc; hash/eq of every
expression of generated pools compared between the extracted model and the library."""
import os
import vlib
from checks import exprcommon as X

PROOF_MODULES = ["Expr/HashProofs.vo"]
OBLIGATIONS = ["C01/P_hash_respects_eq.v", "C01/P_add_hash_order_independent.v", "C01/P_eq_equivalence.v",
               "C01/P_container_no_dup.v", "C01/P_typecodes.v", "C01/P_nonvacuous.v"]



def translate(ctx):
    rc, out = vlib.sh(["python3", os.path.join(vlib.ROOT, "translators", "tr_typecodes.py")])
    if rc != 0:
        ctx.broken.append({"kind": "translator", "name": "tr_typecodes", "detail": out[-2000:]})


def classify(d1, d2):
    """known-finding class of an eq-but-different-hash pair, computed from the two dumps"""
    z = "0000000000000000"
    if d1 != d2 and d1.replace("8000000000000000", z) == d2.replace("8000000000000000", z):
        return "C01/signed-zero-double"
    return "C01/eq-different-hash"


def run(ctx):
    translate(ctx)
    ctx.gate(["Base", "Num", "Gen", "Expr", "C01"])
    ctx.prove(PROOF_MODULES, OBLIGATIONS)
    drv = ctx.build_driver("exprpool_driver")
    model = ctx.build_model("Expr", "Expr/Extract.v", "exprpool_main.ml", "semodel", extra_ml=["expr_io.ml"])
    npools = 40 if ctx.tier == "quick" else 400
    pools = list(X.CORPUS) + [X.gen_pool(ctx.rng, 30, allow_nan=True) for _ in range(npools)]
    explore(ctx, drv, model, pools)
    if ctx.broken and not ctx.violations:
        explore(ctx, drv, model, [X.gen_pool(ctx.rng, 40, allow_nan=True) for _ in range(200)], search=True)
    ctx.cov["rule"] = ("pools of ~30 expressions built by recipes of public API calls (numbers of every kind incl. signed zeros, "
                       "NaN/inf doubles, multi-limb integers; symbols; sums/products built in different orders and groupings; powers; "
                       "functions; relationals; booleans; sets); every recipe evaluated twice; all ordered pairs inside a pool compared; "
                       "evaluations = ordered pairs; a pair is non-trivial when the library reports eq although the two were built by "
                       "different recipes; distinct = distinct unordered dump pairs")
    ctx.assumptions += [
        "unordered_map::find is modelled as: a stored key with the same hash that is eq (libstdc++ compares within one bucket)",
        "the pointer-identity shortcut of eq() is outside the model (drivers never compare an object with itself)",
        "kinds outside the model (polynomial classes, series, matrices, ImageSet/ConditionSet, Tuple, NumberWrapper, RealMPFR) are dumped as Opaque and skipped",
    ]


def explore(ctx, drv, model, pools, search=False):
    if drv is None or model is None:
        return
    res = X.run_pools(ctx, drv, model, pools)
    nontriv = set()
    ndis = 0
    for p in res:
        if "bad" in p:
            ctx.violation("C01/crash", "pool evaluation ended with %s" % p["bad"], {"family": "exprpool", "case": p["pool"]})
            continue
        ctx.cov["traces_validated_against_impl"] += 1
        try:
            ih, ie, _ = X.split_matrix(p["impl"])
        except ValueError:
            ctx.violation("C01/crash", "unreadable driver output %s" % p["impl"][-100:], {"family": "exprpool", "case": p["pool"]})
            continue
        n = len(ih)
        ctx.cov["evaluations"] += n * n
        # property oracle on the implementation: eq => same hash
        for i in range(n):
            for j in range(n):
                if ie[i][j] == "1":
                    if p["recipes"][i] != p["recipes"][j]:
                        nontriv.add(tuple(sorted((p["dumps"][i], p["dumps"][j]))))
                    if ih[i] != ih[j]:
                        key = classify(p["dumps"][i], p["dumps"][j])
                        ctx.violation(key, "eq(a, b) holds but hash(a) = %s != hash(b) = %s for a = %s, b = %s" % (
                            ih[i], ih[j], p["recipes"][i], p["recipes"][j]),
                            {"family": "exprpool", "case": p["recipes"][i] + " ;; " + p["recipes"][j],
                             "dumps": [p["dumps"][i], p["dumps"][j]]})
        # correspondence: model hashes and eq matrix
        if p["model"].startswith("UNSUPPORTED") or p["model"].startswith("FAIL"):
            ctx.broken.append({"kind": "correspondence", "name": "exprpool reader", "detail": p["model"] + "\n" + p["pool"]})
            continue
        wfl = X.wf_flags(p["model"])
        ctx.cov["trees_total"] = ctx.cov.get("trees_total", 0) + len(wfl)
        ctx.cov["trees_satisfying_theorem_hypotheses_wf"] = ctx.cov.get("trees_satisfying_theorem_hypotheses_wf", 0) + wfl.count("1")
        mh, me, _ = X.split_matrix(p["model"])
        if mh != ih or me != ie:
            ndis += 1
            if ndis <= 3:
                bad = [k for k in range(n) if k >= len(mh) or mh[k] != ih[k]]
                det = "pool %s\n" % p["pool"]
                if bad:
                    k = bad[0]
                    det += "hash differs for %s = %s: model %s impl %s" % (p["recipes"][k], p["dumps"][k], mh[k] if k < len(mh) else "?", ih[k])
                else:
                    for i in range(n):
                        if me[i] != ie[i]:
                            j = [t for t in range(n) if me[i][t] != ie[i][t]][0]
                            det += "eq differs for (%s, %s): model %s impl %s" % (p["recipes"][i], p["recipes"][j], me[i][j], ie[i][j])
                            break
                ctx.broken.append({"kind": "correspondence", "name": "C01 hash/eq", "detail": det})
    ctx.cov["distinct_nontrivial"] += len(nontriv)
    if not search:
        for p in res[:4]:
            if "bad" not in p:
                ctx.cov["samples"].append({"recipes": p["recipes"][:6], "dumps": p["dumps"][:6], "hashes": p["impl"].split(" || ")[0].split()[:6]})


def replay(ctx, rep):
    drv = ctx.build_driver("exprpool_driver")
    model = ctx.build_model("Expr", "Expr/Extract.v", "exprpool_main.ml", "semodel", extra_ml=["expr_io.ml"])
    res = X.run_pools(ctx, drv, model, [rep["replay"]["case"]])
    for p in res:
        print("recipes:", p.get("recipes"))
        print("dumps  :", p.get("dumps"))
        print("impl   :", p.get("impl"))
        print("model  :", p.get("model"))
