"""C32 -- number-theoretic functions agree with their definitions.
Model: coq/C32/NtModel.v (layer 1: the mp_* primitives of symengine/mp_boost.cpp; layer 2: ntheory.cpp).
Theorems: coq/C32/P_*.v.  Tie: every case runs on the extracted model and on the library, in the
GMP configuration (cfg rel) and in the boost.multiprecision configuration (cfg boost, where
mp_boost.cpp is compiled); the driver evaluates the defining identity of each function directly."""
import vlib

PROOF_MODULES = ["C32/NtProofsRoot.vo", "C32/NtProofsPPD.vo", "C32/NtProofsPF.vo", "C32/NtProofsMisc.vo", "C32/NtProofsQR.vo", "C32/NtProofsTotient.vo", "C32/NtProofsFactor.vo", "C32/NtProofsComb.vo", "C32/NtProofsCrt.vo", "C32/NtProofsPowm.vo", "C32/NtProofsGcd.vo", "C32/NtProofsDiv.vo", "C32/NtBounded.vo", "C32/NtBoundedQ.vo"]
OBLIGATIONS = [
    "C32/P_division.v", "C32/P_division_by_zero.v", "C32/P_division_unique.v", "C32/P_mp_fdiv.v", "C32/P_gcd_lcm.v", "C32/P_gcd_ext.v",
    "C32/P_mod_inverse.v", "C32/P_crt.v", "C32/P_crt_reduced_refuted.v", "C32/P_mp_powm.v", "C32/P_powermod.v",
    "C32/P_factorial.v", "C32/P_binomial.v", "C32/P_fibonacci_lucas.v",
    "C32/P_is_prime.v", "C32/P_factorisation.v", "C32/P_factor_trial_division.v", "C32/P_totient.v", "C32/P_mobius.v",
    "C32/P_quadratic_residues.v", "C32/P_polygonal_number.v", "C32/P_polygonal_root.v", "C32/P_perfect_power.v", "C32/P_mp_root.v", "C32/P_prime_factors.v", "C32/P_mertens.v",
    "C32/P_is_nth_residue_refuted.v", "C32/P_is_nth_residue_zero_exponent.v", "C32/P_lehman_complete_refuted.v",
    "C32/P_boost_is_quad_residue_refuted.v",
    "C32/P_totient_bounded.v", "C32/P_carmichael_bounded.v", "C32/P_multiplicative_order_bounded.v", "C32/P_primitive_root_bounded.v",
    "C32/P_kronecker_bounded.v", "C32/P_is_quad_residue_bounded.v", "C32/P_is_nth_residue_bounded.v", "C32/P_lehman_sound_bounded.v", "C32/P_harmonic_bounded.v", "C32/P_bernoulli_bounded.v",
    "C32/P_nonvacuous.v",
]

# functions that have no Coq model: the driver's oracle is the only check
ORACLE_ONLY = {"powmq", "rho", "pm1", "prootl", "nthroot", "nextprime", "primepi"}

SMALL_PRIMES = [2, 3, 5, 7, 11, 13, 17, 19, 23, 29, 31, 37, 41, 43, 47, 53, 59, 61, 67, 71, 73, 79, 83, 89, 97,
                101, 103, 107, 109, 113, 127, 131, 137, 139, 149, 151, 157, 163, 167, 173, 179, 181, 191, 193, 197, 199]
BIG_PRIMES = [65537, 999983, 2147483647, 4294967291, 4294967311, 1000000007, 18446744073709551557,
              170141183460469231731687303715884105727]


def canon(s):
    """implementation / model line without the oracle part; the three ways a division by zero or a
    std::runtime_error shows up (SIGFPE in GMP, std::overflow_error / runtime_error in boost) are one class"""
    s = s.split("\t#ORACLE:")[0]
    if s in ("CRASH:8", "EXN:7", "FPE"):
        return "ERR"
    return s


def big(rng, bits=None):
    bits = bits or rng.choice([31, 32, 33, 63, 64, 65, 100, 128, 200])
    v = rng.getrandbits(bits) | (1 << (bits - 1))
    v += rng.choice([0, 0, 1, -1])
    return v if rng.random() < 0.7 else -v


def smooth(rng, maxv):
    """a number with known small prime factors (keeps the oracle's factorisation cheap)"""
    v = 1
    while True:
        p = rng.choice(SMALL_PRIMES[:rng.choice([3, 8, 25, 46])])
        if v * p > maxv:
            return v
        v *= p
        if rng.random() < 0.15:
            return v


def exhaustive_small(tier):
    R = 40 if tier == "quick" else 70
    M = 64 if tier == "quick" else 128
    cases = []
    for a in range(-R, R + 1):
        for b in range(-R, R + 1):
            if b != 0:
                cases += ["div %d %d" % (a, b), "inv %d %d" % (a, b), "kro %d %d" % (a, b),
                          "ord %d %d" % (a, b), "isqr %d %d" % (a, b), "mpdiv %d %d" % (a, b)]
            cases += ["gcd %d %d" % (a, b), "gcdext %d %d" % (a, b)]
    for m in range(1, M + 1):
        for a in range(-M - 6, M + 7):
            for e in (-3, -2, -1, 0, 1, 2, 3, 5, 8):
                cases.append("powm %d %d %d" % (a, e, m))
            for e in (0, 1, 2, 3, 6, 11):
                cases.append("mppowm %d %d %d" % (a, e, m))
    for m in range(1, 50 if tier == "quick" else 90):
        for a in range(-m, 2 * m):
            for e in range(1, 7):
                cases.append("isnth %d %d %d" % (a, e, m))
                if tier == "thorough" or (a + e + m) % 3 == 0:
                    cases.append("nthroot %d %d %d" % (a, e, m))
    for n in range(-30, 40):
        for k in range(0, 12):
            cases.append("bin %d %d" % (n, k))
    for n in range(0, 60):
        cases += ["fac %d" % n, "fib %d" % n, "harm %d 1" % n, "harm %d 2" % n, "harm %d -2" % n,
                  "harm %d 0" % n, "harm %d 3" % n, "bern %d" % min(n, 30)]
    top = 2000 if tier == "quick" else 20000
    for n in range(-300, top):
        cases += ["pf %d" % n, "tot %d" % n, "proot %d" % n]
        if abs(n) <= 400:
            cases.append("prootl %d" % n)
    for n in range(1, top):
        cases += ["mob %d" % n, "ftd %d" % n, "ppd %d 0" % n, "ppd %d 1" % n, "nextprime %d" % n, "mppp %d" % n]
        if n <= 400:
            cases.append("qr %d" % n)
    for n in range(21, 3000 if tier == "quick" else 30000):
        cases.append("lehman %d" % n)
    for n in range(0, 300):
        cases += ["mert %d" % n, "primepi %d" % (n + 1)]
    for s in range(3, 12):
        for x in range(1, 200):
            cases.append("poly %d %d" % (s, x))
    for i in range(-30, 600):
        for k in (1, 2, 3, 4, 5, 7):
            if i >= 0 or k % 2 == 1:
                cases.append("mproot %d %d" % (i, k))
        cases.append("mpscan %d" % i)
    for m1 in range(1, 16):
        for m2 in range(1, 16):
            for r1 in range(0, m1):
                for r2 in range(0, m2):
                    cases.append("crt 2 %d %d %d %d" % (r1, r2, m1, m2))
    return cases


def random_cases(rng, tier):
    n = 250 if tier == "quick" else 4000
    cases = []
    for _ in range(n):
        a, b = big(rng), big(rng)
        cases += ["div %d %d" % (a, b), "gcd %d %d" % (a, b), "gcdext %d %d" % (a, b), "mpdiv %d %d" % (a, b)]
        g = abs(big(rng, 40))
        cases += ["gcd %d %d" % (a * g, b * g), "gcdext %d %d" % (a * g, b * g), "gcdext %d %d" % (a, a * g),
                  "div %d %d" % (a * b, b), "div %d %d" % (a * b + rng.choice([1, -1]), b)]
        m = abs(big(rng)) + 2
        cases += ["inv %d %d" % (a, m), "inv %d %d" % (a, -m), "inv %d %d" % (a * 2, m * 2)]
        e = rng.choice([0, 1, 2, rng.getrandbits(20), rng.getrandbits(64), -rng.getrandbits(30) - 1])
        cases += ["powm %d %d %d" % (a, e, m), "mppowm %d %d %d" % (a, abs(e), m)]
        p = rng.choice(BIG_PRIMES)
        cases += ["powm %d %d %d" % (a, -1 - rng.getrandbits(16), p), "inv %d %d" % (a, p)]
        # crt: a planted solution, sometimes broken; moduli with common factors
        k = rng.randint(1, 5)
        ms = [rng.choice([rng.randint(1, 60), smooth(rng, 10 ** 6), abs(big(rng, 40)), rng.choice(BIG_PRIMES)]) for _ in range(k)]
        x = big(rng)
        rs = [(x % mm) + rng.choice([0, 0, 0, 0, mm, -mm, 1]) for mm in ms]
        cases.append("crt %d %s %s" % (k, " ".join(map(str, rs)), " ".join(map(str, ms))))
        cases.append("bin %d %d" % (big(rng, rng.choice([8, 16, 40])), rng.randint(0, 40)))
        cases.append("fib %d" % rng.randint(60, 1200))
        cases.append("fac %d" % rng.randint(60, 400))
        # symbols: denominators with known factorisation
        nn = smooth(rng, 10 ** 12) * rng.choice([1, 1, -1]) * rng.choice([1, 1, rng.choice(BIG_PRIMES)])
        cases.append("kro %d %d" % (a, nn))
        cases.append("leg %d %d" % (big(rng, rng.choice([20, 70])), rng.choice(BIG_PRIMES[:6] + SMALL_PRIMES[1:])))
        # factorisation based functions: bounded by the model's trial division cost
        v = rng.choice([rng.randint(2000, 10 ** 7), smooth(rng, 10 ** 9), min(rng.choice(SMALL_PRIMES) ** rng.randint(2, 6), 10 ** 10),
                        rng.choice(SMALL_PRIMES) * rng.choice(SMALL_PRIMES[5:]) ** 2, 2 * rng.choice(SMALL_PRIMES[1:]) ** rng.randint(1, 4)])
        s = rng.choice([1, 1, 1, -1])
        cases += ["pf %d" % (s * v), "tot %d" % (s * v), "proot %d" % (s * v), "ftd %d" % v, "mob %d" % v]
        if v >= 21:
            cases.append("lehman %d" % min(v, 10 ** 6))
        cases.append("ord %d %d" % (big(rng, 30), s * rng.choice([v, rng.randint(2, 10 ** 5)])))
        cases.append("isqr %d %d" % (big(rng, 30), s * rng.choice([rng.randint(1, 10 ** 5), rng.choice(BIG_PRIMES[:2] + SMALL_PRIMES), smooth(rng, 10 ** 6)])))
        cases.append("isnth %d %d %d" % (rng.randint(0, 10 ** 5), rng.randint(1, 12), rng.choice([rng.randint(1, 3000), smooth(rng, 3000)])))
        cases.append("nthroot %d %d %d" % (rng.randint(0, 10 ** 4), rng.randint(1, 12), rng.choice([rng.randint(1, 3000), smooth(rng, 3000)])))
        cases.append("powmq %d %d %d %d" % (rng.randint(0, 2000), rng.randint(-5, 7), rng.randint(2, 6), rng.randint(1, 600)))
        sgon = rng.randint(3, 10 ** 6)
        x = abs(big(rng))
        cases += ["poly %d %d" % (sgon, x), "poly %d %d" % (rng.randint(3, 20), rng.randint(1, 10 ** 9))]
        ex = rng.randint(2, 12)
        bs = rng.randint(2, max(2, int(2 ** (30.0 / ex))))
        cases += ["ppd %d 0" % (bs ** ex), "ppd %d 1" % (bs ** ex), "ppd %d 0" % (bs ** ex + 1), "mppp %d" % (bs ** ex),
                  "mproot %d %d" % (bs ** ex, ex), "mproot %d %d" % (bs ** ex - 1, ex), "mproot %d %d" % (abs(big(rng)), rng.randint(2, 9)),
                  "mproot %d %d" % (-bs ** 3, 3)]
        cases.append("mpscan %d" % (big(rng) << rng.randint(0, 70)))
        cases.append("harm %d %d" % (rng.randint(0, 80), rng.randint(-4, 5)))
        comp = rng.choice(SMALL_PRIMES[3:]) * rng.choice(BIG_PRIMES[:2]) * rng.choice(SMALL_PRIMES[10:])
        cases += ["rho %d %d" % (comp, rng.randint(0, 10 ** 6)), "pm1 %d 30 %d" % (comp, rng.randint(0, 10 ** 6))]
        cases.append("nextprime %d" % rng.randint(0, 10 ** 9))
    return cases


CORPUS = [
    # the defects found while building the slice (see known_findings.txt) and their neighbours
    "crt 1 22 21", "crt 1 -8 25", "crt 2 22 1 21 5", "crt 3 1 2 3 4 6 10", "crt 3 2 4 0 4 6 10",
    "isnth -1 2 4", "isnth -9 2 12", "isnth 3 2 4", "isnth 2 0 4", "isnth 1 0 7",
    "lehman 35", "lehman 21", "lehman 1000009", "lehman 999985999949",
    "isqr 5 -9", "isqr -40 -39", "isqr 5 9",
    "powm -3 3 -5", "powm -7 1 -5", "mppowm -3 3 -5", "powm 3 3 -5",
    "nthroot 1 2 8", "nthroot 9 2 16", "nthroot -1 2 4", "nthroot -9 2 12", "nthroot 4 2 15",
    # out-of-domain behaviour that model and library must still agree on
    "div 5 0", "powm 3 2 0", "ord 1 0", "poly 2 5", "poly 3 -4", "ftd -6", "mob 0", "qr 0", "isqr 3 0", "lehman 20",
    "crt 0 5", "crt 1 3", "crt 1 1 3 5", "crt 2 1 1 5 0", "crt 2 1 2 -3 5", "crt 2 1 2 0 5",
    "gcdext 0 0", "gcdext 0 5", "gcdext -5 0", "gcdext -6 -6", "inv 3 1", "inv 3 -1", "inv 0 1",
    "proot 1639197169", "proot 3278394338", "proot 1681", "kro 5 0", "kro 1 0", "kro -7 -16", "kro 6 -4", "pf 4294967296", "tot 0", "proot 0", "proot -2",
    "ppd 0 0", "ppd -8 0", "ppd 1 0", "bin 5 0", "bin -7 3", "bin 3 5", "fib 0", "fib 1", "harm 0 1", "bern 0", "bern 1",
]


def in_domain(case):
    """inputs on which the function is specified (elsewhere only model = implementation is required)"""
    t = case.split()
    c, a = t[0], [int(x) for x in t[1:]]
    if c in ("div", "mpdiv"):
        return a[1] != 0
    if c == "inv":
        return a[1] != 0
    if c == "crt":
        k = a[0]
        mods = a[1 + k:]
        return 1 <= len(mods) <= k and all(m > 0 for m in mods)
    if c in ("powm", "mppowm"):
        return a[2] > 0
    if c == "powmq":
        return a[3] > 0 and a[2] != 0
    if c in ("ord", "isqr"):
        return a[1] != 0
    if c in ("isnth", "nthroot"):
        return a[2] > 0 and a[1] >= 0
    if c in ("mob", "qr"):
        return a[0] >= 1
    if c == "kro":
        return True
    if c == "poly":
        return a[0] >= 3 and a[1] >= 1
    if c == "ppd":
        return a[0] >= 1
    if c == "ftd":
        return a[0] >= 0
    if c == "lehman":
        return a[0] >= 21
    if c == "mproot":
        return a[1] >= 1 and (a[0] >= 0 or a[1] % 2 == 1)
    if c == "mppp":
        return a[0] >= 0
    return True


def classify(case, cfg, what):
    """key = class of the failure (never just the property id)"""
    t = case.split()
    c, a = t[0], [int(x) for x in t[1:]]
    pre = "C32/" + ("boost-" if cfg == "boost" else "")
    if "crt: result is not reduced" in what and a[0] >= 1 and len(a) - 1 - a[0] == 1:
        return "C32/crt-single-modulus-not-reduced"
    if c == "isnth" and a[0] < 0 and "is_nth_residue differs" in what:
        return "C32/is_nth_residue-negative-a"
    if c == "isnth" and a[1] == 0 and "CRASH" in what:
        return "C32/is_nth_residue-zero-exponent-crash"
    if c == "lehman" and "no factor reported for a composite" in what:
        return "C32/lehman-misses-factor"
    if c == "nthroot" and a[0] < 0:
        return "C32/nthroot_mod-negative-a"
    if c == "nthroot" and "roots are not reduced" in what and a[2] & (a[2] - 1) == 0:
        return "C32/nthroot_mod_list-power-of-two-not-reduced"
    if cfg == "boost" and c == "isqr" and a[1] < 0 and "EXN:7" in what:
        return "C32/boost-is_quad_residue-negative-modulus-throws"
    if c == "powmq" and a[0] >= 0 and "roots are not reduced" in what and a[3] & (a[3] - 1) == 0:
        return "C32/nthroot_mod_list-power-of-two-not-reduced"
    words = [w for w in what.replace(":", " ").replace(",", " ").split() if w.isidentifier()]
    return pre + c + "-" + "-".join(words[:6])


def explore(ctx, drivers, model, cases, search=False):
    """run the cases on model and implementation(s); returns number of model/impl disagreements"""
    if model is None:
        return 0
    ndis = 0
    modelled = [c for c in cases if c.split()[0] not in ORACLE_ONLY]
    for cfg, drv in drivers:
        if drv is None:
            continue
        impl = ctx.run_lines(drv, cases, timeout=3000, shards=12)
        mod = dict(zip(modelled, ctx.run_lines(model, ["@%s %s" % (cfg, c) for c in modelled], timeout=3000, shards=12)))
        ctx.cov["evaluations"] += len(cases)
        ctx.cov["traces_validated_against_impl"] += len(modelled)
        if not search and len(ctx.cov["samples"]) < 12:
            step = max(1, len(cases) // 6)
            ctx.cov["samples"] += [{"cfg": cfg, "case": c, "impl": i, "model": mod.get(c, "(oracle only)")}
                                   for c, i in list(zip(cases, impl))[::step][:6]]
        nshown = 0
        for c, i in zip(cases, impl):
            out, _, oracle = i.partition("\t#ORACLE:")
            m = mod.get(c)
            rep = {"family": "C32", "cfg": cfg, "case": c, "impl": i, "model": m}
            if oracle:
                ctx.violation(classify(c, cfg, oracle), "[%s] `%s` -> %s :%s" % (cfg, c, out, oracle), rep)
            elif in_domain(c) and (out.startswith(("CRASH", "HANG", "EXN", "UNCAUGHT", "DIED", "NOOUTPUT")) or out == "BADCASE"):
                ctx.violation(classify(c, cfg, out), "[%s] `%s` ends with %s on an input of the function's domain (model: %s)" % (cfg, c, out, m), rep)
            if m is not None and canon(i) != canon(m):
                ndis += 1
                nshown += 1
                if nshown <= 3:
                    ctx.broken.append({"kind": "correspondence", "name": "C32 %s %s" % (cfg, c.split()[0]),
                                       "detail": "[%s] case `%s`\n model: %s\n impl:  %s" % (cfg, c, m, out)})
                # a disagreement on an input of the domain is a concrete failing input as soon as the
                # model's value is the one the theorems establish; report it with its replay
                if in_domain(c) and not oracle:
                    ctx.violation("C32/" + ("boost-" if cfg == "boost" else "") + c.split()[0] + "-differs-from-model",
                                  "[%s] `%s`: library gives `%s`, the verified model gives `%s`" % (cfg, c, out, m), rep)
    return ndis


def nontrivial(case):
    """a case is non-trivial when no argument is 0, 1 or -1 and the arguments are not all equal"""
    a = case.split()[1:]
    return all(x not in ("0", "1", "-1") for x in a) and (len(set(a)) > 1 or len(a) == 1)


def run(ctx):
    ctx.gate(["Base", "C32"])
    ctx.prove(PROOF_MODULES, OBLIGATIONS)
    drv = ctx.build_driver("c32_driver")
    drvb = ctx.build_driver("c32_driver", cfg="boost", extra=["-Wl,--no-as-needed", "-lgmp"])
    model = ctx.build_model("C32", "C32/Extract.v", "c32_main.ml", "nt_model")
    drivers = [("gmp", drv), ("boost", drvb)]
    cases = list(CORPUS) + exhaustive_small(ctx.tier) + random_cases(ctx.rng, ctx.tier)
    seen = set()
    cases = [c for c in cases if not (c in seen or seen.add(c))]
    explore(ctx, drivers, model, cases)
    ctx.cov["distinct_nontrivial"] = len([c for c in cases if nontrivial(c)])
    if ctx.broken and not [v for v in ctx.violations if v["key"] not in vlib.load_known(ctx.pid)]:
        # a proof or the tie broke: search harder for a concrete failing input
        extra = random_cases(ctx.rng, "thorough") + (exhaustive_small("thorough") if ctx.tier == "quick" else [])
        extra = [c for c in extra if c not in seen]
        explore(ctx, drivers, model, extra, search=True)
    ctx.cov["rule"] = (
        "one library call per case: exhaustive small argument tuples (all (a,b) in [-R,R]^2 for the division conventions, gcd, gcd_ext, "
        "mod_inverse, kronecker/jacobi/legendre, multiplicative_order, is_quad_residue; all (a,e,m) with m <= M for powermod; all n in "
        "[-300,top) for the factorisation based functions; crt on all residue pairs for moduli < 16) plus random 31..200-bit arguments "
        "aimed at the case splits (signs, exact multiples +-1, shared factors, planted/broken crt solutions, perfect powers +-1, "
        "prime/prime-power/2p^k moduli); every case runs in both library configurations; the driver checks the defining identity "
        "(Bezout, x*inv = 1, residues, brute-force sets) on the library's output; "
        "a case is non-trivial when no argument is 0, 1 or -1 and the arguments are not all equal; distinct = distinct case strings")
    ctx.assumptions += [
        "externals modelled by their documented meaning: truncated division, gcd, lcm, pow, mpz_sqrt (Z.sqrt), mpz_powm / boost powm, "
        "mpz_root (bisection iroot), mpz_perfect_power_p; primality tests (mpz_probab_prime_p, miller_rabin_test) and Sieve::iterator "
        "are modelled by exact trial-division primality (C33 shows the sieve yields exactly the primes)",
        "GMP configuration: mp_gcdext/mp_invert/mp_powm/mp_fdiv_qr/mp_bin_ui/mp_fac_ui/mp_fib_ui/mp_lucnum_ui/mp_jacobi are GMP calls; the model "
        "uses the transcription of mp_boost.cpp for them, the theorems show the transcription has the documented GMP meaning, and the "
        "correspondence run checks the GMP build returns the same values (only jacobi/legendre of even, negative or composite "
        "denominators differ between the configurations and are modelled per configuration)",
        "oracle-only (no Coq model, labelled in evidence): nthroot_mod, nthroot_mod_list, powermod/powermod_list with rational exponent, "
        "primitive_root_list, factor_pollard_rho_method, factor_pollard_pm1_method, nextprime, probab_prime_p, primepi, primorial",
        "theorems over explicit finite ranges only (complete evaluation of the faithful model against definitions by exhaustive search; "
        "their general correctness needs cyclic-group theory / quadratic reciprocity not developed here): carmichael, multiplicative_order, "
        "primitive_root, legendre/jacobi/kronecker, is_quad_residue, is_nth_residue (a >= 0), harmonic, bernoulli, soundness of "
        "factor_lehman_method, totient = number of coprime residues; beyond those ranges these functions are covered by the "
        "model/library correspondence and the driver's oracle",
        "the Newton iteration of mp_boost.cpp's mp_root/mp_sqrt is transcribed (mp_root_boost) and tied to the boost build by correspondence, "
        "without a correctness theorem; layer 2 uses the bisection root iroot (theorem C32_mp_root) as the meaning of mp_root/mp_sqrt in both configurations",
        "machine-integer parameters (unsigned long n of fibonacci/binomial/factorial/harmonic, unsigned multiplicities) are modelled as "
        "unbounded integers; runs stay far below 2^32",
    ]
    ctx.notes.append("oracle-only commands: " + ", ".join(sorted(ORACLE_ONLY)))


def replay(ctx, rep):
    r = rep["replay"]
    cfg = r.get("cfg", "gmp")
    if cfg == "boost":
        drv = ctx.build_driver("c32_driver", cfg="boost", extra=["-Wl,--no-as-needed", "-lgmp"])
    else:
        drv = ctx.build_driver("c32_driver")
    model = ctx.build_model("C32", "C32/Extract.v", "c32_main.ml", "nt_model")
    c = r["case"]
    print("cfg  :", cfg)
    print("case :", c)
    print("impl :", ctx.run_lines(drv, [c])[0])
    if c.split()[0] not in ORACLE_ONLY:
        print("model:", ctx.run_lines(model, ["@%s %s" % (cfg, c)])[0])
