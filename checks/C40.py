"""C40 -- API workloads are memory-safe and leak-free.
Model: coq/Rcp/RcpModel.v (the intrusive reference-counting protocol of symengine_rcp.h as a heap state
machine over handle programs).  Theorems: coq/C40/P_*.v (rcp_no_uaf, rcp_no_leak, live_iff_reachable,
held_immutable, steal_safe, threshold-2 refutation).
Tie: generated handle programs (make_rcp, copy/move/assign/reset/destructor, rcp_from_this, public API
calls, Add::from_dict with moved/kept dictionaries) run on the library; after every step the live-object
counter (hook H2), every use_count() and the slot contents must equal the model's prediction, and the
count returns to its baseline at the end.  Testing (labelled): API workloads and the memory-safety witnesses
of other properties replayed under AddressSanitizer/UBSan/LeakSanitizer (`asan` configuration)."""
import os
import re

import vlib

# Coq files of the shared development, in dependency order
ORDER = ["Rcp/RcpModel.v", "Rcp/RcpSpec.v", "Rcp/RcpLemmas.v", "Rcp/RcpInv.v", "Rcp/RcpProofs.v", "Rcp/RcpLeak.v",
         "Rcp/RcpView.v", "Rcp/ThreadModel.v", "Rcp/ThreadProofs.v"]
OBLIGATIONS = ["C40/P_rcp_no_uaf.v", "C40/P_step_sound.v", "C40/P_rcp_no_leak.v", "C40/P_rcp_baseline.v",
               "C40/P_live_iff_reachable.v", "C40/P_held_immutable.v", "C40/P_steal_safe.v",
               "C40/P_steal_threshold_refuted.v", "C40/P_acyclic_needed.v", "C40/P_nonvacuous.v"]


def in_coqproject():
    try:
        return "Rcp/RcpModel.v" in open(os.path.join(vlib.COQ, "_CoqProject")).read()
    except OSError:
        return False


def proof_modules():
    """make targets once coq/Rcp is listed in _CoqProject; before that the files are compiled by build_coq"""
    return [f[:-2] + ".vo" for f in ORDER] if in_coqproject() else []


def build_coq(ctx):
    """coqc every stale file of ORDER (only while coq/Rcp is not part of the shared Makefile)"""
    if in_coqproject():
        return True
    ok = True
    with vlib.Lock(os.path.join(vlib.WORK, "rcp-coq.lock")):
        for f in ORDER:
            src = os.path.join(vlib.COQ, f)
            vo = src[:-2] + ".vo"
            deps = [os.path.join(vlib.COQ, d) for d in vlib.coq_deps(src)]
            stale = (not os.path.exists(vo)) or os.path.getmtime(vo) < os.path.getmtime(src)
            for d in deps:
                if os.path.exists(d) and os.path.exists(vo) and os.path.getmtime(d) > os.path.getmtime(vo):
                    stale = True
            if any(not os.path.exists(d) for d in deps):
                ok = False
                continue
            if stale:
                rc, out = vlib.sh(["timeout", "1500", "coqc", "-Q", ".", "SE", "-w", "-notation-overridden", f],
                                  cwd=vlib.COQ, timeout=1530)
                if rc != 0:
                    ok = False
                    if os.path.exists(vo):
                        os.remove(vo)
                    ctx.broken.append({"kind": "proof", "name": f, "detail": out[-2500:]})
    return ok


def build_model(ctx):
    return ctx.build_model("Rcp", "Rcp/Extract.v", "rcp_main.ml", "rcp_model")


# ------------------------------------------------------------------ generator of handle programs
SYMS = ["x", "y", "z"]
UNARY = ["neg", "expand", "sin", "cos", "exp", "log", "abs", "sqrt", "parse"]
BINARY = ["add", "sub", "mul", "div", "pow", "fs"]


class Gen:
    """tracks which slots are null, which slots alias, a size estimate and a coarse kind"""

    def __init__(self, rng, ns):
        self.rng = rng
        self.ns = ns
        self.slot = [None] * ns      # None or dict(obj=abstract id, size=..., kind=...)
        self.steps = []
        self.nobj = 0

    def fresh(self, size, kind):
        self.nobj += 1
        return {"obj": self.nobj, "size": size, "kind": kind}

    def live(self, pred=None):
        return [i for i in range(self.ns) if self.slot[i] is not None and (pred is None or pred(self.slot[i]))]

    def nulls(self):
        return [i for i in range(self.ns) if self.slot[i] is None]

    def aliases(self, i):
        return [j for j in range(self.ns) if self.slot[j] is not None and self.slot[j]["obj"] == self.slot[i]["obj"]]

    def pick_dest(self):
        n = self.nulls()
        if n and self.rng.random() < 0.7:
            return self.rng.choice(n)
        return self.rng.randrange(self.ns)

    def small(self):
        return self.live(lambda s: s["size"] < 60)

    def step(self):
        r = self.rng
        live = self.live()
        c = r.random()
        if not live or c < 0.16:
            # make_rcp of a node over existing handles (sharing: the same child twice is common)
            i = self.pick_dest()
            ks = []
            if live and r.random() < 0.8:
                for _ in range(r.choice([1, 1, 2, 2, 3])):
                    ks.append(r.choice(live) if r.random() < 0.8 or not ks else ks[-1])
            size = 1 + sum(self.slot[k]["size"] for k in ks)
            if size > 10 ** 6:
                ks = []
                size = 1
            self.steps.append("mk %d %s" % (i, " ".join(map(str, ks))))
            kids = [self.slot[k] for k in ks]
            self.slot[i] = self.fresh(size, "node" if ks else "sym")
            self.slot[i]["kids"] = kids
        elif c < 0.26:
            i, j = self.pick_dest(), r.randrange(self.ns)
            self.steps.append("cp %d %d" % (i, j))
            self.slot[i] = self.slot[j]
        elif c < 0.32:
            i, j = r.randrange(self.ns), r.randrange(self.ns)
            self.steps.append("mv %d %d" % (i, j))
            self.slot[i], self.slot[j] = self.slot[j], self.slot[i]
        elif c < 0.36:
            i, j = r.randrange(self.ns), r.randrange(self.ns)
            self.steps.append("mc %d %d" % (i, j))
            t = self.slot[j]
            self.slot[j] = None
            self.slot[i] = t
        elif c < 0.41:
            i = r.choice(live)
            self.steps.append("rs %d" % i)
            self.slot[i] = None
        elif c < 0.47:
            i = r.choice(live) if r.random() < 0.9 else r.randrange(self.ns)
            self.steps.append("dr %d" % i)
            self.slot[i] = None
        elif c < 0.51:
            i, j = self.pick_dest(), r.choice(live)
            self.steps.append("ft %d %d" % (i, j))
            self.slot[i] = self.slot[j]
        elif c < 0.54:
            self.steps.append("tp %d" % r.randrange(self.ns))
        elif c < 0.56:
            # guards: null operand, slot out of range
            k = r.choice(["ft %d %d" % (r.randrange(self.ns), (self.nulls() or [self.ns])[0]),
                          "cp %d %d" % (self.ns + 1, 0), "mk %d %d" % (0, (self.nulls() or [self.ns + 2])[0])])
            if k.startswith("mk 0") and self.slot[0] is not None and not self.nulls():
                k = "tp %d" % (self.ns + 3)
            self.steps.append(k)
        elif c < 0.66:
            self.from_dict()
        elif c < 0.74 and self.live(lambda s: s.get("kids")):
            # walk down into a member through the getter's const reference; mostly v[j] = member of *v[j]
            j = r.choice(self.live(lambda s: s.get("kids")))
            i = j if r.random() < 0.65 else self.pick_dest()
            k = r.randrange(len(self.slot[j]["kids"]))
            self.steps.append("km %d %d %d" % (i, j, k))
            self.slot[i] = self.slot[j]["kids"][k]
        else:
            self.api()

    def api(self):
        r = self.rng
        i = self.pick_dest()
        small = self.small()
        c = r.random()
        if not small or c < 0.22:
            k = r.random()
            if k < 0.5:
                self.steps.append("ap sym %d %s" % (i, r.choice(SYMS)))
                self.slot[i] = self.fresh(1, "sym")
            elif k < 0.85:
                self.steps.append("ap int %d %d" % (i, r.choice([0, 1, -1, 2, 3, 4, -2, 5, 7, 12])))
                self.slot[i] = self.fresh(1, "int")
            else:
                self.steps.append("ap rat %d %d %d" % (i, r.choice([1, -1, 2, 3, 5]), r.choice([2, 3, 4, 7])))
                self.slot[i] = self.fresh(1, "rat")
            return
        if c < 0.45:
            fn = r.choice(UNARY)
            a = r.choice(small)
            if fn == "parse" and self.slot[a]["size"] > 25:
                fn = "neg"
            self.steps.append("ap %s %d %d" % (fn, i, a))
            self.slot[i] = self.fresh(self.slot[a]["size"] * (3 if fn == "expand" else 1) + 1, "expr")
        elif c < 0.85:
            fn = r.choice(BINARY)
            a, b = r.choice(small), r.choice(small)
            if fn == "pow":
                ints = self.live(lambda s: s["kind"] == "int")
                if not ints:
                    fn = "mul"
                else:
                    b = r.choice(ints)
            self.steps.append("ap %s %d %d %d" % (fn, i, a, b))
            kind = "mul" if fn in ("mul", "div") else "expr"
            self.slot[i] = self.fresh(self.slot[a]["size"] * (4 if fn == "pow" else 1) + self.slot[b]["size"] + 1, kind)
        elif c < 0.90:
            a = r.choice(small)
            self.steps.append("ap diff %d %d %s" % (i, a, r.choice(SYMS)))
            self.slot[i] = self.fresh(self.slot[a]["size"] * 2 + 1, "expr")
        elif c < 0.95:
            a, k, v = r.choice(small), r.choice(small), r.choice(small)
            self.steps.append("ap %s %d %d %d %d" % (r.choice(["subs", "xreplace"]), i, a, k, v))
            self.slot[i] = self.fresh(self.slot[a]["size"] * max(1, self.slot[v]["size"]) + 1, "expr")
        else:
            args = [r.choice(small) for _ in range(r.randint(1, 4))]
            fn = r.choice(["addv", "mulv"])
            self.steps.append("ap %s %d %s" % (fn, i, " ".join(map(str, args))))
            self.slot[i] = self.fresh(sum(self.slot[a]["size"] for a in args) + 1, "mul" if fn == "mulv" else "expr")

    def from_dict(self):
        """Add::from_dict with a one-entry dictionary whose key is a product: aimed at use_count() 1 / 2 / 3"""
        r = self.rng
        muls = self.live(lambda s: s["kind"] == "mul" and s["size"] < 60)
        if not muls:
            small = self.small()
            if len(small) < 1:
                return self.api()
            i = self.pick_dest()
            a, b = r.choice(small), r.choice(small)
            self.steps.append("ap mul %d %d %d" % (i, a, b))
            self.slot[i] = self.fresh(self.slot[a]["size"] + self.slot[b]["size"] + 1, "mul")
            return
        j = r.choice(muls)
        want = r.choice([1, 1, 2, 2, 3])          # handles to the product when from_dict looks at use_count()
        al = self.aliases(j)
        # adjust the number of aliases: drop extra copies / add copies
        while len(al) > want:
            k = [a for a in al if a != j][0]
            self.steps.append("dr %d" % k)
            self.slot[k] = None
            al = self.aliases(j)
        while len(al) < want and self.nulls():
            k = self.nulls()[0]
            self.steps.append("cp %d %d" % (k, j))
            self.slot[k] = self.slot[j]
            al = self.aliases(j)
        dests = [d for d in range(self.ns) if d != j]
        if not dests:
            return
        nul = [d for d in self.nulls() if d != j]
        i = r.choice(nul) if nul and r.random() < 0.7 else r.choice(dests)
        coef = r.choice([2, 3, -1, 5, 1, 0, 7])
        if r.random() < 0.7:
            self.steps.append("fdm %d %d %d" % (i, j, coef))
            size = self.slot[j]["size"] + 2
            self.slot[j] = None
        else:
            self.steps.append("fdk %d %d %d" % (i, j, coef))
            size = self.slot[j]["size"] + 2
        self.slot[i] = self.fresh(size, "mul")


def gen_program(rng, tier):
    ns = rng.randint(3, 7)
    g = Gen(rng, ns)
    for _ in range(rng.randint(5, 28 if tier == "quick" else 60)):
        g.step()
    for i in range(ns):
        g.steps.append("dr %d" % i)
    return "P %d | %s" % (ns, " | ".join(g.steps))


CORPUS = [
    # walking down into one's own member: the assigned handle is the only owner of the node that holds the source handle
    "P 3 | mk 0 | mk 1 0 | mk 2 1 | dr 0 | dr 1 | km 2 2 0 | km 2 2 0 | dr 2",
    "P 4 | mk 0 | mk 1 | mk 2 0 1 1 | cp 3 2 | dr 0 | km 2 2 1 | dr 3 | km 1 1 0 | dr 1 | dr 2",
    # chain and diamond: cascade of destructors through shared children
    "P 4 | mk 0 | mk 1 0 0 | mk 2 1 1 | mk 3 2 2 0 | dr 0 | dr 1 | dr 2 | dr 3",
    "P 3 | mk 0 | cp 1 0 | cp 2 0 | mv 0 1 | mc 1 2 | rs 0 | ft 2 1 | tp 2 | dr 1 | dr 2 | dr 0",
    # self assignment and moves onto themselves
    "P 2 | mk 0 | cp 0 0 | mv 0 0 | mc 0 0 | ft 0 0 | mk 0 0 | mk 0 0 0 | dr 0 | dr 1",
    # guards: null operands, bad slots
    "P 2 | ft 0 1 | mk 0 1 | cp 5 0 | tp 7 | mk 0 | ft 1 0 | dr 0 | dr 1",
    # arithmetic through the public API
    "P 5 | ap sym 0 x | ap sym 1 y | ap add 2 0 1 | ap mul 3 2 2 | ap expand 4 3 | ap diff 2 4 x | ap subs 3 4 0 1 | dr 0 | dr 1 | dr 2 | dr 3 | dr 4",
    "P 4 | ap sym 0 x | ap int 1 3 | ap pow 2 0 1 | ap parse 3 2 | ap sin 3 2 | ap div 2 3 0 | ap log 1 2 | dr 0 | dr 1 | dr 2 | dr 3",
    # Add::from_dict dictionary stealing: the product is held once (moved into the dictionary: stolen)
    "P 4 | ap sym 0 x | ap sym 1 y | ap mul 2 0 1 | fdm 3 2 2 | dr 0 | dr 1 | dr 2 | dr 3",
    # ... held twice: one other holder must not see any change
    "P 4 | ap sym 0 x | ap sym 1 y | ap mul 2 0 1 | cp 0 2 | fdm 3 2 2 | ap neg 1 0 | dr 0 | dr 1 | dr 2 | dr 3",
    # ... three holders, dictionary kept by the caller
    "P 5 | ap sym 0 x | ap sym 1 y | ap mul 2 0 1 | cp 0 2 | cp 4 2 | fdk 3 2 5 | fdk 1 2 1 | fdk 1 2 0 | dr 0 | dr 1 | dr 2 | dr 3 | dr 4",
    # coefficient one / zero branches of from_dict return the key or the coefficient itself
    "P 4 | ap sym 0 x | ap sym 1 y | ap mul 2 0 1 | fdm 3 2 1 | ap mul 2 0 1 | fdm 3 2 0 | dr 0 | dr 1 | dr 2 | dr 3",
    # products whose key is a power (Mul::from_dict may return a Pow)
    "P 5 | ap sym 0 x | ap int 1 2 | ap pow 2 0 1 | ap mul 3 2 0 | cp 4 3 | fdm 1 3 3 | ap expand 0 4 | dr 0 | dr 1 | dr 2 | dr 3 | dr 4",
]

# API workloads (sanitizer / leak mode).  Every operation list is run twice in one process; the live-object
# count must not grow from the first to the second run.
X3 = "(pow (add x (add y (i 1))) (i 3))"
WORKLOADS = [
    "W R %s ;; R (expand %s) ;; str 1 ;; prt 1 ;; parse 1 ;; ser 1 ;; hash 1 2 ;; fsyms 1 ;; upoly 1 x" % (X3, X3.replace("y", "(i 2)")),
    "W R (mul (f1 sin x) (f1 exp (mul x y))) ;; R (diff (mul (f1 sin x) (f1 exp (mul x y))) x) ;; R (subs (mul (f1 sin x) (f1 cos y)) x (add y (i 1))) ;; prt 0 ;; prt 1 ;; ser 1 ;; parse 1 ;; series 0 x 6",
    "W R (add (pow x (i 2)) (add (mul (i -3) x) (i 2))) ;; solve 0 x ;; R (add (pow x (i 3)) (i -1)) ;; solve 2 x ;; uratpoly 0 x ;; upoly 2 x ;; evalf 0",
    "W R x ;; R y ;; R (add x y) ;; R (mul x y) ;; R (i 2) ;; R (i 0) ;; mat 2 0 1 2 3 ;; mat 2 4 5 5 4 ;; csr 2 0 5 1 3 ;; jac 2 3",
    "W R (interval (i 0) (i 5) 0 1) ;; R (union (interval (i 0) (i 1) 0 0) (fset (i 7) x)) ;; R (contains x (interval (i 0) (i 5) 0 1)) ;; R (and (lt x y) (ge y (i 2))) ;; R (pw x (lt x (i 0)) (neg x) true) ;; prt 4 ;; ser 4 ;; str 1",
    "W R (f2 atan2 x y) ;; R (max x y (i 3)) ;; R (fs f x (fs g y)) ;; R (deriv (fs f x y) x y) ;; R (diff (fs f (mul x y)) x) ;; ser 4 ;; prt 4 ;; parse 2",
    "W R (div (i 1) (i 0)) ;; R (pow (i 0) (i -1)) ;; R (mul oo (i 0)) ;; R (add (q 1 2) (c 1 2 3 4)) ;; R (mul (d 3ff8000000000000) x) ;; prt 3 ;; ser 4 ;; ptext 785e322b2879 ;; ptext 28282878 ;; ptext 312f30",
    # witnesses of memory-safety defects found by other properties (fixed in /repo; replayed for regression)
    "W R (mul (pow (d 4000000000000000) x) (pow (d 4000000000000000) (sub (i 3) x))) ;; R (mul (pow (i 2) x) (pow (i 2) (sub (d 4000000000000000) x))) ;; R (mul (pow (i 0) x) (pow (i 0) (sub (i -1) x)))",
    "W sieve 1 100000 ;; sieveit ;; upzero ;; fdiffw ;; ptext 7e78 ;; ptext 782026207920 ;; ptext 78207c2079",
    # known finding (C27/unbounded-recursion, here C40/workload-crash:set-operation-unbounded-recursion): Reals::set_union ->
    # Intersection::set_union -> set_intersection -> set_union -> ... until the stack overflows
    "W R x ;; R (union reals (isect reals (fset x y))) ;; str 0",
]


# ------------------------------------------------------------------ resource-exhaustion guard for generated workload recipes
# Exact powers / factorials whose result cannot be represented are not memory-safety inputs: GMP answers an unrepresentable size with
# abort() ("gmp: overflow in mpz type", SIGABRT), an allocation failure, hours of computation, or -- libgmp 6.2.1, mpz_n_pow_ui, when the
# base has k low zero limbs and k*e >= 2^63: `ralloc + rtwos_limbs` wraps negative, MPZ_NEWALLOC keeps the dummy limb and MPN_ZERO faults
# (SIGSEGV inside libgmp; e.g. pow(2^64, 2^63), pow(2^128, 2^62)).  All of these are the same class "exact result of 2^60 and more bits";
# the workload generator stays below RESULT_BITS_LIMIT bits for every exact power and below GAMMA_ARG_LIMIT for factorial-like arguments.
# Exponents that do not fit an unsigned long (|e| >= 2^64) are kept: the library rejects them with an exception (a path worth running).
RESULT_BITS_LIMIT = 1 << 22
GAMMA_ARG_LIMIT = 1 << 12
_HUGE = 1 << 200          # saturation value of the bit bounds


def _sexp(s):
    toks = re.findall(r"\(|\)|[^\s()]+", s)
    pos = [0]

    def rd():
        t = toks[pos[0]]
        pos[0] += 1
        if t != "(":
            return t
        out = []
        while toks[pos[0]] != ")":
            out.append(rd())
        pos[0] += 1
        return out
    return rd()


def _qbits(q):
    """height of an exact rational in bits; 0 for 0, 1, -1 (powers of those never grow)"""
    if q.denominator == 1 and abs(q.numerator) <= 1:
        return 0
    return max(abs(q.numerator), q.denominator).bit_length()


class _Unsafe(Exception):
    pass


def _nonfinite_double_inside(e):
    if not isinstance(e, list) or not e:
        return False
    if e[0] in ("d", "cd"):
        return any(((int(t, 16) >> 52) & 0x7ff) == 0x7ff for t in e[1:])
    return any(_nonfinite_double_inside(a) for a in e[1:])


def _absval(e):
    """abstract value of a recipe: ("q", Fraction) = exactly this rational; ("h", n) = any expression whose exact numeric
    value/coefficients have numerators and denominators below 2^n.  Raises _Unsafe on a possibly unrepresentable exact result."""
    from fractions import Fraction

    def h(v):
        return _qbits(v[1]) if v[0] == "q" else v[1]

    def sat(n):
        return min(n, _HUGE)
    if not isinstance(e, list):
        return ("h", 0)            # symbols, constants, infinities, flags
    if not e:
        return ("h", 0)
    op = e[0]
    if op == "i":
        return ("q", Fraction(int(e[1])))
    if op == "q":
        return ("q", Fraction(int(e[1]), int(e[2]))) if int(e[2]) != 0 else ("h", 0)
    if op == "c":
        return ("h", max(abs(int(t)) for t in e[1:5]).bit_length())
    if op in ("d", "cd", "s", "dum"):
        return ("h", 0)
    leafarg = [isinstance(a, list) and a and a[0] in ("i", "q") for a in e[1:]]
    if op in ("f1", "f2", "fs"):
        name = e[1]
        args = [_absval(a) for a in e[2:]]
        leafarg = leafarg[1:]
        if op == "fs":
            return ("h", sat(max([h(a) for a in args] + [0])))
        if name in ("gamma", "beta", "polygamma", "loggamma", "lowergamma", "uppergamma", "zeta", "dirichlet_eta"):
            big = 0
            for a, lf in zip(args, leafarg):
                if a[0] == "q":
                    m = abs(a[1].numerator) + a[1].denominator
                    fits = m < (1 << 64)
                else:
                    m = 1 << min(a[1], 300)
                    fits = True
                    lf = False
                # literal arguments beyond an unsigned long are rejected by the library with an exception (kept); everything else must
                # stay small (gamma(2^63), beta(2^63, -1/2): GMP abort in the factorial)
                if m > GAMMA_ARG_LIMIT and (not lf or fits):
                    raise _Unsafe("%s of a possibly exact argument above %d" % (name, GAMMA_ARG_LIMIT))
                big = max(big, m if m <= GAMMA_ARG_LIMIT else 0)
            return ("h", sat(2 * big * big + 17 * big + 1 + max([h(a) for a in args] + [0])))
        if name in ("abs", "conjugate", "sign", "floor", "ceiling", "truncate") and len(args) == 1:
            a = args[0]
            if a[0] == "q":
                if name == "abs":
                    return ("q", abs(a[1]))
                if name == "conjugate":
                    return a
                return ("h", _qbits(a[1]))
            # floor of a double is an exact integer of up to 1024 bits
            return ("h", sat(max(a[1], 1100 if name in ("floor", "ceiling", "truncate") else 0)))
        return ("h", sat(max([h(a) for a in args] + [0])))
    args = [_absval(a) for a in e[1:]]
    if op == "neg" and len(args) == 1:
        return ("q", -args[0][1]) if args[0][0] == "q" else args[0]
    if op in ("add", "sub", "mul", "div") and len(args) == 2:
        a, b = args
        if a[0] == "q" and b[0] == "q":
            if op == "add":
                return ("q", a[1] + b[1])
            if op == "sub":
                return ("q", a[1] - b[1])
            if op == "mul":
                return ("q", a[1] * b[1])
            return ("q", a[1] / b[1]) if b[1] != 0 else ("h", 0)
        return ("h", sat(h(a) + h(b) + 1))
    if op in ("pow", "sqrt", "cbrt", "exp"):
        if op == "pow" and len(args) == 2:
            a, b = args
        elif op == "sqrt":
            a, b = args[0], ("q", Fraction(1, 2))
        elif op == "cbrt":
            a, b = args[0], ("q", Fraction(1, 3))
        else:
            return ("h", h(args[0]) + 1)
        ha = h(a)
        if op == "pow" and _nonfinite_double_inside(e[2]) and not (isinstance(e[1], str) and e[1] in ("x", "y", "z", "w", "ab")):
            # toolchain artefact, not a library defect: RealDouble::rpow -> std::pow(std::complex<double>, double) with an infinite or NaN
            # exponent computes std::polar(NaN, ..) inside libstdc++, whose hardened build (-D_GLIBCXX_ASSERTIONS, used for the library
            # under test) aborts on the assertion `__rho >= 0`: pow(I, inf), pow(-1.0, inf), pow(1/2 - 3/4 I, nan)
            raise _Unsafe("non-finite double exponent")
        if b[0] == "q":
            ex = b[1]
            if ex.denominator == 1:
                n = abs(ex.numerator)
                if n >= (1 << 64):
                    return ("h", sat(ha + 1))      # exponent beyond unsigned long: exception, or a symbolic power
                if a[0] == "q" and ha * n <= 4096 and not (a[1] == 0 and ex < 0):
                    return ("q", a[1] ** int(ex))
            else:
                n = abs(ex.numerator) // ex.denominator + 1
        else:
            n = 1 << min(b[1], 300)
        bits = ha * n
        if bits > RESULT_BITS_LIMIT:
            raise _Unsafe("exact power of about %s bits" % (bits if bits < _HUGE else "2^200+"))
        return ("h", sat(bits + 1))
    # everything else (addv, mulv, max, min, relations, boolean operators, sets, piecewise, ...): coefficients combine at most additively
    return ("h", sat(sum(h(a) for a in args) + len(args)))


def recipe_safe(r):
    """False when evaluating recipe r may need an exact number beyond the representable/affordable size (see above)"""
    try:
        _absval(_sexp(r))
        return True
    except _Unsafe:
        return False


# ------------------------------------------------------------------ correspondence
def strip_obs(step):
    """the fields both sides print: L.. S.. O.. X.."""
    m = re.match(r"^(L-?\d+ S\S* O\S* X\S*)", step.strip())
    return m.group(1) if m else step.strip()


def model_line(prog, impl):
    """the model's input: the program, with every API step replaced by its observed result graph"""
    psteps = [s.strip() for s in prog.split("|")]
    head = psteps[0].split()
    isteps = impl.split("\t")[0].split("|")
    e = isteps[0]
    obs = isteps[1:]
    out = ["P %s n%s" % (e, head[1])]
    for k, st in enumerate(psteps[1:]):
        t = st.split()
        o = obs[k] if k < len(obs) else ""
        if t[0] in ("ap", "fdm", "fdk", "km"):
            m = re.search(r" N (\S+) (\S+)", o)
            if o.rstrip().endswith("EXN") or o.rstrip().endswith("SKIP") or not m:
                out.append("nop")
                continue
            dest = t[2] if t[0] == "ap" else t[1]      # km i j k: an "API call" that returns an existing member
            s = "api %s %s %s" % (dest, m.group(1), m.group(2))
            if t[0] == "fdm":
                s += " + dr %s" % t[2]
            out.append(s)
        else:
            out.append(st)
    return " | ".join(out)


def classify_oracle(text):
    if "held by" in text:
        return "C40/held-expression-changed"
    if "leak" in text or "alive after" in text:
        return "C40/leak"
    if "reachable from the handles" in text:
        return "C40/live-count-vs-reachable"
    if "constant did not return" in text:
        return "C40/constant-use-count-drift"
    if "unknown to the program" in text:
        return "C40/foreign-object-reachable"
    return "C40/oracle"


def explore(ctx, drv, model, progs, stats, search=False):
    if drv is None or model is None or not progs:
        return
    impl = ctx.run_lines(drv, progs, timeout=3000)
    ctx.cov["evaluations"] += len(progs)
    todo = []
    for p, il in zip(progs, impl):
        canon, _, oracle = il.partition("\t#ORACLE:")
        if il.startswith("NOHOOK"):
            if not any(b["name"] == "hook H2" for b in ctx.broken):
                ctx.broken.append({"kind": "correspondence", "name": "hook H2",
                                   "detail": "symengine/basic.h has no live-object counter (SYMENGINE_VERIF_LIVE_OBJECTS)"})
            continue
        if "CRASH" in canon or "HANG" in canon or "UNCAUGHT" in canon or canon.startswith("NOOUTPUT"):
            ctx.violation("C40/crash", "handle program `%s` ended with %s" % (p, canon[-120:]),
                          {"family": "rcp", "case": p, "impl": canon})
            continue
        if oracle:
            ctx.violation(classify_oracle(oracle), "handle program `%s`: %s" % (p, oracle.strip()[:400]),
                          {"family": "rcp", "case": p, "impl": canon})
        if "UNKNOWNCLASS" in canon:
            stats["unknown"] += 1
            continue
        todo.append((p, canon))
    mod = ctx.run_lines(model, [model_line(p, c) for p, c in todo], timeout=1800)
    for (p, canon), ml in zip(todo, mod):
        isteps = canon.split("|")
        msteps = ml.split("|")
        nsteps = len(p.split("|")) - 1
        stats["steps"] += nsteps
        ok = len(msteps) >= nsteps + 1 and isteps[0] == msteps[0]
        bad = None
        if ok:
            for k in range(1, nsteps + 1):
                if strip_obs(isteps[k]) != strip_obs(msteps[k]):
                    ok = False
                    bad = k
                    break
        if ok:
            ctx.cov["traces_validated_against_impl"] += 1
            if re.search(r"\bfd[mk]\b|\bap\b", p) and re.search(r"\b(cp|mv|mc|ft)\b", p):
                stats["nontrivial"].add(p)
            if len(ctx.cov["samples"]) < 6 and not search:
                ctx.cov["samples"].append({"program": p, "impl": canon[:400], "model": ml[:400]})
        else:
            stats["mismatch"] += 1
            if stats["mismatch"] <= 3:
                k = bad if bad is not None else 0
                ctx.broken.append({"kind": "correspondence", "name": "C40 handle program",
                                   "detail": "program `%s`\n step %s `%s`\n model: %s\n impl:  %s" % (
                                       p, k, (p.split("|")[k].strip() if k and k < len(p.split("|")) else "?"),
                                       msteps[k] if k < len(msteps) else ml[:300], isteps[k] if k < len(isteps) else canon[:300])})


SET_OPS = ("union", "isect", "compl")
SET_RECURSION_KEY = "C40/workload-crash:set-operation-unbounded-recursion"


def nested_set_operation(recipe):
    """a set operation applied to (at least) one set operation: the shape of the known unbounded set_union/set_intersection/
    set_complement recursion (known finding C27/unbounded-recursion)"""
    try:
        e = _sexp(recipe)
    except Exception:
        return False
    return (isinstance(e, list) and bool(e) and e[0] in SET_OPS and
            any(isinstance(a, list) and a and a[0] in SET_OPS for a in e[1:]))


def classify_workload_crash(ctx, drv, cfg, l):
    """Narrow key for ONE known class, everything else keeps the generic key: the crash is reproduced by a single recipe of the workload
    on its own, every recipe that crashes on its own is a nested set operation, and the crash is a stack overflow (SIGSEGV on the rel
    build, `AddressSanitizer: stack-overflow` on the asan build).  Returns (key, minimal workload, what) or None."""
    recipes = [op[2:] for op in l[2:].split(" ;; ") if op.startswith("R ")]
    if not recipes:
        return None
    single = ["W R " + r for r in recipes]
    res = ctx.run_lines(drv, single, timeout=600)
    bad = [(w, r, o.partition("\t#ORACLE:")[0]) for w, r, o in zip(single, recipes, res)
           if "CRASH" in o or "HANG" in o or "UNCAUGHT" in o or o.startswith("NOOUTPUT")]
    if not bad:
        return None
    for w, r, o in bad:
        overflow = ("AddressSanitizer: stack-overflow" in o) if cfg == "asan" else (o.strip() == "CRASH:11")
        if not (overflow and nested_set_operation(r)):
            return None
    w, r, o = bad[0]
    return (SET_RECURSION_KEY, w, o[o.find("CRASH"):][:200])


def run_workloads(ctx, drv, cfg, lines, stats):
    if drv is None or not lines:
        return
    res = ctx.run_lines(drv, lines, timeout=3000, shards=4)
    for l, r in zip(lines, res):
        stats["workload_" + cfg] += 1
        canon, _, oracle = r.partition("\t#ORACLE:")
        if "CRASH" in canon or "HANG" in canon or "UNCAUGHT" in canon or canon.startswith("NOOUTPUT"):
            what = canon[canon.find("CRASH"):][:200] if "CRASH" in canon else canon[-60:]
            # abort() with a message that names a non-memory cause (the driver appends the message to the marker); backstop of the static
            # guard recipe_safe, e.g. for a NaN that arises by arithmetic and reaches std::pow(std::complex<double>, ..)
            if "CRASH:6" in what and ("gmp: overflow in mpz type" in what or "GNU MP: Cannot allocate memory" in what):
                stats["aborts_resource_exhaustion"] += 1
                continue
            if "CRASH:6" in what and "std::polar" in what and "Assertion '__rho >= 0' failed" in what:
                stats["aborts_libstdcxx_polar_assertion"] += 1
                continue
            key = "C40/workload-crash:" + cfg
            narrow = classify_workload_crash(ctx, drv, cfg, l)
            if narrow:
                key, l, what = narrow
            ctx.violation(key, "workload `%s` on the %s build ended with %s" % (l, cfg, what),
                          {"family": "rcp-workload", "cfg": cfg, "case": l, "impl": canon[-300:]})
        elif oracle:
            key = "C40/workload-leak:" + cfg if "leak" in oracle.lower() or "Leak" in oracle else "C40/workload-nondeterministic"
            ctx.violation(key, "workload `%s` on the %s build: %s" % (l, cfg, oracle.strip()[:300]),
                          {"family": "rcp-workload", "cfg": cfg, "case": l, "impl": canon[-300:]})


def asan_available():
    return os.path.exists(os.path.join(vlib.WORK, "build-asan" + vlib.TAG, "symengine", "libsymengine.a"))


def run(ctx):
    ctx.gate(["Base", "Rcp", "C40"])
    build_coq(ctx)
    ctx.prove(proof_modules(), OBLIGATIONS)
    drv = ctx.build_driver("rcp_driver")
    model = build_model(ctx)
    stats = {"unknown": 0, "steps": 0, "mismatch": 0, "nontrivial": set(), "workload_rel": 0, "workload_asan": 0, "recipes_excluded": 0,
             "aborts_resource_exhaustion": 0, "aborts_libstdcxx_polar_assertion": 0}
    n = 500 if ctx.tier == "quick" else 6000
    progs = list(CORPUS) + [gen_program(ctx.rng, ctx.tier) for _ in range(n)]
    explore(ctx, drv, model, progs, stats)
    if ctx.broken and not ctx.violations:
        explore(ctx, drv, model, [gen_program(ctx.rng, "thorough") for _ in range(600)], stats, search=True)
    # testing (no model): API workloads, leak check by the counter; sanitizers when the asan configuration is there
    wl = list(WORKLOADS)
    try:
        from checks import exprcommon as X
        for _ in range(20 if ctx.tier == "quick" else 300):
            k = ctx.rng.randint(2, 5)
            rs = []
            for _ in range(k):
                for attempt in range(40):
                    r = (X.gen_arith(ctx.rng, ctx.rng.randint(1, 3)) if ctx.rng.random() < 0.7 else
                         (X.gen_bool(ctx.rng, 2) if ctx.rng.random() < 0.5 else X.gen_set(ctx.rng, 2)))
                    if recipe_safe(r):
                        break
                    stats["recipes_excluded"] += 1
                    r = "x"
                rs.append(r)
            ops = ["R " + r for r in rs]
            for i in range(len(rs)):
                ops.append(ctx.rng.choice(["str %d", "prt %d", "ser %d", "parse %d", "fsyms %d"]) % i)
            wl.append("W " + " ;; ".join(ops))
    except Exception as e:  # generator of another slice unavailable: fixed workloads only
        ctx.notes.append("exprcommon generator not used: %r" % (e,))
    os.environ.setdefault("ASAN_OPTIONS", "detect_leaks=1:abort_on_error=0:allocator_may_return_null=1")
    os.environ.setdefault("UBSAN_OPTIONS", "print_stacktrace=0")
    run_workloads(ctx, drv, "rel", wl, stats)
    if ctx.tier == "thorough" or asan_available():
        adrv = ctx.build_driver("rcp_driver", cfg="asan")
        run_workloads(ctx, adrv, "asan", wl, stats)
        # the handle programs themselves under the sanitizers (no model comparison)
        if adrv is not None:
            res = ctx.run_lines(adrv, progs[:60 if ctx.tier == "quick" else 600], timeout=3000, shards=4)
            for p, r in zip(progs, res):
                if "CRASH" in r or "HANG" in r:
                    ctx.violation("C40/crash:asan", "handle program `%s` on the asan build: %s" % (p, r[r.find("CRASH"):][:200]),
                                  {"family": "rcp", "cfg": "asan", "case": p})
    else:
        ctx.notes.append("asan configuration not built (tools/buildlib.sh asan): sanitizer replay skipped in the quick tier")
    ctx.cov["distinct_nontrivial"] = len(stats["nontrivial"])
    ctx.cov["handle_program_steps"] = stats["steps"]
    ctx.cov["programs_outside_introspected_classes"] = stats["unknown"]
    ctx.cov["workloads"] = {"rel": stats["workload_rel"], "asan": stats["workload_asan"]}
    ctx.cov["rule"] = ("handle programs over 3-7 RCP variables from one PRNG: make_rcp of nodes over existing handles (shared children), copy/move "
                       "assignment and construction, reset, destructor, rcp_from_this, temporaries, guard cases (null operand, bad slot), public API calls "
                       "(add/sub/mul/div/pow/neg/expand/diff/subs/xreplace/sin/cos/exp/log/abs/sqrt/parse/function_symbol/addv/mulv) and Add::from_dict on "
                       "one-entry dictionaries whose product key is held 1, 2 or 3 times (stealing threshold +-1); every program ends by dropping all handles; "
                       "evaluations = programs; a program is non-trivial when it mixes API/from_dict steps with aliasing steps (copy/move/from_this); "
                       "distinct = distinct program strings; after EVERY step: live-object count, slot contents, use_count of every reachable object and of "
                       "the library constants are compared with the model; API workloads (testing): fixed list plus 2-5 generated arithmetic/"
                       "boolean/set recipes followed by str/print/serialise/parse/free_symbols, each run twice in one process on the rel and the asan "
                       "build; generated recipes are restricted to affordable exact arithmetic: a recipe is regenerated when a power may have an exact "
                       "result above 2^22 bits (static bound: height of the base times the exponent; exponents beyond an unsigned long are kept, the "
                       "library rejects them with an exception) or gamma/beta/polygamma may see an exact argument above 4096 -- such inputs end in "
                       "GMP's abort(), an allocation failure or, in libgmp 6.2.1 for pow(2^64, 2^63), a fault inside mpz_n_pow_ui, none of which "
                       "is a statement about the library's memory safety; powers of a non-symbol base whose exponent contains an infinite/NaN double "
                       "literal are regenerated too (std::pow(std::complex<double>, double) of the hardened libstdc++ aborts on its own assertion "
                       "`__rho >= 0` in std::polar for pow(I, inf))")
    ctx.cov["workload_recipes_regenerated_for_size"] = stats["recipes_excluded"]
    ctx.cov["workload_aborts_not_counted"] = {"gmp overflow / out of memory": stats["aborts_resource_exhaustion"],
                                              "libstdc++ std::polar assertion (NaN radius inside std::pow)": stats["aborts_libstdcxx_polar_assertion"]}
    ctx.assumptions += [
        "the model covers the protocol as used through RCP handles; raw pointers and references (const Basic &) held across calls are outside it",
        "counters do not wrap (fewer than 2^32 handles to one object)",
        "object graphs are acyclic (members exist before their owner): expressions are built bottom-up and are immutable",
        "API calls enter the model through their observed result graph (new objects and their member handles as read by the driver from Add/Mul/Pow/"
        "function/Derivative/Subs objects); programs that reach other classes are checked by the oracles only (count returns to baseline, immutability)",
        "memory safety of the C++ itself (out-of-bounds, uninitialised reads, UB) is not a property of the model: the sanitizer runs are testing",
        "workloads stay within representable exact arithmetic: no exact power above 2^22 result bits and no factorial-like function of an exact "
        "argument above 4096 (resource exhaustion -- GMP abort `overflow in mpz type`, out of memory, or the libgmp 6.2.1 mpz_n_pow_ui fault on "
        "pow(2^64, 2^63), whose result would need 2^69 bits -- is outside the property: no such result exists to be computed)",
        "the library under test is compiled with -D_GLIBCXX_ASSERTIONS: an abort on libstdc++'s internal assertion in std::pow(complex, double) "
        "for an infinite/NaN double exponent (pow(I, inf)) is an artefact of that mode, not a memory error; such powers are not generated, and a "
        "workload that still ends in SIGABRT with exactly that assertion message (NaN produced by arithmetic, e.g. pow(pow(0.0, I), 3)) or with GMP's "
        "`overflow in mpz type` / `Cannot allocate memory` message is counted in workload_aborts_not_counted instead of being reported; any other "
        "signal or message is a violation",
    ]
    ctx.cov["trusted_base"].append("hook H2 (live Basic object counter under SYMENGINE_VERIF in symengine/basic.h)")


def replay(ctx, rep):
    r = rep["replay"]
    cfg = r.get("cfg", "rel")
    drv = ctx.build_driver("rcp_driver", cfg=cfg)
    c = r["case"]
    print("case :", c)
    il = ctx.run_lines(drv, [c])[0]
    print("impl :", il)
    if c.startswith("P"):
        model = build_model(ctx)
        canon = il.split("\t")[0]
        if model is not None and "CRASH" not in canon and "|" in canon:
            print("model:", ctx.run_lines(model, [model_line(c, canon)])[0])
