"""Shared by C19 and C20: the serialisation codec (symengine/serialize-cereal.h).
Model: coq/Codec/CodecModel.v; driver harness/codec_driver.cpp; model glue ocaml/codec_main.ml.

Tie between model and library (all on every run):
  (a) decode_model(dumps_impl(e))     = dump(e)        the model's decoder reads the library's bytes
  (b) loads_impl(encode_model(e))     = dump(e)        the library reads the model's bytes (fresh ids and maximal sharing)
  (c) encode_model(decode_model(B))   = B              byte-for-byte, for the library's streams B (ids are addresses)
  (d) decode_model(B') vs loads_impl(B') on field-aware mutations B' of valid streams (result tree or exception class)
Add dictionaries are unordered_maps (bucket order): dumps are compared after sorting Add entries."""
import os
import re
import vlib
from checks import exprcommon as X

EXTRACT = ("Codec", "Codec/Extract.v", "codec_main.ml", "semodel")


def build(ctx):
    drv = ctx.build_driver("codec_driver")
    model = ctx.build_model(EXTRACT[0], EXTRACT[1], EXTRACT[2], EXTRACT[3], extra_ml=["expr_io.ml"])
    return drv, model


def translate(ctx):
    rc, out = vlib.sh(["python3", os.path.join(vlib.ROOT, "translators", "tr_typecodes.py")])
    if rc != 0:
        ctx.broken.append({"kind": "translator", "name": "tr_typecodes", "detail": out[-2000:]})


# ---------------------------------------------------------------- S-expressions / canonical dumps
def parse_sexp(s):
    pos = 0
    n = len(s)

    def go():
        nonlocal pos
        while pos < n and s[pos] == " ":
            pos += 1
        if pos >= n:
            raise ValueError("sexp: end")
        if s[pos] == "(":
            pos += 1
            items = []
            while True:
                while pos < n and s[pos] == " ":
                    pos += 1
                if pos >= n:
                    raise ValueError("sexp: missing )")
                if s[pos] == ")":
                    pos += 1
                    return items
                items.append(go())
        st = pos
        while pos < n and s[pos] not in " ()":
            pos += 1
        return s[st:pos]

    return go()


def show(x):
    if isinstance(x, str):
        return x
    return "(" + " ".join(show(y) for y in x) + ")"


def canon_tree(x):
    if isinstance(x, str):
        return x
    items = [canon_tree(y) for y in x]
    if items and items[0] == "Add":
        items = items[:2] + sorted(items[2:], key=show)
    return items


def canon(dump):
    """the dump with Add entries sorted (Add dictionaries iterate in hash-bucket order)"""
    try:
        return show(canon_tree(parse_sexp(dump)))
    except (ValueError, RecursionError):
        return dump


def heads(dump):
    """class-ish names occurring in a dump"""
    return set(re.findall(r"\((?:F1|F2|FN|Lex|Atom|Opaque) ([A-Za-z_0-9]+)", dump)) | set(
        h for h in re.findall(r"\(([A-Za-z]+)", dump) if h not in ("F1", "F2", "FN", "Lex", "Atom", "Opaque"))


# ---------------------------------------------------------------- recipes of every serialisable class
DOUBLES = ["3ff0000000000000", "4000000000000000", "0000000000000000", "8000000000000000", "7ff0000000000000",
           "fff0000000000000", "3fb999999999999a", "0000000000000001", "7fefffffffffffff", "c00921fb54442d18",
           "7ff8000000000000", "7ff8000000000001", "fff8000000000000", "7ff0000000000001"]
NUMS = X.NUMS + ["(d %s)" % d for d in DOUBLES[6:]] + [
    "(cd 8000000000000000 3ff0000000000000)", "(cd 3ff0000000000000 7ff0000000000000)", "(cd 3ff0000000000000 7ff8000000000000)",
    "(cd 7ff8000000000000 3ff0000000000000)", "(cd 8000000000000000 8000000000000000)", "(cd 3ff0000000000000 bff0000000000000)",
    "(i 123456789012345678901234567890123456789012345678901234567890)", "(i -340282366920938463463374607431768211456)",
    "(q -7 340282366920938463463374607431768211457)", "(c 0 1 -1 1)", "(c -5 3 7 340282366920938463463374607431768211457)",
    "Catalan", "GoldenRatio"]
SYMS = X.SYMS + ["alpha_1", "x'", "a.b"]
F1 = ["sin", "cos", "tan", "cot", "sec", "csc", "asin", "acos", "atan", "acot", "asec", "acsc", "sinh", "cosh", "tanh", "coth",
      "sech", "csch", "asinh", "acosh", "atanh", "acoth", "asech", "acsch", "log", "abs", "sign", "floor", "ceiling", "truncate",
      "conjugate", "gamma", "loggamma", "erf", "erfc", "lambertw", "zeta", "dirichlet_eta", "digamma", "trigamma"]
F2 = ["atan2", "log", "zeta", "beta", "polygamma", "lowergamma", "uppergamma", "kronecker_delta"]
SPECIALS = ["uratpoly", "uintpoly", "uexprpoly", "imageset", "conditionset", "naturals", "naturals0", "complexes", "intersection",
            "unevaluated", "primepi", "primorial", "tuple", "dummy0", "dummybig", "emptysym", "sym8bit", "zeromatrix"]


def leaf(rng):
    r = rng.random()
    if r < 0.5:
        return rng.choice(SYMS)
    if r < 0.55:
        return "(dum %s)" % rng.choice(["d", "t0"])
    return rng.choice(NUMS)


def gen_arith(rng, depth):
    if depth <= 0 or rng.random() < 0.2:
        return leaf(rng)
    r = rng.random()
    a = gen_arith(rng, depth - 1)
    b = gen_arith(rng, depth - 1)
    if r < 0.22:
        return "(add %s %s)" % (a, b)
    if r < 0.42:
        return "(mul %s %s)" % (a, b)
    if r < 0.55:
        return "(pow %s %s)" % (a, rng.choice(["(i 2)", "(i -1)", "(q 1 2)", "(q -1 3)", b]))
    if r < 0.60:
        return "(addv %s %s %s)" % (a, b, gen_arith(rng, depth - 1))
    if r < 0.65:
        return "(mulv %s %s %s)" % (a, b, gen_arith(rng, depth - 1))
    if r < 0.82:
        return "(f1 %s %s)" % (rng.choice(F1), a)
    if r < 0.88:
        return "(f2 %s %s %s)" % (rng.choice(F2), a, b)
    if r < 0.92:
        return "(%s %s %s %s)" % (rng.choice(["max", "min"]), a, b, rng.choice(SYMS))
    if r < 0.94:
        return "(levi %s %s x)" % (a, b)
    if r < 0.97:
        return "(fs %s %s)" % (rng.choice(["f", "g", "fab"]), " ".join([a, b][: rng.randint(0, 2)]))
    if r < 0.985:
        return "(deriv (fs f %s %s) %s)" % (rng.choice(SYMS), rng.choice(SYMS), " ".join(rng.choice(["x", "y"]) for _ in range(rng.randint(1, 3))))
    return "(diff (fs f (mul (i 2) x) %s) x)" % a


def gen_bool(rng, depth):
    if depth <= 0 or rng.random() < 0.35:
        r = rng.random()
        if r < 0.8:
            op = rng.choice(["eq", "ne", "lt", "le", "gt", "ge"])
            return "(%s %s %s)" % (op, gen_arith(rng, 1), gen_arith(rng, 1))
        if r < 0.9:
            return "(contains %s %s)" % (rng.choice(SYMS), gen_set(rng, 1))
        return rng.choice(["true", "false"])
    r = rng.random()
    if r < 0.3:
        return "(and %s %s)" % (gen_bool(rng, depth - 1), gen_bool(rng, depth - 1))
    if r < 0.6:
        return "(or %s %s)" % (gen_bool(rng, depth - 1), gen_bool(rng, depth - 1))
    if r < 0.8:
        return "(not %s)" % gen_bool(rng, depth - 1)
    return "(xor %s %s %s)" % (gen_bool(rng, depth - 1), gen_bool(rng, depth - 1), gen_bool(rng, 0))


def gen_set(rng, depth):
    if depth <= 0 or rng.random() < 0.5:
        r = rng.random()
        if r < 0.4:
            a, b = sorted(rng.sample(range(-4, 6), 2))
            return "(interval %s %s %d %d)" % (rng.choice(["(i %d)" % a, "(q %d 2)" % (2 * a - 1), "-oo"]),
                                               rng.choice(["(i %d)" % b, "(d 4024000000000000)", "oo"]), rng.randint(0, 1), rng.randint(0, 1))
        if r < 0.75:
            return "(fset %s)" % " ".join(gen_arith(rng, 1) for _ in range(rng.randint(1, 4)))
        return rng.choice(["reals", "integers", "emptyset", "universalset", "rationals"])
    r = rng.random()
    if r < 0.5:
        return "(union %s %s)" % (gen_set(rng, depth - 1), gen_set(rng, depth - 1))
    return "(compl %s %s)" % (gen_set(rng, depth - 1), gen_set(rng, depth - 1))


def gen_expr(rng):
    r = rng.random()
    if r < 0.5:
        return gen_arith(rng, rng.randint(1, 4))
    if r < 0.65:
        return gen_bool(rng, 2)
    if r < 0.78:
        return gen_set(rng, 2)
    if r < 0.86:
        return "(pw %s %s %s %s %s true)" % (gen_arith(rng, 1), gen_bool(rng, 0), gen_arith(rng, 1), gen_bool(rng, 1), gen_arith(rng, 1))
    # explicit sharing: one object inserted at every occurrence of the placeholder
    body = rng.choice(["(pow (s __a) (f1 sin (s __a)))", "(fs f (s __a) (s __a) (pow (s __a) (i 2)))",
                       "(lt (f1 cos (s __a)) (f2 atan2 (s __a) y))", "(add (mul (s __a) x) (pow (s __a) (s __a)))",
                       "(max (s __a) (f1 abs (s __a)) z)", "(pw (s __a) (lt (s __a) x) (f1 exp (s __a)) true)"])
    return "(xreplace %s (s __a) %s)" % (body, gen_arith(rng, 2))


CORPUS = (
    ["x", "(i 0)", "(i -1)", "(add x (mul (i 2) (f1 sin y)))", "(pow pi pi)", "(mul x y)", "(add (mul (i 2) x) (mul (i 3) y) (i 5))"]
    + NUMS
    + ["(f1 %s x)" % f for f in F1] + ["(f2 %s x y)" % f for f in F2]
    + ["(max x y z)", "(min x (i 2))", "(levi x y z)", "(fs f)", "(fs f x)", "(fs g x y x)",
       "(eq x y)", "(ne x y)", "(lt x y)", "(le x (i 2))", "(and (lt x y) (gt z (i 0)))", "(or (lt x y) (eq z w))",
       "(not (lt x y))", "(xor (lt x y) (eq z w) (gt x (i 1)))", "true", "false",
       "(contains x (interval (i 0) (i 1) 0 1))", "(pw x (lt x (i 0)) (pow x (i 2)) true)",
       "(interval (i 0) (i 1) 1 0)", "(interval -oo oo 1 1)", "(fset x y (i 1))", "(union (interval (i 0) (i 1) 0 0) (fset (i 5) x))",
       "(compl reals (fset x))", "emptyset", "universalset", "reals", "rationals", "integers", "naturals", "naturals0", "complexes",
       "(isect (interval (i 0) (i 2) 0 0) (fset x y))",
       "(deriv (fs f x y) x y x)", "(diff (fs f (mul (i 2) x)) x)", "(subs (deriv (fs f x) x) x (i 2))",
       "(dum d)", "(add (dum d) (dum d))",
       "(xreplace (pow (s __a) (f1 sin (s __a))) (s __a) (add x y))",
       "(xreplace (fs f (s __a) (s __a) (s __a)) (s __a) (q 1 2))",
       "(xreplace (fs f (s __a) (s __a)) (s __a) (cd 3ff0000000000000 4000000000000000))"]
)


# ---------------------------------------------------------------- byte-level helpers (python side)
def u(n, w):
    return (n % (1 << (8 * w))).to_bytes(w, "little").hex()


def s_(b):
    if isinstance(b, str):
        b = b.encode("latin-1")
    return u(len(b), 8) + b.hex()


class Builder:
    """hand-made streams: node(tc, payload) with fresh ids"""

    def __init__(self, codes, ver):
        self.codes = codes
        self.ver = ver
        self.nid = 4096

    def hdr(self):
        return "01" + u(self.ver[0], 2) + u(self.ver[1], 2)

    def node(self, cls, payload=""):
        self.nid += 16
        tc = self.codes[cls] if isinstance(cls, str) else cls
        return u(self.nid, 8) + "01" + u(tc, 1) + payload

    def ref(self, nid):
        return u(nid, 8) + "00"

    def I(self, v):
        return self.node("Integer", s_(str(v)))

    def X(self, name="x"):
        return self.node("Symbol", s_(name))

    def D(self, bits):
        return self.node("RealDouble", u(bits, 8))

    def B(self, v):
        return self.node("BooleanAtom", u(v, 1))

    def seq(self, *items):
        return u(len(items), 8) + "".join(items)


def parse_classes(line):
    """driver `classes` output -> {name: code}, and rows"""
    codes = {}
    rows = {}
    for tok in line.split():
        tc, name, n, i, b, s, kind = tok.split(":")
        codes[name] = int(tc)
        rows[int(tc)] = (name, n, i, b, s, kind)
    return codes, rows


def parse_fmap(line):
    out = []
    for tok in line.split():
        off, ln, kind = tok.split(":")
        out.append((int(off), int(ln), kind))
    return out


BIG = [0, 1, 2, 255, 1 << 16, 1 << 40, 1 << 62, 1 << 63, (1 << 64) - 1]
INTSTRS = ["abc", "-", "", "007", "-0", "12a", " 12", "+5", "1" * 400, "-" + "9" * 70, "--1", "1-", "0x10", "1e5", "²".encode("latin-1").decode("latin-1"), "1\x002"]
NAMES = ["", "\xff\xfe", "a\x00b", "x" * 300, "pi", "E", "I", "oo", "nan", "zoo"]


def grey(hx, fmap):
    """a length / count field of the (mutated) stream announces 2^24 .. 2^32 bytes: the library would
    allocate and zero-fill that much before failing (slow, not a crash) -- such mutants are skipped"""
    b = bytes.fromhex(hx)
    for off, ln, kind in fmap:
        if kind in ("strlen", "count") and off + 8 <= len(b):
            v = int.from_bytes(b[off:off + 8], "little")
            if (1 << 24) <= v * (16 if kind == "count" else 1) and v < (1 << 32):
                return True
    return False


def mutate(rng, hx, fmap, ncodes):
    """one field-aware mutation of a valid stream; returns (what, hex)"""
    for _ in range(20):
        what, out = mutate1(rng, hx, fmap, ncodes)
        if not grey(out, fmap):
            return what, out
    return "identity", hx


def mutate1(rng, hx, fmap, ncodes):
    b = bytearray.fromhex(hx)
    toks = [t for t in fmap if t[1] > 0 or t[2] in ("str", "intstr")]
    r = rng.random()
    if r < 0.12:
        # truncation at a field boundary or inside a field
        t = rng.choice(fmap)
        cut = t[0] + rng.choice([0, 0, 1, max(0, t[1] - 1)])
        return "truncate@%d" % cut, bytes(b[:cut]).hex()
    if r < 0.15:
        return "trailing", hx + rng.choice(["00", "ff" * 9, hx[10:]])
    if r < 0.20:
        k = rng.randrange(len(b))
        b[k] ^= 1 << rng.randrange(8)
        return "bitflip@%d" % k, bytes(b).hex()
    if r < 0.24:
        # the whole stream in the other byte order
        for off, ln, kind in fmap:
            if kind in ("major", "minor", "addr", "strlen", "count", "u64", "f64", "u32"):
                b[off:off + ln] = bytes(reversed(b[off:off + ln]))
        b[0] = rng.choice([0, 0, 2, 255])
        return "byteswapped", bytes(b).hex()
    # a field kind first (so that rare kinds are mutated as often as frequent ones), then a field
    kinds = sorted(set(t[2] for t in toks))
    kind = rng.choice(kinds)
    if kind in ("endian", "major", "minor") and rng.random() < 0.7:
        kind = rng.choice(kinds)
    off, ln, kind = rng.choice([t for t in toks if t[2] == kind])
    what = "%s@%d" % (kind, off)
    if kind == "tc":
        old = b[off]
        b[off] = rng.choice([rng.randrange(0, ncodes + 3), rng.randrange(0, ncodes), 255, (old + 1) % 256, max(0, old - 1)])
    elif kind in ("count", "strlen"):
        old = int.from_bytes(b[off:off + 8], "little")
        new = rng.choice(BIG + [old + 1, old + 2, max(0, old - 1), old * 2])
        b[off:off + 8] = (new % (1 << 64)).to_bytes(8, "little")
    elif kind == "addr":
        addrs = [bytes(b[o:o + 8]) for o, l, k in fmap if k == "addr"]
        b[off:off + 8] = rng.choice(addrs + [bytes(8), b"\xff" * 8])
    elif kind == "first":
        b[off] = rng.choice([0, 0, 2, 255])
    elif kind == "ref":
        b[off] = rng.choice([1, 1, 2, 255])
    elif kind == "bool":
        b[off] = rng.choice([0, 1, 2, 255])
    elif kind == "f64":
        b[off:off + 8] = int(rng.choice(DOUBLES), 16).to_bytes(8, "little")
    elif kind == "u64":
        b[off:off + 8] = rng.choice([0, 1, (1 << 64) - 1, rng.getrandbits(64)]).to_bytes(8, "little")
    elif kind in ("intstr", "str"):
        new = rng.choice(INTSTRS if kind == "intstr" or rng.random() < 0.3 else NAMES).encode("latin-1")
        # the length field precedes the bytes
        b[off - 8:off + ln] = len(new).to_bytes(8, "little") + new
    elif kind in ("endian",):
        b[off] = rng.choice([0, 2, 255])
    elif kind in ("major", "minor"):
        b[off:off + 2] = rng.choice([0, 13, 15, 256 * 14, 65535]).to_bytes(2, "little")
    else:
        b[off] ^= 0xFF
    return what, bytes(b).hex()


def witnesses(codes, ver):
    """hand-made streams for the refutation classes of decode_wf (name, hex)"""
    out = []

    def add(name, f):
        bl = Builder(codes, ver)
        out.append((name, bl.hdr() + f(bl)))

    for cls in ("Max", "Min", "LeviCivita", "And", "Or", "Xor", "Piecewise", "Union", "FiniteSet"):
        add("empty-" + cls, lambda b, cls=cls: b.node(cls, b.seq()))
    add("one-And", lambda b: b.node("And", b.seq(b.B(1))))
    add("one-Or", lambda b: b.node("Or", b.seq(b.B(0))))
    add("one-Xor", lambda b: b.node("Xor", b.seq(b.B(0))))
    add("one-Union", lambda b: b.node("Union", b.seq(b.node("EmptySet"))))
    add("one-Max", lambda b: b.node("Max", b.seq(b.I(3))))
    add("Add-empty", lambda b: b.node("Add", b.I(0) + b.seq()))
    add("Add-zero-coefficient", lambda b: b.node("Add", b.I(0) + b.seq(b.X() + b.I(0))))
    add("Add-number-key", lambda b: b.node("Add", b.I(1) + b.seq(b.I(2) + b.I(3))))
    add("Add-duplicate-key", lambda b: b.node("Add", b.I(1) + b.seq(b.X() + b.I(3), b.X() + b.I(4))))
    add("Mul-empty", lambda b: b.node("Mul", b.I(1) + b.seq()))
    add("Mul-zero-coef", lambda b: b.node("Mul", b.I(0) + b.seq(b.X() + b.I(0))))
    add("Mul-number-base", lambda b: b.node("Mul", b.I(1) + b.seq(b.I(0) + b.I(-1))))
    add("Pow-0-minus1", lambda b: b.node("Pow", b.I(0) + b.I(-1)))
    add("Pow-x-1", lambda b: b.node("Pow", b.X() + b.I(1)))
    add("Rational-den-1", lambda b: b.node("Rational", b.I(2) + b.I(1)))
    add("Rational-den-0", lambda b: b.node("Rational", b.I(2) + b.I(0)))
    add("Rational-0-0", lambda b: b.node("Rational", b.I(0) + b.I(0)))
    add("Rational-unreduced-negden", lambda b: b.node("Rational", b.I(2) + b.I(-4)))
    add("Rational-of-Rational", lambda b: b.node("Rational", b.node("Rational", b.I(1) + b.I(2)) + b.I(3)))
    add("Integer-abc", lambda b: b.node("Integer", s_("abc")))
    add("Integer-lone-minus", lambda b: b.node("Integer", s_("-")))
    add("Integer-empty", lambda b: b.node("Integer", s_("")))
    add("Integer-leading-zeros", lambda b: b.node("Integer", s_("-007")))
    add("Complex-imag-0", lambda b: b.node("Complex", b.I(1) + b.I(0)))
    add("Complex-double-part", lambda b: b.node("Complex", b.I(1) + b.D(0x3FF8000000000000)))
    add("ComplexDouble-int-parts", lambda b: b.node("ComplexDouble", b.I(1) + b.I(2)))
    add("ComplexDouble-zoo-part", lambda b: b.node("ComplexDouble", b.I(1) + b.node("Infty", b.I(0))))
    add("Infty-direction-5", lambda b: b.node("Infty", b.I(5)))
    add("Infty-direction-double", lambda b: b.node("Infty", b.D(0x3FF8000000000000)))
    add("Infty-direction-infty", lambda b: b.node("Infty", b.node("Infty", b.I(1))))
    add("Interval-reversed", lambda b: b.node("Interval", "01" + b.I(5) + "00" + b.I(1)))
    add("Interval-bool-2", lambda b: b.node("Interval", "02" + b.I(1) + "03" + b.I(5)))
    add("Interval-complex-ends", lambda b: b.node("Interval", "00" + b.node("Complex", b.I(1) + b.I(2)) + "00" + b.node("NaN")))
    add("BooleanAtom-2", lambda b: b.B(2))
    add("Not-of-Integer", lambda b: b.node("Not", b.I(5)))
    add("Not-of-Not", lambda b: b.node("Not", b.node("Not", b.B(1))))
    add("Contains-set-is-Integer", lambda b: b.node("Contains", b.X() + b.I(1)))
    add("Derivative-nonsymbol", lambda b: b.node("Derivative", b.X() + b.seq(b.I(3))))
    add("Derivative-empty", lambda b: b.node("Derivative", b.X() + b.seq()))
    add("Subs-empty", lambda b: b.node("Subs", b.X() + b.seq()))
    add("FunctionSymbol-empty-name", lambda b: b.node("FunctionSymbol", s_("") + b.seq()))
    add("Symbol-empty-name", lambda b: b.node("Symbol", s_("")))
    add("Constant-unknown", lambda b: b.node("Constant", s_("foo")))
    add("Sin-0", lambda b: b.node("Sin", b.I(0)))
    add("Abs-minus1", lambda b: b.node("Abs", b.I(-1)))
    add("Log-0", lambda b: b.node("Log", b.I(0)))
    add("Gamma-0", lambda b: b.node("Gamma", b.I(0)))
    add("PolyGamma-minus1", lambda b: b.node("PolyGamma", b.I(-1) + b.I(0)))
    add("KroneckerDelta-1-1", lambda b: b.node("KroneckerDelta", b.I(1) + b.I(1)))
    add("Equality-x-x", lambda b: b.node("Equality", b.X() + b.X()))
    add("StrictLessThan-1-2", lambda b: b.node("StrictLessThan", b.I(1) + b.I(2)))
    add("Piecewise-no-otherwise", lambda b: b.node("Piecewise", b.seq(b.X() + b.B(0))))
    add("FiniteSet-duplicate", lambda b: b.node("FiniteSet", b.seq(b.X(), b.X())))
    add("Union-of-emptysets", lambda b: b.node("Union", b.seq(b.node("EmptySet"), b.node("EmptySet"))))
    add("Complement-of-Integer", lambda b: b.node("Complement", b.I(1) + b.node("Reals")))
    add("bad-type-200", lambda b: b.node(200))
    add("bad-type-count", lambda b: b.node(len(codes) + 9))
    add("type-NumberWrapper", lambda b: b.node("NumberWrapper"))
    add("type-URatPoly", lambda b: b.node("URatPoly"))
    add("type-Naturals", lambda b: b.node("Naturals"))
    add("type-FunctionWrapper", lambda b: b.node("FunctionWrapper", s_("f") + b.seq()))
    add("type-RealMPFR", lambda b: b.node(4, s_("1.5") + u(53, 8)))
    add("unknown-reference", lambda b: b.ref(5))
    add("first-seen-2", lambda b: u(5, 8) + "02")
    add("self-reference", lambda b: u(7, 8) + "01" + u(codes["Sin"], 1) + u(7, 8) + "00")
    add("shadowed-id", lambda b: u(9, 8) + "01" + u(codes["Pow"], 1) + (u(7, 8) + "01" + u(codes["Symbol"], 1) + s_("a"))
        + (u(9, 8) + "01" + u(codes["Pow"], 1) + (u(7, 8) + "01" + u(codes["Symbol"], 1) + s_("b")) + (u(7, 8) + "00")))
    add("reference-wrong-class", lambda b: b.node("Pow", (u(7, 8) + "01" + u(codes["Symbol"], 1) + s_("a"))
                                                  + b.node("Not", u(7, 8) + "00")))
    add("huge-string-2^62", lambda b: b.node("Symbol", u(1 << 62, 8)))
    add("huge-string-2^64-1", lambda b: b.node("Symbol", u((1 << 64) - 1, 8)))
    add("huge-string-2^40", lambda b: b.node("Symbol", u(1 << 40, 8)))
    add("huge-vector-2^61", lambda b: b.node("Max", u(1 << 61, 8)))
    add("huge-vector-2^40", lambda b: b.node("Max", u(1 << 40, 8)))
    add("huge-umap-2^61", lambda b: b.node("Add", b.I(0) + u(1 << 61, 8)))
    add("huge-map-2^61", lambda b: b.node("Mul", b.I(0) + u(1 << 61, 8)))
    add("huge-set-2^40", lambda b: b.node("FiniteSet", u(1 << 40, 8)))
    add("huge-pwvec-2^40", lambda b: b.node("Piecewise", u(1 << 40, 8)))
    add("trailing-garbage", lambda b: b.X() + "6761726261676500")
    out.append(("empty-input", ""))
    out.append(("header-1-byte", "01"))
    out.append(("header-3-bytes", "010000"))
    out.append(("header-only", "01" + u(ver[0], 2) + u(ver[1], 2)))
    out.append(("wrong-version", "01" + u(ver[0], 2) + u(ver[1] - 1, 2) + u(7, 8) + "01" + u(codes["NaN"], 1)))
    out.append(("big-endian-stream", "00" + u(ver[0], 2)[2:] + u(ver[0], 2)[:2] + u(ver[1], 2)[2:] + u(ver[1], 2)[:2]
                + "0000000000000007" + "01" + u(codes["Symbol"], 1) + "0000000000000001" + "78"))
    out.append(("endian-flag-2", "02" + u(ver[0], 2)[2:] + u(ver[0], 2)[:2] + u(ver[1], 2)[2:] + u(ver[1], 2)[:2]
                + "0000000000000007" + "01" + u(codes["Symbol"], 1) + "0000000000000001" + "78"))
    for depth in (50, 400):
        bl = Builder(codes, ver)
        out.append(("nested-Sin-%d" % depth, bl.hdr() + "".join(u(100000 + i, 8) + "01" + u(codes["Sin"], 1) for i in range(depth)) + bl.X()))
    return out


def split_load(line):
    """driver `load` output -> (result, stages dict, crashed_stage or None)"""
    parts = line.split("\t")
    res = parts[0]
    stages = {}
    crashed = None
    if len(parts) > 1:
        for tok in parts[1].split():
            if "=" in tok:
                k, v = tok.split("=", 1)
                stages[k] = v
                if "CRASH" in v or "HANG" in v or "UNCAUGHT" in v:
                    crashed = k
                last = k
        if not parts[1].rstrip().endswith("end") and crashed is None:
            crashed = last if stages else "dump"
    elif ("CRASH" in res or "HANG" in res or "UNCAUGHT" in res or "PIPEFAIL" in res or "NOOUTPUT" in res):
        crashed = "loads" if not res.startswith("OK ") else "dump"
    return res, stages, crashed
