"""Shared by C09 (expand) and C11 (subs): build of the driver / extracted model of the family, recipe
generators, protocol helpers of harness/expsubs_driver.cpp and ocaml/expsubs_main.ml."""
import vlib
from checks import arithcommon as A

canon_dump = A.canon_dump

SYMS = ["x", "y", "z"]
SMALL_INTS = ["(i 1)", "(i -1)", "(i 2)", "(i -2)", "(i 3)", "(i 5)", "(i -3)", "(i 4)", "(i 7)", "(i 0)"]
SMALL_RATS = ["(q 1 2)", "(q -1 2)", "(q 2 3)", "(q 3 2)", "(q -5 3)", "(q 1 4)", "(q 7 5)"]
FATOMS = ["(f1 sin x)", "(f1 cos y)", "(fs f x)", "(fs g x y)", "(f1 log z)", "pi", "E", "(f1 abs x)"]


def build(ctx):
    drv = ctx.build_driver("expsubs_driver")
    model = ctx.build_model("ExpSubs", "ExpSubs/Extract.v", "expsubs_main.ml", "semodel", extra_ml=["expr_io.ml"])
    return drv, model


def prove(ctx, proof_modules, obligations, refutations=()):
    ctx.prove(proof_modules, obligations, timeout=7200)
    for rf in refutations:
        rc, out = vlib.sh(["timeout", "900", "coqc", "-Q", ".", "SE", "-w", "-notation-overridden", rf], cwd=vlib.COQ, timeout=930)
        if rc != 0:
            msg = ("refutation %s no longer compiles: the finding no longer reproduces in the model (update model, theorem and "
                   "known_findings.txt together)" % rf)
            ctx.notes.append(msg)
            print("NOTICE: " + msg)
        else:
            ctx.cov.setdefault("refutations_checked", []).append(rf)


def split_oracle(line):
    """-> (fields of the main record, list of oracle records)"""
    parts = line.split("\t")
    main = [x.strip() for x in parts[0].split(" ;; ")]
    oracles = [p[len("#ORACLE:"):] for p in parts[1:] if p.startswith("#ORACLE:")]
    return main, oracles


def bad_line(line):
    for tag in ("CRASH:", "HANG", "UNCAUGHT", "NOOUTPUT", "BADLINE", "BADMODE", "PIPEFAIL"):
        if tag in line.split("\t")[0][-40:] or line.startswith(tag):
            return tag.rstrip(":")
    return None


def is_exn(s):
    return s.startswith("EXN:")


MODEL_SKIP = ("LIBM", "UNMODELLED", "UNSUPPORTED")
MODEL_BAD = ("FAIL", "INTERNAL", "OOB", "FUEL", "NOOUTPUT", "CRASH")


def compare_result(impl_dump, impl_hash, mout):
    """-> 'ok' | 'skip' | text of the disagreement.  impl_dump may be EXN:k"""
    if mout is None or mout.startswith(MODEL_SKIP):
        return "skip"
    if mout.startswith(MODEL_BAD):
        return "model answered %s" % mout[:100]
    if is_exn(impl_dump):
        return "ok" if mout.strip() == impl_dump else "model %s, implementation %s" % (mout[:200], impl_dump)
    if mout.startswith("EXN"):
        return "model %s, implementation %s" % (mout, impl_dump[:200])
    md, _, mh = mout.partition(" ;; ")
    if canon_dump(md) != canon_dump(impl_dump):
        return "result differs: model %s, implementation %s" % (md[:400], impl_dump[:400])
    if impl_hash not in (None, "-") and mh.strip() != impl_hash.strip():
        return "hash differs: model %s, implementation %s for %s" % (mh, impl_hash, impl_dump[:200])
    return "ok"


# ----------------------------------------------------------------------------- generators (expand)

def coef(rng):
    return rng.choice(SMALL_INTS[:8]) if rng.random() < 0.7 else rng.choice(SMALL_RATS)


def gen_poly(rng, depth, syms=SYMS):
    """polynomial expression over Q in the symbols: sums, products, positive integer powers"""
    if depth <= 0 or rng.random() < 0.15:
        r = rng.random()
        if r < 0.6:
            return rng.choice(syms)
        if r < 0.85:
            return coef(rng)
        return "(mul %s %s)" % (coef(rng), rng.choice(syms))
    r = rng.random()
    a = gen_poly(rng, depth - 1, syms)
    if r < 0.34:
        return "(add %s %s)" % (a, gen_poly(rng, depth - 1, syms))
    if r < 0.62:
        return "(mul %s %s)" % (a, gen_poly(rng, depth - 1, syms))
    if r < 0.82:
        return "(pow %s (i %d))" % (a, rng.choice([2, 2, 2, 3, 3, 4, 5]))
    if r < 0.92:
        return "(sub %s %s)" % (a, gen_poly(rng, depth - 1, syms))
    return "(neg %s)" % a


def gen_sum(rng, n=None, atoms=None):
    """a sum of n distinct simple terms with coefficients (the base of a power / factor of a product)"""
    atoms = atoms or (SYMS + ["(i 1)", "(q 1 2)", "(pow x (i 2))", "(mul x y)"])
    n = n or rng.randint(2, 4)
    ts = rng.sample(atoms, min(n, len(atoms)))
    out = None
    for t in ts:
        c = coef(rng)
        term = t if c == "(i 1)" else "(mul %s %s)" % (c, t)
        out = term if out is None else "(add %s %s)" % (out, term)
    return out


def gen_xexpr(rng, depth):
    """the quantifier of C09: sums, products and integer powers (incl. negative, nested sums) over exact numbers,
    symbols and opaque function applications"""
    if depth <= 0 or rng.random() < 0.12:
        r = rng.random()
        if r < 0.5:
            return rng.choice(SYMS)
        if r < 0.7:
            return coef(rng)
        if r < 0.9:
            return rng.choice(FATOMS)
        return "(f1 sin %s)" % gen_sum(rng)
    r = rng.random()
    a = gen_xexpr(rng, depth - 1)
    if r < 0.28:
        return "(add %s %s)" % (a, gen_xexpr(rng, depth - 1))
    if r < 0.52:
        return "(mul %s %s)" % (a, gen_xexpr(rng, depth - 1))
    if r < 0.72:
        return "(pow %s (i %d))" % (a, rng.choice([2, 2, 3, 3, 4, -1, -1, -2, -3, 2, 5]))
    if r < 0.80:
        return "(sub %s %s)" % (a, gen_xexpr(rng, depth - 1))
    if r < 0.86:
        return "(div %s %s)" % (a, gen_xexpr(rng, depth - 1))
    if r < 0.90:
        return "(neg %s)" % a
    if r < 0.94:
        return "(pow %s %s)" % (a, rng.choice(["(q 1 2)", "(q 3 2)", "(q -1 2)", "y", "(mul (i 2) y)", "(add y (i 1))"]))
    return "(pow %s (i %d))" % (gen_sum(rng), rng.choice([2, 3, 4, 5, 6, -2]))


def gen_product_of_sums(rng):
    k = rng.randint(2, 3)
    fs = []
    for _ in range(k):
        s = gen_sum(rng, atoms=SYMS + ["(i 1)", "(q 1 2)", "(pow x (i 2))", "(mul x y)", "(f1 sin x)", "(pow y (i -1))", "(pow (add x (i 1)) (i -1))"])
        fs.append(s if rng.random() < 0.6 else "(pow %s (i %d))" % (s, rng.choice([2, 3, -1, -2])))
    out = fs[0]
    for f in fs[1:]:
        out = "(mul %s %s)" % (out, f)
    return out


# equal / unequal pairs of polynomials for expand_decides

def shuffle_rewrite(rng, t):
    """an algebraically equal rewriting of a recipe tree (list form): commute operands, distribute products over sums,
    replace squares of sums by the binomial formula"""
    if isinstance(t, str):
        return t
    op = t[0]
    if op in ("i", "q", "s"):
        return t
    kids = [shuffle_rewrite(rng, k) for k in t[1:]]
    if op in ("add", "mul") and rng.random() < 0.5:
        kids = kids[::-1]
    if op == "mul" and isinstance(kids[1], list) and kids[1][0] == "add" and rng.random() < 0.6:
        return ["add", ["mul", kids[0], kids[1][1]], ["mul", kids[0], kids[1][2]]]
    if op == "mul" and isinstance(kids[0], list) and kids[0][0] == "add" and rng.random() < 0.6:
        return ["add", ["mul", kids[0][1], kids[1]], ["mul", kids[0][2], kids[1]]]
    if op == "pow" and isinstance(kids[0], list) and kids[0][0] == "add" and kids[1] == ["i", "2"] and rng.random() < 0.7:
        a, b = kids[0][1], kids[0][2]
        return ["add", ["add", ["pow", a, ["i", "2"]], ["mul", ["i", "2"], ["mul", a, b]]], ["pow", b, ["i", "2"]]]
    if op == "pow" and kids[1] == ["i", "3"] and rng.random() < 0.5:
        return ["mul", kids[0], ["pow", kids[0], ["i", "2"]]]
    if op == "sub" and rng.random() < 0.5:
        return ["add", kids[0], ["mul", ["i", "-1"], kids[1]]]
    return [op] + kids


def perturb(rng, t):
    """change one numeric leaf / exponent / symbol: (almost always) a different polynomial"""
    leaves = []

    def walk(u, path):
        if isinstance(u, str):
            leaves.append(path)
            return
        if u[0] in ("i", "q"):
            leaves.append(path)
            return
        for i, k in enumerate(u[1:], 1):
            walk(k, path + [i])
    walk(t, [])
    if not leaves:
        return ["add", t, ["i", "1"]]
    path = rng.choice(leaves)

    def rebuild(u, path):
        if not path:
            if isinstance(u, str):
                return rng.choice([s for s in SYMS if s != u] + ["(i 2)"]) if u in SYMS else u
            if u[0] == "i":
                return ["i", str(int(u[1]) + rng.choice([1, -1, 2]))]
            if u[0] == "q":
                return ["q", str(int(u[1]) + 1), u[2]]
            return u
        v = list(u)
        v[path[0]] = rebuild(u[path[0]], path[1:])
        return v
    out = rebuild(t, path)
    # keep powers legal: exponents must stay positive integers
    return out


def fix_exponents(t):
    if isinstance(t, str):
        return t
    if t[0] == "pow" and isinstance(t[2], list) and t[2][0] == "i" and int(t[2][1]) <= 0:
        return ["pow", fix_exponents(t[1]), ["i", "2"]]
    return [t[0]] + [fix_exponents(k) if not (t[0] in ("i", "q", "s")) else k for k in t[1:]]


def gen_decides_pair(rng, depth=3):
    p = gen_poly(rng, depth)
    tp = A.parse_sexp(p) if p.startswith("(") else p
    r = rng.random()
    if r < 0.55:
        q = shuffle_rewrite(rng, tp)
        if rng.random() < 0.5:
            q = shuffle_rewrite(rng, q)
    elif r < 0.9:
        q = fix_exponents(perturb(rng, shuffle_rewrite(rng, tp)))
    else:
        q = A.parse_sexp("(expand %s)" % p)
    return p, (A.show_sexp(q) if not isinstance(q, str) else q)


XCORPUS = [
    "(pow (add x y) (i 2))", "(pow (add x y) (i 3))", "(pow (add (add x y) z) (i 4))", "(pow (add x (i 1)) (i 5))", "(pow (add x (q 1 2)) (i 3))",
    "(pow (add (mul (i 2) x) (mul (q 1 3) y)) (i 3))", "(mul (add x y) (sub x y))", "(mul (add x (i 1)) (add y (i 2)))", "(mul (i 3) (add x y))",
    "(mul x (add x y))", "(mul (mul x y) (add x y))", "(mul (mul (i 2) x) (add x (i 1)))", "(mul (pow x (i -1)) (add x (pow x (i 2))))",
    "(mul (add x y) (pow (add x y) (i -1)))", "(mul (add x y) (pow (add x (i 1)) (i -1)))", "(pow (add x y) (i -1))", "(pow (add x y) (i -2))",
    "(pow (add x y) (i -3))", "(pow (add x y) (i 1))", "(pow (add x y) (i 0))", "(pow (add x y) z)", "(pow (add x y) (q 1 2))", "(pow (add x y) (q 3 2))",
    "(pow (mul (i 2) (add x y)) (i 2))", "(pow (add (pow x (i 2)) (pow y (i -1))) (i 3))", "(pow (add (f1 sin x) (f1 cos x)) (i 2))",
    "(pow (add (f1 sin (add x y)) (i 1)) (i 3))", "(f1 sin (pow (add x y) (i 2)))", "(mul (f1 sin (mul (add x y) (add x (i 1)))) (add x y))",
    "(pow (add (pow (add x y) (i 2)) z) (i 2))", "(pow (add (pow (add x y) (i -1)) z) (i 2))", "(pow (add (pow (add x y) (q 1 2)) z) (i 2))",
    "(pow (sub (mul (mul (i 3) z) (add (i 1) y)) (pow (sub (f1 sin x) (i 3)) (i -2))) (i -2))", "(add (mul (i 2) (add x y)) (sub z (add x y)))",
    "(mul (add (mul (i 2) (add x y)) (sub z (add x y))) (add x (i 1)))", "(pow (add I x) (i 2))", "(pow (add (c 1 2 1 3) x) (i 3))", "(mul (add x I) (sub x I))",
    "(pow (add x (pow (i 2) (q 1 2))) (i 2))", "(pow (add (sqrt (i 2)) (sqrt (i 3))) (i 2))", "(pow (add (sqrt (i 2)) (i 1)) (i 4))", "(pow (add pi E) (i 2))",
    "(mul (add x y) (add (pow x (i -1)) (pow y (i -1))))", "(pow (add x (pow x (i -1))) (i 4))", "(mul (pow (add x y) (i 2)) (pow (add x y) (i -2)))",
    "(mul (pow (add x y) (i 3)) (pow (add x (i 1)) (i 2)))", "(pow (pow (add x y) (i 2)) (q 1 2))", "(pow (add (i 1) (pow (i 2) x)) (i 2))",
    "(mul (pow (i 2) x) (add (pow (i 2) x) (i 1)))", "(pow (add x y) (i 20))", "(pow (add (add (add x y) z) (i 1)) (i 6))", "(mul (i 0) (add x y))",
    "(pow (add (mul x y) (mul y z)) (i 2))", "(pow (add (dum a) (dum a)) (i 2))", "(mul (add (dum a) (i 1)) (add x (i 1)))",
    "(add y (sqrt (sub (pow (add x (i 1)) (i 2)) (pow (sub x (i 1)) (i 2)))))", "(add y (sqrt (sub (sub (pow (add x (i 2)) (i 2)) (pow x (i 2))) (mul (i 4) x))))",
    "(add y (pow (sub (pow (add x (i 1)) (i 2)) (pow (sub x (i 1)) (i 2))) (i -1)))", "(pow (add x y) (i 4294967296))", "(pow (add x y) (i 4294967298))",
    "(pow (add x y) (i -4294967298))", "(pow (add x y) (i 18446744073709551618))", "(mul (add x (i 1)) (pow (add x (i 1)) y))",
    "(pow (sub (pow (add x (i 1)) (i 2)) (add (add (pow x (i 2)) (mul (i 2) x)) (i 1))) (i 2))", "(pow (add x (mul (i 2) (pow (add y (i 1)) (i 2)))) (i 2))",
    "(pow (add (mul (i 2) (f1 sin x)) (mul (i 3) (f1 sin x))) (i 2))", "(pow (add x (i 18446744073709551616)) (i 3))", "(pow (add (q 1 2) (q 1 3)) (i 2))",
    "(mul (add x (i 1)) (add x (i 1)))", "(mul (mul (add x (i 1)) (add x (i 2))) (add x (i 3)))", "(pow (add (mul x (add y (i 1))) z) (i 2))",
    "(pow (add (mul (i 2) (mul x (pow y (i -1)))) z) (i 3))", "(pow (add (mul (q 2 3) (pow x (q 1 2))) z) (i 3))", "(pow (add (pow x (q 1 2)) (i 1)) (i 4))",
    # mul() of two non-integer powers of a sum returns the sum itself (repaired: fix d80a73b)
    "(mul (sqrt (add x y)) (add (sqrt (add x y)) (i 1)))", "(mul (add (sqrt (add x y)) z) (add (sqrt (add x y)) (i 1)))",
    "(mul (pow (add x y) z) (add (pow (add x y) (sub (i 1) z)) (i 1)))", "(pow (add (sqrt (add x y)) (i 1)) (i 2))",
    "(mul (pow (add x y) (q 1 3)) (add (pow (add x y) (q 2 3)) x))", "(mul (add (pow (add x y) (q 1 3)) (i 2)) (add (pow (add x y) (q 2 3)) x))",
    # known finding C09/...:integer-power-of-sum-from-fractional-power: ((x+y)**(3/2))**2 = (x+y)**3 is not expanded again
    "(pow (add (pow (add x y) (q 3 2)) z) (i 2))", "(pow (add (pow (add x y) (q 1 2)) z) (i 4))", "(pow (add (pow (add x y) (q 3 2)) z) (i 3))",
    "(mul (pow (add x y) (q 3 2)) (add (pow (add x y) (q 3 2)) z))",
]
