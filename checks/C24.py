"""C24 -- dense matrix algebra over exact numbers is correct.
Model: coq/C24/DenseModel.v (the loops of symengine/dense_matrix.cpp over a row-major vector with
checked indices; entries Integer/Rational/zoo/nan with the Basic-level add/sub/mul/div).
Theorems: coq/C24/P_*.v (all sizes: entrywise specifications of the elementary operations, row
equivalence + (reduced) echelon form of the pivoted eliminations, L*U = P*A, the solvers and inverses
built on them, det_bareis = cofactor determinant for every order, char_poly/det_berkowitz up to order
4/5; guarded theorems + refutation witnesses for the unpivoted routines).  Tie: one operation per case line, run on the extracted model and on the
library, outputs compared entry by entry (exact rationals).  Oracle (in the driver, independent of
the library's arithmetic, GMP mpq): multiply back (A*x = b, A*inv = I, L*U = P*A, L*D*L^T = A),
row equivalence + echelon shape against a reference elimination, determinants against cofactor
expansion, characteristic polynomials against Faddeev-LeVerrier."""
import re
from fractions import Fraction
import vlib

PROOF_MODULES = ["C24/DenseFinal.vo", "C24/DenseLDL2.vo", "C24/DenseFF6.vo", "C24/DenseDet3.vo", "C24/DenseBerk.vo", "C24/DenseWitness.vo", "C24/DenseSolve.vo", "C24/DenseOps3.vo", "C24/DenseFFGJ2.vo", "C24/DenseGE2.vo", "C24/DenseGJ2.vo"]
OBLIGATIONS = [
    "C24/P_add_dense_dense_spec.v",
    "C24/P_elementwise_mul_dense_dense_spec.v",
    "C24/P_add_dense_scalar_spec.v",
    "C24/P_mul_dense_scalar_spec.v",
    "C24/P_transpose_dense_spec.v",
    "C24/P_mul_dense_dense_spec.v",
    "C24/P_mul_dense_dense_fin.v",
    "C24/P_row_exchange_dense_spec.v",
    "C24/P_row_mul_scalar_dense_spec.v",
    "C24/P_row_add_row_dense_spec.v",
    "C24/P_column_exchange_dense_spec.v",
    "C24/P_mul_scalar_inplace_spec.v",
    "C24/P_eye_spec.v",
    "C24/P_submatrix_dense_step_spec.v",
    "C24/P_row_insert_spec.v",
    "C24/P_col_insert_spec.v",
    "C24/P_row_join_spec.v",
    "C24/P_col_join_spec.v",
    "C24/P_row_del_spec.v",
    "C24/P_col_del_spec.v",
    "C24/P_is_symmetric_dense_spec.v",
    "C24/P_trace_spec.v",
    "C24/P_inverse_unique.v",
    "C24/P_solve_unique.v",
    "C24/P_back_substitution_spec.v",
    "C24/P_forward_substitution_spec.v",
    "C24/P_diagonal_solve_spec.v",
    "C24/P_row_equiv_null_sol.v",
    "C24/P_pivoted_gauss_jordan_spec.v",
    "C24/P_reduced_row_echelon_form_spec.v",
    "C24/P_pffgj_spec.v",
    "C24/P_rref_normalize_last_spec.v",
    "C24/P_rref_unique_equiv.v",
    "C24/P_rref_flags_agree.v",
    "C24/P_ffgj_solve_dichotomy.v",
    "C24/P_inverse_gauss_jordan_dichotomy.v",
    "C24/P_ffgj_solve_ok_nonsingular.v",
    "C24/P_pge_spec.v",
    "C24/P_pffge_spec.v",
    "C24/P_LU_spec.v",
    "C24/P_LU_dichotomy.v",
    "C24/P_LU_complete.v",
    "C24/P_pivoted_LU_total.v",
    "C24/P_pivoted_LU_solve_spec.v",
    "C24/P_inverse_pivoted_LU_spec.v",
    "C24/P_LU_solve_guarded.v",
    "C24/P_inverse_LU_guarded.v",
    "C24/P_LDL_dichotomy.v",
    "C24/P_LDL_partial_sym.v",
    "C24/P_LDL_solve_guarded.v",
    "C24/P_cholesky_partial_sym.v",
    "C24/P_ffge_guarded_b.v",
    "C24/P_fflu_solve_guarded_b.v",
    "C24/P_inverse_fflu_guarded_b.v",
    "C24/P_ffge_solve_guarded_b.v",
    "C24/P_ffldu_guarded.v",
    "C24/P_det_swap.v",
    "C24/P_det_addrow.v",
    "C24/P_det_row_scale.v",
    "C24/P_det_upper_tri.v",
    "C24/P_det_bareis_correct.v",
    "C24/P_char_poly_1.v",
    "C24/P_char_poly_2.v",
    "C24/P_char_poly_3.v",
    "C24/P_char_poly_4.v",
    "C24/P_det_berkowitz_1.v",
    "C24/P_det_berkowitz_2.v",
    "C24/P_det_berkowitz_3.v",
    "C24/P_det_berkowitz_4.v",
    "C24/P_det_berkowitz_5.v",
    "C24/P_LU_finite_refuted.v",
    "C24/P_inverse_LU_refuted.v",
    "C24/P_nonvacuous.v",
]

# ----------------------------------------------------------------------------- matrices
PAL = [0, 0, 1, 1, -1, 2, -2, 3, -3, 4, 5, -7]
RAT = [Fraction(1, 2), Fraction(-1, 2), Fraction(2, 3), Fraction(-3, 4), Fraction(5, 3), Fraction(1, 7)]
BIG = [10**19 + 3, -(2**64) - 1, Fraction(10**20 + 1, 3), 2**31, -(2**32) + 5]


def ent(rng, zero_p=0.15, rat_p=0.15, big_p=0.01):
    q = rng.random()
    if q < zero_p:
        return Fraction(0)
    if q < zero_p + rat_p:
        return rng.choice(RAT)
    if q < zero_p + rat_p + big_p:
        return Fraction(rng.choice(BIG))
    return Fraction(rng.choice(PAL))


def fstr(x):
    if isinstance(x, str):
        return x
    x = Fraction(x)
    return str(x.numerator) if x.denominator == 1 else "%d/%d" % (x.numerator, x.denominator)


def mstr(M):
    r = len(M)
    c = len(M[0]) if r else 0
    flat = [fstr(e) for row in M for e in row]
    return "%d %d %s" % (r, c, ",".join(flat) if flat else "-")


def rand_matrix(rng, r, c, **kw):
    return [[ent(rng, **kw) for _ in range(c)] for _ in range(r)]


def mmul(A, B):
    return [[sum((A[i][k] * B[k][j] for k in range(len(B))), Fraction(0)) for j in range(len(B[0]))]
            for i in range(len(A))]


def transpose(A):
    return [list(r) for r in zip(*A)] if A else []


def rank(A):
    M = [list(r) for r in A]
    rk = 0
    rows = len(M)
    cols = len(M[0]) if rows else 0
    for c in range(cols):
        p = next((i for i in range(rk, rows) if M[i][c] != 0), None)
        if p is None:
            continue
        M[rk], M[p] = M[p], M[rk]
        for i in range(rows):
            if i != rk and M[i][c] != 0:
                f = M[i][c] / M[rk][c]
                M[i] = [a - f * b for a, b in zip(M[i], M[rk])]
        rk += 1
    return rk


def leading_minors_nonzero(A):
    n = min(len(A), len(A[0]) if A else 0)
    return all(rank([row[:k] for row in A[:k]]) == k for k in range(1, n + 1))


def square_of_kind(rng, n, kind):
    """square matrices aimed at the case splits of the eliminations"""
    if kind == "random":
        return rand_matrix(rng, n, n)
    if kind == "dense":
        return rand_matrix(rng, n, n, zero_p=0.0)
    if kind == "singular":                      # a row is a combination of the others
        A = rand_matrix(rng, n, n, zero_p=0.05)
        if n >= 2:
            t = rng.randrange(n)
            others = [i for i in range(n) if i != t]
            co = [Fraction(rng.choice([0, 1, -1, 2])) for _ in others]
            A[t] = [sum((cf * A[i][j] for cf, i in zip(co, others)), Fraction(0)) for j in range(n)]
        else:
            A = [[Fraction(0)]]
        return A
    if kind == "zero-col":                      # leading columns without pivot (skipped column)
        A = rand_matrix(rng, n, n, zero_p=0.05)
        z = rng.randrange(max(1, n - 1))
        for i in range(n):
            A[i][z] = Fraction(0)
        return A
    if kind == "zero-pivot":                    # needs a row exchange at some step, non-singular mostly
        A = rand_matrix(rng, n, n, zero_p=0.05)
        A[0][0] = Fraction(0)
        return A
    if kind == "zero-minor":                    # a later leading minor vanishes
        A = rand_matrix(rng, n, n, zero_p=0.05)
        if n >= 2:
            k = rng.randrange(1, n)
            # make row k of the leading (k+1)-block equal to row k-1 of it
            for j in range(k + 1):
                A[k][j] = A[k - 1][j]
        return A
    if kind == "perm":                          # permutation matrix times diagonal
        p = list(range(n))
        rng.shuffle(p)
        return [[(Fraction(rng.choice([1, 2, -1, 3])) if p[i] == j else Fraction(0)) for j in range(n)] for i in range(n)]
    if kind == "upper":
        return [[(ent(rng, zero_p=0.05) if j >= i else Fraction(0)) for j in range(n)] for i in range(n)]
    if kind == "lower":
        return [[(ent(rng, zero_p=0.05) if j <= i else Fraction(0)) for j in range(n)] for i in range(n)]
    if kind == "unit-lower":
        return [[(Fraction(1) if j == i else ent(rng) if j < i else Fraction(0)) for j in range(n)] for i in range(n)]
    if kind == "upper-nz":
        return [[(Fraction(rng.choice([1, -1, 2, 3, -2])) if j == i else ent(rng) if j > i else Fraction(0))
                 for j in range(n)] for i in range(n)]
    if kind == "diag":
        return [[(Fraction(rng.choice([1, -1, 2, 3, 5])) if j == i else Fraction(0)) for j in range(n)] for i in range(n)]
    if kind == "identity":
        return [[Fraction(int(i == j)) for j in range(n)] for i in range(n)]
    if kind == "zero":
        return [[Fraction(0)] * n for _ in range(n)]
    if kind == "symmetric":
        A = rand_matrix(rng, n, n)
        return [[A[min(i, j)][max(i, j)] for j in range(n)] for i in range(n)]
    if kind == "spd":                           # L0 * L0^T with rational L0, positive diagonal
        L = [[(Fraction(rng.choice([1, 2, 3, Fraction(1, 2)])) if j == i else
               Fraction(rng.choice([0, 1, -1, 2, Fraction(1, 2)])) if j < i else Fraction(0)) for j in range(n)]
             for i in range(n)]
        return mmul(L, transpose(L))
    if kind == "ldl":                           # L0 * D * L0^T, D with both signs
        L = [[(Fraction(1) if j == i else Fraction(rng.choice([0, 1, -1, 2])) if j < i else Fraction(0))
              for j in range(n)] for i in range(n)]
        D = [[(Fraction(rng.choice([1, -1, 2, 3, -5])) if j == i else Fraction(0)) for j in range(n)] for i in range(n)]
        return mmul(mmul(L, D), transpose(L))
    raise ValueError(kind)


SQUARE_KINDS = ["random", "random", "dense", "dense", "singular", "zero-col", "zero-pivot", "zero-pivot",
                "zero-minor", "perm", "upper", "lower", "diag", "identity", "zero", "symmetric", "spd", "ldl"]


def size(rng, tier, lo=1):
    hi = 5 if tier == "quick" else 6
    return rng.choice([n for n in [1, 2, 2, 3, 3, 3, 4, 4, 4, 5, hi] if n >= lo])


def rect_of_kind(rng, tier):
    """rectangular matrices for the eliminations / rref: wide (augmented), tall, rank-deficient"""
    r = size(rng, tier)
    c = size(rng, tier)
    kind = rng.choice(["random", "augmented", "deficient", "zero-col", "tall", "zero"])
    if kind == "augmented":
        c = r + rng.choice([1, 1, 2])
    if kind == "tall":
        r = c + rng.choice([1, 2])
    A = rand_matrix(rng, r, c, zero_p=0.2 if kind == "random" else 0.05)
    if kind == "deficient" and r >= 2:
        t = rng.randrange(1, r)
        A[t] = [2 * x for x in A[t - 1]]
        if rng.random() < 0.5 and r >= 3:
            A[rng.randrange(r)] = [Fraction(0)] * c
    if kind == "zero-col":
        for z in set(rng.randrange(c) for _ in range(rng.choice([1, 1, 2]))):
            for i in range(r):
                A[i][z] = Fraction(0)
    if kind == "zero":
        A = [[Fraction(0)] * c for _ in range(r)]
    return A


def with_specials(rng, A):
    """put a zoo / nan into a matrix (ties the arithmetic tables of the model to the library)"""
    A = [list(r) for r in A]
    for _ in range(rng.choice([1, 1, 2])):
        A[rng.randrange(len(A))][rng.randrange(len(A[0]))] = rng.choice(["zoo", "nan", "zoo"])
    return A


# ----------------------------------------------------------------------------- case generators
def gen_basic(rng, tier):
    op = rng.choice(["add", "adds", "mul", "emul", "muls", "transpose", "submatrix", "row_insert", "col_insert",
                     "row_join", "col_join", "row_del", "col_del", "row_exchange", "row_mul_scalar", "row_add_row",
                     "col_exchange", "is_sym", "is_lower", "is_upper", "trace", "eye"])
    r, c = size(rng, tier), size(rng, tier)
    A = rand_matrix(rng, r, c)
    sp = rng.random() < 0.12
    if sp:
        A = with_specials(rng, A)
    if op in ("add", "emul"):
        B = rand_matrix(rng, r, c)
        if rng.random() < 0.1:
            B = with_specials(rng, B)
        return "%s %s %s" % (op, mstr(A), mstr(B))
    if op in ("adds", "muls"):
        k = rng.choice([fstr(ent(rng)), fstr(ent(rng)), "0", "1", "-1", "zoo", "nan"])
        return "%s %s %s" % (op, mstr(A), k)
    if op == "mul":
        k = size(rng, tier)
        B = rand_matrix(rng, c, k)
        if rng.random() < 0.1:
            B = with_specials(rng, B)
        return "mul %s %s" % (mstr(A), mstr(B))
    if op == "transpose":
        return "transpose %s" % mstr(A)
    if op == "submatrix":
        rs = rng.randrange(r)
        re_ = rng.randrange(rs, r)
        cs = rng.randrange(c)
        ce = rng.randrange(cs, c)
        return "submatrix %s %d %d %d %d %d %d" % (mstr(A), rs, cs, re_, ce, rng.choice([1, 1, 1, 2, 3]), rng.choice([1, 1, 1, 2, 3]))
    if op in ("row_insert", "col_join"):
        B = rand_matrix(rng, size(rng, tier), c)
        if op == "col_join":
            return "col_join %s %s" % (mstr(A), mstr(B))
        return "row_insert %s %s %d" % (mstr(A), mstr(B), rng.choice([0, r, rng.randrange(r + 1)]))
    if op in ("col_insert", "row_join"):
        B = rand_matrix(rng, r, size(rng, tier))
        if op == "row_join":
            return "row_join %s %s" % (mstr(A), mstr(B))
        return "col_insert %s %s %d" % (mstr(A), mstr(B), rng.choice([0, c, rng.randrange(c + 1)]))
    if op == "row_del":
        return "row_del %s %d" % (mstr(A), rng.choice([0, r - 1, rng.randrange(r)]))
    if op == "col_del":
        return "col_del %s %d" % (mstr(A), rng.choice([0, c - 1, rng.randrange(c)]))
    if op == "row_exchange":
        if r < 2:
            A = rand_matrix(rng, 2, c)
            r = 2
        i = rng.randrange(r)
        j = rng.choice([k for k in range(r) if k != i])
        return "row_exchange %s %d %d" % (mstr(A), i, j)
    if op == "col_exchange":
        if c < 2:
            A = rand_matrix(rng, r, 2)
            c = 2
        i = rng.randrange(c)
        j = rng.choice([k for k in range(c) if k != i])
        return "col_exchange %s %d %d" % (mstr(A), i, j)
    if op == "row_mul_scalar":
        return "row_mul_scalar %s %d %s" % (mstr(A), rng.randrange(r), rng.choice([fstr(ent(rng)), "0", "-1", "zoo"]))
    if op == "row_add_row":
        if r < 2:
            A = rand_matrix(rng, 2, c)
            r = 2
        i = rng.randrange(r)
        j = rng.choice([k for k in range(r) if k != i])
        return "row_add_row %s %d %d %s" % (mstr(A), i, j, fstr(ent(rng)))
    if op in ("is_sym", "is_lower", "is_upper", "trace"):
        n = size(rng, tier)
        S = square_of_kind(rng, n, rng.choice(["random", "symmetric", "upper", "lower", "diag", "zero", "identity"]))
        if op == "is_sym" and rng.random() < 0.2:
            S = rand_matrix(rng, n, n + 1)
        if sp and op == "trace":
            S = with_specials(rng, S)
        return "%s %s" % (op, mstr(S))
    n = size(rng, tier)
    return "eye %d %d" % (n, n)


def gen_elim(rng, tier):
    op = rng.choice(["pge", "pffge", "pgj", "pffgj", "rref0", "rref1", "ffge", "ffgj", "pgj", "rref0"])
    if op in ("ffge", "ffgj"):
        # the unpivoted variants: square / augmented / tall inputs (ffgj reads outside the vector on wide ones)
        n = size(rng, tier)
        kind = rng.choice(["dense", "dense", "random", "zero-pivot", "zero-minor", "upper-nz"])
        A = square_of_kind(rng, n, kind)
        shape = rng.random()
        if shape < 0.35:
            A = [row + [ent(rng)] for row in A]                       # augmented
        elif shape < 0.5:
            A = A + [[ent(rng) for _ in range(n)]]                    # tall
        if op == "ffgj" and shape < 0.35 and rng.random() < 0.8:
            A = [row[:-1] for row in A]                               # mostly keep ffgj off wide inputs
        return "%s %s" % (op, mstr(A))
    if rng.random() < 0.5:
        n = size(rng, tier)
        A = square_of_kind(rng, n, rng.choice(SQUARE_KINDS))
        if rng.random() < 0.4:
            A = [row + [ent(rng)] for row in A]
    else:
        A = rect_of_kind(rng, tier)
    if op.startswith("rref"):
        return "rref %s %s" % (mstr(A), op[-1])
    return "%s %s" % (op, mstr(A))


def gen_solve(rng, tier):
    op = rng.choice(["ffge_solve", "ffgj_solve", "ffgj_solve", "fflu_solve", "lu_solve", "plu_solve", "plu_solve",
                     "ldl_solve", "diag_solve", "back_sub", "fwd_sub"])
    n = size(rng, tier)
    if op == "diag_solve":
        A = square_of_kind(rng, n, "diag")
    elif op == "back_sub":
        A = square_of_kind(rng, n, rng.choice(["upper-nz", "upper-nz", "upper", "random"]))
    elif op == "fwd_sub":
        A = square_of_kind(rng, n, rng.choice(["unit-lower", "unit-lower", "lower", "random"]))
    elif op == "ldl_solve":
        A = square_of_kind(rng, n, rng.choice(["ldl", "spd", "symmetric", "symmetric", "random", "diag"]))
    elif op in ("plu_solve", "ffgj_solve"):
        A = square_of_kind(rng, n, rng.choice(SQUARE_KINDS))
    else:
        A = square_of_kind(rng, n, rng.choice(["dense", "dense", "random", "upper-nz", "spd", "zero-pivot", "zero-minor", "perm", "singular"]))
    k = rng.choice([1, 1, 2, 3])
    b = rand_matrix(rng, n, k)
    if op == "ffgj_solve":
        return "ffgj_solve %s %s %d" % (mstr(A), mstr(b), rng.choice([1, 1, 1, 0]))
    return "%s %s %s" % (op, mstr(A), mstr(b))


def gen_factor(rng, tier):
    op = rng.choice(["lu", "plu", "plu", "fflu", "ffldu", "ldl", "cholesky"])
    n = size(rng, tier)
    if op == "ldl":
        A = square_of_kind(rng, n, rng.choice(["ldl", "ldl", "spd", "symmetric", "diag"]))
    elif op == "cholesky":
        A = square_of_kind(rng, n, rng.choice(["spd", "spd", "spd", "diag", "symmetric"]))
    elif op == "plu":
        A = square_of_kind(rng, n, rng.choice(SQUARE_KINDS))
    else:
        A = square_of_kind(rng, n, rng.choice(["dense", "dense", "random", "upper-nz", "spd", "unit-lower", "zero-pivot", "zero-minor", "perm", "singular"]))
    return "%s %s" % (op, mstr(A))


def gen_det(rng, tier):
    op = rng.choice(["det_bareis", "det_bareis", "det_berkowitz", "char_poly", "berkowitz"])
    n = size(rng, tier) if rng.random() < 0.5 else rng.choice([4, 4, 5, 5 if tier == "quick" else 6])
    A = square_of_kind(rng, n, rng.choice(SQUARE_KINDS))
    return "%s %s" % (op, mstr(A))


def gen_inverse(rng, tier):
    op = rng.choice(["inv_fflu", "inv_lu", "inv_plu", "inv_plu", "inv_gj", "inv_gj"])
    n = size(rng, tier)
    if op in ("inv_plu", "inv_gj"):
        A = square_of_kind(rng, n, rng.choice(SQUARE_KINDS))
    else:
        A = square_of_kind(rng, n, rng.choice(["dense", "dense", "random", "upper-nz", "spd", "unit-lower", "zero-pivot", "zero-minor", "perm", "singular"]))
    return "%s %s" % (op, mstr(A))


def gstr(z):
    """a Gaussian rational (re, im) in the entry syntax <re>_<im>"""
    re_, im = z
    return fstr(re_) if im == 0 else "%s_%s" % (fstr(re_), fstr(im))


def gen_gauss(rng, tier):
    """Gaussian-rational entries: outside the model (entries are exact rationals there); the library's result is
    judged by the driver's oracle only (same reference algorithms over Q(i))"""
    def gent():
        q = rng.random()
        if q < 0.15:
            return (Fraction(0), Fraction(0))
        if q < 0.45:
            return (ent(rng), Fraction(0))
        return (ent(rng, rat_p=0.1), Fraction(rng.choice([1, -1, 2, -2, 3, Fraction(1, 2), Fraction(-2, 3)])))

    def gmat(r, c):
        return "%d %d %s" % (r, c, ",".join(gstr(gent()) for _ in range(r * c)))
    op = rng.choice(["add", "mul", "transpose", "pgj", "pffgj", "rref0", "rref1", "plu", "plu_solve", "inv_plu", "inv_gj",
                     "ffgj_solve", "det_bareis", "det_berkowitz", "char_poly", "row_add_row"])
    n = rng.choice([1, 2, 2, 3, 3, 4])
    if op == "add":
        return "add %s %s" % (gmat(n, 3), gmat(n, 3))
    if op == "mul":
        k = rng.choice([1, 2, 3])
        return "mul %s %s" % (gmat(n, k), gmat(k, 2))
    if op == "transpose":
        return "transpose %s" % gmat(n, rng.choice([1, 2, 3]))
    if op in ("pgj", "pffgj"):
        return "%s %s" % (op, gmat(n, rng.choice([n, n + 1, 2])))
    if op in ("rref0", "rref1"):
        return "rref %s %s" % (gmat(n, rng.choice([n, n + 1, 2])), op[-1])
    if op in ("plu_solve", "ffgj_solve"):
        return "%s %s %s%s" % (op, gmat(n, n), gmat(n, rng.choice([1, 2])), " 1" if op == "ffgj_solve" else "")
    if op == "row_add_row":
        n = max(n, 2)
        return "row_add_row %s 0 1 %s" % (gmat(n, 3), gstr(gent()))
    return "%s %s" % (op, gmat(n, n))


def gen_qr(rng, tier):
    """QR (not modelled: oracle only) on A = Q0 * R0 with Q0 a product of rational Givens rotations and R0 upper
    triangular with a positive diagonal, so that every Gram-Schmidt norm is rational"""
    n = rng.choice([2, 3, 3, 4])
    c = rng.randint(1, n)
    Q = [[Fraction(int(i == j)) for j in range(n)] for i in range(n)]
    for _ in range(rng.randint(1, 4)):
        i, j = rng.sample(range(n), 2)
        cs, sn = rng.choice([(Fraction(3, 5), Fraction(4, 5)), (Fraction(5, 13), Fraction(12, 13)),
                             (Fraction(8, 17), Fraction(15, 17)), (Fraction(0), Fraction(1))])
        G = [[Fraction(int(a == b)) for b in range(n)] for a in range(n)]
        G[i][i], G[j][j], G[i][j], G[j][i] = cs, cs, -sn, sn
        Q = mmul(G, Q)
    R = [[(Fraction(rng.choice([1, 2, 3, Fraction(1, 2)])) if j == i else ent(rng) if j > i else Fraction(0))
          for j in range(c)] for i in range(c)]
    A = mmul([row[:c] for row in Q], R)
    return "qr %s" % mstr(A)


ORACLE_ONLY = {"qr"}

GENS = [gen_basic, gen_basic, gen_elim, gen_elim, gen_solve, gen_solve, gen_factor, gen_det, gen_inverse, gen_gauss, gen_qr]

CORPUS = [
    # DESIGN.md section 11 row 22: column counter used as pivot row after a skipped column
    "pge 3 3 0,1,2,0,3,4,0,5,7",
    "pffge 3 3 0,1,2,0,3,4,0,5,7",
    "pgj 3 3 0,1,2,0,3,4,0,5,7",
    "pffgj 3 3 0,1,2,0,3,4,0,5,7",
    "rref 3 3 0,1,2,0,3,4,0,5,7 0",
    "rref 3 3 0,1,2,0,3,4,0,5,7 1",
    "rref 3 4 1,2,3,4,2,4,6,9,0,0,1,1 1",
    # row 44: unpivoted routines on a zero leading minor
    "lu 2 2 0,1,1,0",
    "plu 2 2 0,1,1,0",
    "inv_lu 2 2 0,1,1,0",
    "inv_fflu 2 2 0,1,1,0",
    "lu_solve 2 2 0,1,1,0 2 1 1,2",
    "fflu_solve 3 3 1,2,3,2,4,5,1,0,1 3 1 1,2,3",
    "ffge_solve 3 3 1,2,3,2,4,5,1,0,1 3 1 1,2,3",
    "inv_gj 2 2 0,1,1,0",
    "inv_plu 3 3 1,2,3,4,5,6,7,8,10",
    "plu 3 3 1,2,3,4,5,6,7,8,9",
    # singular input where the pivot search of fraction_free_gauss_jordan_solve runs off the matrix
    "inv_gj 2 2 1,2,2,4",
    "ffgj_solve 2 2 1,2,2,4 2 1 1,2 1",
    # wide input of the unpivoted fraction-free Gauss-Jordan elimination
    "ffgj 2 3 1,2,3,4,5,6",
    "ffgj 2 2 1,2,3,4",
    "det_bareis 4 4 1,2,3,4,5,6,7,8,2,6,4,8,3,1,1,2",
    "det_bareis 4 4 0,2,3,4,0,6,7,8,0,6,4,8,0,1,1,2",
    "det_bareis 4 4 0,2,3,4,5,6,7,8,2,6,4,8,3,1,1,2",
    "det_bareis 4 4 1,0,0,0,5,6,0,0,2,6,4,0,3,1,1,2",
    "det_berkowitz 4 4 1,2,3,4,5,6,7,8,2,6,4,8,3,1,1,2",
    "det_berkowitz 1 1 7",
    "char_poly 3 3 1,2,3,4,5,6,7,8,10",
    "berkowitz 3 3 1,2,3,4,5,6,7,8,10",
    "ldl 2 2 4,2,2,3",
    "ldl_solve 2 2 4,2,2,3 2 1 1,1",
    "ldl_solve 2 2 4,2,1,3 2 1 1,1",
    "cholesky 2 2 4,2,2,10",
    "cholesky 2 2 2,0,0,1",
    "ffldu 3 3 1,2,3,4,5,6,7,8,10",
    "submatrix 3 3 1,2,3,4,5,6,7,8,9 0 0 2 2 2 2",
    "mul 2 2 zoo,1,0,nan 2 2 0,1,1,zoo",
    "add 1 3 zoo,nan,zoo 1 3 nan,zoo,zoo",
    "trace 2 2 zoo,0,0,nan",
    "row_del 1 3 1,2,3 0",
    "col_del 3 1 1,2,3 0",
]


class G:
    """Gaussian rational (only what rank() needs)"""
    def __init__(self, re_, im=0):
        self.re, self.im = Fraction(re_), Fraction(im)

    def __eq__(self, o):
        o = o if isinstance(o, G) else G(o)
        return self.re == o.re and self.im == o.im

    def __ne__(self, o):
        return not self == o

    def __sub__(self, o):
        return G(self.re - o.re, self.im - o.im)

    def __mul__(self, o):
        return G(self.re * o.re - self.im * o.im, self.re * o.im + self.im * o.re)

    def __truediv__(self, o):
        n = o.re * o.re + o.im * o.im
        return G((self.re * o.re + self.im * o.im) / n, (self.im * o.re - self.re * o.im) / n)


def first_matrix(case):
    t = case.split()
    try:
        r, c = int(t[1]), int(t[2])
        es = [] if t[3] == "-" else t[3].split(",")
        if len(es) != r * c or any(e in ("zoo", "nan") for e in es):
            return None
        if "_" in t[3]:
            es = [G(*e.split("_")) if "_" in e else G(e) for e in es]
        else:
            es = [Fraction(e) for e in es]
        return [[es[i * c + j] for j in range(c)] for i in range(r)]
    except (ValueError, IndexError):
        return None


def classify(case):
    """coarse class of the first matrix argument (used in violation keys for crashes)"""
    A = first_matrix(case)
    if A is None or not A:
        return "other"
    r, c = len(A), len(A[0])
    if r != c:
        return "wide" if c > r else "tall"
    if rank(A) < r:
        return "singular"
    return "nonsingular" if leading_minors_nonzero(A) else "nonsingular-zero-leading-minor"


def nontrivial(case):
    """at least a 2x2 first matrix that is neither zero nor the identity"""
    A = first_matrix(case)
    if A is None or len(A) < 2 or len(A[0]) < 2:
        return False
    n = min(len(A), len(A[0]))
    ident = all(A[i][j] == (1 if i == j else 0) for i in range(len(A)) for j in range(len(A[0])))
    zero = all(e == 0 for row in A for e in row)
    return not (ident or zero)


# routines that are documented as unpivoted: they divide by whatever is on the diagonal
UNPIVOTED = {"lu", "fflu", "ffldu", "ldl", "ffge", "ffgj", "lu_solve", "fflu_solve", "ffge_solve", "ffgj_solve-nopivot",
             "ldl_solve", "inv_lu", "inv_fflu"}


def finding_class(cls):
    """violation key from the oracle's class `<op>:<kind>-<input class>`: the failures of the unpivoted
    routines on inputs with a vanishing leading minor and those of the pivoted Gaussian eliminations after a
    column without pivot are one class per routine, whatever garbage comes out"""
    op, _, rest = cls.partition(":")
    if op in UNPIVOTED and rest.endswith("zero-leading-minor"):
        return op + ":zero-pivot-unpivoted"
    if op in ("pge", "pffge") and rest.endswith("skipped-column"):
        return op + ":skipped-column"
    return cls


def norm_model(m):
    # an access outside a vector is an abort of the library (-D_GLIBCXX_ASSERTIONS)
    return "CRASH:6" if m.startswith("OOB:") else m


def explore(ctx, drv, model, cases, search=False):
    if drv is None or model is None:
        return 0
    impl = ctx.run_lines(drv, cases, timeout=1800, shards=16)
    mod = ctx.run_lines(model, cases, timeout=1800, shards=16)
    ctx.cov["evaluations"] += len(cases)
    ctx.cov["distinct_nontrivial"] += len(set(c for c in cases if nontrivial(c)))
    ctx.cov["traces_validated_against_impl"] += sum(1 for c in cases if "_" not in c.split(None, 1)[1] and c.split()[0] not in ORACLE_ONLY)
    if not search:
        ctx.cov["samples"] += [{"case": c, "model": m, "impl": i} for c, m, i in list(zip(cases, mod, impl))[:8]]
    ndis = 0
    for c, m, i in zip(cases, mod, impl):
        canon, _, oracle = i.partition("\t#ORACLE:")
        op = c.split()[0]
        if oracle:
            cls, _, what = oracle.partition("|")
            cls = finding_class(cls)
            ctx.violation("C24/" + cls, "case `%s`: %s (library output %s)" % (c, what, canon[:300]),
                          {"family": "C24", "case": c, "impl": canon, "model": m})
        elif "CRASH" in canon or "HANG" in canon or "UNCAUGHT" in canon:
            ctx.violation("C24/%s:crash-%s" % (op, classify(c)),
                          "case `%s` ends with %s on the library (model: %s)" % (c, canon[-40:], m[-80:]),
                          {"family": "C24", "case": c, "impl": canon, "model": m})
        if "_" in c.split(None, 1)[1] or op in ORACLE_ONLY:
            continue                      # Gaussian-rational case / QR: oracle only (outside the model)
        if canon != norm_model(m):
            ndis += 1
            if ndis <= 3:
                ctx.broken.append({"kind": "correspondence", "name": "C24 " + op,
                                   "detail": "case `%s`\n model: %s\n impl:  %s" % (c, m, canon)})
    return ndis


def run(ctx):
    ctx.gate(["Base", "C24"])
    ctx.prove(PROOF_MODULES, OBLIGATIONS)
    drv = ctx.build_driver("c24_driver")
    model = ctx.build_model("C24", "C24/Extract.v", "c24_main.ml", "dense_model")
    ncases = 1500 if ctx.tier == "quick" else 30000
    cases = list(CORPUS)
    for k in range(ncases):
        cases.append(GENS[k % len(GENS)](ctx.rng, ctx.tier))
    explore(ctx, drv, model, cases)
    if ctx.broken and not any(v["key"] not in vlib.load_known(ctx.pid) for v in ctx.violations):
        # a proof or the tie broke: search harder for a concrete failing input
        extra = [GENS[k % len(GENS)](ctx.rng, "thorough") for k in range(6000)]
        explore(ctx, drv, model, extra, search=True)
    ctx.cov["rule"] = ("one dense-matrix operation per case (sums, products, transpose, submatrix, joins, deletions, row/column "
                       "operations, the six eliminations, rref, triangular/diagonal solves, the six solvers, LU/pivoted LU/FFLU/FFLDU/LDL/"
                       "cholesky, det_bareis, berkowitz, char_poly, the four inverses) on matrices up to 5x5 (6x6 thorough) of small "
                       "integers, rationals and a few multi-limb values, generated per kind: dense, singular, zero leading column, zero "
                       "first pivot, vanishing later leading minor, permutation, triangular, diagonal, symmetric, SPD, rank-deficient / "
                       "wide / tall rectangular, with zoo/nan entries in the basic operations; a case is non-trivial when its first "
                       "matrix is at least 2x2 and neither zero nor the identity; distinct = distinct case strings")
    ctx.assumptions += [
        "row_ * col_ < 2^32 (no wrap of the `unsigned` index arithmetic); the model computes indices in unbounded N",
        "the entries are Integer/Rational/zoo/nan: add/sub/mul/div/pow(.,2) of two such Basic objects are the tabulated "
        "functions [xadd xsub xmul xdiv xpow2] of the model (validated on every explored case, including zoo/nan operands)",
        "freshly sized result matrices hold null RCPs that every routine overwrites before reading (the model holds zeros there)",
        "SYMENGINE_ASSERT is compiled out (release build): calls violating the documented dimension preconditions are not generated",
        "symbolic square roots (cholesky/QR on non-square radicands) are outside the model; QR is not modelled; matrices with "
        "Gaussian-rational entries are outside the model and the theorems: on them the library is judged by the driver's oracle only",
    ]


def replay(ctx, rep):
    drv = ctx.build_driver("c24_driver")
    model = ctx.build_model("C24", "C24/Extract.v", "c24_main.ml", "dense_model")
    c = rep["replay"]["case"]
    print("case :", c)
    print("impl :", ctx.run_lines(drv, [c])[0])
    print("model:", norm_model(ctx.run_lines(model, [c])[0]))
