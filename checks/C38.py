"""C38 -- finite-difference weights (Fornberg recurrence) are exact.
Model: coq/C38/FdiffModel.v (generate_fdiff_weights_vector over Q with the flat index layout
weights[j + k*len_g], 32-bit index arithmetic, checked arrays, zoo/nan for repeated points).
Theorems: coq/C38/P_*.v.  Tie: weight vectors of the extracted model and of the library are
compared exactly; the driver evaluates exactness on the monomials x^d, d < n, in GMP arithmetic."""
from fractions import Fraction

import vlib

# not yet in coq/_CoqProject: the .vo files are used as compiled (see the final report)
PROOF_MODULES = ["C38/FdiffProofs.vo"]
OBLIGATIONS = [
    "C38/P_fornberg_exact.v",
    "C38/P_fornberg_invariant.v",
    "C38/P_fornberg_closed_form.v",
    "C38/P_fornberg_unique.v",
    "C38/P_fdiff_in_bounds.v",
    "C38/P_partition_of_unity.v",
    "C38/P_refuted.v",
    "C38/P_nonvacuous.v",
]

W32 = 1 << 32


def fr(x):
    x = Fraction(x)
    return str(x.numerator) if x.denominator == 1 else "%d/%d" % (x.numerator, x.denominator)


# ------------------------------------------------------------------ generators
def rand_rat(rng, kind):
    if kind == "int":
        return Fraction(rng.randint(-6, 6))
    if kind == "half":
        return Fraction(rng.randint(-12, 12), 2)
    if kind == "small":
        return Fraction(rng.randint(-20, 20), rng.choice([1, 2, 3, 4, 5, 7]))
    if kind == "huge":
        return Fraction(rng.randint(-10 ** 14, 10 ** 14), rng.randint(1, 10 ** 6))
    return Fraction(rng.randint(-1000, 1000), rng.randint(1, 1000))


def gen_grid(rng, n, allow_dup):
    kind = rng.choice(["int", "half", "small", "small", "small", "mixed", "mixed", "equi", "equi", "equi"] + (["huge"] if n <= 5 else []))
    if kind == "equi":
        x0 = rand_rat(rng, "small")
        h = rand_rat(rng, "small") or Fraction(1)
        pts = [x0 + h * j for j in range(n)]
        if rng.random() < 0.5:
            rng.shuffle(pts)
    else:
        pts = []
        tries = 0
        while len(pts) < n:
            p = rand_rat(rng, kind)
            tries += 1
            if p in pts and not allow_dup and tries < 1000:
                continue
            pts.append(p)
    if allow_dup and n >= 2:
        i, j = rng.sample(range(n), 2)
        pts[i] = pts[j]
    return pts


def gen_centre(rng, pts):
    r = rng.random()
    if pts and r < 0.35:
        return rng.choice(pts)                   # on a grid point: c4 or c5 = 0
    if pts and r < 0.45:
        return pts[0]
    if r < 0.55:
        return Fraction(0)
    if pts and r < 0.7:
        return (min(pts) + max(pts)) / 2
    return rand_rat(rng, rng.choice(["int", "small", "mixed"]))


def gen_numeric(rng, tier):
    nmax = 7 if tier == "quick" else 11
    n = rng.choice([1, 2, 2, 3, 3, 4, 4, 5, 5, 6, nmax])
    # max_deriv around the case split  mn = min(i, max_deriv):  below, at and above n - 1
    md = rng.choice([0, 1, 2, max(0, n - 2), n - 1, n, n + 1, n + 3])
    dup = rng.random() < 0.12
    pts = gen_grid(rng, n, dup)
    a = gen_centre(rng, pts)
    return "R %d %s %s" % (md, fr(a), " ".join(fr(p) for p in pts))


def gen_symbolic(rng, tier):
    """-> (Y line for the driver, R line for the model on the substituted grid)"""
    n = rng.choice([1, 2, 3, 3, 4, 5])
    md = rng.choice([0, 1, 2, n - 1, n])
    style = rng.choice(["xh", "syms", "mixed"])
    vals = {}
    pts = []      # (const, {sym: coeff})
    if style == "xh":
        cs = rng.sample(range(-4, 5), n)
        pts = [(Fraction(0), {"x": Fraction(1), "h": Fraction(c)}) for c in cs]
        centre = (Fraction(0), {"x": Fraction(1)}) if rng.random() < 0.7 else (Fraction(0), {"x": Fraction(1), "h": Fraction(1, 2)})
        vals = {"x": rand_rat(rng, "small"), "h": rand_rat(rng, "small") or Fraction(1, 3)}
    elif style == "syms":
        pts = [(Fraction(0), {"x%d" % j: Fraction(1)}) for j in range(n)]
        centre = (Fraction(0), {"a": Fraction(1)}) if rng.random() < 0.6 else pts[rng.randrange(n)]
        vs = rng.sample(range(-9, 10), n)
        vals = {"x%d" % j: Fraction(vs[j], rng.choice([1, 2, 3])) for j in range(n)}
        vals["a"] = rand_rat(rng, "small")
    else:
        cs = rng.sample(range(-5, 6), n)
        pts = [((Fraction(c), {}) if rng.random() < 0.5 else (Fraction(c), {"t": Fraction(1)})) for c in cs]
        centre = (Fraction(0), {"t": Fraction(1)}) if rng.random() < 0.5 else (Fraction(rng.randint(-3, 3)), {})
        vals = {"t": Fraction(rng.randint(-30, 30), 7) + Fraction(1, 11)}

    def show(p):
        c, m = p
        terms = []
        for s in sorted(m):
            terms.append(s if m[s] == 1 else "%s*%s" % (fr(m[s]), s))
        if c != 0 or not terms:
            terms.append(fr(c))
        return "+".join(terms)

    def val(p):
        c, m = p
        return c + sum(m[s] * vals[s] for s in m)

    nums = [val(p) for p in pts]
    if len(set(nums)) != len(nums):
        return None
    used = sorted(set(s for p in pts + [centre] for s in p[1]))
    y = "Y %d %s %s | %s" % (md, show(centre), " ".join(show(p) for p in pts),
                             " ".join("%s=%s" % (s, fr(vals[s])) for s in used))
    r = "R %d %s %s" % (md, fr(val(centre)), " ".join(fr(x) for x in nums))
    return y, r


def wrap_cases():
    """len_g*(max_deriv+1) >= 2^32 (and small modulo 2^32): the function must throw (it used to allocate
    len_w mod 2^32 weights and index outside them -- fixed in e537b42)"""
    out = []
    for n, md in [(1, W32 - 1), (2, (1 << 31) - 1), (2, 1 << 31), (4, (1 << 30) - 1), (4, 1 << 30),
                  (3, (W32 + 2) // 3 - 1), (3, (2 * W32 + 1) // 3 - 1), (8, (1 << 29)), (2, (1 << 31) + 1)]:
        assert (n * (md + 1)) % W32 < 64 and md < W32
        out.append("R %d 1/2 %s" % (md, " ".join(str(j) for j in range(n))))
    return out


CORPUS = [
    "R 2 0 0 1 2",                       # forward second difference: 1,-2,1
    "R 2 0 -1 0 1",
    "R 4 0 -2 -1 0 1 2",
    "R 0 5/3 1/2",                       # one point
    "R 3 5/3 1/2",                       # one point, derivatives of the constant are 0
    "R 1 1/2 0 1",
    "R 5 1/3 0 1 3",                     # max_deriv above the degree
    "R 3 1/3 -1/2 7/5 2 123456789012345678901234567890/7",
    "R 2 1 1 2 3 4",                     # centre = grid[0]: c4 = 0 at the start
    "R 2 2 1 2 3 4",                     # centre = grid[1]: c5 = 0 in stage 2
    "R 2 4 1 2 3 4",                     # centre = last point
    "R 2 0 0 1 1",                       # repeated points: zoo / nan arithmetic of div(a, 0)
    "R 2 0 1 1 2",
    "R 1 1 1 1",
    "R 2 1/2 1 2 1 3",
    "R 0 0",                             # empty grid
    "R 2 0",
] + wrap_cases()


def classify_case(c):
    t = c.split()
    md = int(t[1])
    pts = t[3:]
    n = len(pts)
    distinct = len(set(Fraction(p) for p in pts)) == n
    return n, md, distinct


def nontrivial(c):
    """the recurrence ran both update branches on at least two stages with k >= 1, on a valid grid"""
    n, md, distinct = classify_case(c)
    return n >= 3 and md >= 1 and distinct and n * (md + 1) < W32


# ------------------------------------------------------------------ the check
def run(ctx):
    ctx.gate(["Base", "C38"])
    ctx.prove(PROOF_MODULES, OBLIGATIONS)
    drv = ctx.build_driver("c38_driver")
    model = ctx.build_model("C38", "C38/Extract.v", "c38_main.ml", "fdiff_model")
    nnum = 700 if ctx.tier == "quick" else 12000
    nsym = 120 if ctx.tier == "quick" else 1500
    cases = [(c, c) for c in CORPUS]
    cases += [(c, c) for c in (gen_numeric(ctx.rng, ctx.tier) for _ in range(nnum))]
    if ctx.tier == "thorough":
        cases += [(c, c) for c in exhaustive_small()]
    for _ in range(nsym):
        p = gen_symbolic(ctx.rng, ctx.tier)
        if p:
            cases.append(p)
    explore(ctx, drv, model, cases)
    if ctx.broken and not ctx.violations:
        # a proof or the tie broke: search harder for a concrete failing input
        extra = [(c, c) for c in (gen_numeric(ctx.rng, "thorough") for _ in range(4000))]
        extra += [(c, c) for c in exhaustive_small()]
        explore(ctx, drv, model, extra, search=True)
    ctx.cov["rule"] = (
        "cases = (grid of rationals, centre, max_deriv) from one PRNG: grids of 1..7 (thorough: ..11) points -- small integers, "
        "halves, small and large rationals, equispaced, shuffled --, centres on a grid point (c4 = 0 / c5 = 0), at grid[0], midway "
        "and off the grid, max_deriv in {0,1,2,n-2,n-1,n,n+1,n+3} (the split mn = min(i, max_deriv)); 12% grids with a repeated "
        "point (zoo/nan arithmetic); the empty grid; max_deriv values for which len_g*(max_deriv+1) wraps modulo 2^32; symbolic "
        "grids (x + c*h, distinct symbols, t + c) whose weights are substituted and compared with the model on the substituted "
        "grid; thorough adds all grids of <= 4 points from {-1,0,1/2,1,2} with every centre of that set and max_deriv <= 4.  "
        "A case is non-trivial when the grid has >= 3 distinct points and max_deriv >= 1 (both update branches of the recurrence "
        "ran with k >= 1 on at least two stages); distinct = distinct case lines")
    ctx.assumptions += [
        "grid points and centre are exact rationals (SymEngine Integer/Rational, canonical); the theorems say nothing about "
        "symbolic or floating-point grids (symbolic grids are covered by substitution runs only)",
        "SymEngine's add/mul/div on Integer/Rational are exact rational arithmetic returning canonical values (modelled by Qc); "
        "div(a, 0) returns ComplexInf (a <> 0) or NaN, and add/mul propagate zoo/nan by the table in FdiffModel.v "
        "(validated by the correspondence runs on grids with repeated points)",
        "std::vector::operator[] outside the vector aborts (the library is built with -D_GLIBCXX_ASSERTIONS), so an access "
        "outside grid/weights would be observable as CRASH; the model's theorem fdiff_total excludes it",
        "max_deriv is an `unsigned` (< 2^32)",
        "grid.size() < 2^32 (numeric_cast<unsigned> is a plain cast in release builds)",
    ]


def exhaustive_small():
    import itertools
    vals = [Fraction(-1), Fraction(0), Fraction(1, 2), Fraction(1), Fraction(2)]
    out = []
    for n in range(1, 5):
        for pts in itertools.permutations(vals, n):
            for a in vals:
                for md in (0, 1, 2, 4):
                    out.append("R %d %s %s" % (md, fr(a), " ".join(fr(p) for p in pts)))
    return out


def crash_key(c):
    n, md, _ = classify_case(c)
    if n == 0:
        return "C38/oob-empty-grid"
    if n * (md + 1) >= W32:
        return "C38/oob-index-space-wraps"
    return "C38/crash"


def explore(ctx, drv, model, cases, search=False):
    if drv is None or model is None:
        return
    impl = ctx.run_lines(drv, [c[0] for c in cases], timeout=1800)
    mod = ctx.run_lines(model, [c[1] for c in cases], timeout=1800)
    ctx.cov["evaluations"] += len(cases)
    ctx.cov["distinct_nontrivial"] += len(set(c[1] for c in cases if nontrivial(c[1])))
    ctx.cov["traces_validated_against_impl"] += len(cases)
    if not search:
        ctx.cov["samples"] += [{"case": c[0], "model": m[:300], "impl": i[:300]}
                               for c, m, i in list(zip(cases, mod, impl))[:4] + list(zip(cases, mod, impl))[-2:]]
    ndis = 0
    for (c, cm), m, i in zip(cases, mod, impl):
        canon, _, oracle = i.partition("\t#ORACLE:")
        rep = {"family": "C38", "case": c, "model_case": cm, "impl": canon, "model": m}
        if oracle:
            ctx.violation("C38/weights-not-exact", "case `%s`: %s" % (c, oracle.strip()), rep)
        elif "CRASH" in canon or "HANG" in canon or "UNCAUGHT" in canon:
            key = crash_key(cm)
            ctx.violation(key, "case `%s` ends with %s on the library (model: %s)" % (c, canon[-40:], m[-60:]), rep)
            if not m.startswith("OOB"):
                ndis += 1
                if ndis <= 3:
                    ctx.broken.append({"kind": "correspondence", "name": "C38 crash not predicted by the model",
                                       "detail": "case `%s`\n model: %s\n impl:  %s" % (c, m, canon)})
        elif canon != m:
            ndis += 1
            if ndis <= 3:
                ctx.broken.append({"kind": "correspondence", "name": "C38 weight vector",
                                   "detail": "case `%s`\n model: %s\n impl:  %s" % (c, m[:1500], canon[:1500])})
    return ndis


def replay(ctx, rep):
    drv = ctx.build_driver("c38_driver")
    model = ctx.build_model("C38", "C38/Extract.v", "c38_main.ml", "fdiff_model")
    c = rep["replay"]["case"]
    cm = rep["replay"].get("model_case", c)
    print("case :", c)
    print("impl :", ctx.run_lines(drv, [c])[0])
    print("model:", ctx.run_lines(model, [cm])[0])
