"""C15 -- the C source emitted by the C code printers computes the expression's value.
Model: coq/C15/CModel.v (C89CodePrinter / C99CodePrinter, double and float precision, as a function from
expression trees to trees of C expressions and their text), coq/C15/CParse.v (reference reader of C
expressions).  Theorems: coq/C15/P_*.v (parenthesisation: the reference reader returns the printed tree;
no integer division; value over a field).  Tie: translator for the name tables; the emitted texts of
generated expressions are compared byte for byte with the model's.
ORACLE (testing, labelled as such): the emitted C is compiled with the system C compiler (gcc -std=c99)
into one program, run at three sample points and compared with the library's own numeric evaluation of
the expression (LambdaRealDoubleVisitor / eval_double)."""
import math
import os
import re
import struct
import tempfile

import vlib

PROOF_MODULES = ["C15/CSound.vo", "C15/CIntDiv.vo", "C15/CModelProofs.vo", "C15/CParseProofs.vo"]
OBLIGATIONS = [
    "C15/P_cprint_parse.v", "C15/P_cprint_parse_guarded.v", "C15/P_cprint_parse_refuted.v",
    "C15/P_no_int_div_guarded.v", "C15/P_no_int_div_refuted.v",
    "C15/P_ctree_sound_add_partial.v", "C15/P_ctree_sound_mul_partial.v", "C15/P_nonvacuous.v",
]


SYMS = ["x", "y", "z", "w", "ab"]
C_FUNCS1 = ["sin", "cos", "tan", "asin", "acos", "atan", "sinh", "cosh", "tanh", "asinh", "acosh", "atanh",
            "log", "exp", "abs", "floor", "ceiling", "truncate", "sign", "erf", "erfc", "gamma", "loggamma",
            "sqrt", "cbrt"]
RECIP = ["cot", "sec", "csc", "acot", "asec", "acsc", "coth", "sech", "csch", "acoth", "asech", "acsch"]
NONC_FUNCS1 = ["lambertw", "zeta", "dirichlet_eta", "conjugate"]
SMALL_INTS = ["0", "1", "-1", "2", "-2", "3", "-3", "5", "7", "10", "-12", "100"]
INTS = SMALL_INTS + ["2147483647", "2147483648", "-2147483649", "4294967296", "9007199254740992", "4611686018427387904"]
BIG_INTS = ["9223372036854775808", "-9223372036854775809", "18446744073709551616", "1180591620717411303424",
            "-100000000000000000000000000000"]
RATS = ["(q 1 2)", "(q -1 2)", "(q 1 3)", "(q -1 3)", "(q 2 3)", "(q -2 3)", "(q 3 2)", "(q 5 7)", "(q -7 4)",
        "(q 1 10)", "(q 123456789 1000)", "(q 1 9007199254740993)", "(q 100000000000000 3)",
        "(q 999999999999999 7)", "(q 1000000000000000 7)", "(q 1 36893488147419103233)"]
SMALL_RATS = ["(q 1 2)", "(q -1 2)", "(q 1 3)", "(q -1 3)", "(q 2 3)", "(q -2 3)", "(q 3 2)", "(q 5 7)", "(q -7 4)", "(q 1 10)"]
SMALL_DBLS = ["3ff8000000000000", "bff8000000000000", "3fb999999999999a", "4004000000000000", "c004000000000000",
              "3ff0000000000000", "bff0000000000000", "0000000000000000", "8000000000000000", "3fd5555555555555",
              "400921fb54442d18", "3f50624dd2f1a9fc", "40c3880000000000"]
DBLS = ["3ff8000000000000", "bff8000000000000", "3fb999999999999a", "4004000000000000", "c004000000000000",
        "3ff0000000000000", "bff0000000000000", "0000000000000000", "8000000000000000", "4340000000000000",
        "42d6bcc41e900000", "c2a2309ce5400000", "3ee4f8b588e368f1", "4480f0cf064dd592", "3fd5555555555555",
        "400921fb54442d18", "0000000000000001", "3f50624dd2f1a9fc", "40c3880000000000"]
NONFINITE_DBLS = ["7ff0000000000000", "fff0000000000000", "7ff8000000000000"]
WHITELIST = set("""sin cos tan asin acos atan atan2 sinh cosh tanh asinh acosh atanh log exp fabs floor ceil trunc erf
erfc tgamma lgamma sqrt cbrt pow fmax fmin INFINITY NAN HUGE_VAL x y z w ab""".split())
WHITELIST_F = set((n + "f") for n in """sin cos tan asin acos atan atan2 sinh cosh tanh asinh acosh atanh log exp fabs
floor ceil trunc erf erfc tgamma lgamma sqrt cbrt pow fmax fmin""".split()) | {"INFINITY", "NAN", "x", "y", "z", "w", "ab"}
POINTS = [(0.71, 1.37, 2.13, 0.43, 3.19), (1.93, 0.61, 0.29, 2.71, 1.13), (-0.83, 2.41, -1.57, 0.93, -2.19)]


# ------------------------------------------------------------------ generators
def g_num(rng, exotic=False, big=True):
    r = rng.random()
    if r < 0.5:
        return "(i %s)" % rng.choice(INTS if big else SMALL_INTS)
    if r < 0.75:
        return rng.choice(RATS if big else SMALL_RATS)
    if r < 0.95 or not exotic or not big:
        return "(d %s)" % rng.choice(DBLS if big else SMALL_DBLS)
    return "(i %s)" % rng.choice(BIG_INTS)


def g_leaf(rng, exotic=False, big=True):
    r = rng.random()
    if r < 0.55:
        return rng.choice(SYMS)
    if r < 0.9:
        return g_num(rng, exotic, big)
    return rng.choice(["pi", "E", "EulerGamma" if exotic else "pi"])


POW_EXPS = ["(i -1)", "(i 2)", "(i -2)", "(i 3)", "(q 1 2)", "(q -1 2)", "(q 1 3)", "(q -1 3)", "(q 2 3)", "(q 3 2)",
            "(d bff0000000000000)", "(d 4004000000000000)"]


SAFE_EXPS = ["x", "y", "(add x (i 1))", "(neg y)", "(mul (i 2) z)", "(div x (i 2))", "(add x y)", "(mul x y)",
             "(sub (i 1) w)", "(f1 sin x)", "(pow y (i -1))", "(q 7 2)", "(i 5)", "(i -3)"]


def g_arith(rng, depth, exotic=False, big=True):
    """arithmetic-valued expressions aimed at the printer's case splits: coefficients +1/-1/other,
    negative and rational coefficients, exponents -1, 1/2, 1/3, negative rationals, base E,
    sums inside products and powers, quotients with one or several denominator factors.
    big=False below a function call: large or inexactly representable constants there make the
    compiler oracle ill-conditioned (sin(1e14) ...)"""
    if depth <= 0 or rng.random() < 0.18:
        return g_leaf(rng, exotic, big)
    r = rng.random()
    a = g_arith(rng, depth - 1, exotic, big)
    if r < 0.22:
        return "(%s %s %s)" % (rng.choice(["add", "add", "sub"]), a, g_arith(rng, depth - 1, exotic, big))
    if r < 0.40:
        return "(mul %s %s)" % (a, g_arith(rng, depth - 1, exotic, big))
    if r < 0.52:
        return "(div %s %s)" % (a, g_arith(rng, depth - 1, exotic, big))
    if r < 0.57:
        return "(neg %s)" % a
    if r < 0.72:
        e = rng.choice(POW_EXPS) if rng.random() < 0.8 else rng.choice(SAFE_EXPS)
        b = a if rng.random() < 0.85 else "E"
        return "(pow %s %s)" % (b, e)
    if r < 0.86:
        f = rng.choice(C_FUNCS1)
        a = g_arith(rng, depth - 1, exotic, False)
        if f in ("gamma", "loggamma"):
            a = "(add %s %s)" % (rng.choice(SYMS), a)     # gamma of a large integer would be computed
        return "(f1 %s %s)" % (f, a)
    if r < 0.89:
        return "(f2 atan2 %s %s)" % (g_arith(rng, depth - 1, exotic, False), g_arith(rng, depth - 1, exotic, False))
    if r < 0.93:
        n = rng.randint(2, 5)
        return "(%s %s)" % (rng.choice(["max", "min"]), " ".join([a] + [g_arith(rng, depth - 1, exotic, big) for _ in range(n - 1)]))
    if r < 0.97:
        return g_pw(rng, depth - 1, exotic)
    if not exotic:
        return "(mul (i -1) %s)" % a
    r = rng.random()
    if r < 0.25:
        return "(f1 %s %s)" % (rng.choice(NONC_FUNCS1), a)
    if r < 0.45:
        return "(fs %s %s)" % (rng.choice(["f", "g"]), " ".join(g_arith(rng, 1, exotic) for _ in range(rng.randint(0, 3))))
    if r < 0.6:
        return "(f1 %s %s)" % (rng.choice(RECIP), g_arith(rng, depth - 1, exotic, False))
    if r < 0.75:
        return "(uneval %s)" % a
    if r < 0.85:
        return "(f2 %s %s %s)" % (rng.choice(["beta", "polygamma", "zeta", "kronecker_delta"]), a, g_arith(rng, 1, exotic))
    if r < 0.92:
        return "(dum %s)" % rng.choice(["d", "tmp"])
    return rng.choice(["oo", "-oo", "nan", "zoo", "I", "(c 1 2 3 4)"])


def g_rel(rng, depth, exotic=False):
    op = rng.choice(["eq", "ne", "lt", "le", "gt", "ge"])
    return "(%s %s %s)" % (op, g_arith(rng, depth, exotic), g_arith(rng, depth, exotic))


def g_bool(rng, depth, exotic=False):
    if depth <= 0 or rng.random() < 0.5:
        if exotic and rng.random() < 0.15:
            a, b = sorted(rng.sample(range(-3, 5), 2))
            lo = rng.choice(["(i %d)" % a, "-oo"])
            hi = rng.choice(["(i %d)" % b, "oo"])
            return "(contains %s (interval %s %s %d %d))" % (
                g_arith(rng, 1), lo, hi, 1 if lo == "-oo" else rng.randint(0, 1), 1 if hi == "oo" else rng.randint(0, 1))
        return g_rel(rng, 1, exotic)
    r = rng.random()
    if r < 0.35:
        return "(and %s %s)" % (g_bool(rng, depth - 1, exotic), g_bool(rng, depth - 1, exotic))
    if r < 0.7:
        return "(or %s %s)" % (g_bool(rng, depth - 1, exotic), g_bool(rng, depth - 1, exotic))
    if r < 0.85:
        return "(not %s)" % g_bool(rng, depth - 1, exotic)
    return "(xor %s %s)" % (g_bool(rng, depth - 1, exotic), g_bool(rng, depth - 1, exotic))


def g_pw(rng, depth, exotic=False):
    n = rng.randint(1, 3)
    parts = []
    for _ in range(n):
        parts.append(g_arith(rng, depth, exotic))
        parts.append(g_bool(rng, 1, exotic))
    parts.append(g_arith(rng, depth, exotic))
    parts.append("true")
    return "(pw %s)" % " ".join(parts)


def gen_case(rng, tier):
    r = rng.random()
    exotic = rng.random() < 0.25
    d = rng.choice([1, 2, 2, 3, 3]) if tier == "quick" else rng.choice([1, 2, 3, 3, 4])
    if r < 0.78:
        return g_arith(rng, d, exotic)
    if r < 0.88:
        return g_bool(rng, 2, exotic)
    return g_pw(rng, d - 1, exotic)


CORPUS = [
    # the case splits of Add / Mul / _print_pow
    "(add y (div (i 2) x))", "(add y (div (q 2 3) x))", "(sub y (div (i 2) x))", "(sub y (pow x (i -1)))",
    "(pow x (i -1))", "(pow (add x y) (i -1))", "(pow (mul x y) (i -1))", "(pow x (i -2))", "(pow x (q 1 2))",
    "(pow x (q 1 3))", "(pow x (q -1 2))", "(pow x (q -1 3))", "(pow x (q 2 3))", "(exp x)", "(pow E (i -1))",
    "(div y E)", "(mul y (exp (neg x)))", "(pow (i 2) x)", "(pow (q 1 2) x)", "(pow (i -2) x)", "(pow (neg x) y)",
    "(mulv (i -1) x y)", "(div (neg x) y)", "(div (i -1) (mul x y))", "(div (i 1) (mul x y))",
    "(mulv (pow x (i 2)) (pow y (i -2)) (pow z (q -1 2)))", "(mulv (i 2) (pow x (i 2)) (pow y (i -1)))",
    "(mulv (q 2 3) (pow x (i 2)) (pow y (i -1)))", "(mulv (q -2 3) x)", "(addv (mulv (q -2 3) x) y)",
    "(addv (mulv (i -2) x) y (i -5))", "(addv (mulv (i -1) x) (q -1 2))", "(mul (add x y) (add x z))",
    "(div (add x y) (add x z))", "(neg (add x y))", "(sub z (add x y))", "(add (mul (i 2) (add x y)) z)",
    "(add (mul x (d bff8000000000000)) y)", "(sub y (mul x (d 3ff8000000000000)))", "(mul x (d bff8000000000000))",
    "(pow x (d bff8000000000000))", "(add x (d bff8000000000000))", "(div y (mul (d 4004000000000000) x))",
    "(div x (f1 sqrt (i 2)))", "(div (f1 sqrt (i 2)) (f1 sqrt x))",
    # literals
    "(i 2147483648)", "(i -9223372036854775808)", "(i 9223372036854775807)", "(add x (i 9007199254740993))",
    "(d 7fefffffffffffff)", "(f1 abs (sub (mul pi z) (add x ab)))", "(sub (add x (mul (i 2) y)) (f1 abs (sub (mul pi z) (add x ab))))", "(q 1 9007199254740993)",
    "(q 3002399751580331 12297829382473034411)", "(d 42d6bcc41e900000)", "(d c2a2309ce5400000)", "(d 8000000000000000)",
    "(d 3ee4f8b588e368f1)", "(d 4480f0cf064dd592)", "(d 0000000000000001)", "(d 7fefffffffffffff)",
    # functions, constants
    "pi", "E", "EulerGamma", "(mul (i 2) pi)", "(f1 abs x)", "(f1 sign (add x y))", "(f1 floor x)", "(f1 ceiling x)",
    "(f1 truncate x)", "(f1 gamma x)", "(f1 loggamma x)", "(f1 erf x)", "(f2 atan2 x y)", "(max x y z w)",
    "(max x y z w ab)", "(min x (i 2))", "(max x (d 4004000000000000) (add y (i 1)))", "(fs f x y)", "(fs f)",
    "(f1 lambertw x)", "(f2 beta x y)", "(dum d)", "oo", "-oo", "nan", "zoo", "I", "(deriv (fs f x) x)",
    # logic and Piecewise
    "(lt x y)", "(ge x (i 0))", "(eq (add x y) z)", "(and (lt x y) (gt z (i 0)))", "(or (lt x y) (gt z (i 0)))",
    "(xor (lt x y) (gt z (i 0)))", "(not (and (lt x y) (gt z (i 0))))", "true", "false",
    "(pw x (lt x (i 0)) y true)", "(pw (pow x (i -1)) (lt x (i 0)) (pw y (lt y z) z true) true)",
    "(mul x (pw y (lt y z) z true))", "(pw x (lt x y) y (lt y z))",
    "(pw x (contains x (interval (i 1) (i 2) 0 1)) y true)", "(contains (add x y) (interval -oo (i 3) 1 1))",
    "(add x (lt x y))", "(mul x (lt x y))", "(f1 sin (lt x y))",
    # reproduced defects (known findings while unfixed)
    "(div (i 3) (pw (i 1) (lt x (i 0)) (i 2) true))", "(pow (pw (i 1) (lt x (i 0)) (i 2) true) (i -1))",
    "(lt (eq x y) z)", "(le (lt x y) z)", "(mul (uneval (add x y)) z)", "(pow (uneval (mul x y)) (i -1))",
    "(i 1180591620717411303424)", "(add x (i 9223372036854775808))", "(div y (f1 cot x))", "(pow (f1 csc x) (i -1))",
    "(add y (contains x (interval (i 1) (i 2) 0 0)))",
]


# ------------------------------------------------------------------ running
def unhex(f):
    return bytes.fromhex(f[2:]).decode("latin-1") if f.startswith("S:") else None


def run_cases(ctx, drv, model, cases, per_line=20):
    """returns a list of records: recipe, dump, impl (5 printer fields), refs, oracle, model (5 fields), flags"""
    lines = [" ;; ".join(cases[i:i + per_line]) for i in range(0, len(cases), per_line)]
    impl = ctx.run_lines(drv, lines, timeout=2400, shards=8)
    recs = []
    dump_lines = []
    for line, out in zip(lines, impl):
        rs = line.split(" ;; ")
        parts = out.split(" ;; ")
        if len(parts) != len(rs):
            parts = [out] * len(rs)
        dl = []
        for r, p in zip(rs, parts):
            body, _, oracle = p.partition("\t#ORACLE:")
            f = body.split("\t")
            rec = {"recipe": r, "raw": p, "oracle": oracle.strip()}
            if len(f) == 7:
                rec.update({"dump": f[0], "impl": f[1:6], "refs": f[6]})
                dl.append(f[0] if "Opaque" not in f[0] else "(Opaque)")
            else:
                rec["bad"] = body[-200:]
                dl.append("(Opaque)")
            recs.append(rec)
        dump_lines.append(" ;; ".join(dl))
    mod = ctx.run_lines(model, dump_lines, timeout=2400, shards=8)
    k = 0
    for dline, out in zip(dump_lines, mod):
        n = len(dline.split(" ;; "))
        parts = out.split(" ;; ")
        if len(parts) != n:
            parts = [out] * n
        for p in parts:
            f = p.split("\t")
            if len(f) == 6:
                recs[k]["model"] = f[:5]
                recs[k]["flags"] = f[5]
            else:
                recs[k]["model_bad"] = p[-200:]
            k += 1
    return recs


C_HEAD = r"""#define _POSIX_C_SOURCE 200809L
#define _DEFAULT_SOURCE 1
#include <math.h>
#include <stdio.h>
#include <string.h>
#include <signal.h>
#include <setjmp.h>
static sigjmp_buf jb;
static void on_fpe(int s) { (void)s; siglongjmp(jb, 1); }
static void out(int id, int k, double r) { unsigned long long u; memcpy(&u, &r, 8); printf("%d %d %016llx\n", id, k, u); }
static const double P[3][5] = {{0.71, 1.37, 2.13, 0.43, 3.19}, {1.93, 0.61, 0.29, 2.71, 1.13}, {-0.83, 2.41, -1.57, 0.93, -2.19}};
"""


def identifiers(text):
    # identifiers that are not the exponent/suffix part of a number
    t = re.sub(r"\d+\.?\d*(?:e[+-]?\d+)?f?", " 0 ", text)
    return set(re.findall(r"[A-Za-z_][A-Za-z_0-9]*", t))


def compile_and_run(ctx, items):
    """items: list of (id, kind 'd'|'f', text).  Returns ({(id,kind): [3 floats or 'FPE']}, {(id,kind): compile error})."""
    results, errors = {}, {}
    items = list(items)
    for attempt in range(4):
        if not items:
            break
        with tempfile.TemporaryDirectory(prefix="c15-", dir=os.path.join(vlib.WORK)) as d:
            src = [C_HEAD]
            spans = []
            for (i, kind, text) in items:
                start = sum(s.count("\n") for s in src) + 1
                ty = "double" if kind == "d" else "float"
                src.append("static %s f%s_%d(%s x, %s y, %s z, %s w, %s ab) { return (%s)(\n%s\n); }\n" % (
                    ty, kind, i, ty, ty, ty, ty, ty, ty, text))
                spans.append((start, start + src[-1].count("\n"), (i, kind)))
            src.append("int main(void) { int k; signal(SIGFPE, on_fpe);\n")
            for (i, kind, _) in items:
                tag = i * 2 + (1 if kind == "f" else 0)
                src.append("for (k = 0; k < 3; k++) { if (sigsetjmp(jb, 1) == 0) out(%d, k, (double)f%s_%d(P[k][0], P[k][1], P[k][2], P[k][3], P[k][4])); else printf(\"%d %%d FPE\\n\", k); }\n" % (
                    tag, kind, i, tag))
            src.append("return 0; }\n")
            path = os.path.join(d, "t.c")
            open(path, "w").write("".join(src))
            rc, outp = vlib.sh(["gcc", "-std=c99", "-O0", "-w", "-fmax-errors=0", path, "-lm", "-o", os.path.join(d, "t")], timeout=1200)
            if rc != 0:
                bad = set()
                for m in re.finditer(r"t\.c:(\d+):\d+: error: (.*)", outp):
                    ln = int(m.group(1))
                    for (a, b, key) in spans:
                        if a <= ln < b and key not in bad:
                            bad.add(key)
                            errors[key] = m.group(2)[:200]
                if not bad:
                    for (i, kind, _) in items:
                        errors[(i, kind)] = "gcc failed: " + outp[-300:]
                    break
                items = [it for it in items if (it[0], it[1]) not in bad]
                continue
            rc, outp = vlib.sh([os.path.join(d, "t")], timeout=600)
            for line in outp.splitlines():
                f = line.split()
                if len(f) != 3:
                    continue
                tag, k = int(f[0]), int(f[1])
                key = (tag // 2, "f" if tag % 2 else "d")
                v = "FPE" if f[2] == "FPE" else struct.unpack(">d", bytes.fromhex(f[2]))[0]
                results.setdefault(key, [None, None, None])[k] = v
            break
    return results, errors


def float_unfit(text):
    """the float text carries a constant with more than 6 significant digits or a huge / tiny magnitude:
    single precision cannot be compared with the double reference there"""
    for m in re.finditer(r"(?<![A-Za-z_])(\d+\.?\d*(?:e[+-]?\d+)?)f", text):
        lit = m.group(1)
        digits = re.sub(r"e.*", "", lit).replace(".", "").strip("0")
        if len(digits) > 6:
            return True
        v = float(lit)
        if v != 0 and (v > 1e6 or v < 1e-6):
            return True
    return False


def close_enough(c, ref, rel, absol):
    if c == ref:
        return True
    if math.isinf(ref) or math.isinf(c) or math.isnan(c):
        return False
    return abs(c - ref) <= absol + rel * abs(ref)


def parse_dump(s):
    """the tree dump as nested lists"""
    toks = re.findall(r"\(|\)|[^\s()]+", s)
    pos = [0]

    def go():
        t = toks[pos[0]]
        pos[0] += 1
        if t == "(":
            items = []
            while toks[pos[0]] != ")":
                items.append(go())
            pos[0] += 1
            return items
        return t
    try:
        return go()
    except IndexError:
        return []


RELS = ("Equality", "Unequality", "LessThan", "StrictLessThan")


def is_rel(t):
    return isinstance(t, list) and len(t) == 4 and t[0] == "F2" and t[1] in RELS


def walk(t):
    if isinstance(t, list):
        yield t
        for k in t:
            for u in walk(k):
                yield u


def classify(rec, what):
    """class of a failure, computed from the tree dump"""
    d = rec.get("dump", "")
    fl = rec.get("flags", "")
    tree = parse_dump(d)
    if "UnevaluatedExpr" in d:
        return "C15/grouping-lost-unevaluated-expr"
    if re.search(r"\(F1 (Cot|Sec|Csc|Coth|Sech|Csch) ", d):
        return "C15/grouping-lost-reciprocal-function"
    if any(is_rel(n) and (is_rel(n[2]) or is_rel(n[3])) for n in walk(tree)):
        return "C15/grouping-lost-relational-operand"
    if any(isinstance(n, list) and n and n[0] in ("Add", "Mul", "Pow", "F1", "F2") and not is_rel(n)
           and any(isinstance(k, list) and ((k[:2] == ["Lex", "Contains"]) or (k and isinstance(k[0], list) and k[0][:2] == ["Lex", "Contains"])) for k in n[1:])
           for n in walk(tree)):
        return "C15/grouping-lost-contains"
    if fl[:6].endswith("D0"):
        return "C15/int-division"
    return {"value": "C15/wrong-value", "reads": "C15/grouping-lost", "intdiv": "C15/int-division"}[what]


def explore(ctx, drv, model, cases, search=False):
    if drv is None or model is None:
        return
    recs = run_cases(ctx, drv, model, cases)
    ctx.cov["evaluations"] += len(recs)
    texts = set()
    ndis = 0
    gcc_items = []
    for idx, r in enumerate(recs):
        rep = {"family": "C15", "case": r["recipe"]}
        if "bad" in r:
            if r["bad"].startswith("RECIPE-EXN"):
                continue
            if "CRASH" in r["bad"] or "HANG" in r["bad"] or "UNCAUGHT" in r["bad"]:
                ctx.violation("C15/crash", "printing `%s` ends with %s" % (r["recipe"], r["bad"][-40:]), rep)
            else:
                ctx.broken.append({"kind": "correspondence", "name": "C15 driver output", "detail": r["recipe"] + "\n" + r["bad"]})
            continue
        if r["oracle"]:
            key = "C15/missing-symbol-c89code-c99code" if "MISSING-SYMBOL" in r["oracle"] else "C15/entry-point-differs"
            ctx.violation(key, "`%s`: %s" % (r["recipe"], r["oracle"]), rep)
        ctx.cov["traces_validated_against_impl"] += 1
        t99 = unhex(r["impl"][0])
        if t99 is not None:
            if re.search(r"(^|[^A-Za-z0-9_])\(", t99) or "/" in t99:
                texts.add(t99)
            # text-level oracle: an integer constant that no C integer type can hold
            for m in re.finditer(r"(?<![A-Za-z0-9_.])(\d+)(?![\d.e])", t99):
                if int(m.group(1)) >= 2 ** 63:
                    ctx.violation("C15/integer-literal-too-large",
                                  "`%s`: the emitted C `%s` contains the integer constant %s, too large for any C integer type" % (
                                      r["recipe"], t99[:80], m.group(1)), rep)
                    break
            if t99 == "":
                ctx.violation("C15/empty-text", "`%s`: the emitted C text is empty" % r["recipe"], rep)
            elif re.search(r"(inf|nan)\.0", t99):
                ctx.violation("C15/nonfinite-double-literal", "`%s`: the emitted C `%s` spells a non-finite double as a number" % (r["recipe"], t99[:80]), rep)
        # correspondence with the model
        if "model" not in r:
            ctx.broken.append({"kind": "correspondence", "name": "C15 model reader", "detail": r["recipe"] + "\n" + r.get("model_bad", "")})
            continue
        outside = False
        for k in range(5):
            if r["model"][k] == "OUTSIDE":
                outside = True
                continue
            if r["model"][k] != r["impl"][k]:
                ndis += 1
                if ndis <= 3:
                    names = ["C99 double", "C99 float", "C89 double", "C89 float", "C99 half"]
                    ctx.broken.append({"kind": "correspondence", "name": "C15 emitted text",
                                       "detail": "recipe %s\n dump  %s\n %s\n model: %r\n impl:  %r" % (
                                           r["recipe"], r["dump"], names[k], unhex(r["model"][k]) or r["model"][k],
                                           unhex(r["impl"][k]) or r["impl"][k])})
                break
        if outside:
            ctx.cov["outside_model"] = ctx.cov.get("outside_model", 0) + 1
        # structural flags computed on the model's tree (its text equals the library's)
        fl = r.get("flags", "- -").split(" ")[0]
        if fl.startswith("W"):
            ctx.cov["trees_wp"] = ctx.cov.get("trees_wp", 0) + (1 if fl[1] == "1" else 0)
            ctx.cov["trees_total"] = ctx.cov.get("trees_total", 0) + 1
            if len(fl) >= 10:
                ctx.cov["trees_satisfying_cguard"] = ctx.cov.get("trees_satisfying_cguard", 0) + (1 if fl[7] == "1" else 0)
                ctx.cov["trees_satisfying_nguard"] = ctx.cov.get("trees_satisfying_nguard", 0) + (1 if fl[9] == "1" else 0)
                if fl[7] == "1" and (fl[1] != "1" or fl[3] != "1"):
                    ctx.broken.append({"kind": "proof", "name": "C15_cprint_parse_guarded contradicted by the extracted model",
                                       "detail": r["recipe"] + " " + fl})
                if fl[9] == "1" and fl[5] != "1":
                    ctx.broken.append({"kind": "proof", "name": "C15_no_int_div_guarded contradicted by the extracted model",
                                       "detail": r["recipe"] + " " + fl})
            if fl[3] != "1":
                ctx.violation(classify(r, "reads"),
                              "`%s`: the emitted C `%s` read with C's precedence rules is not the printed operator tree" % (
                                  r["recipe"], (t99 or "")[:120]), rep)
            if fl[5] != "1":
                ctx.violation(classify(r, "intdiv"),
                              "`%s`: the emitted C `%s` carries out a division in integer arithmetic" % (r["recipe"], (t99 or "")[:120]), rep)
        # gcc oracle candidates
        if r["refs"] != "-":
            if t99 is not None and t99 != "" and identifiers(t99) <= WHITELIST and not re.search(r"(inf|nan)\.0", t99):
                gcc_items.append((idx, "d", t99))
            tf = unhex(r["impl"][1])
            if tf is not None and tf != "" and identifiers(tf) <= WHITELIST_F and not re.search(r"(inf|nan)\.0", tf):
                gcc_items.append((idx, "f", tf))
    # ---- the compiler oracle (testing)
    results, errors = compile_and_run(ctx, gcc_items)
    ncmp = 0
    for (idx, kind, text) in gcc_items:
        r = recs[idx]
        rep = {"family": "C15", "case": r["recipe"]}
        if (idx, kind) in errors:
            ctx.violation("C15/empty-text" if "(Interval (Inf -1) (Inf 1)" in r["dump"] else "C15/does-not-compile", "`%s`: gcc rejects the emitted C `%s`: %s" % (r["recipe"], text[:100], errors[(idx, kind)]), rep)
            continue
        vals = results.get((idx, kind))
        if vals is None:
            continue
        refs = [struct.unpack(">d", bytes.fromhex(h))[0] for h in r["refs"].split()]
        dvals = results.get((idx, "d"))
        for k in range(3):
            ref, c = refs[k], vals[k]
            if c is None or math.isnan(ref):
                continue
            ncmp += 1
            if c == "FPE":
                ctx.violation(classify(r, "value"), "`%s`: the emitted C `%s` raises SIGFPE (integer division by zero) at point %d; the expression's value is %r" % (
                    r["recipe"], text[:100], k, ref), rep)
                break
            if kind == "d":
                ok = close_enough(c, ref, 1e-7, 1e-9)
            else:
                # float: only gross errors, and only where the double text is right (cancellation)
                ok = (float_unfit(text) or abs(ref) > 3e38 or abs(ref) < 1e-2 or dvals is None or dvals[k] == "FPE" or dvals[k] is None
                      or not close_enough(dvals[k], ref, 1e-7, 1e-9) or close_enough(c, ref, 0.2, 0.0))
            if not ok:
                key = classify(r, "value") if kind == "d" else "C15/float-wrong-value"
                if any(int(m) >= 2 ** 63 for m in re.findall(r"(?<![A-Za-z0-9_.])(\d+)(?![\d.e])", text)):
                    key = "C15/integer-literal-too-large"
                if kind == "d" and key == "C15/wrong-value" and c != "FPE" and math.isinf(c) and "e+308" in text:
                    key = "C15/double-max-prints-as-inf"
                if key in ("C15/wrong-value", "C15/float-wrong-value") and "cbrt" in text:
                    key = "C15/cbrt-negative-base"
                ctx.violation(key,
                              "`%s`: the emitted C `%s` compiled by gcc evaluates to %r at %s = %s, the expression's value is %r" % (
                                  r["recipe"], text[:120], c, "(x,y,z,w,ab)", POINTS[k], ref), rep)
                break
    ctx.cov["compiled_texts"] = ctx.cov.get("compiled_texts", 0) + len(gcc_items) - len(errors)
    ctx.cov["oracle_value_comparisons"] = ctx.cov.get("oracle_value_comparisons", 0) + ncmp
    ctx.cov["distinct_nontrivial"] += len(texts)
    if not search:
        for r in recs[:8]:
            if "impl" in r:
                ctx.cov["samples"].append({"recipe": r["recipe"], "c99": unhex(r["impl"][0]) or r["impl"][0],
                                           "c99_float": unhex(r["impl"][1]) or r["impl"][1], "flags": r.get("flags")})


# C15's own Coq files in dependency order: until they are listed in coq/_CoqProject the check compiles
# them itself, directly with coqc, whenever a source or a shared library they load has changed
OWN_FILES = ["C15/GenCNames.v", "C15/CSyntax.v", "C15/CParse.v", "C15/CNum.v", "C15/CModel.v", "C15/CSpec.v",
             "C15/CParseProofs.v", "C15/CModelProofs.v", "C15/CIntDiv.v", "C15/CSound.v"]
SHARED_DEPS = ["Base/Prelude.vo", "Base/Word64.vo", "Num/NumDefs.vo", "Gen/TypeCodes.vo", "Expr/ExprDefs.vo",
               "Expr/Hash.vo", "Expr/Cmp.vo", "Expr/Guards.vo", "Expr/Wf.vo", "Expr/IO.vo"]


def build_own(ctx):
    if vlib.in_project(OWN_FILES[0]):
        return True   # built by `make` through ctx.prove(PROOF_MODULES, ...)
    coq = vlib.COQ
    with vlib.Lock(os.path.join(vlib.WORK, "c15-coq.lock")):
        newest = max((os.path.getmtime(os.path.join(coq, d)) for d in SHARED_DEPS if os.path.exists(os.path.join(coq, d))), default=0)
        for f in OWN_FILES:
            src = os.path.join(coq, f)
            if not os.path.exists(src):
                continue
            vo = src + "o"
            newest = max(newest, os.path.getmtime(src))
            if os.path.exists(vo) and os.path.getmtime(vo) >= newest:
                newest = max(newest, os.path.getmtime(vo))
                continue
            rc, out = vlib.sh(["timeout", "2400", "coqc", "-Q", ".", "SE", "-w", "-notation-overridden", f], cwd=coq, timeout=2430)
            if rc != 0:
                ctx.broken.append({"kind": "proof", "name": f, "detail": out[-2500:]})
                return False
            newest = max(newest, os.path.getmtime(vo))
    return True


def translate(ctx):
    rc, out = vlib.sh(["python3", os.path.join(vlib.ROOT, "translators", "tr_ccode.py")])
    if rc != 0:
        ctx.broken.append({"kind": "translator", "name": "tr_ccode", "detail": out[-2000:]})


def build(ctx):
    drv = ctx.build_driver("c15_driver")
    model = ctx.build_model("C15", "C15/Extract.v", "c15_main.ml", "semodel", extra_ml=["expr_io.ml"])
    return drv, model


def run(ctx):
    translate(ctx)
    ctx.gate(["Base", "Num", "Gen", "Expr", "C15"])
    build_own(ctx)
    ctx.prove(PROOF_MODULES, OBLIGATIONS)
    drv, model = build(ctx)
    n = 500 if ctx.tier == "quick" else 12000
    cases = list(CORPUS) + [gen_case(ctx.rng, ctx.tier) for _ in range(n)]
    explore(ctx, drv, model, cases)
    if ctx.broken and not [v for v in ctx.violations if v["key"] not in vlib.load_known("C15")]:
        explore(ctx, drv, model, [gen_case(ctx.rng, "thorough") for _ in range(2500)], search=True)
    ctx.cov["rule"] = ("expressions built by recipes of public API calls over the symbols x y z w ab: sums/products/quotients/powers aimed at the "
                       "printer's case splits (coefficients 1/-1/other, negative and rational coefficients, exponents -1, 1/2, 1/3, negative "
                       "rationals, base E, several denominator factors), integer/rational/double literals incl. 2^31, 2^63, 15-digit boundaries, "
                       "elementary functions, Max/Min, Sign, relationals, And/Or/Not/Xor, Piecewise, Contains(Interval); every expression printed by "
                       "C99CodePrinter and C89CodePrinter in double and float precision (and half: must throw); evaluations = expressions; an "
                       "expression is non-trivial when its C99 text contains a grouping parenthesis or a division; distinct = distinct C99 texts")
    ctx.assumptions += [
        "ORACLE IS TESTING: the emitted text of each generated expression is compiled by the system gcc (-std=c99 -O0) and run at 3 sample points; "
        "this checks compiler + libm behaviour on a sample, it is not a proof about the C compiler",
        "a C lexer splits the emitted text into the model's tokens (no two adjacent tokens merge: guaranteed by the white space / punctuation the printers insert, "
        "and by the rejection of '--' in the reference reader)",
        "a floating literal printed with 15 significant digits denotes the double it was printed from up to that rounding; the value theorem is over an abstract field",
        "symbol names are C identifiers; C variables and math functions have type double (float in float precision)",
        "the 12 classes rewritten by RewriteTrigVisitor (cot, sec, ...) and ComplexDouble, set-valued classes and bare Interval are outside the Coq model "
        "(printed texts of the former are still compiled and run by the oracle)",
    ]


def replay(ctx, rep):
    drv, model = build(ctx)
    c = rep["replay"]["case"]
    recs = run_cases(ctx, drv, model, [c])
    for r in recs:
        print("recipe:", r["recipe"])
        print("dump  :", r.get("dump"))
        names = ["C99 double", "C99 float", "C89 double", "C89 float", "C99 half"]
        for k in range(5):
            if "impl" in r:
                print("%-10s impl : %r" % (names[k], unhex(r["impl"][k]) or r["impl"][k]))
            if "model" in r:
                print("%-10s model: %r" % (names[k], unhex(r["model"][k]) or r["model"][k]))
        print("flags :", r.get("flags"), " oracle:", r.get("oracle"))
        if "impl" in r and r["refs"] != "-":
            items = []
            t = unhex(r["impl"][0])
            if t and identifiers(t) <= WHITELIST:
                items.append((0, "d", t))
            t = unhex(r["impl"][1])
            if t and identifiers(t) <= WHITELIST_F:
                items.append((0, "f", t))
            res, err = compile_and_run(ctx, items)
            print("library value at the sample points:", [struct.unpack(">d", bytes.fromhex(h))[0] for h in r["refs"].split()])
            print("gcc, double text                   :", res.get((0, "d")), err.get((0, "d"), ""))
            print("gcc, float text                    :", res.get((0, "f")), err.get((0, "f"), ""))
