"""Shared by C16, C17, C18: translator, Coq build of the shared Parse/ development (not in
coq/_CoqProject: compiled here with coqc in dependency order), driver/model builds, the generator of
abstract syntax trees with their conventional rendering, and the case runners."""
import os

import vlib

TRANSLATOR = os.path.join(vlib.ROOT, "translators", "tr_grammar.py")

# Coq files of the shared development, in dependency order (all compiled directly with coqc)
ORDER = [
    "Parse/Tokens.v", "Parse/Gen_Prec.v", "Parse/Gen_Names.v", "Parse/Lexer.v", "Parse/ParseModel.v",
    "Parse/PrintModel.v", "Parse/LexProofs.v", "Parse/ParseSpec.v", "Parse/ParseProofs.v", "Parse/ParseSound.v",
    "Parse/ParseMono.v", "Parse/ParseComplete.v",
    "Parse/NumericProofs.v", "Parse/StateProofs.v", "Parse/PrintProofs.v", "Parse/PrintWf.v",
    "Parse/PrintParse.v", "Parse/PrintParse2.v",
]


# the proof modules the obligations need (built by ctx.prove with make once the files are in coq/_CoqProject)
PROOF_VO = ["Parse/LexProofs.vo", "Parse/ParseSound.vo", "Parse/ParseComplete.vo", "Parse/NumericProofs.vo",
            "Parse/StateProofs.vo", "Parse/PrintProofs.vo", "Parse/PrintWf.vo", "Parse/PrintParse2.vo"]


def in_project():
    try:
        return "Parse/ParseModel.v" in open(os.path.join(vlib.COQ, "_CoqProject")).read()
    except OSError:
        return False


def proof_modules():
    """PROOF_MODULES for ctx.prove: the framework's make builds them when the Parse files are listed in
    coq/_CoqProject; until then they are compiled directly by build_coq (called from prepare)"""
    return list(PROOF_VO) if in_project() else []


def run_translator(ctx):
    rc, out = vlib.sh(["python3", TRANSLATOR])
    if rc != 0:
        ctx.broken.append({"kind": "translator", "name": "tr_grammar", "detail": out[-2000:]})
        return False
    return True


def build_coq(ctx, upto=None):
    """coqc every stale file of ORDER (a file is stale when its .vo is missing, older than the .v, or older
    than the .vo of a file it Requires).  A file that does not compile is reported once as a broken proof
    (the obligations that need it then fail too)."""
    ok = True
    with vlib.Lock(os.path.join(vlib.WORK, "parse-coq.lock")):
        for f in ORDER:
            src = os.path.join(vlib.COQ, f)
            if not os.path.exists(src):
                continue
            vo = src[:-2] + ".vo"
            deps = [os.path.join(vlib.COQ, d) for d in vlib.coq_deps(src)]
            stale = (not os.path.exists(vo)) or os.path.getmtime(vo) < os.path.getmtime(src)
            if not stale:
                for d in deps:
                    if os.path.exists(d) and os.path.getmtime(d) > os.path.getmtime(vo):
                        stale = True
            if any(not os.path.exists(d) for d in deps):
                ok = False
                continue
            if stale:
                rc, out = vlib.sh(["timeout", "1500", "coqc", "-Q", ".", "SE", "-w", "-notation-overridden", f],
                                  cwd=vlib.COQ, timeout=1530)
                if rc != 0:
                    ok = False
                    if os.path.exists(vo):
                        os.remove(vo)
                    ctx.broken.append({"kind": "proof", "name": f, "detail": out[-2500:]})
    return ok


def prepare(ctx):
    """translator + Coq build + driver + model; returns (drv, model)"""
    import time
    t = [time.time()]
    run_translator(ctx)
    t.append(time.time())
    if not in_project():
        build_coq(ctx)
    t.append(time.time())
    drv = ctx.build_driver("parse_driver")
    t.append(time.time())
    model = ctx.build_model("Parse", "Parse/Extract.v", "parse_main.ml", "semodel", extra_ml=["expr_io.ml"])
    t.append(time.time())
    ctx.cov["prepare_seconds"] = dict(zip(["translator", "coq", "driver", "model"],
                                          [round(b - a, 1) for a, b in zip(t, t[1:])]))
    return drv, model


def hx(b):
    if isinstance(b, str):
        b = b.encode("latin-1")
    return b.hex()


def unhx(h):
    return bytes.fromhex(h)


def show(b):
    if isinstance(b, str):
        b = b.encode("latin-1")
    return repr(b)[1:]


# ------------------------------------------------------------------ abstract syntax trees (C17)
# node: ("num", digits) | ("flt", literal) | ("id", name) | ("const", name) | ("impl", numlit, name)
#     | ("implpow", numlit, name, e) | ("bin", op, a, b) op in + - * / ** | ("neg", a) | ("pos", a)
#     | ("call", fname, [args])
SYMBOLS = ["x", "y", "z", "t", "ab", "x1", "_u", "alpha", "X", "q_2", "el", "Ex", "pix", "ee"]
CONSTS = {"pi": "pi", "E": "E", "e": "E", "I": "I", "oo": "Inf", "inf": "Inf", "zoo": "ComplexInf",
          "EulerGamma": "EulerGamma", "Catalan": "Catalan", "GoldenRatio": "GoldenRatio", "nan": "Nan"}
# conventional meaning of the function names the parser knows: name -> (library function, arity)
FUNCS1 = {
    "sin": "sin", "cos": "cos", "tan": "tan", "cot": "cot", "csc": "csc", "sec": "sec",
    "asin": "asin", "arcsin": "asin", "acos": "acos", "arccos": "acos", "atan": "atan", "arctan": "atan",
    "asec": "asec", "arcsec": "asec", "acsc": "acsc", "arccsc": "acsc", "acot": "acot", "arccot": "acot",
    "sinh": "sinh", "cosh": "cosh", "tanh": "tanh", "coth": "coth", "sech": "sech", "csch": "csch",
    "asinh": "asinh", "arcsinh": "asinh", "acosh": "acosh", "arccosh": "acosh", "atanh": "atanh",
    "arctanh": "atanh", "asech": "asech", "arcsech": "asech", "acoth": "acoth", "arccoth": "acoth",
    "acsch": "acsch", "arccsch": "acsch", "gamma": "gamma", "sqrt": "sqrt", "abs": "abs", "sign": "sign",
    "exp": "exp", "erf": "erf", "erfc": "erfc", "loggamma": "loggamma", "lambertw": "lambertw",
    "dirichlet_eta": "dirichlet_eta", "floor": "floor", "ceiling": "ceiling", "ln": "log", "log": "log",
    "zeta": "zeta",
}
FUNCS2 = {"pow": "pow", "beta": "beta", "log": "log", "zeta": "zeta", "lowergamma": "lowergamma",
          "uppergamma": "uppergamma", "polygamma": "polygamma", "kronecker_delta": "kronecker_delta",
          "kroneckerdelta": "kronecker_delta", "atan2": "atan2"}
FUNCSN = {"max": "max", "min": "min", "levi_civita": "levi_civita", "levicivita": "levi_civita"}
UNKNOWN_FUNCS = ["f", "g", "Sin", "fun_1", "sinx", "arcsine", "Max", "Log"]

LEVEL = {"+": 1, "-": 1, "*": 2, "/": 2, "**": 4}
OPNAME = {"+": "add", "-": "sub", "*": "mul", "/": "div", "**": "pow"}


def gen_int_literal(rng):
    r = rng.random()
    if r < 0.55:
        s = str(rng.choice([0, 1, 2, 3, 4, 5, 7, 8, 9, 10, 12, 17, 64, 100]))
    elif r < 0.7:
        s = str(rng.randint(0, 999))
    elif r < 0.8:  # around the `long` boundary and beyond
        s = str(rng.choice([2 ** 31 - 1, 2 ** 31, 2 ** 63 - 1, 2 ** 63, 2 ** 63 + 1, 2 ** 64, 10 ** 19, 10 ** 25 + 7,
                            9223372036854775807, 9223372036854775808, 18446744073709551616]))
    else:
        s = str(rng.choice([0, 1, 7, 8, 9, 10, 17, 19, 77, 88, 100, 777, 1234567]))
    if rng.random() < 0.3:  # leading zeros: decimal all the same
        s = "0" * rng.choice([1, 1, 2, 3]) + s
    return s


def gen_float_literal(rng):
    r = rng.random()
    m = rng.choice(["1", "2", "5", "10", "12", "123", "0", "00", "007", "9"])
    f = rng.choice(["5", "0", "25", "125", "001", "75", "999"])
    if r < 0.3:
        lit = m + "." + f
    elif r < 0.4:
        lit = "." + f
    elif r < 0.5:
        lit = m + "."
    elif r < 0.75:
        lit = m + rng.choice(["e", "E"]) + rng.choice(["", "+", "-"]) + rng.choice(["0", "1", "2", "3", "05", "10", "20"])
    else:
        lit = m + "." + f + rng.choice(["e", "E"]) + rng.choice(["", "+", "-"]) + rng.choice(["0", "1", "2", "03", "15"])
    return lit


def gen_simple(rng):
    """an exponent that cannot blow up: small literal, symbol, or a small combination of them"""
    r = rng.random()
    if r < 0.35:
        return ("num", rng.choice(["0", "1", "2", "3", "4", "02", "003"]))
    if r < 0.65:
        return ("id", rng.choice(SYMBOLS))
    if r < 0.75:
        return ("neg", rng.choice([("num", "1"), ("num", "2"), ("id", "x"), ("id", "y")]))
    if r < 0.85:
        return ("bin", rng.choice(["+", "-", "*", "/"]), ("id", rng.choice(SYMBOLS)), ("num", rng.choice(["1", "2", "3"])))
    if r < 0.92:
        return ("flt", rng.choice(["0.5", "1.5", "2.", ".25", "1e0", "2e-1"]))
    return ("bin", "**", ("id", rng.choice(SYMBOLS)), rng.choice([("num", "2"), ("id", "y"), ("neg", ("num", "1"))]))


def impl_name(rng):
    # identifiers after a numeric prefix; never a bare e / E or [eE]digits.. (a following sign or digit would
    # read as an exponent: 12E-88 is a float); those spellings are in the corpus without an oracle
    return rng.choice(["x", "y", "z", "ab", "_u", "alpha", "X", "x1", "pix", "el", "Ex", "ee", "pi", "I"])


def gen_ast(rng, depth):
    if depth <= 0 or rng.random() < 0.18:
        r = rng.random()
        if r < 0.30:
            return ("num", gen_int_literal(rng))
        if r < 0.42:
            return ("flt", gen_float_literal(rng))
        if r < 0.80:
            return ("id", rng.choice(SYMBOLS))
        if r < 0.88:
            return ("const", rng.choice(list(CONSTS)))
        lit = gen_int_literal(rng) if rng.random() < 0.7 else gen_float_literal(rng)
        return ("impl", lit[-12:] if len(lit) > 12 else lit, impl_name(rng))
    r = rng.random()
    if r < 0.22:
        return ("bin", rng.choice(["+", "-"]), gen_ast(rng, depth - 1), gen_ast(rng, depth - 1))
    if r < 0.44:
        return ("bin", rng.choice(["*", "/"]), gen_ast(rng, depth - 1), gen_ast(rng, depth - 1))
    if r < 0.62:
        base = gen_ast(rng, depth - 1)
        if rng.random() < 0.35:  # right-associative chains x ** y ** z
            return ("bin", "**", base, ("bin", "**", gen_simple(rng), gen_simple(rng)))
        return ("bin", "**", base, gen_simple(rng))
    if r < 0.76:
        return (rng.choice(["neg", "neg", "neg", "pos"]), gen_ast(rng, depth - 1))
    if r < 0.82:
        lit = gen_int_literal(rng)[-6:] if rng.random() < 0.7 else gen_float_literal(rng)
        return ("implpow", lit, impl_name(rng), gen_simple(rng))
    r2 = rng.random()
    if r2 < 0.6:
        return ("call", rng.choice(list(FUNCS1)), [tame(gen_ast(rng, depth - 1))])
    if r2 < 0.75:
        return ("call", rng.choice(list(FUNCS2)), [tame(gen_ast(rng, depth - 1)), gen_simple(rng)])
    if r2 < 0.87:
        return ("call", rng.choice(list(FUNCSN)), [tame(gen_ast(rng, depth - 1)) for _ in range(rng.randint(1, 4))])
    return ("call", rng.choice(UNKNOWN_FUNCS), [gen_ast(rng, depth - 1) for _ in range(rng.randint(1, 3))])


def tame(n):
    """arguments of library functions: integer literals of at most two significant digits (gamma, zeta, ...
    of a large integer are expensive computations, not parser business)"""
    k = n[0]
    if k == "num":
        v = n[1].lstrip("0") or "0"
        return n if len(v) <= 2 else ("num", n[1][:len(n[1]) - len(v)] + v[:2])
    if k in ("impl",):
        v = n[1]
        return n if (len(v) <= 3 or not v.isdigit()) else ("impl", v[:2], n[2])
    if k == "implpow":
        return ("implpow", n[1][:2] if n[1].isdigit() else n[1], n[2], n[3])
    if k == "bin":
        return ("bin", n[1], tame(n[2]), tame(n[3]))
    if k in ("neg", "pos"):
        return (k, tame(n[1]))
    if k == "call":
        return ("call", n[1], [tame(a) for a in n[2]])
    return n


def level(n):
    k = n[0]
    if k == "bin":
        return LEVEL[n[1]]
    if k in ("neg", "pos"):
        return 3
    if k == "implpow":
        return 4
    return 5


class Renderer:
    """conventional notation: + - left-associative and lowest, * / left-associative, unary signs bind
    tighter than * / but looser than **, ** right-associative with an atom on its left"""

    def __init__(self, rng, pow_spelling=("**",), ws=True, redundant=0.12):
        self.rng = rng
        self.pows = pow_spelling
        self.ws = ws
        self.redundant = redundant

    def sp(self):
        if not self.ws:
            return ""
        r = self.rng.random()
        if r < 0.55:
            return ""
        if r < 0.85:
            return " "
        return self.rng.choice(["  ", "\t", "\n", " \t ", "\r\n", "\v"])

    def paren(self, s):
        return "(" + self.sp() + s + self.sp() + ")"

    def r(self, n, need):
        s = self.raw(n)
        if level(n) < need:
            s = self.paren(s)
        elif self.rng.random() < self.redundant:
            s = self.paren(s)
            if self.rng.random() < 0.2:
                s = self.paren(s)
        return s

    def raw(self, n):
        k = n[0]
        if k in ("num", "flt"):
            return n[1]
        if k in ("id", "const"):
            return n[1]
        if k == "impl":
            return n[1] + n[2]
        if k == "implpow":
            return n[1] + n[2] + self.sp() + self.rng.choice(self.pows) + self.sp() + self.r(n[3], 3)
        if k == "bin":
            op = n[1]
            if op in ("+", "-"):
                return self.r(n[2], 1) + self.sp() + op + self.sp() + self.r(n[3], 2)
            if op in ("*", "/"):
                return self.r(n[2], 2) + self.sp() + op + self.sp() + self.r(n[3], 3)
            # an implicit multiplication as base must be parenthesised: 2x**3 means 2*(x**3)
            left = self.paren(self.raw(n[2])) if n[2][0] == "impl" else self.r(n[2], 5)
            return left + self.sp() + self.rng.choice(self.pows) + self.sp() + self.r(n[3], 3)
        if k in ("neg", "pos"):
            return ("-" if k == "neg" else "+") + self.sp() + self.r(n[1], 3)
        if k == "call":
            return n[1] + self.sp() + "(" + self.sp() + (self.sp() + "," + self.sp()).join(self.r(a, 1) for a in n[2]) + self.sp() + ")"
        raise ValueError(k)


def num_recipe(lit):
    return "(i %d)" % int(lit, 10)


def flt_recipe(lit):
    return "(fl %s)" % hx(lit)


def ident_recipe(name):
    if name in CONSTS:
        return "(k %s)" % CONSTS[name]
    return "(sx %s)" % hx(name)


def lit_recipe(lit):
    return num_recipe(lit) if lit.isdigit() else flt_recipe(lit)


def oracle_recipe(n):
    """the expression denoted by the tree, as a recipe of library calls"""
    k = n[0]
    if k == "num":
        return num_recipe(n[1])
    if k == "flt":
        return flt_recipe(n[1])
    if k in ("id", "const"):
        return ident_recipe(n[1])
    if k == "impl":
        return "(ap mul %s %s)" % (lit_recipe(n[1]), ident_recipe(n[2]))
    if k == "implpow":
        return "(ap mul %s (ap pow %s %s))" % (lit_recipe(n[1]), ident_recipe(n[2]), oracle_recipe(n[3]))
    if k == "bin":
        return "(ap %s %s %s)" % (OPNAME[n[1]], oracle_recipe(n[2]), oracle_recipe(n[3]))
    if k == "neg":
        return "(ap neg %s)" % oracle_recipe(n[1])
    if k == "pos":
        return oracle_recipe(n[1])
    if k == "call":
        f, args = n[1], n[2]
        a = " ".join(oracle_recipe(x) for x in args)
        if len(args) == 1 and f in FUNCS1:
            return "(ap %s %s)" % (FUNCS1[f], a)
        if len(args) == 2 and f in FUNCS2:
            return "(ap %s %s)" % (FUNCS2[f], a)
        if f in FUNCSN:
            return "(ap %s %s)" % (FUNCSN[f], a)
        return "(fsx %s %s)" % (hx(f), a)
    raise ValueError(k)


def subtrees(n):
    out = [n]
    k = n[0]
    if k == "bin":
        out += subtrees(n[2]) + subtrees(n[3])
    elif k in ("neg", "pos"):
        out += subtrees(n[1])
    elif k == "implpow":
        out += subtrees(n[3])
    elif k == "call":
        for a in n[2]:
            out += subtrees(a)
    return out


def size(n):
    return len(subtrees(n))


def kind(n):
    """name of the class of construct at the root of a tree (used in violation keys)"""
    k = n[0]
    if k == "num":
        return "integer-literal:leading-zero" if len(n[1]) > 1 and n[1][0] == "0" else "integer-literal"
    if k == "flt":
        return "float-literal"
    if k in ("id", "const"):
        return "identifier"
    if k == "impl":
        return "implicit-mul"
    if k == "implpow":
        return "implicit-mul-power"
    if k in ("neg", "pos"):
        return "unary-%s-of-%s" % (k, kind(n[1]).split(":")[0])
    if k == "call":
        return "function:" + n[1]
    op = {"+": "add", "-": "sub", "*": "mul", "/": "div", "**": "pow"}[n[1]]

    def ck(c):
        if c[0] == "bin":
            return {"+": "add", "-": "sub", "*": "mul", "/": "div", "**": "pow"}[c[1]]
        if c[0] in ("neg", "pos"):
            return "unary"
        return "atom"
    return "%s(%s,%s)" % (op, ck(n[2]), ck(n[3]))


# ------------------------------------------------------------------ running `P` cases
def run_P(ctx, drv, model, items):
    """items: list of (conv: bool, bytes, oracle recipe or None).  Returns list of dicts with keys
    impl, model (evaluated model outcome), oracle, flag, model_raw."""
    lines1 = ["P %d %s" % (1 if c else 0, hx(s)) for c, s, _ in items]
    mod = ctx.run_lines(model, lines1, timeout=1800)
    lines2 = ["%s\t%s\t%s" % (l, m, o if o else "-") for l, m, (_, _, o) in zip(lines1, mod, items)]
    out = ctx.run_lines(drv, lines2, timeout=3000, shards=16)
    res = []
    for raw, m in zip(out, mod):
        d = {"impl": "?", "model": "?", "oracle": "-", "flag": "", "model_raw": m, "raw": raw}
        for f in raw.split("\t"):
            if f.startswith("I="):
                d["impl"] = f[2:]
            elif f.startswith("M="):
                d["model"] = f[2:]
            elif f.startswith("O="):
                d["oracle"] = f[2:]
            elif f.startswith("#ORACLE:"):
                d["flag"] = f[8:]
        res.append(d)
    return res


def is_crash(r):
    return r.startswith("CRASH") or r.startswith("HANG") or "UNCAUGHT" in r or r.startswith("NOOUTPUT") or r.startswith("PIPEFAIL")
