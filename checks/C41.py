"""C41 -- thread-safe build: shared expressions are race-free.
Model: coq/Rcp/ThreadModel.v (interleaving small-step model of the two lazily written fields of a shared
expression: std::atomic hash_ and std::atomic refcount_).  Theorems: coq/C41/P_*.v (hash_cache_linearizable,
refcount_safe for any number of threads and any schedule; nonatomic_refuted, torn_hash_refuted).
Tie (`ts` configuration = WITH_SYMENGINE_THREAD_SAFE + ThreadSanitizer): a threaded driver runs generated
concurrent workloads (hash, copy/drop of handles, compare, print, diff, subs, expand, add, mul on shared
expressions); per-thread result strings must equal a sequential run; hash() results, the final hash cache,
use_count after the run and the number of deletions must equal the model's prediction (which the theorems
show to be schedule independent).  ThreadSanitizer findings are testing and reported under their own key."""
import os
import re

import vlib
from checks import C40 as R

OBLIGATIONS = ["C41/P_hash_cache_linearizable.v", "C41/P_refcount_safe.v", "C41/P_nonatomic_refuted.v",
               "C41/P_torn_hash_refuted.v", "C41/P_nonvacuous.v"]

EXPRS = [
    "(add (pow x (i 2)) (mul (i 3) (mul x y)))",
    "(mul (f1 sin x) (f1 exp (mul x y)))",
    "(pow (add x y) (i 3))",
    "(add (mul (q 1 2) x) (add (f1 cos (mul (i 2) x)) (pow y (i -1))))",
    "(mul (add x (i 1)) (add x (i -1)))",
    "(fs f (add x y) (mul x x))",
    "(add x (add y (add z (i 7))))",
    "(pow (f1 log (add x (i 2))) (q 3 2))",
    "(mul x (mul y (pow z (i 2))))",
    "(add (f2 atan2 x y) (max x y (i 3)))",
]
READ_OPS = ["s", "q", "D", "S", "X", "A", "M"]

CORPUS = [
    # every thread hashes every expression first (the cache is written concurrently), then copies and drops
    "T 1 4 0 | %s ;; %s | h0 h1 c0 c1 h0 d0 d1 s0 ;; h1 h0 c1 c0 d1 h1 d0 s1 ;; h0 h1 h0 h1 ;; c0 c0 c0 d0 d0 d0 h0" % (EXPRS[0], EXPRS[2]),
    # the main thread drops its handles while the workers still work: the last drop happens in some worker
    "T 2 4 1 | %s ;; %s | c0 h0 d0 D0 ;; c1 h1 d1 S1 ;; h0 h1 X1 ;; A0,1 M0,1 q0,1" % (EXPRS[1], EXPRS[4]),
    # constructing operations on the same operands from all threads
    "T 3 3 0 | %s ;; %s ;; %s | A0,1 M1,2 X2 D0 S1 ;; A0,1 M1,2 X2 D0 S1 ;; A0,1 M1,2 X2 D0 S1 ;; q0,1 q1,2 q2,0 s0 s1 s2" % (EXPRS[2], EXPRS[4], EXPRS[8]),
]


# refcount stress: six threads copy and drop handles of one object 150 times each (lost updates of a
# non-atomic counter show up as a wrong use_count, a premature delete or a missing delete)
CORPUS.append("T 5 3 0 | %s | %s" % (EXPRS[6], " ;; ".join(["c0 d0 " * 150 + "h0"] * 6)))
CORPUS.append("T 6 3 1 | %s | %s" % (EXPRS[8], " ;; ".join(["c0 c0 d0 d0 " * 60] * 5)))


def gen_case(rng, tier):
    ne = rng.randint(1, 3)
    es = rng.sample(EXPRS, ne)
    nt = rng.randint(2, 6 if tier == "quick" else 8)
    progs = []
    for t in range(nt):
        depth = [0] * ne
        ops = []
        for _ in range(rng.randint(4, 16 if tier == "quick" else 40)):
            r = rng.random()
            k = rng.randrange(ne)
            if r < 0.25:
                ops.append("h%d" % k)
            elif r < 0.42:
                ops.append("c%d" % k)
                depth[k] += 1
            elif r < 0.55 and depth[k] > 0:
                ops.append("d%d" % k)
                depth[k] -= 1
            else:
                o = rng.choice(READ_OPS)
                ops.append("%s%d,%d" % (o, k, rng.randrange(ne)) if o in "qAM" else "%s%d" % (o, k))
        progs.append(" ".join(ops))
    return "T %d %d %d | %s | %s" % (rng.randint(1, 10 ** 6), 3 if tier == "quick" else 6, 1 if rng.random() < 0.4 else 0,
                                     " ;; ".join(es), " ;; ".join(progs))


def model_lines(case, rng):
    """per shared expression: the h/c/d projection of every worker's program, with the final drops the driver
    performs, for the model (thread 0 = the main thread holding one handle)"""
    head, es, progs = [p.strip() for p in case.split("|")]
    maindrop = head.split()[3] == "1"
    ne = len(es.split(";;"))
    workers = [p.split() for p in progs.split(";;")]
    out = []
    for k in range(ne):
        ps = []
        for w in workers:
            s = ""
            depth = 0
            for op in w:
                if op[0] in "hcd" and int(op[1:].split(",")[0]) == k:
                    if op[0] == "d" and depth == 0:
                        continue
                    s += op[0]
                    depth += 1 if op[0] == "c" else (-1 if op[0] == "d" else 0)
            s += "d" * (depth + 1)
            ps.append(s)
        for mainprog in (["d"] if maindrop else ["-", "d"]):
            allp = [mainprog] + ps
            order = []
            for t, p in enumerate(allp):
                order += [t] * (3 * len(p.replace("-", "")) + 1)
            if mainprog == "d" and not maindrop:
                # the driver drops the main handle after the workers were joined
                order = [t for t in order if t != 0]
                rng.shuffle(order)
                order += [0, 0, 0]
            else:
                rng.shuffle(order)
            out.append((k, mainprog, "T 7 0 %s %s %s" % (",".join(["1"] * len(allp)), ",".join(allp), ",".join(map(str, order)))))
    return out


def parse_fields(s):
    return dict(re.findall(r"(\w+)=(\S+)", s))


def classify(text):
    if "differs from the sequential run" in text:
        return "C41/result-differs-from-sequential"
    if "did not return __hash__" in text or "neither 0 nor" in text:
        return "C41/hash-cache"
    if "use_count of expression" in text:
        return "C41/refcount"
    if "objects alive" in text:
        return "C41/live-count"
    return "C41/oracle"


def explore(ctx, drv, model, cases, stats, search=False):
    if drv is None or model is None or not cases:
        return
    impl = ctx.run_lines(drv, cases, timeout=3000, shards=4)
    ctx.cov["evaluations"] += len(cases)
    for case, il in zip(cases, impl):
        canon, _, oracle = il.partition("\t#ORACLE:")
        if "CRASH" in canon or "HANG" in canon or "UNCAUGHT" in canon or canon.startswith("NOOUTPUT") or "res=" not in canon:
            ctx.violation("C41/crash", "concurrent workload `%s` ended with %s" % (case, canon[-120:]),
                          {"family": "thread", "case": case, "impl": canon[-300:]})
            continue
        if oracle:
            parts = [p.strip() for p in oracle.split(";") if p.strip()]
            for p in parts:
                if p.startswith("TSAN:"):
                    stats["tsan"] += 1
                    ctx.violation("C41/tsan-report", "ThreadSanitizer (testing) on workload `%s`: %s" % (case, p[:300]),
                                  {"family": "thread", "case": case, "impl": canon[-300:]})
                else:
                    ctx.violation(classify(p), "concurrent workload `%s`: %s" % (case, p[:300]),
                                  {"family": "thread", "case": case, "impl": canon[-300:]})
        # the two modelled fields against the interleaving model
        fields = [f.strip() for f in canon.split("|")]
        per_expr = {}
        for f in fields:
            m = re.match(r"^(\d+): (.*)$", f)
            if m:
                per_expr[int(m.group(1))] = parse_fields(m.group(2))
        mls = model_lines(case, ctx.rng)
        mout = ctx.run_lines(model, [l for _, _, l in mls], shards=1)
        good = True
        for (k, mainprog, line), mo in zip(mls, mout):
            mf = parse_fields(mo)
            df = per_expr.get(k)
            stats["model_runs"] += 1
            why = None
            if df is None or "rc" not in mf:
                why = "missing output"
            elif mf.get("idle") != "1" or mf.get("uaf") != "0":
                why = "model run incomplete or unsafe: %s" % mo
            else:
                mrets = ",".join(mf["rets"].split(",")[1:])
                if mrets != df.get("rets"):
                    why = "hash() calls/results: model %s, library %s" % (mrets, df.get("rets"))
                elif mainprog == "-":
                    # explicit hash() calls fill the cache; the other operations may hash internally (dictionary
                    # look-ups), so without explicit calls both 0 and H are legitimate
                    cache_ok = df.get("cache") == "H" if mf["cache"] == "H" else df.get("cache") in ("0", "H")
                    if mf["rc"] != df.get("rc") or not cache_ok:
                        why = "after the run: model rc=%s cache=%s, library rc=%s cache=%s" % (mf["rc"], mf["cache"], df.get("rc"), df.get("cache"))
                else:
                    if mf["freed"] != df.get("freed") and df.get("freed") != "?":
                        why = "deletions: model %s, library %s" % (mf["freed"], df.get("freed"))
                    if mf["rc"] != "0":
                        why = "model run did not drop every handle: %s" % mo
            if why:
                good = False
                stats["mismatch"] += 1
                if stats["mismatch"] <= 3:
                    ctx.broken.append({"kind": "correspondence", "name": "C41 thread workload",
                                       "detail": "workload `%s`\n expression %d (%s): %s\n model line: %s\n impl: %s" % (
                                           case, k, "main keeps its handle" if mainprog == "-" else "main drops", why, line, canon[:400])})
        if good:
            ctx.cov["traces_validated_against_impl"] += 1
            if re.search(r"\bh\d", case) and re.search(r"\bc\d", case):
                stats["nontrivial"].add(case)
            if len(ctx.cov["samples"]) < 5 and not search:
                ctx.cov["samples"].append({"workload": case, "impl": canon[:300], "model": mout[0] if mout else ""})


def run(ctx):
    ctx.gate(["Base", "Rcp", "C41"])
    R.build_coq(ctx)
    ctx.prove(R.proof_modules(), OBLIGATIONS)
    os.environ.setdefault("TSAN_OPTIONS", "halt_on_error=0 exitcode=0 report_signal_unsafe=0 second_deadlock_stack=0")
    drv = ctx.build_driver("thread_driver", cfg="ts")
    model = R.build_model(ctx)
    stats = {"tsan": 0, "mismatch": 0, "model_runs": 0, "nontrivial": set()}
    n = 14 if ctx.tier == "quick" else 120
    cases = list(CORPUS) + [gen_case(ctx.rng, ctx.tier) for _ in range(n)]
    explore(ctx, drv, model, cases, stats)
    if ctx.broken and not ctx.violations:
        explore(ctx, drv, model, [gen_case(ctx.rng, "thorough") for _ in range(60)], stats, search=True)
    ctx.cov["distinct_nontrivial"] = len(stats["nontrivial"])
    ctx.cov["model_runs"] = stats["model_runs"]
    ctx.cov["tsan_reports"] = stats["tsan"]
    ctx.cov["rule"] = ("concurrent workloads from one PRNG: 1-3 shared expressions, 2-8 threads, per thread 4-40 operations among hash(), copy of a "
                       "handle, drop of a copied handle, __str__, eq/__cmp__, diff, subs, expand, add, mul; every worker owns one handle per expression and "
                       "drops all its handles at the end; in 40% of the cases the main thread drops its own handles concurrently (the last drop then happens "
                       "in a worker); every case is repeated with different PRNG-driven yield/spin perturbation between operations; evaluations = cases; "
                       "a case is non-trivial when some thread both hashes and copies a shared expression; distinct = distinct case strings")
    ctx.assumptions += [
        "std::atomic<T> load/store/fetch_add/fetch_sub are single indivisible steps (sequentially consistent default ordering, as written in the source)",
        "only the two lazily written fields hash_ and refcount_ of one shared object are modelled; data-race freedom of the rest of the library "
        "(function-local static tables, caches) is observed by ThreadSanitizer on the generated workloads: testing",
        "__hash__() is a pure function of the immutable fields of the expression (properties C01/C02 cover its value)",
        "counters do not wrap (fewer than 2^32 handles to one object)",
    ]
    ctx.cov["trusted_base"].append("ThreadSanitizer run-time (gcc 12 libtsan) for the race reports; hook H2 (live-object counter) for the deletion count")


def replay(ctx, rep):
    os.environ.setdefault("TSAN_OPTIONS", "halt_on_error=0 exitcode=0 report_signal_unsafe=0")
    drv = ctx.build_driver("thread_driver", cfg="ts")
    model = R.build_model(ctx)
    c = rep["replay"]["case"]
    print("case :", c)
    print("impl :", ctx.run_lines(drv, [c])[0])
    for k, mainprog, line in model_lines(c, ctx.rng):
        print("model (expression %d, main %s):" % (k, "keeps its handle" if mainprog == "-" else "drops"), ctx.run_lines(model, [line])[0])
