"""C04 -- canonical form is unique: sums / products (and max, min, and, or) of the same operands in any order and
grouping, pairwise or n-ary, are equal expressions.
Model: coq/Expr/Arith.v.  Theorems: coq/C04/P_*.v.  Tie: every pairwise add / mul call made during the enumeration is
recomputed by the extracted model.  Oracle (on the library alone): for each generated operand multiset the driver
builds ALL permutations x ALL binary bracketings and the n-ary call on every permutation, and compares the results
with eq and by dump."""
import vlib
from checks import arithcommon as A

OBLIGATIONS = [
    "C04/P_add_comm.v",
    "C04/P_add_assoc.v",
    "C04/P_add_nary_perm.v",
    "C04/P_add_nary_binary.v",
    "C04/P_mul_comm.v",
    "C04/P_mul_assoc.v",
    "C04/P_nonvacuous.v",
]
REFUTATIONS = ['C04/P_refuted.v']
PROOF_MODULES = A.PROOF_MODULES

CORPUS_P = [
    "P mul ;; (sqrt (pow x (i 2))) ;; (sqrt (pow x (i 2))) ;; x",
    "P mul ;; (sqrt (pow x (i 2))) ;; (sqrt (pow x (i 2))) ;; y",
    "P mul ;; (sqrt (pow x (i 2))) ;; (sqrt (pow x (i 2))) ;; (pow x y)",
    "P mul ;; (sqrt (i 2)) ;; (sqrt (i 2)) ;; (pow (i 2) x)",
    "P add ;; (mul (i 2) (add x y)) ;; z ;; (neg (add x y))",
    "P add ;; x ;; y ;; z", "P add ;; x ;; x ;; (neg x)", "P add ;; x ;; (i 1) ;; (i -1)", "P add ;; (mul (i 2) x) ;; (mul (q 1 2) x) ;; (q 1 3) ;; y",
    "P add ;; (add x y) ;; (neg x) ;; (neg y)", "P add ;; (add x (i 1)) ;; (add y (i -1)) ;; (neg x) ;; z", "P add ;; I ;; (c 1 2 -1 1) ;; x ;; (mul I x)",
    "P mul ;; x ;; y ;; z", "P mul ;; x ;; (pow x (i -1)) ;; y", "P mul ;; (i 2) ;; (q 1 2) ;; x", "P mul ;; (pow x (q 1 2)) ;; (pow x (q 1 2)) ;; (pow x (i -1))",
    "P mul ;; (pow x (q 1 3)) ;; (pow x (q 2 3)) ;; (pow y (i 2)) ;; (pow y (i -2))", "P mul ;; (pow (i 2) (q 1 2)) ;; (pow (i 2) (q 1 3)) ;; (pow (i 2) (q 1 6))",
    "P mul ;; (pow (i 2) (q 1 2)) ;; (pow (i 3) (q 1 2)) ;; (pow (i 6) (q 1 2))", "P mul ;; (pow (i 12) (q 1 2)) ;; (pow (i 12) (q 3 2)) ;; (q 1 12)",
    "P mul ;; (pow (q 2 3) (q 1 2)) ;; (pow (q 2 3) (q 1 2)) ;; (q 3 2)", "P mul ;; I ;; I ;; x", "P mul ;; (c 1 1 1 1) ;; (c 1 1 -1 1) ;; x ;; (q 1 2)",
    "P mul ;; (f1 sin x) ;; (pow (f1 sin x) (i -1)) ;; (f1 cos x)", "P mul ;; pi ;; (pow pi (q 1 2)) ;; (pow pi (q -3 2))", "P mul ;; x ;; (i 0) ;; y",
    "P mul ;; (mul (i 2) x) ;; (mul (i 3) y) ;; (pow x (i -1))", "P mul ;; (mul x y) ;; (pow x (i -1)) ;; (pow y (i -1))",
    "P mul ;; (pow (mul x y) (q 1 2)) ;; (pow (mul x y) (q 1 2)) ;; x", "P mul ;; (pow (mul x y) (q 3 2)) ;; (pow (mul x y) (q 3 2)) ;; (pow (mul x y) (q 1 2))",
    "P mul ;; (pow (c 1 1 1 1) (q 5 2)) ;; (pow (c 1 1 1 1) (q -1 2)) ;; (pow (c 1 1 1 1) (q -1 2))", "P mul ;; (pow (i 6) (add z (i 1))) ;; (pow (i 6) (q 2 3)) ;; (pow (i 6) (q 1 2))",
    "P max ;; x ;; y ;; z", "P max ;; x ;; (i 1) ;; (i 2) ;; y", "P min ;; x ;; (q 1 2) ;; (i 3) ;; x", "P max ;; x ;; (max y z) ;; (i 0)",
    "P and ;; (lt x y) ;; (gt z (i 0)) ;; (le x (i 1))", "P or ;; (lt x y) ;; (gt z (i 0)) ;; (le x (i 1))", "P and ;; (lt x y) ;; (ge x y) ;; (eq z w)",
    "P or ;; (lt x y) ;; (not (lt x y)) ;; (eq z w)", "P and ;; true ;; (lt x y) ;; (lt x y)", "P or ;; false ;; (lt x y) ;; (and (lt x y) (gt z (i 0)))",
]


def pow_kinds(x, acc):
    """shapes of the Pow nodes / Mul entries inside a dump (for naming the class of a non-unique multiset)"""
    if isinstance(x, str):
        return
    if x and x[0] == "Pow" and len(x) == 3:
        acc.add(kind_of_power(x[1], x[2]))
    if x and x[0] == "Mul":
        for ent in x[2:]:
            if isinstance(ent, list) and len(ent) == 2:
                acc.add(kind_of_power(ent[0], ent[1]))
    if x and x[0] == "Add":
        for ent in x[2:]:
            if isinstance(ent, list) and len(ent) == 2 and isinstance(ent[0], list) and ent[0] and ent[0][0] == "Add":
                acc.add("add-key-in-add")
    for k in x:
        pow_kinds(k, acc)


def head(x):
    return x[0] if isinstance(x, list) and x else x


def kind_of_power(b, e):
    hb, he = head(b), head(e)
    num_exp = he in ("I", "Q", "C", "D", "CD")
    if hb == "Pow":
        return "nested-power-base"
    if hb == "Mul":
        return "product-base-" + ("rational-exponent" if num_exp else "symbolic-exponent")
    if hb in ("C",):
        return "complex-base-" + ("rational-exponent" if num_exp else "symbolic-exponent")
    if hb in ("I", "Q"):
        return "number-base-" + ("rational-exponent" if num_exp else "symbolic-exponent")
    if hb in ("D", "CD", "Inf", "NaN"):
        return "inexact-base"
    if hb == "Add":
        return "sum-base"
    return "atom-base"


PRIORITY = ["add-key-in-add", "inexact-base", "nested-power-base", "complex-base-rational-exponent", "complex-base-symbolic-exponent",
            "product-base-rational-exponent", "product-base-symbolic-exponent", "number-base-symbolic-exponent", "number-base-rational-exponent",
            "sum-base", "atom-base"]


def classify(op, class_dumps, noncanon):
    """stable class name of a non-unique multiset, computed from the distinct results"""
    kinds = set()
    for d in class_dumps:
        try:
            pow_kinds(A.parse_sexp(d), kinds)
        except (ValueError, IndexError):
            pass
    if op == "mul" and noncanon:
        return "noncanonical-result"
    for k in PRIORITY:
        if k in kinds:
            # a number base is only the cause when no other power shape is involved
            return k
    return "other"


def parse_perm(line):
    """-> dict(n, classes=[(form, dump, hash, libcanon)], calls=[Call], oracle)"""
    body, _, oracle = line.partition("\t#ORACLE:")
    parts = body.split("\t")
    if not parts or not parts[0].startswith("n="):
        return None
    hdr = dict(kv.split("=") for kv in parts[0].split())
    res = {"n": int(hdr["n"]), "nclasses": int(hdr["classes"]), "classes": [], "calls": [], "ops": [], "oracle": oracle.strip()}
    i = 1
    while i < len(parts) and parts[i] not in ("calls", "ops"):
        form, _, out = parts[i].partition(" => ")
        cnt = (0, 0)
        if form.startswith("["):
            c, _, form = form.partition("] ")
            try:
                cnt = tuple(int(x) for x in c[1:].split(","))
            except ValueError:
                cnt = (0, 0)
        f = out.split(" ;; ")
        res["classes"].append((form, f[0], f[1] if len(f) > 1 else "", f[2] if len(f) > 2 else "", cnt))
        i += 1
    if i < len(parts) and parts[i] == "ops":
        i += 1
        while i < len(parts) and parts[i] != "calls":
            res["ops"].append(parts[i])
            i += 1
    res["calls"] = A.parse_trace_line("", "\t".join(parts[i + 1:]))
    return res


def run(ctx):
    ctx.gate(["Expr", "C04"])
    A.prove(ctx, OBLIGATIONS, REFUTATIONS)
    drv, model = A.build(ctx)
    q = ctx.tier == "quick"
    rng = ctx.rng
    cases = list(CORPUS_P)
    for op, n3, n4, n5 in (("mul", 500, 220, 0), ("add", 300, 150, 0)) if q else (("mul", 6000, 3000, 250), ("add", 4000, 2000, 150)):
        for size, cnt in ((2, n3 // 3), (3, n3), (4, n4), (5, n5)):
            for _ in range(cnt):
                frag = "float" if rng.random() < 0.1 else "exact"
                cases.append("P %s ;; %s" % (op, " ;; ".join(A.gen_multiset(rng, op, size, frag))))
    for op in ("max", "min"):
        for _ in range(40 if q else 600):
            ops = [rng.choice(A.SYMS + A.INTS[:8] + A.RATS[:6] + ["(add x y)", "(mul (i 2) x)", "(max y z)", "(min x z)", "pi"]) for _ in range(rng.randint(2, 4))]
            cases.append("P %s ;; %s" % (op, " ;; ".join(ops)))
    atoms = ["(lt x y)", "(le x y)", "(gt x y)", "(ge x y)", "(eq x y)", "(ne x y)", "(lt z (i 0))", "(ge z (i 0))", "true", "false",
             "(and (lt x y) (lt z (i 0)))", "(or (eq x y) (ge z (i 0)))", "(not (eq z w))", "(contains x (interval (i 0) (i 1) 0 0))"]
    for op in ("and", "or"):
        for _ in range(40 if q else 600):
            cases.append("P %s ;; %s" % (op, " ;; ".join(rng.choice(atoms) for _ in range(rng.randint(2, 4)))))
    stats = {"nontrivial": set()}
    explore(ctx, drv, model, cases, stats)
    if ctx.broken and not ctx.violations:
        extra = ["P %s ;; %s" % (op, " ;; ".join(A.gen_multiset(rng, op, 3, "exact"))) for op in ("mul", "add") for _ in range(2500)]
        explore(ctx, drv, model, extra, stats, search=True)
    ctx.cov["distinct_nontrivial"] = len(stats["nontrivial"])
    ctx.cov["orders_and_groupings_compared"] = stats.get("combos", 0)
    ctx.cov["multisets"] = stats.get("multisets", 0)
    ctx.cov["multisets_inside_theorem_fragment"] = stats.get("inside_theorem_fragment", 0)
    ctx.cov["rule"] = ("operand multisets of size 2..4 (thorough: ..5): three quarters share a base / a term so that exponents or coefficients merge, cancel "
                       "or sum to integers (bases: symbols, 2, 3, 6, 12, -2, 2/3, 4/9, x*y, 2x, -x, -2x, x+y, x**2, x**y, sin(x), pi, E, I, 1+I, sqrt(2); "
                       "exponents: integers, rationals, symbolic), a quarter are random operands of the classes of the property text; for each multiset ALL "
                       "permutations x ALL binary bracketings + the n-ary call on every permutation are built on the library and compared by eq and by dump "
                       "(2: 4, 3: 18, 4: 144, 5: 1800 constructions); max/min/and/or likewise; evaluations = distinct pairwise add / mul calls compared with the "
                       "model; a multiset is non-trivial when its result is neither a number nor one of the operands; distinct = distinct multiset lines")
    ctx.assumptions += [
        "equality of results = the library's eq (and the model's expr_eqb); Add dictionaries compared as maps",
        "the theorems cover add on all exact operands and mul on the power-product fragment (numbers; atoms and their integer / rational powers); "
        "the other operand classes of the property text (rational powers of numbers, of products, of powers) are covered by the enumeration oracle only "
        "-- several of them are genuinely non-unique (known findings)",
        "max / min / and / or: enumeration oracle only (no model)",
    ]


def explore(ctx, drv, model, cases, stats, search=False):
    if drv is None or model is None:
        return
    outs = ctx.run_lines(drv, cases, timeout=3000, shards=16)
    allcalls = []
    parsed = []
    for case, line in zip(cases, outs):
        op = case.split(" ;; ")[0][2:].strip()
        operands = case.split(" ;; ")[1:]
        rep = {"family": "arith", "mode": "P", "case": case}
        p = parse_perm(line)
        if p is None:
            if "CRASH" in line or "HANG" in line:
                ctx.violation("C04/crash:" + ("inexact" if "(d " in case or "(cd " in case else "zero-base" if "(i 0)" in case else "other"),
                              "enumerating the orders / groupings of %s ends with %s" % (case, line[-40:]), rep)
            else:
                ctx.broken.append({"kind": "correspondence", "name": "arith_driver P", "detail": "%s -> %s" % (case, line[-300:])})
            continue
        parsed.append((case, p, op, operands))
        stats["multisets"] = stats.get("multisets", 0) + 1
        stats["combos"] = stats.get("combos", 0) + p["n"]
        for c in p["calls"]:
            c.recipe = case
        allcalls += p["calls"]
        if p["classes"] and len(p["classes"][0][1]) > 14 and not A.is_error(p["classes"][0][1]):
            stats["nontrivial"].add(case)
        inexact = any(t in case for t in ("(d ", "(cd ", " oo", "-oo", "zoo", "nan"))
        if p["oracle"] and inexact:
            # the property is about exact operands: floating-point addition / multiplication is not associative;
            # such multisets only feed the model correspondence
            stats["inexact_multisets_not_judged"] = stats.get("inexact_multisets_not_judged", 0) + 1
        elif p["oracle"]:
            noncanon = any(c[3].startswith("0:") for c in p["classes"])
            cls = classify(op, [c[1] for c in p["classes"]] + [d for d in p["ops"] if d != "-"], noncanon) if p["oracle"] == "nonunique" else "eq-but-different-dump"
            # all pairwise groupings agree with each other but the n-ary call gives something else
            if p["oracle"] == "nonunique" and sum(1 for c in p["classes"] if c[4][0] > 0) == 1 and any(c[4][0] == 0 for c in p["classes"]):
                cls += ":nary-differs-from-pairwise"
            forms = ["%s = %s" % (A.subst_form(c[0], operands), c[1][:160]) for c in p["classes"][:3]]
            ctx.violation("C04/nonunique:%s:%s" % (op, cls),
                          "%d orders/groupings of the operands {%s} under %s give %d different results: %s" % (
                              p["n"], ", ".join(operands), op, p["nclasses"], "  BUT  ".join(forms)), rep)
    # which multisets lie inside the fragments of the theorems (guards evaluated by the extracted model on the
    # operand dumps): inside, the library must be unique -- a non-unique multiset there contradicts a theorem
    opd = sorted(set(d for _, p, _, _ in parsed for d in p["ops"] if d != "-" and "Opaque" not in d))
    flags = dict(zip(opd, ctx.run_lines(model, ["guards ;; " + d for d in opd], timeout=1800, shards=16)))
    for case, p, op, operands in parsed:
        if op not in ("add", "mul") or not p["ops"]:
            continue
        fl = [flags.get(d, "000") for d in p["ops"]]
        if any(len(f) != 3 or set(f) - set("01") for f in fl):
            continue
        inside = all(f[0] == "1" for f in fl) if op == "add" else all(f[2] == "1" for f in fl)
        if inside:
            stats["inside_theorem_fragment"] = stats.get("inside_theorem_fragment", 0) + 1
            if p["oracle"]:
                ctx.broken.append({"kind": "correspondence", "name": "C04 theorem guard vs library",
                                   "detail": "operands satisfy the guard of the uniqueness theorem for %s but the library is not unique: %s" % (op, case)})
    # correspondence of the pairwise calls
    mo = A.model_calls(ctx, model, allcalls)
    seen = set()
    for c in allcalls:
        if c.key in seen or A.has_opaque(c):
            continue
        seen.add(c.key)
        ctx.cov["evaluations"] += 1
        v = A.compare_call(c, mo.get(c.key))
        if v == "skip":
            stats["skipped_outside_model"] = stats.get("skipped_outside_model", 0) + 1
            continue
        ctx.cov["traces_validated_against_impl"] += 1
        if v != "ok":
            stats["ndis"] = stats.get("ndis", 0) + 1
            if stats["ndis"] <= 4:
                ctx.broken.append({"kind": "correspondence", "name": "C04 model vs library",
                                   "detail": "multiset %s\ncall %s\n%s" % (c.recipe, A.call_text(c)[:600], v[:900])})
    if not search:
        for case, line in list(zip(cases, outs))[:8]:
            ctx.cov["samples"].append({"case": case, "impl": line[:300]})


def replay(ctx, rep):
    drv, model = A.build(ctx)
    case = rep["replay"]["case"]
    line = ctx.run_lines(drv, [case])[0]
    p = parse_perm(line)
    print("case:", case)
    if p is None:
        print("impl:", line)
        return
    print("constructions: %d, distinct results: %d" % (p["n"], p["nclasses"]))
    operands = case.split(" ;; ")[1:]
    for form, d, h, lc, cnt in p["classes"]:
        print("  %s   [%d pairwise, %d n-ary constructions]\n      = %s   (hash %s, library is_canonical %s)" % (A.subst_form(form, operands), cnt[0], cnt[1], d, h, lc))
    mo = A.model_calls(ctx, model, p["calls"])
    for c in p["calls"]:
        print("  call %s\n      impl  %s\n      model %s" % (A.call_text(c), c.res, mo.get(c.key)))
