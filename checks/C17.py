"""C17 -- the parser implements conventional mathematical syntax.
Model: coq/Parse/Lexer.v (tokenizer.re), coq/Parse/ParseModel.v (precedence-climbing reference parser driven
by the %left/%right table read from parser.yy; parse_numeric with strtol's base read from parser.cpp; the
name tables of functionify).  Theorems: coq/C17/P_*.v.
Tie: strings rendered from random abstract syntax trees (random white space, redundant parentheses, leading
zeros, exponents, implicit multiplication, `^` and `**`) are parsed by the library; the extracted model parses
the same bytes and yields a recipe of library calls which the driver evaluates with the library's own
constructors (model == implementation); the oracle is the expression built directly from the tree."""
from checks import parsecommon as pc

# built by ctx.prove (make) once coq/Parse/*.v are listed in coq/_CoqProject; until then parsecommon.prepare
# compiles them directly with coqc (parsecommon.ORDER) and proof_modules() is empty
PROOF_MODULES = pc.PROOF_VO
OBLIGATIONS = [
    "C17/P_grammar_conventional.v", "C17/P_grammar_complete.v", "C17/P_grammar_unambiguous.v",
    "C17/P_maximal_munch.v", "C17/P_prec_table.v",
    "C17/P_parse_numeric_decimal.v", "C17/P_parse_numeric_float.v", "C17/P_lex_numeric.v",
    "C17/P_lex_slices.v", "C17/P_nonvacuous.v",
]

CORPUS_STRINGS = [
    # literals: base 10 whatever the leading zeros; the `long` boundary; floats
    "010", "08", "0777", "019", "00", "007", "0", "9223372036854775807", "9223372036854775808",
    "0777777777777777777777777", "18446744073709551616", "1.5", ".5", "5.", "1e3", "1E+3", "1.5e-3", "00.5", "1e05",
    "1e400", "0x10", "1e", "2e3x", "1.x", "1.e5", "1.e5x", "2pi", "3I", "1e5_", "12ab", "1__", "2e", "2E3",
    # precedence and associativity
    "a-b-c", "a/b/c", "a/b*c", "a-b+c", "a**b**c", "a^b^c", "-a**b", "-2**2", "2**-1", "2**-x**2", "a**-b*c",
    "a*-b", "a*-b**c", "- -a", "-+a", "+-a", "a - -b", "2x**3", "2x**3**2", "a**2x", "a**2x**3", "1/2x", "(2x)**3",
    "a+b*c", "a*b+c", "(a+b)*c", "a*(b+c)", "a/(b*c)", "a-(b-c)", "a/(b/c)", "(a**b)**c", "-(a+b)", "-(a*b)",
    " a\t+\nb ", "((((a))))", "sin(x)**2", "sin (x)", "f(x,y)(z)", "x y", "2 x", "2(x)", "(x)(y)", "",
    # function names
    "arcsin(x)", "ln(x)", "log(x,y)", "pow(x,y)", "zeta(x)", "zeta(x,y)", "max(x)", "max(x,y,2)", "atan2(y,x)",
    "sin(x,y)", "atan2(x)", "Sin(x)", "sinh(x)+arcsinh(x)", "e+E+pi+I+oo+inf+zoo+nan",
    # operators outside the arithmetic fragment (model == implementation only)
    "x<y", "x<=y", "x==y", "x!=y", "x>y>z", "x<y==z", "x==y<z", "(x<y)&(y<z)", "(x<y)|(y<z)", "~(x<y)", "~x", "x&y",
    "Eq(x,y)", "Eq(x)", "And(x<y,True)", "And(x,y)", "Not(x<y)", "Not(x)", "Xor(x<y,y<z)", "Piecewise((x,x<1),(y,True))",
    "Piecewise((x,y))", "x**y@z", "x@y", "x ^ y",
]


def token_soup(rng):
    toks = ["x", "y", "2", "10", "007", "1.5", ".5", "3.", "1e3", "2x", "3.5y", "1e2z", "+", "-", "*", "/", "**", "^", "@",
            "(", ")", ",", "sin", "f", "max", "pi", "e", "E", "<", "<=", "==", "!=", ">", ">=", "&", "|", "~", "True",
            "Piecewise", "Eq", "And", "Not", " ", " ", "\t"]
    n = rng.randint(1, 9)
    return "".join(rng.choice(toks) for _ in range(n))


def nontrivial(s):
    ops = sum(s.count(c) for c in "+-*/^(")
    return ops >= 2


def run(ctx):
    ctx.gate(["Parse", "C17"])
    drv, model = pc.prepare(ctx)
    ctx.prove(pc.proof_modules(), OBLIGATIONS)
    if drv is None or model is None:
        return
    quick = ctx.tier == "quick"
    rng = ctx.rng
    items = []    # (conv, string, oracle recipe or None, ast or None)
    for s in CORPUS_STRINGS:
        items.append((True, s, None, None))
        if "^" in s:
            items.append((False, s, None, None))
    n_ast = 2500 if quick else 60000
    for _ in range(n_ast):
        ast = pc.gen_ast(rng, rng.choice([1, 2, 2, 3, 3, 4]))
        conv = rng.random() < 0.8
        rd = pc.Renderer(rng, pow_spelling=("**", "^") if conv else ("**",), ws=rng.random() < 0.7,
                         redundant=rng.choice([0.0, 0.1, 0.3]))
        items.append((conv, rd.raw(ast) if rng.random() < 0.9 else rd.r(ast, 1), pc.oracle_recipe(ast), ast))
    # corpus trees for the conventions fixed by the generator
    for ast in CORPUS_TREES:
        rd = pc.Renderer(rng, ws=False, redundant=0.0)
        items.append((True, rd.raw(ast), pc.oracle_recipe(ast), ast))
    for _ in range(600 if quick else 20000):
        items.append((rng.random() < 0.7, token_soup(rng), None, None))
    explore(ctx, drv, model, items)
    if ctx.broken and not ctx.violations:
        extra = []
        for _ in range(6000):
            ast = pc.gen_ast(rng, rng.choice([1, 2, 3]))
            rd = pc.Renderer(rng, pow_spelling=("**", "^"), ws=False, redundant=0.0)
            extra.append((True, rd.raw(ast), pc.oracle_recipe(ast), ast))
        explore(ctx, drv, model, extra, search=True)
    ctx.cov["rule"] = (
        "strings rendered from random abstract syntax trees (integer literals incl. leading zeros and values around 2^63, "
        "float literals d.d / .d / d. / exponent forms, identifiers, constants, implicit multiplication, + - * / ** ^ @, unary "
        "signs, calls of every function name the parser knows and of unknown names) with random white space and redundant "
        "parentheses; a fixed corpus; random token soup (model == implementation only).  non-trivial = at least two "
        "operators/parentheses in the string; distinct = distinct (convert_xor, string) pairs")
    ctx.assumptions += [
        "the reference parser is a precedence-climbing parser over the %left/%right table of parser.yy; that the bison LALR "
        "automaton (parser.tab.cc) and the re2c DFA (tokenizer.cpp) implement parser.yy / tokenizer.re is covered by the "
        "correspondence runs only",
        "decimal-to-double conversion (fast_float::from_chars) is not modelled: model and oracle recipes carry the literal, "
        "the driver converts it with glibc strtod (both are correctly rounded); fast_float's scan of the numeric prefix in "
        "parse_implicit_mul IS modelled (ff_prefix)",
        "conventions fixed by the generator: an implicit multiplication `2x` is an atom (1/2x = 1/(2*x)) except that "
        "`2x**e` means 2*(x**e); unary signs bind tighter than * / and looser than **",
    ]


CORPUS_TREES = [
    ("bin", "-", ("bin", "-", ("id", "a"), ("id", "b")), ("id", "c")),
    ("bin", "-", ("id", "a"), ("bin", "-", ("id", "b"), ("id", "c"))),
    ("bin", "/", ("bin", "/", ("id", "a"), ("id", "b")), ("id", "c")),
    ("bin", "/", ("id", "a"), ("bin", "/", ("id", "b"), ("id", "c"))),
    ("bin", "**", ("id", "a"), ("bin", "**", ("id", "b"), ("id", "c"))),
    ("bin", "**", ("bin", "**", ("id", "a"), ("id", "b")), ("id", "c")),
    ("neg", ("bin", "**", ("id", "a"), ("num", "2"))),
    ("bin", "**", ("neg", ("id", "a")), ("num", "2")),
    ("bin", "**", ("num", "2"), ("neg", ("bin", "**", ("id", "x"), ("num", "2")))),
    ("bin", "*", ("bin", "**", ("id", "a"), ("neg", ("id", "b"))), ("id", "c")),
    ("bin", "/", ("num", "1"), ("impl", "2", "x")),
    ("implpow", "2", "x", ("bin", "**", ("num", "3"), ("num", "2"))),
    ("bin", "**", ("impl", "2", "x"), ("num", "3")),
    ("bin", "**", ("id", "a"), ("implpow", "2", "x", ("num", "3"))),
    ("num", "010"), ("num", "08"), ("num", "0777"), ("num", "019"), ("num", "00"),
    ("bin", "+", ("num", "010"), ("num", "09")),
    ("impl", "010", "x"), ("implpow", "08", "x", ("num", "2")),
    ("flt", "1e3"), ("flt", "1.5e-3"), ("flt", ".5"), ("flt", "5."), ("impl", "1.5", "x"), ("impl", "1e3", "x"),
    ("call", "arcsin", [("id", "x")]), ("call", "ln", [("id", "x")]), ("call", "log", [("id", "x"), ("id", "y")]),
]


def explore(ctx, drv, model, items, search=False):
    res = pc.run_P(ctx, drv, model, [(c, s, o) for c, s, o, _ in items])
    ctx.cov["evaluations"] += len(items)
    ctx.cov["traces_validated_against_impl"] += len(items)
    ctx.cov["distinct_nontrivial"] += len(set((c, s) for c, s, _, _ in items if nontrivial(s)))
    if not search:
        ctx.cov["samples"] += [{"string": s, "convert_xor": c, "impl": r["impl"][:200], "model": r["model"][:200]}
                               for (c, s, _, _), r in list(zip(items, res))[100:106]]
    ndis = 0
    failing = []
    for (c, s, o, ast), r in zip(items, res):
        rep = {"family": "C17", "conv": c, "bytes": pc.hx(s), "string": s, "oracle": o, "impl": r["impl"], "model": r["model"]}
        if pc.is_crash(r["impl"]) and r["impl"] == r["model"]:
            # the library's constructors die on the calls the string denotes (evaluated without the parser):
            # a defect of the arithmetic layer (C05/C06 findings), not of the parser
            note = "constructors crash, parser not involved: parse(%s) -> %s" % (pc.show(s)[:80], r["impl"])
            if len(ctx.notes) < 5:
                ctx.notes.append(note)
        elif pc.is_crash(r["impl"]):
            ctx.violation("C17/crash", "parse(%s, convert_xor=%s) -> %s" % (pc.show(s), c, r["impl"][-60:]), rep)
        elif r["flag"]:
            failing.append((c, s, o, ast, r))
        elif r["model"] == "EXN:4" and r["impl"].startswith("EXN:"):
            # a syntax error for the model; the LALR parser had already run an action that threw another
            # library exception before it reached the offending token (e.g. `(1e3>=True`)
            ctx.cov.setdefault("action_exception_before_syntax_error", 0)
            ctx.cov["action_exception_before_syntax_error"] += 1
        elif r["impl"] != r["model"]:
            ndis += 1
            if ndis <= 3:
                ctx.broken.append({"kind": "correspondence", "name": "C17 parse",
                                   "detail": "parse(%s, convert_xor=%s)\n model: %s -> %s\n impl:  %s" % (
                                       pc.show(s), c, r["model_raw"][:300], r["model"][:300], r["impl"][:300])})
    if failing:
        report_failures(ctx, drv, model, failing)
    return ndis


def report_failures(ctx, drv, model, failing):
    """name the class of each oracle failure by its smallest failing subtree"""
    done = set()
    for c, s, o, ast, r in failing[:40]:
        subs = sorted(pc.subtrees(ast), key=pc.size)[:60]
        rd = pc.Renderer(ctx.rng, pow_spelling=("**",), ws=False, redundant=0.0)
        cand = [(c, rd.raw(t), pc.oracle_recipe(t), t) for t in subs]
        rs = pc.run_P(ctx, drv, model, [(cc, ss, oo) for cc, ss, oo, _ in cand])
        best = None
        for (cc, ss, oo, t), rr in zip(cand, rs):
            if rr["flag"] and not pc.is_crash(rr["impl"]):
                best = (cc, ss, oo, t, rr)
                break
        if best is None:
            best = (c, s, o, ast, r)
        cc, ss, oo, t, rr = best
        key = "C17/" + pc.kind(t)
        if key in done:
            continue
        done.add(key)
        ctx.violation(key, "parse(%s) = %s but the tree denotes %s (found in %s)" % (
            pc.show(ss), rr["impl"][:160], rr["oracle"][:160], pc.show(s)[:120]),
            {"family": "C17", "conv": cc, "bytes": pc.hx(ss), "string": ss, "oracle": oo, "impl": rr["impl"], "model": rr["model"]})


def replay(ctx, rep):
    drv, model = pc.prepare(ctx)
    r = rep["replay"]
    res = pc.run_P(ctx, drv, model, [(r["conv"], pc.unhx(r["bytes"]).decode("latin-1"), r.get("oracle"))])[0]
    print("string :", pc.show(pc.unhx(r["bytes"])), "convert_xor =", r["conv"])
    print("impl   :", res["impl"])
    print("model  :", res["model_raw"], "->", res["model"])
    print("oracle :", r.get("oracle"), "->", res["oracle"])
    if res["flag"]:
        print("ORACLE :", res["flag"])
