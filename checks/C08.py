"""C08 -- function constructors' automatic evaluation preserves value.
Model: coq/C08/FuncModel.v (get_pi_shift, could_extract_minus, handle_minus, trig_simplify and the six
trigonometric constructors on decomposed arguments; floor/ceiling/truncate/sign/abs, max/min folding,
kronecker_delta, eval_levicivita, gamma_positive_int, gamma_multiple_2, primepi, primorial on exact numbers);
coq/C08/TrigTables.v (sin_table, inverse_cst, inverse_tct regenerated from the C++ sources by
translators/tr_trigtables.py on every run).  Theorems: coq/C08/P_*.v.
Tie: python generates cases -> the driver builds the arguments through the public API, prints their
dumps and the library's answers (trig_simplify outputs and the normalised constructor result) -> the
extracted model reads the dumps and recomputes the answers; texts must be identical.
Oracle (harness/c08_driver.cpp, independent of the model): the constructor's result evaluated numerically
(symbols at sample points, real and complex) agrees with an independent reference implementation of the
function at the numerically evaluated arguments; for f(r + (p/q) pi) the shift is first reduced modulo
2 pi in exact arithmetic, so huge shifts are checked as well."""
import os
import re
import vlib

PROOF_MODULES = ["C08/TableProofs.vo", "C08/GammaProofs.vo", "C08/ExactProofs.vo", "C08/CtorProofs.vo"]
OBLIGATIONS = [
    "C08/P_trig_simplify_sound.v", "C08/P_ctor_sound.v", "C08/P_tab_value_sound.v",
    "C08/P_floor_ceiling_truncate_exact.v", "C08/P_floor_complex_refuted.v", "C08/P_sign_exact.v",
    "C08/P_sign_complex_refuted.v", "C08/P_abs_exact.v", "C08/P_max_min_fold_sound.v", "C08/P_kronecker_levi_exact.v",
    "C08/P_gamma_exact.v", "C08/P_primepi_exact.v",
    "C08/P_sin_table_sound.v", "C08/P_inverse_tct_sound.v", "C08/P_inverse_cst_guarded.v", "C08/P_inverse_cst_refuted.v",
    "C08/P_nonvacuous.v",
]
# C08's own Coq files in dependency order (until they are listed in coq/_CoqProject they are compiled here,
# directly with coqc, whenever a source or a shared library they load has changed)
OWN_FILES = ["C08/FuncModel.v", "C08/FuncSpec.v", "C08/TrigIdent.v", "C08/TrigArith.v", "C08/TrigProofs.v",
             "C08/CtorProofs.v", "C08/ExactProofs.v", "C08/GammaProofs.v", "C08/TableDefs.v", "C08/TrigTables.v", "C08/TableProofs.v"]
SHARED_DEPS = ["Base/Prelude.vo", "Base/Word64.vo", "Num/NumDefs.vo", "Gen/TypeCodes.vo",
               "Expr/ExprDefs.vo", "Expr/Hash.vo", "Expr/Cmp.vo", "Expr/Wf.vo", "Expr/IO.vo"]

TRIG = ["sin", "cos", "tan", "cot", "sec", "csc"]


def translate(ctx):
    tr = os.path.join(vlib.ROOT, "translators", "tr_trigtables.py")
    if not os.path.exists(tr):
        return True
    env = dict(os.environ)
    env["VERIF_REPO"] = vlib.REPO
    rc, out = vlib.sh(["python3", tr], env=env)
    if rc != 0:
        ctx.broken.append({"kind": "translator", "name": "tr_trigtables", "detail": out[-2000:]})
    return rc == 0


def build_own(ctx):
    """compile coq/C08/*.v (model, spec, proofs) when stale; a file that no longer compiles is a broken proof"""
    coq = vlib.COQ
    if vlib.in_project(OWN_FILES[0]):
        return True   # built by `make` through ctx.prove(PROOF_MODULES, ...)
    with vlib.Lock(os.path.join(vlib.WORK, "c08-coq.lock")):
        newest = max((os.path.getmtime(os.path.join(coq, d)) for d in SHARED_DEPS if os.path.exists(os.path.join(coq, d))), default=0)
        for f in OWN_FILES:
            src = os.path.join(coq, f)
            vo = src + "o"
            newest = max(newest, os.path.getmtime(src))
            if os.path.exists(vo) and os.path.getmtime(vo) >= newest:
                newest = max(newest, os.path.getmtime(vo))
                continue
            rc, out = vlib.sh(["timeout", "1500", "coqc", "-Q", ".", "SE", "-w", "-notation-overridden", f], cwd=coq, timeout=1530)
            if rc != 0:
                if os.path.exists(vo):
                    os.remove(vo)
                ctx.broken.append({"kind": "proof", "name": f, "detail": out[-2500:]})
                return False
            newest = max(newest, os.path.getmtime(vo))
    return True


# ---------------------------------------------------------------------------------------- generators
SYM = ["x", "y", "z", "w", "ab", "t1", "k", "n"]


def remainders(rng):
    a, b = rng.sample(SYM, 2)
    pool = [
        "(i 0)", "(i 0)", a, a, "(neg %s)" % a, "(add %s %s)" % (a, b), "(q 1 3)", "(q -1 3)", "(i 1)", "(i -2)",
        "(mul (i 2) %s)" % a, "(mul (i -2) %s)" % a, "(mul (q -1 2) %s)" % a, "(sub %s %s)" % (a, b), "(sub %s %s)" % (b, a),
        "(neg (add %s %s))" % (a, b), "(mul (i -1) (add %s (neg %s)))" % (a, b), "(c 0 1 1 1)", "(c 0 1 -1 2)", "(c 1 2 -1 1)",
        "(c -1 2 1 1)", "(mul %s %s)" % (a, b), "(neg (mul %s %s))" % (a, b), "(pow %s (i 2))" % a, "(neg (pow %s (i 2)))" % a,
        "(mul (q 1 2) (add %s %s))" % (a, b), "(add %s (i 1))" % a, "(add (neg %s) (i -1))" % a, "(add (neg %s) (q 1 2))" % a,
        "(add %s (c 0 1 1 1))" % a, "(add (mul (c 0 1 -1 1) %s) %s)" % (a, b), "(mul (c 0 1 1 1) pi)",
        "(add %s (mul (c 0 1 1 1) pi))" % a, "(addv %s %s (mul (i -3) z))" % (a, b), "(addv (neg %s) (neg %s) (neg w))" % (a, b),
        "(f1 sin %s)" % a, "(neg (f1 exp %s))" % a, "(sqrt (i 2))", "(neg (sqrt (i 3)))", "(pow %s (i -1))" % a, "E",
        "(mul (i -1) E)", "(add pi %s)" % a, "(mul (q 1 7) pi)", "(fs f %s)" % a, "(neg (fs f %s %s))" % (a, b),
    ]
    return pool


def gen_shift(rng):
    """p/q aimed at the case splits of trig_simplify: 12n integer or not, m = 0, 1, 2, 3 exactly, integer n
    (even/odd), negative n, huge |n|"""
    q = rng.choice([1, 1, 2, 2, 3, 4, 5, 6, 6, 7, 8, 10, 12, 12, 24, 5, 9, 1000003])
    r = rng.random()
    if r < 0.12:
        p = 0
    elif r < 0.55:
        p = rng.randint(-4 * q - 2, 4 * q + 2)
    elif r < 0.75:
        p = rng.randint(-50 * q, 50 * q)
    else:
        base = rng.randint(-2 * q, 2 * q)
        big = rng.choice([10 ** 9, 2 ** 31, 2 ** 32, 2 ** 63, 2 ** 64, 10 ** 20, 10 ** 40, 3 * 10 ** 30 + 1])
        p = base + q * rng.choice([1, -1, 2, -2, 3, 7, 12, 24]) * (big + rng.randint(-2, 2))
    return p, q


def gen_trig(rng):
    f = rng.choice(TRIG)
    p, q = gen_shift(rng)
    pool = remainders(rng)
    r = rng.choice(pool)
    if rng.random() < 0.04:
        inv = rng.choice(["asin", "acos", "atan", "acot", "asec", "acsc"])
        r = "(f1 %s %s)" % (inv, rng.choice(["x", "(add x y)", "(fs g x)"]))
        if rng.random() < 0.6:
            p = rng.choice([0, 0, q, 2 * q, -q])
    if rng.random() < 0.03:
        r = rng.choice(["(d 3fe0000000000000)", "(add x (d 3ff8000000000000))", "(add x (mul (d 4000000000000000) pi))",
                        "(mul (d 3fe0000000000000) x)"])
    return "T %s %d %d %s" % (f, p, q, r)


def trig_grid():
    """deterministic dense grid: every function x shifts k/24, k = -60..60 x a few remainders"""
    out = []
    for f in TRIG:
        for k in range(-54, 55):
            for r in ["(i 0)", "x", "(neg x)", "(add x y)", "(q 1 3)"]:
                out.append("T %s %d 24 %s" % (f, k, r))
    return out


EXACT = ["(i 0)", "(i 1)", "(i -1)", "(i 2)", "(i -3)", "(i 7)", "(q 1 2)", "(q -1 2)", "(q 7 2)", "(q -7 2)", "(q 22 7)",
         "(q -22 7)", "(q 1 1000000007)", "(q -1 1000000007)", "(i 18446744073709551616)", "(i -18446744073709551617)",
         "(q 18446744073709551617 2)", "(q -18446744073709551617 2)", "(q 5 3)", "(q -5 3)"]
CPLX = ["(c 0 1 1 1)", "(c 0 1 -1 1)", "(c 0 1 2 3)", "(c 0 1 -2 3)", "(c 1 1 2 1)", "(c -1 1 2 1)", "(c 1 2 1 3)",
        "(c 5 2 7 3)", "(c -5 2 -7 3)", "(c 3 1 4 1)", "(c 3 2 2 1)", "(c 1 1 1 1)", "(c -3 1 -4 1)", "(c 5 13 12 13)"]


def gen_num(rng):
    r = rng.random()
    if r < 0.35:
        return rng.choice(EXACT)
    if r < 0.55:
        return rng.choice(CPLX)
    if r < 0.8:
        n = rng.randint(-60, 60)
        d = rng.randint(1, 12)
        return "(q %d %d)" % (n, d) if d > 1 else "(i %d)" % n
    a, b, c, d = rng.randint(-6, 6), rng.randint(1, 4), rng.randint(-6, 6), rng.randint(1, 4)
    if c == 0:
        return "(q %d %d)" % (a, b)
    return "(c %d %d %d %d)" % (a, b, c, d)


def gen_exact(rng):
    r = rng.random()
    if r < 0.30:
        return "N %s %s" % (rng.choice(["floor", "ceiling", "truncate", "sign", "abs"]), gen_num(rng))
    if r < 0.50:
        k = rng.randint(1, 5)
        pool = EXACT[:14] + ["oo", "-oo", "(q 7 2)", "(i 3)", "(i 3)"]
        args = [rng.choice(pool) for _ in range(k)]
        if rng.random() < 0.1:
            args.insert(rng.randint(0, len(args)), rng.choice(CPLX))
        return "MX %s %s" % (rng.choice(["max", "min"]), " ".join(args))
    if r < 0.58:
        a = gen_num(rng)
        b = a if rng.random() < 0.4 else gen_num(rng)
        return "KD %s %s" % (a, b)
    if r < 0.76:
        n = rng.randint(1, 6)
        base = rng.choice([0, 1, 1, -2, 5])
        perm = list(range(base, base + n))
        rng.shuffle(perm)
        q = rng.random()
        if q < 0.25 and n > 1:
            perm[rng.randrange(n)] = perm[rng.randrange(n)]
        elif q < 0.35:
            perm = [rng.randint(-4, 9) for _ in range(n)]
        elif q < 0.40:
            return "LC " + " ".join(gen_num(rng) for _ in range(n))
        return "LC " + " ".join("(i %d)" % v for v in perm)
    if r < 0.88:
        if rng.random() < 0.5:
            return "G %d 1" % rng.randint(-4, 30)
        return "G %d 2" % (2 * rng.randint(-40, 40) + 1)
    if r < 0.95:
        return "PP (i %d)" % rng.choice([rng.randint(-5, 60), rng.randint(0, 3000), 2, 3, 4, 0, 1, 2999, 3001, 3001,
                                         2 ** 32 - 1 + rng.randint(1, 20), 2 ** 64 + rng.randint(-2, 2)])
    return "PR (i %d)" % rng.choice([rng.randint(-3, 40), rng.randint(1, 400)])


F1_ORACLE = ["asin", "acos", "atan", "acot", "asec", "acsc", "sinh", "cosh", "tanh", "coth", "sech", "csch",
             "asinh", "acosh", "atanh", "acoth", "asech", "acsch", "log", "exp", "abs", "sign", "floor", "ceiling",
             "truncate", "conjugate", "gamma", "loggamma", "erf", "erfc", "lambertw", "zeta", "dirichlet_eta",
             "digamma", "trigamma", "sin", "cos", "tan", "cot", "sec", "csc"]
F2_ORACLE = ["atan2", "log", "zeta", "beta", "polygamma", "lowergamma", "uppergamma", "kronecker_delta"]

# closed forms around the special-value tables (sin_table / inverse_cst / inverse_tct entries and near misses)
SPECIAL = [
    "(q 1 2)", "(q -1 2)", "(div (sqrt (i 2)) (i 2))", "(div (sqrt (i 3)) (i 2))", "(neg (div (sqrt (i 3)) (i 2)))",
    "(neg (div (sqrt (i 2)) (i 2)))",
    "(div (sub (sqrt (i 3)) (i 1)) (mul (i 2) (sqrt (i 2))))", "(div (add (sqrt (i 3)) (i 1)) (mul (i 2) (sqrt (i 2))))",
    "(neg (div (add (sqrt (i 3)) (i 1)) (mul (i 2) (sqrt (i 2)))))", "(neg (div (sub (sqrt (i 3)) (i 1)) (mul (i 2) (sqrt (i 2)))))",
    "(div (sqrt (sub (i 5) (sqrt (i 5)))) (i 8))", "(neg (div (sqrt (sub (i 5) (sqrt (i 5)))) (i 8)))",
    "(sqrt (div (sub (i 5) (sqrt (i 5))) (i 8)))", "(neg (sqrt (div (sub (i 5) (sqrt (i 5))) (i 8))))",
    "(div (sub (sqrt (i 5)) (i 1)) (i 4))", "(neg (div (sub (sqrt (i 5)) (i 1)) (i 4)))",
    "(div (i 1) (sqrt (i 3)))", "(div (i -1) (sqrt (i 3)))", "(sqrt (i 3))", "(neg (sqrt (i 3)))",
    "(add (i 1) (sqrt (i 2)))", "(neg (add (i 1) (sqrt (i 2))))", "(sub (sqrt (i 2)) (i 1))", "(sub (i 1) (sqrt (i 2)))",
    "(sub (i 2) (sqrt (i 3)))", "(sub (sqrt (i 3)) (i 2))", "(sqrt (add (i 5) (mul (i 2) (sqrt (i 5)))))",
    "(neg (sqrt (add (i 5) (mul (i 2) (sqrt (i 5))))))", "(i 1)", "(i -1)", "(i 0)", "(i 2)", "(i -2)",
    "(add (i 2) (sqrt (i 3)))", "(div (i 2) (sqrt (i 3)))", "(sqrt (i 2))", "(neg (sqrt (i 2)))",
    "(div (i 1) (div (sqrt (i 3)) (i 2)))", "(div (i 4) (sub (sqrt (i 5)) (i 1)))",
]
ORACLE_NUMS = ["(i 0)", "(i 1)", "(i -1)", "(i 2)", "(i -2)", "(i 3)", "(i 4)", "(i 5)", "(i -3)", "(i 6)", "(i -4)", "(i 10)",
               "(q 1 2)", "(q -1 2)", "(q 3 2)", "(q -3 2)", "(q 5 2)", "(q 1 3)", "(q 2 3)", "(q 4 3)", "(q 5 3)", "(q 7 3)",
               "(q -1 3)", "(q 1 4)", "(q 3 4)", "(q 5 4)", "(q 7 4)", "(q 9 4)", "(q -1 4)", "(q 2 5)", "(q 7 5)", "(q 11 2)",
               "(q 23 2)", "(q 25 2)", "(q -21 2)", "(q -23 2)", "(q 1 10)", "(q 22 7)", "pi", "E", "EulerGamma", "Catalan",
               "GoldenRatio", "(c 0 1 1 1)", "(c 0 1 -2 1)", "(c 1 1 1 1)", "(c 1 2 -1 3)", "(c -1 1 2 1)", "(neg E)",
               "(div (i -1) E)", "(div (f1 log (i 2)) (i -2))", "(mul (i 2) pi)"]
ORACLE_SYMS = ["x", "(neg x)", "(mul (i 2) x)", "(mul (i -3) x)", "(add x y)", "(sub x y)", "(neg (add x y))", "(add x (i 3))",
               "(add x (i -2))", "(add (neg x) (q 1 2))", "(mul x y)", "(neg (mul x y))", "(pow x (i 2))", "(add (f1 floor x) (i 1))",
               "(add (f1 ceiling x) (i 2))", "(sub (i 1) x)", "(add x (c 0 1 1 1))", "(mul (c 0 1 1 1) x)", "(f1 sin x)",
               "(f1 conjugate x)", "(f1 abs x)", "(f1 exp x)", "(f1 gamma x)", "(f1 erf x)", "(mul (i 2) (f1 abs x))"]


# functions whose evaluation loops or allocates proportionally to the magnitude of an exact argument
# (factorial, harmonic sums): only moderate numbers are generated for them
LOOPY = ("gamma", "loggamma", "digamma", "trigamma", "zeta", "dirichlet_eta", "lambertw")


def gen_oracle(rng):
    r = rng.random()
    if r < 0.62:
        f = rng.choice(F1_ORACLE)
        q = rng.random()
        if f in ("asin", "acos", "atan", "acot", "asec", "acsc") and q < 0.6:
            a = rng.choice(SPECIAL)
        elif q < 0.55:
            a = rng.choice(ORACLE_NUMS)
        elif q < 0.6 and f not in LOOPY:
            a = gen_num(rng)
        else:
            a = rng.choice(ORACLE_SYMS)
        return "O %s %s" % (f, a)
    if r < 0.9:
        f = rng.choice(F2_ORACLE)
        pool = ORACLE_NUMS[:38] if rng.random() < 0.75 else ORACLE_SYMS[:12] + ORACLE_NUMS[:12]
        a, b = rng.choice(pool), rng.choice(pool)
        if f in ("lowergamma", "uppergamma") and rng.random() < 0.6:
            # the recursion on s: integers and half-integers of both signs, upward and downward branch
            a = rng.choice(["(q 1 2)", "(q -1 2)", "(q 3 2)", "(q -3 2)", "(q 5 2)", "(q -5 2)", "(q 7 2)", "(q -7 2)", "(i 1)", "(i 2)", "(i 3)", "(i 4)"])
            b = rng.choice(["x", "(i 2)", "(q 1 3)", "(q 5 2)", "(i 3)", "(mul (i 2) x)", "(add x (i 3))", "(i 1)"])
        if f == "atan2":
            if rng.random() < 0.5:
                a = rng.choice(SPECIAL + ["x", "(neg x)", "(mul (sqrt (i 3)) x)"])
                b = rng.choice(["(i 1)", "(i -1)", "x", "(i 2)", "(i -2)", "(i 0)", "(neg x)"])
        if f == "kronecker_delta" and rng.random() < 0.5:
            b = rng.choice([a, "(add %s (i 1))" % a, "(add %s (i 0))" % a])
        if f == "beta" and rng.random() < 0.3:
            b = "(sub (i 1) %s)" % a
        return "O %s %s %s" % (f, a, b)
    f = rng.choice(["max", "min"])
    k = rng.randint(1, 4)
    pool = ORACLE_NUMS[:12] + ORACLE_SYMS[:8] + ["oo", "-oo", "(max x (i 2))", "(min y (i 1) x)"]
    return "O %s %s" % (f, " ".join(rng.choice(pool) for _ in range(k)))


CORPUS = [
    "T sin 0 1 x", "T sin 3 1 x", "T sin 7 3 x", "T cos -1 6 (neg x)", "T tan 1001 2 x", "T sin 1 5 (i 0)",
    "T sin 7 5 (i 0)", "T cos 5 12 (i 0)", "T tan 1 2 (i 0)", "T cot 0 1 (i 0)", "T sin 0 1 (i 0)",
    "T sec 100000000000000000000000001 3 (add x y)", "T csc 1 2 (f1 asin x)", "T sin 1 1 (f1 asin x)",
    "T sin 0 1 (f1 acsc x)", "T sin 0 1 (d 3fe0000000000000)", "T cos 2 3 (q 1 3)", "T sin 1 3 (neg (add x y))",
    "T sin -5 1 x", "T cos 7 1 (add x y)", "T csc -3 1 (q 1 3)", "T sec 9 1 (neg x)",
    "T sin 1 2 (mul (i -1) (add x (neg y)))", "T tan 5 4 (neg (add x y))", "T cot -7 4 (sub y x)",
    "N floor (q -7 2)", "N ceiling (q -7 2)", "N truncate (q -7 2)", "N floor (c 1 2 1 3)", "N sign (c 1 1 2 1)",
    "N sign (c 0 1 -2 3)", "N abs (c 3 1 4 1)", "N abs (c 1 1 1 1)", "N abs (q -3 7)",
    "MX max (i 3) (q 7 2) (i -1)", "MX max (i 3) oo (i 5)", "MX min -oo (i 3)", "MX max (i 1) (c 1 1 1 1)",
    "MX max oo (i 3)", "MX min (i 2) (i 2) (q 3 2)",
    "KD (i 3) (q 6 2)", "KD (i 3) (i 4)", "LC (i 1) (i 3) (i 2)", "LC (i 0) (i 1) (i 2) (i 3)", "LC (i 2) (i 2) (i 1)",
    "G 5 1", "G 0 1", "G 7 2", "G 21 2", "G -21 2", "G 23 2", "G -23 2", "G -3 2", "G 61 2", "G -59 2",
    "PP (i 100)", "PP (i -5)", "PP (i 4294967306)", "PR (i 10)", "PR (i -1)",
    "O asin (div (add (sqrt (i 3)) (i 1)) (mul (i 2) (sqrt (i 2))))", "O asin (div (sqrt (sub (i 5) (sqrt (i 5)))) (i 8))",
    "O acot (i -1)", "O acot (neg (sqrt (i 3)))", "O digamma (q 4 3)", "O digamma (q 5 4)", "O digamma (q 1 3)",
    "O digamma (q -1 2)", "O digamma (c 1 1 1 1)", "O beta (q 1 2) (q 1 2)", "O beta x (sub (i 1) x)",
    "O beta (q 1 2) (q -1 2)", "O zeta (i 2) (i 0)", "O uppergamma (i 0) x", "O uppergamma (i -1) x", "O atan2 x x",
    "O lambertw (div (f1 log (i 2)) (i -2))", "O erfc (neg x)", "O zeta (i -3)", "O zeta (i 4)", "O lowergamma (q 3 2) x", "O lowergamma (q -1 2) x", "O lowergamma (q -3 2) (i 2)", "O lowergamma (q -5 2) (q 1 3)",
    "O lowergamma (q 7 2) (q 5 2)", "O uppergamma (q -1 2) x", "O uppergamma (q -3 2) (i 2)", "O uppergamma (q 5 2) (q 1 3)",
    "O uppergamma (i 3) x", "O polygamma (i 1) (i 3)", "O max x (i 3) y", "O floor (add x (i 3))", "O gamma (q 23 2)",
    "O ceiling (add (f1 floor x) (i 1))", "O floor (c 1 2 1 3)", "O sign (c 1 1 2 1)",
]


def gen_cases(rng, n_trig, n_exact, n_oracle):
    cases = []
    cases += [gen_trig(rng) for _ in range(n_trig)]
    cases += [gen_exact(rng) for _ in range(n_exact)]
    cases += [gen_oracle(rng) for _ in range(n_oracle)]
    return cases


# ---------------------------------------------------------------------------------------- exploration
def split_out(line):
    head, sep, rest = line.partition("\t=>\t")
    if not sep:
        return None, line, []
    parts = rest.split("\t#ORACLE:")
    return head, parts[0], parts[1:]


def case_fn(case):
    t = case.split()
    if not t:
        return "?"
    fam = t[0]
    if fam in ("T", "N", "MX", "O"):
        return t[1] if len(t) > 1 else "?"
    return {"KD": "kronecker_delta", "LC": "levi_civita", "G": "gamma", "PP": "primepi", "PR": "primorial"}.get(fam, "?")


def nontrivial(case, res):
    """a case is non-trivial when the constructor rewrote or evaluated its argument (anything but wrapping it)"""
    fam = case.split()[0]
    if fam == "T":
        m = re.search(r"rarg=(\[.*?\]) idx", res)
        tail = res.split(" ;; ")[-1]
        # trivial: FUN 1 f <same decomposition as the input> with no shift
        return not (tail.startswith("FUN 1 " + case.split()[1] + " ") and " 0 " in case[:len(case.split()[0]) + len(case.split()[1]) + 5])
    return True


def explore(ctx, drv, model, cases, search=False):
    if drv is None:
        return
    impl = ctx.run_lines(drv, cases, timeout=3000, shards=16)
    heads, results, idx = [], [], []
    nontriv = set()
    for i, line in enumerate(impl):
        c = cases[i]
        ctx.cov["evaluations"] += 1
        if line.startswith("SKIP"):
            continue
        head, res, orc = split_out(line)
        if head is None:
            if "CRASH" in line or "HANG" in line or "UNCAUGHT" in line or "NOOUTPUT" in line:
                kind = "hang" if "HANG" in line else "crash"
                ctx.violation("C08/%s-%s" % (kind, case_fn(c)),
                              "case `%s` ends with %s on the library" % (c, line[-60:]),
                              {"family": "C08", "case": c, "impl": line[-300:]})
            else:
                ctx.broken.append({"kind": "correspondence", "name": "C08 driver output", "detail": c + "\n" + line[-300:]})
            continue
        for o in orc:
            cls, _, text = o.partition("|")
            ctx.violation("C08/" + cls, "case `%s`: %s" % (c, text.strip()),
                          {"family": "C08", "case": c, "impl": res[:600]})
        if nontrivial(c, res):
            nontriv.add(head)
        if head.startswith("O"):
            continue
        heads.append(head)
        results.append(res)
        idx.append(i)
    ctx.cov["distinct_nontrivial"] += len(nontriv)
    if model is None:
        return
    mod = ctx.run_lines(model, heads, timeout=3000, shards=16)
    ndis = 0
    nunsup = 0
    for k, i in enumerate(idx):
        m = mod[k]
        lib = results[k]
        if "UNSUPPORTED" in m:
            # trig: the direct trig_simplify outputs may still be comparable when only the constructor's
            # recursion leaves the modelled fragment
            mp, sep, _ = m.partition(" ;; ")
            if sep and "UNSUPPORTED" not in mp:
                m, lib = mp, lib.partition(" ;; ")[0]
            else:
                nunsup += 1
                continue
        ctx.cov["traces_validated_against_impl"] += 1
        if m.startswith("FAIL") or m.startswith("NOOUTPUT"):
            ndis += 1
            if ndis <= 3:
                ctx.broken.append({"kind": "correspondence", "name": "C08 model reader", "detail": m + "\n" + cases[i] + "\n" + heads[k]})
            continue
        if m != lib:
            ndis += 1
            if ndis <= 3:
                ctx.broken.append({"kind": "correspondence", "name": "C08 " + case_fn(cases[i]),
                                   "detail": "case `%s`\n model:   %s\n library: %s" % (cases[i], m[:600], lib[:600])})
            ctx.violation("C08/model-mismatch:" + cases[i].split()[0] + ":" + case_fn(cases[i]),
                          "library and proved model disagree on `%s`: model %s | library %s" % (cases[i], m[:400], lib[:400]),
                          {"family": "C08", "case": cases[i], "impl": lib[:600], "model": m[:600]})
    ctx.cov.setdefault("model_unsupported_cases", 0)
    ctx.cov["model_unsupported_cases"] += nunsup
    if not search:
        for k in range(min(8, len(idx))):
            ctx.cov["samples"].append({"case": cases[idx[k]], "impl": results[k][:300], "model": mod[k][:300]})


def build(ctx):
    drv = ctx.build_driver("c08_driver")
    model = ctx.build_model("C08", "C08/Extract.v", "c08_main.ml", "semodel", extra_ml=["expr_io.ml"])
    return drv, model


def run(ctx):
    ctx.gate(["C08"])
    translate(ctx)
    build_own(ctx)
    ctx.prove(PROOF_MODULES, OBLIGATIONS)
    drv, model = build(ctx)
    if ctx.tier == "quick":
        cases = list(CORPUS) + gen_cases(ctx.rng, 1600, 600, 1000)
    else:
        cases = list(CORPUS) + trig_grid() + gen_cases(ctx.rng, 60000, 15000, 30000)
    explore(ctx, drv, model, cases)
    if ctx.broken and not ctx.violations:
        explore(ctx, drv, model, gen_cases(ctx.rng, 12000, 3000, 6000), search=True)
    ctx.cov["rule"] = (
        "cases from one PRNG: T = f(r + (p/q) pi) for the six trigonometric constructors, p/q aimed at the case splits of "
        "trig_simplify (12 p/q integer or not, quadrant boundaries m = 0,1,2,3, integer shifts of both parities, negative and "
        "huge shifts up to 10^40) and ~45 remainders r (zero, symbols, sums, negated sums, products, powers, exact complex, "
        "inverse trigonometric functions, pi with a non-rational coefficient); N/MX/KD/LC/G/PP/PR = exact-number rules; "
        "O = oracle-only calls of every constructor of the property on special values, exact numbers, constants and symbolic "
        "arguments; a case is non-trivial when the constructor did anything but wrap its unchanged argument; "
        "distinct = distinct argument dumps; traces_validated = cases recomputed by the extracted model")
    ctx.assumptions += [
        "the decomposition (coefficient, dictionary) of add(r, mul(pi, q)) is that of r plus the entry (pi, q) (Add invariants, C03); "
        "std::map<RCP, RCP, RCPBasicKeyLess> begin() is the minimum of the modelled comparator (C01/C02)",
        "theorems over R use the Coq Reals axioms; values at complex points and on all non-trigonometric special-value rules "
        "(zeta, polygamma, beta, erf, lambertw, incomplete gammas, inverse hyperbolic) are covered by the numeric oracle only",
        "arguments with inexact (floating point) coefficients are outside the model (compared by the oracle only)",
        "mp_fac_ui / mp_primorial / Sieve::iterator are trusted externals (factorial, product and enumeration of primes)",
        "reference implementations of the oracle: libm / libstdc++ <complex>, Lanczos gamma, Euler-Maclaurin Hurwitz zeta, "
        "asymptotic digamma, Halley iteration for LambertW, series for the lower incomplete gamma; tolerance 1e-7 relative",
    ]


def replay(ctx, rep):
    drv, model = build(ctx)
    c = rep["replay"]["case"]
    line = ctx.run_lines(drv, [c])[0]
    head, res, orc = split_out(line)
    print("case   :", c)
    print("library:", res)
    for o in orc:
        print("oracle :", o)
    if head is not None and not head.startswith("O") and model is not None:
        print("model  :", ctx.run_lines(model, [head])[0])
